"""C20 - the hash table behaves as a map under any operation history.

  1. TLC, exhaustive: HashTableImpl (hash_table.c transcribed: head slot + chain, head deletion by
     copy, insertion behind the head) refines HashMap; bucket/duplicate/inuse/iterator invariants.
  2. TLC exports the complete labelled state graph of small instances; tours covering every
     (table state, operation) edge become operation scripts.
  3. The scripts are executed on the real table with pools of real keys that collide in one bucket of
     the real hash function (found by asking the real table), are prefixes of each other, differ only
     in case, are empty, or are binary with embedded zeros; seeded random histories on larger pools
     are added.
  4. Every recorded execution is validated by TLC against HashMap (HashTrace.tla).
"""
import os, random, json, itertools
from vlib import sut, tlc, tours, tracecheck, runner

SPEC = os.path.join(os.path.dirname(os.path.dirname(os.path.abspath(__file__))), "specs", "hash")


def hexs(b):
    return b.hex() if b else "-"


def ask_buckets(drv, cands, nocase, size, binary):
    """bucket index of every candidate key according to the real table"""
    script = ["key %d %s" % (i + 1, hexs(c)) for i, c in enumerate(cands)]
    script.append("new %d %d %d" % (nocase, size, binary))
    script += ["bucket %d" % (i + 1) for i in range(len(cands))]
    r = runner.run(drv, ["/dev/null"], "\n".join(script) + "\n", timeout=120)
    if r.rc != 0:
        raise tlc.ModelError("bucket query failed: " + r.why())
    res = {}
    for ln in r.out.splitlines():
        p = ln.split()
        if p and p[0] == "bucket":
            res[int(p[1]) - 1] = int(p[2])
    return [res[i] for i in range(len(cands))]


def candidates(binary, rng):
    if binary:
        alpha = [b"\x00", b"a", b"A", b"\xff", b"\x01", b"b"]
    else:
        alpha = [b"a", b"A", b"b", b"B", b"z", b"\xe9", b"_", b"1"]
    out = [b""]
    for n in (1, 2, 3, 4):
        for t in itertools.product(alpha, repeat=n):
            out.append(b"".join(t))
    if not binary:
        for _ in range(600):   # longer keys: the hash shifts wrap after 5 characters
            n = rng.randint(5, 12)
            out.append(bytes(rng.choice(b"abcdeABCDE_xyzXYZ") for _ in range(n)))
    return out


def fold(b):
    return bytes(c - 32 if 97 <= c <= 122 else c for c in b)


def twin(b):
    """the key with bit 5 flipped in every byte that is NOT a letter but has a partner 32 away ('_' / DEL, '[' / '{',
    '@' / '`', bytes >= 0x80): a different key in either case mode, although a branch-free case fold confuses them"""
    return bytes(c ^ 0x20 if (c in b"_\x7f@`[{]}\\|^~" or c >= 0x80) else c for c in b)


def interest(group):
    """how many prefix pairs / distinct lengths a group of colliding keys has"""
    pre = sum(1 for a in group for b in group if a != b and b.startswith(a))
    return pre * 2 + len({len(g) for g in group})


def build_pools(drv, nocase, binary, size, rng, want0, n_pools):
    """Return pools; a pool is dict model-key-id -> real key.  Model keys 1..4 collide (bucket 0),
    key 5 lives elsewhere.  In nocase mode 1/2 and 3/4 are case variants of one another."""
    cands = candidates(binary, rng)
    rng.shuffle(cands)
    bks = ask_buckets(drv, cands, nocase, size, binary)
    groups = {}
    for c, b in zip(cands, bks):
        groups.setdefault(b, []).append(c)
    pools = []
    order = sorted(groups, key=lambda b: (b != 0,))   # the bucket of the empty key first
    rest = [b for b in order if b != 0]
    rng.shuffle(rest)
    order = [0] + rest if 0 in groups else rest
    # ... then the LAST slot of the table (the highest bucket index any candidate lands in): iteration and the
    # emptiness bookkeeping end there
    last = max(groups)
    if last in order and last != 0:
        order.remove(last)
        order.insert(1 if order and order[0] == 0 else 0, last)
    for b in order:
        g = groups[b]
        if nocase:
            # distinct under folding, and each has a different-case spelling
            seen, base = set(), []
            for k in g:
                f = fold(k)
                if f in seen or k.swapcase() == k:
                    continue
                seen.add(f)
                base.append(k)
            if len(base) < 2:
                continue
            best = max((rng.sample(base, 2) for _ in range(40)), key=interest)
            pool = {1: best[0], 2: best[0].swapcase(), 3: best[1], 4: best[1].swapcase()}
        else:
            if len(g) < want0:
                continue
            tries = [rng.sample(g, want0) for _ in range(60)]
            if b == 0 and b"" in g:
                tries = [t if b"" in t else [b""] + t[1:] for t in tries]
            best = max(tries, key=interest)
            pool = {i + 1: k for i, k in enumerate(best)}
        others = [k for bb in groups if bb != b for k in groups[bb] if k and (not nocase or fold(k) not in
                  {fold(x) for x in pool.values()})]
        # the key that lives elsewhere: the EMPTY key whenever the pool's own bucket is not the empty key's (bucket 0), so
        # that every history also asks for a zero-length key whose slot is unused, used by others, or its own
        pool[5] = b"" if (b != 0 and b"" not in pool.values()) else rng.choice(others)
        pools.append(pool)
        if len(pools) >= n_pools:
            break
    return pools


def script_for(pool_keys, nocase, size, binary, ops):
    """pool_keys: list of real keys (index+1 = kid); ops: list of (op, kid, v)"""
    s = ["nokeys"] + ["key %d %s" % (i + 1, hexs(k)) for i, k in enumerate(pool_keys)]
    s.append("new %d %d %d" % (nocase, size, binary))
    for op, kid, v in ops:
        if op in ("enter", "replace"):
            s.append("%s %d %d" % (op, kid, v))
        elif op in ("delete", "lookup"):
            s.append("%s %d" % (op, kid))
        else:
            s.append("empty")
    s.append("end")
    return s


def random_history(rng, nkeys, nops):
    ops, vals = [], itertools.count(3)
    hot = list(range(1, nkeys + 1))
    for _ in range(nops):
        r = rng.random()
        k = rng.choice(hot)
        if r < 0.30:
            ops.append(("enter", k, next(vals) % 1000 + 1))
        elif r < 0.45:
            ops.append(("replace", k, next(vals) % 1000 + 1))
        elif r < 0.85:
            ops.append(("delete", k, 0))
        elif r < 0.99:
            ops.append(("lookup", k, 0))
        else:
            ops.append(("empty", 0, 0))
    return ops


def execute(drv, scripts, work, tag):
    """Run scripts (list of (exec_id, lines)) in one harness process; on a crash fall back to one
    process per script to find the culprit.  Returns (chunks, crashes)."""
    path = os.path.join(work, "hash_%s.ndjson" % tag)
    text = "\n".join("\n".join(s) for _, s in scripts) + "\n"
    r = runner.run(drv, [path], text, timeout=600, leaks=False)   # leaks are C09's business, not the map's
    chunks, crashes = [], []
    if r.rc == 0:
        cur = None
        for ln in open(path):
            if ln.startswith('{"e":"Header"'):
                cur = []
                chunks.append(cur)
            cur.append(ln)
        os.unlink(path)
        if len(chunks) != len(scripts):
            raise tlc.ModelError("harness produced %d executions for %d scripts" % (len(chunks), len(scripts)))
        return [(eid, ch) for (eid, _), ch in zip(scripts, chunks)], crashes
    if len(scripts) == 1:
        return [], [(scripts[0][0], r.why())]
    for sc in scripts:
        c, cr = execute(drv, [sc], work, tag + "x")
        chunks += c
        crashes += cr
    return chunks, crashes


def write_replay(ctx, name, lines):
    p = os.path.join(ctx.replays, name + ".script")
    with open(p, "w") as f:
        f.write("\n".join(lines) + "\n")
    return p


def validate_and_report(ctx, drv, scripts, tag):
    rep = ctx.report
    by_id = dict(scripts)
    chunks, crashes = execute(drv, scripts, ctx.work, tag)
    for eid, why in crashes:
        p = write_replay(ctx, "crash_%s" % eid, by_id[eid])
        rep.violation("crash:" + eid.split("#")[0], "real table crashed on a history the map model allows: " + why, p)
    acc, fails, results = tracecheck.validate(SPEC, "HashTrace.tla", "HashTrace.cfg", chunks, ctx.work, timeout=1200)
    for r in results:
        rep.add_tlc("HashTrace(" + tag + ")", r, mode="trace-validation")
    rep.traces += acc
    for eid, ch in chunks:
        rep.evaluations += len(ch) - 1
        mx = max((json.loads(l).get("chain", 0) for l in ch[1:]), default=0)
        if mx >= 3:
            rep.nontrivial.add(eid)
    for f in fails:
        # reproduce alone before reporting (soundness rule)
        c2, cr2 = execute(drv, [(f.exec_id, by_id[f.exec_id])], ctx.work, tag + "r")
        a2, f2, _ = tracecheck.validate(SPEC, "HashTrace.tla", "HashTrace.cfg", c2, ctx.work)
        if not f2 and not cr2:
            continue
        p = write_replay(ctx, "reject_%s" % f.exec_id.replace("#", "_"), by_id[f.exec_id])
        ev = json.loads(f.event) if f.event else {}
        rep.violation("map:%s" % f.exec_id.split("#")[0],
                      "event %d of execution %s is not what the map semantics allow: %s" %
                      (f.local_line, f.exec_id, f.event.strip()[:300]), p)
    return chunks


def run(ctx):
    rep = ctx.report
    rng = random.Random(ctx.seed)
    quick = ctx.tier == "quick"
    libdir, _ = sut.build_lib("asan")
    drv = sut.build_harness("hash_drv", ["hash/hash_drv.c"], libdir)

    if ctx.replay:
        lines = open(ctx.replay).read().split("\n")
        validate_and_report(ctx, drv, [("replay", [l for l in lines if l])], "replay")
        rep.rule = "replay of one stored operation script"
        # TLC state counts must be >= 1 for the evidence schema: the validation run above provides them
        return

    # 1. B refines A, exhaustively
    cfgs = [("MC_tour.tla", "MC_ref_case3.cfg"), ("MC_tour.tla", "MC_ref_nocase3.cfg")] if quick else \
           [("MC_small.tla", "MC_small_case.cfg"), ("MC_small.tla", "MC_small_nocase.cfg")]
    for mod, cfg in cfgs:
        r = tlc.run(mod, cfg, SPEC, workers=16, timeout=1500, coverage=True, heap="8g")
        if r.violated:
            raise tlc.ModelError("HashTableImpl does not refine HashMap in %s: %s\n%s" % (cfg, r.violated, r.out[-2000:]))
        for act in ("Enter", "Delete", "Lookup", "Empty"):
            if r.coverage.get(act, (0, 0))[0] == 0:
                raise tlc.ModelError("vacuous model run: action %s never taken in %s" % (act, cfg))
        rep.add_tlc("%s/%s" % (mod, cfg), r)

    # 2. state graph -> tours
    scripts = []
    tour_cfgs = [("case", 0, "MC_tour_case3.cfg"), ("nocase", 1, "MC_tour_nocase3.cfg")] if quick else \
                [("case", 0, "MC_tour_case4.cfg"), ("nocase", 1, "MC_tour_nocase4.cfg")]
    n_edges = 0
    for mode, nocase, cfg in tour_cfgs:
        r = tlc.run("MC_tour.tla", cfg, SPEC, workers=1, timeout=900)
        if r.violated:
            raise tlc.ModelError("tour model violated %s" % r.violated)
        rep.add_tlc("MC_tour.tla/" + cfg, r, mode="graph-export")
        edges = tours.parse_edges(r.out)
        if not edges:
            raise tlc.ModelError("no edges exported by " + cfg)
        n_edges += len(edges)
        ts = tours.tours(edges, edges[0][0], max_len=400, rng=random.Random(ctx.seed))
        variants = [(nocase, 0)] + ([(0, 1)] if mode == "case" else [])   # binary keys only case-sensitive
        for nc, binary in variants:
            for size in ((10,) if quick else (10, 150)):
                pools = build_pools(drv, nc, binary, size, rng, 4, 2 if quick else 5)
                if not pools:
                    raise tlc.ModelError("could not build a colliding key pool")
                for pi, pool in enumerate(pools):
                    keys = [pool.get(i, b"unused%d" % i) for i in range(1, 6)]
                    for ti, t in enumerate(ts):
                        ops = [(edges[e][1]["op"], edges[e][1]["kid"], edges[e][1]["v"]) for e in t]
                        eid = "tour-%s-b%d-s%d-p%d#%d" % (mode, binary, size, pi, ti)
                        scripts.append((eid, script_for(keys, nc, size, binary, ops)))
    rep.notes["graph_edges_covered"] = n_edges

    # 3. seeded random histories on larger colliding pools
    n_hist = 12 if quick else 120
    for hi in range(n_hist):
        nc = hi % 2
        binary = 1 if (hi % 4 == 2) else 0
        size = rng.choice([10, 10, 150])
        cands = candidates(binary, rng)
        rng.shuffle(cands)
        cands = cands[:3000]
        bks = ask_buckets(drv, cands, nc, size, binary)
        groups = {}
        for c, b in zip(cands, bks):
            groups.setdefault(b, []).append(c)
        big = sorted(groups.values(), key=len, reverse=True)
        pool = []
        for g in big[:3]:
            pool += g[: rng.randint(3, 7)]
        if nc:
            pool += [k.swapcase() for k in pool if k.swapcase() != k][:6]
        if not binary:
            tw = [k for k in pool if twin(k) != k]
            if len(tw) < 3:   # make sure some keys have such bytes
                tw += [k + rng.choice([b"_", b"[", b"@x", b"\xe9"]) for k in pool[:4]]
                pool = pool[:14] + tw[-4:]
            pool = pool[:16] + [twin(k) for k in tw][:4]
        pool = list(dict.fromkeys(pool))[:20]
        if hi % 3 != 1 and b"" not in pool:
            pool[-1] = b""          # the zero-length key takes part in most random histories
        rng.shuffle(pool)
        ops = random_history(rng, len(pool), 300 if quick else rng.choice([200, 800, 2000]))
        scripts.append(("rand-%d-nc%d-b%d#%d" % (size, nc, binary, hi), script_for(pool, nc, size, binary, ops)))

    # 4. execute + validate
    chunks = validate_and_report(ctx, drv, scripts, "all")
    for eid, ch in chunks[:2] + chunks[-1:]:
        rep.sample({"execution": eid, "events": len(ch) - 1, "header": json.loads(ch[0]),
                    "first_events": [json.loads(x) for x in ch[1:4]]})
    rep.rule = ("executions = edge tours of HashTableImpl's complete state graph (every (table state, op) edge) "
                "instantiated with pools of real colliding keys (prefix pairs, case variants, empty key, binary keys "
                "with zeros) + seeded random histories on 10-20 key pools; non-trivial = distinct execution whose "
                "real table reached a collision chain of length >= 3 (read from the public struct)")
    rep.assumptions += ["binary keys are only used with case-sensitive tables (hash_table.h: otherwise 'unpredictable')",
                        "one table uses either string or binary calls, not both",
                        "values are non-NULL (NULL is the failure value of delete/lookup)"]
