"""C02, stage "hmm": the per-frame Viterbi update of one phone model (src/hmm.c), which every node of the search
network runs every frame - "the true Viterbi optimum" needs each of them to compute the exact max-plus step.

  - HmmSem.tla  Layer A: paths with entry identities moving along the transitions that exist, per state the best score
    per identity; what the object must show (best score, the identity of a best path, its senone sequence);
  - HmmStep.tla Layer B: hmm_vit_eval_3st_lr, its multiplexed twin, hmm_vit_eval_5st_lr, its multiplexed twin and hmm_vit_eval_anytopo transcribed statement by
    statement; TLC checks Exact / NoWrap / BestBounds for every left-to-right 3-state topology over small score sets,
    every order of enter / evaluate / clear / normalise; negative control: the routines as they were (scratch variable
    t2 not reset before state 2) violate Exact on a topology with the skip into the exit but not the one over state 1;
  - every edge of the exported graphs (3-state plain / multiplexed / general routine, 2-state general routine) and seeded
    random histories with the real magnitudes (2..5 states, plain and multiplexed, random topologies, ties, enters in
    mid-flight, clears, normalisation, runs long enough to reach the floor WORST_SCORE) are executed on the real object;
    HmmTrace.tla evaluates Layer A on every recorded call.
"""
import json, os, random, re
from concurrent.futures import ThreadPoolExecutor
from vlib import sut, tlc, tours, tracecheck, runner

SPEC = os.path.join(sut.VERIF, "specs", "hmm")
SCALE = 37
MODELS_Q = ["Hmm_lr3_q", "Hmm_any2_q", "Hmm_any3_q", "Hmm_lr3_sym", "Hmm_lr5_q"]
MODELS_T = ["Hmm_lr3mpx_q", "Hmm_anympx3_q", "Hmm_lr3_t", "Hmm_any3_t", "Hmm_lr5_t", "Hmm_any5_q", "Hmm_lr5mpx_q"]
# negative controls: the 3-state routines as they were (stale t2); the 5-state routine on a topology without skips (it
# adds the score 255 of "no transition" like any other: an observation, the bundled models have 3 states)
NEG = ["Hmm_lr3_aswritten", "Hmm_lr3mpx_aswritten", "Hmm_lr5_noskip"]
TOURS_Q = [("lr3", "13", 3, 0), ("lr3", "both", 3, 0), ("lr3", "none", 3, 0), ("lr3", "02", 3, 0), ("any3", "13", 3, 0),
           ("lr3mpx", "13", 3, 1), ("any2", "a", 2, 0), ("lr5", "a", 5, 0)]
TOURS_T = TOURS_Q + [("any3", "both", 3, 0), ("any3", "none", 3, 0), ("any3", "02", 3, 0), ("lr3mpx", "both", 3, 1),
                     ("anympx3", "both", 3, 1), ("anympx3", "13", 3, 1), ("any2", "b", 2, 0)]


def label_to_py(s):
    return json.loads(s.replace("<<", "[").replace(">>", "]"))


def real_tp(v):
    return 255 if v <= -255 else -v * SCALE


def tour_scripts(name, edges, ts, n, mpx, K):
    out = []
    for ti, t in enumerate(ts):
        lab = label_to_py(edges[t[0]][0])
        s = ["new %d %d %d %s" % (n, mpx, K, " ".join(str(real_tp(v)) for row in lab[0] for v in row))]
        for e in t:
            f, a, _ = edges[e]
            if a["op"] == "enter":
                nid = label_to_py(f)[7]
                s.append("enter %d %d %d" % (a["s"] * SCALE, nid + 1, a["k"]))
            elif a["op"] == "eval":
                s.append("eval " + " ".join(str(-v * SCALE) for k in a["sen"] for v in k))
            elif a["op"] == "clear":
                s.append("clear")
            elif a["op"] == "norm":
                s.append("norm")
        out.append(("hmm-tour-%s#%d" % (name, ti), s))
    return out


def rand_matrix(rng, n, lr):
    """left-to-right topology: self loop and step always there, the skip over one state sometimes; the general routine
    (n not 3 or 5) also gets longer jumps and missing self loops"""
    m = [[255] * (n + 1) for _ in range(n)]
    small = rng.random() < 0.5
    val = (lambda: rng.choice([10, 20, 20, 30])) if small else (lambda: rng.randrange(0, 255))
    skips = rng.choice(["none", "all", "rand"])
    for i in range(n):
        m[i][i] = val()
        m[i][i + 1] = val()
        if i + 2 <= n and (lr == 5 or skips == "all" or (skips == "rand" and rng.random() < 0.5)):
            m[i][i + 2] = val()
        if not lr:
            for j in range(i + 3, n + 1):
                if rng.random() < 0.2:
                    m[i][j] = val()
            if rng.random() < 0.15 and i > 0:
                m[i][i] = 255
    return m


def rand_history(rng, idx, long_run=False):
    n = rng.choice([2, 3, 3, 3, 4, 5, 5])
    mpx = 1 if rng.random() < 0.35 else 0
    K = rng.choice([2, 3]) if mpx else 1
    if long_run:
        n, mpx, K = rng.choice([3, 5]), 0, 1
    m = rand_matrix(rng, n, n if n in (3, 5) else 0)
    s = ["new %d %d %d %s" % (n, mpx, K, " ".join(str(v) for row in m for v in row))]
    ids = 0
    coarse = rng.random() < 0.5          # few distinct values: ties
    senv = (lambda: rng.choice([0, 10, 10, 20, 40])) if coarse else (lambda: rng.randrange(0, 32768) if rng.random() < 0.3 else rng.randrange(0, 3000))
    start = rng.choice([0, 0, -1000, -20000, -300000000 if long_run else -5000])
    ids += 1
    s.append("enter %d %d %d" % (start, ids, rng.randrange(1, K + 1)))
    steps = 17000 if long_run else rng.randrange(3, 40)
    for t in range(steps):
        if long_run:
            s.append("eval " + " ".join(str(rng.choice([32767, 32767, 30000])) for _ in range(K * n)))
            continue
        s.append("eval " + " ".join(str(senv()) for _ in range(K * n)))
        r = rng.random()
        if r < 0.25:
            ids += 1
            s.append("enter %d %d %d" % (start - (rng.choice([0, 10, 30, 50]) if coarse else rng.randrange(0, 4000)) * (t + 1) // 2, ids,
                                          rng.randrange(1, K + 1)))
        elif r < 0.30:
            s.append("norm")
        elif r < 0.34:
            s.append("clear")
            ids += 1
            s.append("enter %d %d %d" % (start, ids, rng.randrange(1, K + 1)))
    return ("hmm-%s#%d" % ("floor" if long_run else "rand", idx), s)


def execute(ctx, drv, cases, tag):
    path = os.path.join(ctx.work, "hmm_%s.ndjson" % tag)
    script = []
    for _, s in cases:
        script += s
    r = runner.run(drv, [path], "\n".join(script) + "\n", timeout=900, leaks=True)
    lines = open(path).read().splitlines() if os.path.exists(path) else []
    if r.crashed or r.rc != 0:
        return None, r
    chunks, k = [], -1
    for ln in lines:
        if ln.startswith('{"e":"New"'):
            k += 1
            chunks.append((cases[k][0], []))
        chunks[-1][1].append(ln)
    if len(chunks) != len(cases):
        raise tlc.ModelError("hmm_drv wrote %d executions for %d cases" % (len(chunks), len(cases)))
    return chunks, r


def report_fails(ctx, fails, by_id):
    rep = ctx.report
    for f in fails:
        clause = f.clause or "unknown-clause"
        p = os.path.join(ctx.replays, "hmm_reject_%s.script" % f.exec_id.replace("#", "_"))
        open(p, "w").write("#hmm\n" + "\n".join(by_id[f.exec_id]) + "\n")
        hdr = by_id[f.exec_id][0].split()
        shape = "%sst%s" % (hdr[1], "-mpx" if hdr[2] == "1" else "")
        what = "HMM object, %s call %d: clause %s fails: %s | model: %s" % (f.exec_id, f.local_line, clause, f.event[:300], by_id[f.exec_id][0])
        if clause.startswith("opt:"):
            rep.violation("hmm:%s:%s" % (shape, clause), what, p)
        else:
            print("NOTE: extended specification of the HMM object (score range; C18 is not a claimed property): " + what[:400])
            rep.notes.setdefault("hmm_range_notes", []).append({"clause": clause, "execution": f.exec_id})


def run_stage(ctx):
    rep = ctx.report
    quick = ctx.tier == "quick"
    rng = random.Random(ctx.seed * 65537 + 29)

    def mc(name):
        return name, tlc.run("MC_Hmm.tla", name + ".cfg", SPEC, workers=4, timeout=1500, heap="4g")
    names = MODELS_Q + ([] if quick else MODELS_T) + NEG
    with ThreadPoolExecutor(max_workers=4) as ex:
        res = dict(ex.map(mc, names))
    for name in names:
        r = res[name]
        if name in NEG:
            if r.violated != "Exact":
                raise tlc.ModelError("negative control failed: %s should violate Exact, got %s"
                                     % (name, r.violated))
            continue
        if r.violated:
            raise tlc.ModelError("HmmStep (%s) violates %s:\n%s" % (name, r.violated, r.out[-2500:]))
        if r.distinct < 2000:
            raise tlc.ModelError("vacuous: HmmStep (%s) explored only %d states" % (name, r.distinct))
        rep.add_tlc("MC_Hmm.tla/" + name, r)
    rep.notes["hmm_negative_control"] = ("violate Exact as required: the 3-state routines with the scratch variable t2 not reset before state 2, "
                                         "the 5-state routine on a topology without skips (" + ", ".join(NEG) + ")")

    def export(t):
        name = "HmmTour_%s_%s" % (t[0], t[1])
        return t, tlc.run("MC_Hmm.tla", name + ".cfg", SPEC, workers=1, timeout=900, heap="3g")
    tl = TOURS_Q if quick else TOURS_T
    with ThreadPoolExecutor(max_workers=6) as ex:
        exports = list(ex.map(export, tl))
    cases, nedges = [], 0
    for (variant, m, n, mpx), r in exports:
        if r.violated:
            raise tlc.ModelError("HmmTour_%s_%s violated %s" % (variant, m, r.violated))
        rep.add_tlc("MC_Hmm.tla/HmmTour_%s_%s" % (variant, m), r, mode="graph-export")
        edges = tours.parse_edges(r.out)
        if len(edges) < 200:
            raise tlc.ModelError("HmmTour_%s_%s exported only %d edges" % (variant, m, len(edges)))
        nedges += len(edges)
        ts = tours.tours(edges, edges[0][0], max_len=150, rng=random.Random(ctx.seed))
        cases += tour_scripts("%s-%s" % (variant, m), edges, ts, n, mpx, 2 if mpx else 1)
    rep.notes["hmm_graph_edges_covered"] = nedges
    for i in range(400 if quick else 6000):
        cases.append(rand_history(rng, i))
    for i in range(1 if quick else 4):
        cases.append(rand_history(rng, i, long_run=True))
    lib, _ = sut.build_lib("asan")
    drv = sut.build_harness("hmm_drv", ["hmm/hmm_drv.c"], lib)
    by_id = dict(cases)
    chunks, r = execute(ctx, drv, cases, "all")
    if chunks is None:
        p = os.path.join(ctx.replays, "hmm_crash.script")
        open(p, "w").write("#hmm\n" + "\n".join(l for _, s in cases for l in s) + "\n")
        rep.violation(runner.crash_key(r.why()), "HMM driver crashed: %s" % r.why()[:500], p)
        return len(cases)
    # several TLC processes side by side
    nsh = 6
    shards = [chunks[i::nsh] for i in range(nsh)]

    def val(sh):
        wd = os.path.join(ctx.work, "hmmval%d" % id(sh))
        os.makedirs(wd, exist_ok=True)
        return tracecheck.validate(SPEC, "HmmTrace.tla", "HmmTrace.cfg", sh, wd, timeout=1800, max_fail=4, heap="3g")
    with ThreadPoolExecutor(max_workers=nsh) as ex:
        outs = list(ex.map(val, [s for s in shards if s]))
    fails = []
    for acc, fl, rs in outs:
        rep.traces += acc
        fails += fl
        for x in rs:
            rep.add_tlc("HmmTrace", x, mode="trace-validation")
    rep.evaluations += sum(len(c[1]) for c in chunks)
    report_fails(ctx, fails, by_id)
    return len(cases)


def replay(ctx, path):
    rep = ctx.report
    lib, _ = sut.build_lib("asan")
    drv = sut.build_harness("hmm_drv", ["hmm/hmm_drv.c"], lib)
    s = [l for l in open(path).read().split("\n") if l and not l.startswith("#")]
    # a replay file may hold several executions (crash replays)
    cases, cur = [], None
    for l in s:
        if l.startswith("new "):
            cur = ("replay#%d" % len(cases), [])
            cases.append(cur)
        if cur:
            cur[1].append(l)
    chunks, r = execute(ctx, drv, cases, "replay")
    if chunks is None:
        rep.violation(runner.crash_key(r.why()), "HMM replay crashed: %s" % r.why()[:500], path)
        return
    acc, fails, res = tracecheck.validate(SPEC, "HmmTrace.tla", "HmmTrace.cfg", chunks, ctx.work, heap="3g")
    rep.traces += acc
    report_fails(ctx, fails, dict(cases))
