"""C17, stage "bundled": the two bundled acoustic models through the same format specification.

The files are megabytes, so TLC sees them in part: the driver (mf_drv `view`) shows the bytes at the start and the end of
every file, plus whatever the readers of MFFormats ask for (ModelBundled.tla prints NEED: a byte offset - the model
definition's sseq_size word -, or a word range whose s3 checksum it wants).  The Python side knows nothing about the
formats it has to get right: its first guesses at what will be asked are only there to save a round, TLC's NEED /
LAYOUT answers decide.  ModelBundled then derives the damages (truncation around every field and area, header bytes, the
ends, seeded random lengths; missing; extended; every corruption class of every field), the driver applies each to a copy
of the file inside a directory of symbolic links, runs decoder_init with both back ends, then the intact model, which has
to load and decode goforward.raw.  ModelTrace recomputes every verdict from the bytes the library was really given."""
import json, os, re, shutil, struct
from vlib import sut, tlc, runner
from checks import c17

MODELS = (("en-us", 5), ("fr-fr", 6))
KFILES = {"mdef": "mdef", "means": "means", "variances": "variances", "tmat": "transition_matrices", "sendump": "sendump",
          "featparams": "feat_params.json"}
HEAD = {"mdef": 2048, "sendump": 1024, "featparams": 4096}
UTT = {"en-us": {"gram": "#JSGF V1.0;\ngrammar g;\npublic <g> = go (forward | backward) ten (meters | miles);\n",
                 "words": {"go", "forward", "backward", "ten", "meters", "miles"}, "audio": "goforward.raw", "expect": "go forward ten meters"},
       "fr-fr": {"gram": "#JSGF V1.0;\ngrammar g;\npublic <g> = (avance | recule) de (dix | deux) mètres;\n",
                 "words": {"avance", "recule", "de", "dix", "deux", "mètres"}, "audio": "goforward_fr.raw", "expect": "avance de dix mètres"}}


def guess(path, kind):
    """(extra byte ranges, checksum word range) the readers will probably ask for - an optimisation, never trusted"""
    ranges, srange = [], None
    try:
        with open(path, "rb") as f:
            head = f.read(4096)
            size = os.path.getsize(path)
            if kind in ("means", "variances", "tmat"):
                i = head.find(b"endhdr\n")
                if i >= 0 and b"chksum0" in head[:i]:
                    srange = (i + 11, size - 4, 0)
            if kind == "mdef":
                h = struct.unpack("<i", head[8:12])[0]
                c = struct.unpack("<10i", head[12 + h:52 + h])
                q = 52 + h
                e = q
                for _ in range(c[0]):
                    e = head.index(b"\0", e) + 1
                ss = q + (e - q + 3) // 4 * 4 + 8 * c[8] + 12 * c[1]
                ranges.append((ss - 16, 40))
    except Exception:
        pass
    return ranges, srange


def show(drv, ctx, lines, tag):
    """run `view` lines, return the view events"""
    path = os.path.join(ctx.work, "views_%s.ndjson" % tag)
    r = runner.run(drv, [path], "\n".join(["mode read 0 - views"] + lines + ["end"]) + "\n", timeout=300, leaks=True)
    if r.rc != 0:
        raise tlc.ModelError("view run failed: " + r.why())
    evs = [json.loads(l) for l in open(path) if l.startswith('{"e":"view"')]
    os.unlink(path)
    return evs


def view_line(kind, path, ranges, srange):
    a, b, sw = srange if srange else (-1, -1, 0)
    rs = ",".join("%d:%d" % (max(0, o), n) for o, n in ranges) or "-"
    return "view %s %s %d %d %d %s" % (kind, path, a, b, sw, rs)


def std_ranges(kind, size, extra):
    h = HEAD.get(kind, 256)
    rs = [(0, h)]
    if size > h:
        rs.append((max(h, size - 64), 64))
    for o, n in extra:
        if o + n > h and o < size - 64:
            rs.append((max(o, h), n))
    return rs


def derive(ctx, drv, rng, quick):
    """-> (model events, cases, view plans)"""
    rep = ctx.report
    plans = {}
    for name, mid in MODELS:
        d = os.path.join(sut.REPO, "model", name)
        for k, fn in KFILES.items():
            p = os.path.join(d, fn)
            if os.path.exists(p):
                extra, srange = guess(p, k)
                plans[(mid, k)] = {"path": p, "size": os.path.getsize(p), "extra": extra, "sum": srange}
    for rnd in range(5):
        events = []
        for name, mid in MODELS:
            lines = [view_line(k, pl["path"], std_ranges(k, pl["size"], pl["extra"]), pl["sum"])
                     for (m, k), pl in sorted(plans.items()) if m == mid]
            views = show(drv, ctx, lines, name)
            for v in views:
                n = plans[(mid, v["kind"])]["size"]
                v["randlens"] = sorted(rng.randrange(0, n) for _ in range(3 if quick else 24)) if n > 0 else []
            events.append({"e": "Model", "id": mid, "name": name, "views": views})
        vpath = os.path.join(ctx.work, "bundled_views.ndjson")
        with open(vpath, "w") as f:
            for e in events:
                f.write(json.dumps(e) + "\n")
        r = tlc.run("ModelBundled.tla", "ModelBundled.cfg", c17.SPEC, workers=c17.JOBS, timeout=1200, heap="6g", env={"VIEWS": vpath})
        if r.violated:
            raise tlc.ModelError("ModelBundled violates %s:\n%s" % (r.violated, r.out[-2000:]))
        out = {"NEED": [], "LAYOUT": [], "CASE": []}
        for ln in r.out.splitlines():
            m = re.match(r'^<<"(NEED|LAYOUT|CASE)", "(.*)">>$', ln)
            if m:
                js = m.group(2)
                out[m.group(1)].append(json.loads(js.encode().decode("unicode_escape") if "\\" in js else js))
        if not out["NEED"]:
            break
        for nd in out["NEED"]:
            pl = plans[(nd["model"], nd["need"]["kind"])]
            if nd["need"]["at"] >= 0:
                pl["extra"].append((nd["need"]["at"] - 16, 40))
            elif nd["need"]["sum"]:
                a, b, sw = nd["need"]["sum"]
                pl["sum"] = (a, b, 1 if sw else 0)
            else:
                HEAD[nd["need"]["kind"]] = HEAD.get(nd["need"]["kind"], 256) * 4
    else:
        raise tlc.ModelError("the readers still miss bytes of the bundled models after 5 rounds: %r" % out["NEED"][:3])
    if len(out["LAYOUT"]) != len(MODELS) or any(l["loadable"] != "T" for l in out["LAYOUT"]):
        raise tlc.ModelError("bundled models not recognised as models: %r" % out["LAYOUT"])
    if len(out["CASE"]) < 800:
        raise tlc.ModelError("vacuous: only %d bundled cases" % len(out["CASE"]))
    rep.add_tlc("ModelBundled.tla/ModelBundled.cfg", r)
    rep.notes["bundled_rounds"] = rnd + 1
    rep.notes["bundled_layout"] = [{k: l[k] for k in ("name", "gmm", "mdef", "means", "tmat")} for l in out["LAYOUT"]]
    return events, out["CASE"], plans


def apply_op(src, dst, op):
    t = op["t"]
    if t == "missing":
        return
    if t == "trunc":
        with open(src, "rb") as f, open(dst, "wb") as g:
            left = op["at"]
            while left > 0:
                b = f.read(min(left, 1 << 20))
                if not b:
                    break
                g.write(b)
                left -= len(b)
        return
    shutil.copyfile(src, dst)
    with open(dst, "r+b") as g:
        if t == "put":
            g.seek(op["at"])
            g.write(bytes(op["bytes"]))
        elif t == "extend":
            g.seek(0, 2)
            g.write(bytes(op["bytes"]))
        else:
            raise ValueError(t)


def make_exec(ctx, eid, meta, plans, aux):
    name, mid, kind, op = meta["name"], meta["model"], meta["kind"], meta["op"]
    intact = os.path.join(sut.REPO, "model", name)
    d = os.path.join(ctx.work, "b_" + re.sub(r"\W", "_", eid)[:120])
    if os.path.isdir(d):
        shutil.rmtree(d)
    os.makedirs(d)
    for fn in os.listdir(intact):
        if fn != KFILES[kind] and fn != "dict.txt":
            os.symlink(os.path.join(intact, fn), os.path.join(d, fn))
    pl = plans[(mid, kind)]
    dst = os.path.join(d, KFILES[kind])
    apply_op(pl["path"], dst, op)
    ranges = std_ranges(kind, pl["size"], pl["extra"])
    if op["t"] == "trunc":
        ranges.append((max(0, op["at"] - 32), 32))
    if op["t"] == "extend":
        ranges.append((pl["size"] - 8, 64))
    srange = tuple(meta["sumrange"][:2]) + (1 if meta["sumrange"][2] else 0,) if meta.get("sumrange") else None
    s = ["mode %s %d %s %s" % (meta["mode"], mid, kind, re.sub(r"\s", "_", meta["dmg"])),
         "set dict " + aux[name]["dict"], "jsgf " + aux[name]["gram"], "audio " + aux[name]["audio"], "expect " + UTT[name]["expect"],
         view_line(kind, dst, ranges, srange), "load " + d, "reload " + intact, "end"]
    ex = c17.Exec(eid, dict(meta, stage="bundled"), s)
    ex.dir = d
    return ex


def aux_files(ctx):
    aux = {}
    for name, _ in MODELS:
        u = UTT[name]
        a = {"gram": os.path.join(ctx.work, "gram_%s.gram" % name), "audio": os.path.join(sut.REPO, "tests", "data", u["audio"]),
             "dict": os.path.join(ctx.work, "dict_%s.txt" % name)}
        with open(a["gram"], "w", encoding="utf-8") as f:
            f.write(u["gram"])
        # the words of the grammar with the pronunciations of the model's own dictionary
        with open(os.path.join(sut.REPO, "model", name, "dict.txt"), encoding="utf-8", errors="replace") as f, \
                open(a["dict"], "w", encoding="utf-8") as g:
            for ln in f:
                w = ln.split(None, 1)
                if w and w[0].split("(")[0] in u["words"]:
                    g.write(ln)
        aux[name] = a
    return aux


def run_stage(ctx, drv, quick, rng):
    rep = ctx.report
    events, cases, plans = derive(ctx, drv, rng, quick)
    aux = aux_files(ctx)
    cases.sort(key=lambda c: (c["model"], c["kind"], c["dmg"]))
    if quick:
        # the English model in full, of the French one every third case
        cases = [c for i, c in enumerate(cases) if c["model"] == 5 or i % 3 == ctx.seed % 3]
    execs = []
    batch = 400
    stats_all = None
    prefix = [json.dumps(e) for e in events]
    done = 0
    for start in range(0, len(cases), batch):
        part = []
        for i, c in enumerate(cases[start:start + batch]):
            modes = ("read", "mmap") if not quick else (("mmap",) if (start + i) % 2 else ("read",))
            for mode in modes:
                if c["name"] == "fr-fr" and c["op"]["t"] != "missing" and False:
                    continue
                eid = "bundled-%s-%s-%s-%s" % (c["name"], c["kind"], c["dmg"], mode)
                meta = {"model": c["model"], "name": c["name"], "kind": c["kind"], "dmg": c["dmg"], "cls": c["cls"], "mode": mode,
                        "op": c["op"], "why": c["why"], "verdict": c["verdict"], "sumrange": c["sumrange"]}
                part.append(make_exec(ctx, eid, meta, plans, aux))
        c17.run_all(drv, part, ctx.work)
        for ex in part:
            shutil.rmtree(ex.dir, ignore_errors=True)     # damaged copies are megabytes: delete as we go
        execs += part
        done += len(part)
    stats = c17.report(ctx, execs, "bundled model", prefix=prefix)
    for ex in execs:
        if ex.cls != "crash":
            rep.nontrivial.add((ex.meta["name"], ex.meta["kind"], ex.meta["why"] if ex.meta["verdict"] == "F" else ex.meta["cls"]))
    if execs:
        ex = execs[len(execs) // 3]
        rep.sample({"execution": ex.eid, "verdict_from_shown_bytes": ex.meta["verdict"], "why": ex.meta["why"], "ended": ex.cls,
                    "events": [json.loads(l) for l in ex.lines if l[:12] in ('{"e":"load",', '{"e":"reload', '{"e":"decode')][:3]})
    return stats, len(cases)


def replay(ctx, drv, meta):
    import random
    events, cases, plans = derive(ctx, drv, random.Random(ctx.seed), True)
    aux = aux_files(ctx)
    ex = make_exec(ctx, "replay", meta, plans, aux)
    c17.run_exec(drv, ex, ctx.work)
    shutil.rmtree(ex.dir, ignore_errors=True)
    return c17.report(ctx, [ex], "bundled model (replay)", prefix=[json.dumps(e) for e in events])
