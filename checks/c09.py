"""C09 - no sequence of API calls corrupts memory, aborts, or leaks.

  - ApiImpl.tla: the documented calling protocol as a state machine with the documented return class of every call
    in every state; its complete state graph is exported;
  - tours taking every (abstract state, call) edge - out-of-order calls, documented-bad arguments, abandoned
    iterators, retained lattices and decoders included - are executed on the real library, ONE PROCESS PER TOUR,
    under ASan + LeakSanitizer with assertions enabled; every tour ends with a fixed probe utterance;
  - a crash, sanitizer report, assertion or leak is a violation (keyed by where it happened); TLC (ApiTrace.tla)
    checks that every call returned the documented class and that the probe result is the same in every execution.
"""
import json, os, random
from vlib import sut, tlc, tours, tracecheck, runner
from checks import decmatrix, c09_config

SPEC = os.path.join(sut.VERIF, "specs", "api")
CMN = "41.00,-5.29,-0.12,5.09,2.48,-4.07,-1.37,-1.78,-5.08,-2.05,-6.45,-1.42,1.17"
JSGF_OK = "#JSGF V1.0;\ngrammar g;\npublic <s> = go (forward | backward) [ten meters] | stop;\n"
GRAMS = {
    "jsgf": lambda d: "jsgf " + decmatrix.hx(JSGF_OK),
    "align": lambda d: "align " + decmatrix.hx("go forward ten meters"),
    "fsg": lambda d: "fsgfile " + os.path.join(d, "goforward.fsg"),
    "bad-syntax": lambda d: "jsgf " + decmatrix.hx("#JSGF V1.0;\ngrammar g;\npublic <s> = go ( forward ;\n"),
    "undefined-rule": lambda d: "jsgf " + decmatrix.hx("#JSGF V1.0;\ngrammar g;\npublic <s> = go <nosuchrule>;\n"),
    "unknown-word": lambda d: "align " + decmatrix.hx("go nosuchword forward"),
    "fsg-unknown-word": lambda d: "fsgfile " + os.path.join(d, "goforward3.fsg"),
    "no-public": lambda d: "jsgf " + decmatrix.hx("#JSGF V1.0;\ngrammar g;\n<s> = go forward;\n"),
    "jsgffile": lambda d: "jsgffile " + os.path.join(d, "goforward.gram"),
    # empty-string arguments, and a grammar whose only sentence is the empty one
    "align-empty": lambda d: "align " + decmatrix.hx(""),
    "jsgf-empty": lambda d: "jsgf " + decmatrix.hx(""),
    "jsgf-null-only": lambda d: "jsgf " + decmatrix.hx("#JSGF V1.0;\ngrammar g;\npublic <s> = <NULL>;\n"),
    "jsgffile-missing": lambda d: "jsgffile " + os.path.join(d, "no-such-grammar.gram"),
}
WORDS = {"duplicate": ("forward", "F AO R W ER D"), "bad-phone": ("zzbad", "G QQ"), "empty-word": ("", "G OW"),
         "empty-pron": ("zzempty", ""), "alt-without-base": ("zznobase(2)", "G OW")}
FEEDS = {"tiny": "feed gf 300 100 i16 0 0", "norm": "feed gf 1000 8000 i16 0 0", "f32": "feed gf 9000 5000 f32 0 0",
         "long": "feed gf2 0 40000 i16 0 0", "zero": "feed gf 0 0 i16 0 0", "nosearch": "feed gf 14000 6000 i16 1 0",
         "full": "feed gf 0 -1 i16 0 1", "full-nosearch": "feed gf2 0 -1 f32 1 1",
         # more than the 128-frame cepstrum ring in one float32 call, and a float32 call that straddles its end
         "f32long": "feed gf2 3000 50000 f32 0 0", "f32nosearch": "feed gf2 1000 30000 f32 1 0"}


def render(ops, cfg, data, with_probe=True):
    s = ["mark __case__"] + list(decmatrix.audio_defs()) + ["init " + decmatrix.hx(json.dumps(cfg))]
    nw = 0
    rc = 1
    freed = False
    for op, arg, cls in ops:
        s.append("mark %s" % cls)
        if op == "free":            # the last reference goes, whatever the state (mid-utterance too); only a lattice
            s.append("free")        # the caller kept can be used afterwards
            freed = True
            continue
        if op == "start":
            s.append("start")
        elif op == "end":
            s.append("end")
        elif op == "feed":
            s.append(FEEDS[arg])
        elif op == "gram":
            s.append(GRAMS[arg](data))
        elif op == "addword":
            if arg == "new":
                nw += 1
                w, p = "zznew%d" % nw, ["G OW", "T", "S T AA P", "K L M"][nw % 4] if False else ["G OW", "T EH N", "S T AA P", "F AO R"][nw % 4]
            else:
                w, p = WORDS[arg]
            s.append("addword %s %s 1" % (w.encode().hex() or "-", p.encode().hex() or "-"))
        elif op == "setcmn":
            s.append("cmn " + decmatrix.hx(CMN))
        elif op in ("retain", "release"):
            rc += 1 if op == "retain" else -1
            s.append("call " + op)
        elif op in ("reinit", "latkeep", "latuse", "latdrop"):
            s.append("call " + op)
        else:
            x = arg if arg else "0"
            y = "1" if (op, arg) in (("nbestiter", "1"), ("lattice", "1")) else "0"
            s.append("call %s %s %s" % (op, x, y))
    s.append("mark none")
    if freed:
        return s + ["call latdrop"]
    if rc == 2:
        s.append("call release")
    if with_probe:
        # if an utterance is still open, close it; then the probe
        s += ["mark none", "end", "mark none", "jsgf " + decmatrix.hx(JSGF_OK), "mark none", "cmn " + decmatrix.hx(CMN), "mark none", "start",
              "mark none", "feed head 0 -1 i16 0 0", "mark none", "end", "result probe", "mark none", "call segiter 0", "free"]
    return s + ["mark none", "call latdrop"]


def model(ctx):
    r = tlc.run("MC_Api.tla", "Api_tour.cfg", SPEC, workers=1, timeout=900)
    if r.violated:
        raise tlc.ModelError("ApiImpl violates %s" % r.violated)
    edges = tours.parse_edges(r.out)
    if len(edges) < 100:
        raise tlc.ModelError("API graph export too small (%d edges)" % len(edges))
    ctx.report.add_tlc("MC_Api.tla/Api_tour.cfg", r, mode="graph-export")
    return edges


def run(ctx):
    rep = ctx.report
    quick = ctx.tier == "quick"
    drv = decmatrix.build_driver()
    data = os.path.join(sut.REPO, "tests", "data")
    cfg = {"hmm": os.path.join(sut.REPO, "model", "en-us"), "dict": os.path.join(data, "turtle.dic"), "loglevel": "FATAL"}
    cfg_drv = sut.build_harness("cfg_drv", ["config/cfg_drv.c"], sut.build_lib("asan")[0])
    if ctx.replay and open(ctx.replay).readline().startswith("#config"):
        c09_config.replay(ctx, cfg_drv, ctx.replay)
        return
    if ctx.replay:
        cases = [("replay", [l for l in open(ctx.replay).read().split("\n") if l])]
    else:
        # stage "config": config_* histories against ConfigStore/ConfigImpl/ConfigTrace
        ncfg = c09_config.run_stage(ctx, cfg_drv)
        rep.notes["config_histories"] = ncfg
        edges = model(ctx)
        cases = []
        for rep_i in range(1 if quick else 6):
            ts = tours.tours(edges, edges[0][0], max_len=14 if rep_i % 2 == 0 else 30, rng=random.Random(ctx.seed * 1000 + rep_i))
            for ti, t in enumerate(ts):
                cases.append(("tour%d#%d" % (rep_i, ti), render([edges[e][1] for e in t], cfg, data)))
        rep.notes["graph_edges_covered"] = len(edges)
        # random walks through the same graph: longer histories and other orders than the edge cover takes
        out = {}
        for i, (f, a, t) in enumerate(edges):
            out.setdefault(f, []).append(i)
        wrng = random.Random(ctx.seed * 7919 + 5)
        for wi in range(40 if quick else 400):
            s0, walk = edges[0][0], []
            for _ in range(wrng.randrange(20, 70)):
                cand = out.get(s0)
                if not cand:
                    break
                e = wrng.choice(cand)
                if edges[e][1][0] == "free" and wrng.random() < 0.9:     # (the walk ends there: not too early)
                    continue
                walk.append(e)
                s0 = edges[e][2]
            cases.append(("walk#%d" % wi, render([edges[e][1] for e in walk], cfg, data)))
        # directed: configurations that fail to initialise must fail cleanly
        for k, bad in enumerate([{"fsg": os.path.join(data, "goforward3.fsg")}, {"jsgf": "/nonexistent.gram"},
                                 {"dict": "/nonexistent.dic"}, {"hmm": "/nonexistent"}]):
            c2 = dict(cfg)
            c2.update(bad)
            body = render([], cfg, data)
            cases.append(("bad-config-%d#%d" % (k, len(cases)),
                          body[:1 + len(decmatrix.audio_defs())] + ["init " + decmatrix.hx(json.dumps(c2))] + body[1 + len(decmatrix.audio_defs()):]))
        # dictionaries of unusual shape (read by decoder_init): a long entry right after a one-phone word, many alternates,
        # blank lines, comments, trailing blanks, CR-LF, a very long line; and filler dictionaries
        dshapes = {
            "long-early": "a AH\nabracadabra AE B R AH K AH D AE B R AH\ngo G OW\nforward F AO R W ER D\nten T EH N\nmeters M IY T ER Z\nstop S T AA P\nbackward B AE K W ER D\n",
            "long-first": "supercalifragilistic S UW P ER K AE L AH F R AE JH AH L IH S T IH K EH K S P IY AE L AH D OW SH AH S\na AH\ngo G OW\nforward F AO R W ER D\nten T EH N\nmeters M IY T ER Z\nstop S T AA P\nbackward B AE K W ER D\n",
            "alternates": "go G OW\ngo(2) G AO\ngo(3) G AH\ngo(4) G UW\nforward F AO R W ER D\nforward(2) F AO W ER D\nten T EH N\nmeters M IY T ER Z\nmeters(2) M IY T AH Z\nstop S T AA P\nbackward B AE K W ER D\n",
            "blank-crlf": "\n\ngo G OW\r\nforward   F AO R W ER D  \r\n\r\nten\tT EH N\nmeters M IY T ER Z\nstop S T AA P\nbackward B AE K W ER D\n\n",
            "comments": "## a comment\n;; another\ngo G OW\nforward F AO R W ER D\nten T EH N\nmeters M IY T ER Z\nstop S T AA P\nbackward B AE K W ER D\n",
            "growing": "".join("w%d %s\n" % (i, " ".join(["AH", "B", "K", "D", "EH"][j % 5] for j in range(1 + (i * 7) % 23))) for i in range(60))
                       + "go G OW\nforward F AO R W ER D\nten T EH N\nmeters M IY T ER Z\nstop S T AA P\nbackward B AE K W ER D\n",
        }
        for name, text in sorted(dshapes.items()):
            dp = os.path.join(ctx.work, "dict-%s.dic" % name)
            open(dp, "w", newline="").write(text)
            c2 = dict(cfg, dict=dp)
            body = render([("gram", "jsgf", "ok"), ("start", "", "ok"), ("feed", "norm", "n"), ("end", "", "ok"), ("hyp", "0", "nullobj"),
                           ("lookup", "0", "obj"), ("lattice", "1", "nullobj"), ("nbestiter", "1", "nullobj")], c2, data,
                          with_probe=False)      # (another dictionary: its results are not comparable with the probe's)
            cases.append(("dict-shape-%s#%d" % (name, len(cases)), body))
        # lattices with several nodes starting in frame 0 (alternatives at the first position, with and without filler
        # words, wide beams), walked and abandoned
        for k, extra in enumerate([{"fsgusefiller": False}, {"fsgusefiller": False, "beam": 1e-80, "wbeam": 1e-60, "pbeam": 1e-80},
                                   {"beam": 1e-80, "wbeam": 1e-60, "pbeam": 1e-80}, {"fsgusealtpron": False, "fsgusefiller": False}]):
            c2 = dict(cfg, **extra)
            ops = [("gram", "jsgf", "ok"), ("start", "", "ok"), ("feed", "norm", "n"), ("lattice", "1", "nullobj"), ("nbestiter", "1", "nullobj"),
                   ("feed", "f32", "n"), ("nbestiter", "3", "nullobj"), ("end", "", "ok"), ("lattice", "0", "nullobj"), ("nbestiter", "1", "nullobj"),
                   ("lattice", "1", "nullobj"), ("start", "", "ok"), ("feed", "long", "n"), ("end", "", "ok"), ("nbestiter", "3", "nullobj")]
            cases.append(("lattice-starts-%d#%d" % (k, len(cases)), render(ops, c2, data, with_probe=False)))
        # one decoder switching between streaming and full-utterance calls, int16 and float32, short and long utterances
        # (each mode sizes the cepstrum ring and the feature buffer in its own way)
        modes = {"S": "feed gf2 0 60000 i16 0 0", "s": "feed gf 9000 5000 i16 0 0", "F": "feed gf 0 -1 i16 0 1", "f": "feed head 0 -1 i16 0 1",
                 "X": "feed gf2 0 -1 f32 0 1", "T": "feed gf2 2000 70000 f32 0 0", "B": "feed gf2 0 50000 i16 1 0", "L": "feed silgf 0 -1 i16 0 1"}
        for k, seq in enumerate(["SFS", "sFS", "SfT", "TFT", "BFB", "SXS", "FSF", "fSFTX", "LSF", "SLT", "sfSFXT"]):
            body = ["mark __case__"] + list(decmatrix.audio_defs()) + ["init " + decmatrix.hx(json.dumps(cfg)), "jsgf " + decmatrix.hx(JSGF_OK)]
            for m in seq:
                body += ["start", modes[m], "end", "result u", "call lattice 1 0", "call nbestiter 1 1"]
            body.append("free")
            cases.append(("mode-switch-%s#%d" % (seq, len(cases)), body))
        # results whose words are spelled with bytes that need care when they are formatted (JSON at every level,
        # mid-utterance and at the end, hypothesis string, segment iterator): quotes, backslashes, control and
        # non-ASCII bytes
        from checks import c14
        for k, name in enumerate(sorted(c14.HOSTILE)):
            _, hs = c14.hostile_case(random.Random(k), k, name)
            i = hs.index("end")
            hs = hs[:i] + ["json mid 0 2", "result mid"] + hs[i:]
            cases.append(("hostile-word-%s#%d" % (name, len(cases)), ["mark __case__"] + hs))
        # answers that change within one utterance: model histories (FsgSearchAbs) replace the search's history table
        # between queries, so a hypothesis with words is followed by one of fillers only or none, and back
        from checks import synhist
        gms, hs = synhist.export(ctx)
        scfg = {"hmm": os.path.join(sut.REPO, "model", "en-us"), "dict": os.path.join(sut.REPO, "tests", "data", "turtle.dic"),
                "loglevel": "FATAL"}
        for k in range(3 if ctx.tier == "quick" else 20):
            body = synhist.chained(random.Random(ctx.seed * 101 + k), gms, hs, 25, lambda tag: ["result " + tag, "json " + tag + " 0 0"], scfg)
            cases.append(("changing-answers#%d" % len(cases), ["mark __case__"] + body))
    by_id = dict(cases)
    # one process per tour, leak detection on: "after the last reference is released every allocation has been freed"
    chunks, crashes = decmatrix.run_cases(ctx, drv, cases, per_proc=1, split_on_mark="__case__", leaks=True, timeout=300)
    for eid, why in crashes:
        p = decmatrix.write_replay(ctx, "crash_" + eid, by_id[eid])
        rep.violation(runner.crash_key(why), "an API history crashed / leaked (%s): %s" % (eid, why), p)
    acc, fails, results = tracecheck.validate(SPEC, "ApiTrace.tla", "ApiTrace.cfg", chunks, ctx.work, timeout=1800, max_fail=12)
    for r in results:
        rep.add_tlc("ApiTrace", r, mode="trace-validation")
    rep.traces += acc
    for eid, ch in chunks:
        rep.evaluations += sum(1 for l in ch if l.startswith(('{"e":"Call"', '{"e":"Start"', '{"e":"Feed"', '{"e":"End"',
                                                              '{"e":"Grammar"', '{"e":"AddWord"')))
        if sum(1 for l in ch if '"cls":"obj"' in l) >= 2:
            rep.nontrivial.add(eid)
    for f in fails:
        script = by_id[f.exec_id]
        ev = json.loads(f.event) if f.event else {}
        prev = json.loads(f.prev_event) if f.prev_event else {}
        if f.clause == "return-class":
            # which call, and what the protocol expected: find the announced class
            key = "return-class:%s%s:expected-%s" % (ev.get("e", "?").lower(), (":" + ev.get("fn")) if ev.get("fn") else "",
                                                     prev.get("v", "?"))
        else:
            key = "api:%s" % (f.clause or "unknown-clause")
        p = decmatrix.write_replay(ctx, "reject_" + f.exec_id, script)
        rep.violation(key, "event %d of %s: %s (announced %s): %s" % (f.local_line, f.exec_id, f.clause, prev.get("v"), f.event.strip()[:300]), p)
    for eid, ch in chunks[:2]:
        rep.sample({"execution": eid, "calls": [l for l in by_id[eid] if not l.startswith(("audio", "mark", "init"))][:24]})
    rep.rule = ("executions = tours taking every (abstract state, call) edge of ApiImpl's graph (24 states and the freed one x 40 calls incl. freeing the decoder in every state, mid-utterance too, "
                "out-of-order calls, bad grammars/words, abandoned iterators, retained lattice/decoder), one process each under "
                "ASan+LSan with assertions on, each ending in a fixed probe utterance; non-trivial = execution in which >= 2 "
                "calls returned an object; plus config_* histories (every edge of ConfigImpl's graph and seeded random histories on "
                "the harness's and the standard parameter table), one process each under ASan+LSan, checked by ConfigTrace")
    rep.assumptions += ["grammar loading, word addition and re-initialisation are only issued between utterances (the protocol "
                        "the property describes)", "leaks are judged by LeakSanitizer at process exit after the driver freed "
                        "every decoder it created"]
