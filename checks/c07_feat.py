"""C07, stage "feat": what feat_s2mfc2feat_live computes (FeatValues.tla) from integer cepstra handed over in pieces.

Clause "count" - one feature frame per cepstral frame whatever the pieces - belongs to C07 (the number of frames
searched is the same in every case); clauses "values" / "window" are the extended specification of the feature
values (no listed property pins them: a change that alters every chunking alike is invisible to C07) and are
reported as notes."""
import os, random
from vlib import sut, tlc, tracecheck, runner

SPEC = os.path.join(sut.VERIF, "specs", "pipe")
TYPES = [("1s_c", 3), ("1s_c", 13), ("1s_c_d", 4), ("1s_c_d", 13), ("1s_c_d_dd", 3), ("1s_c_d_dd", 13), ("1s_c_d_ld_dd", 5),
         ("1s_c_d_ld_dd", 13), ("s3_1x39", 13), ("s2_4x", 13)]


MAXPIECE = 128      # what acmod.c hands over per call at most (ACMOD_STREAM_BLOCK)


def split_big(ps):
    out = []
    for k in ps:
        while k > MAXPIECE:
            out.append(MAXPIECE)
            k -= MAXPIECE
        out.append(k)
    return out


def pieces(rng, n):
    return split_big(pieces0(rng, n))


def pieces0(rng, n):
    kind = rng.choice(["one", "singles", "rand", "rand", "zeros", "first-small", "two"])
    if kind == "one" or n == 0:
        return [n]
    if kind == "singles":
        return [1] * n
    if kind == "two":
        k = rng.randint(0, n)
        return [k, n - k]
    if kind == "first-small":
        k = rng.choice([0, 1, 2, 3, 4])
        return [min(k, n), max(0, n - k)]
    out, left = [], n
    while left > 0:
        k = rng.choice([0, 0, 1]) if kind == "zeros" and rng.random() < 0.4 else rng.randint(0, min(left, rng.choice([3, 9, 40, 300])))
        out.append(k)
        left -= k
    if rng.random() < 0.3:
        out.append(0)          # the utterance is ended by an empty call
    return out


def run_stage(ctx):
    rep = ctx.report
    quick = ctx.tier == "quick"
    rng = random.Random(ctx.seed * 7368787 + 5)
    lines, ids = [], []
    lens = list(range(0, 13)) + [30, 100, 250, 255, 256, 257, 300] + ([] if quick else [511, 512, 513, 700])
    for (ty, cl) in TYPES:
        for n in lens:
            for rep_i in range(2 if quick else 8):
                if n > 100 and cl == 13 and quick and rep_i:
                    continue
                ps = pieces(rng, n)
                lines.append("utt %s %d %d %s" % (ty, cl, rng.randrange(1, 10 ** 6), " ".join(map(str, ps))))
                ids.append("feat-%s-%d-n%d#%d" % (ty, cl, n, len(ids)))
    # calls larger than the decoder ever makes: a call that both ends the utterance and brings more frames than the
    # live buffer takes computes the last `window' frames it emits from slots not yet written (the window added for
    # the end of the utterance is not taken back when the end is postponed) - an observation of the extended
    # specification, recorded in DESIGN.md; counted, not reported per case
    n_main = len(lines)
    for (ty, cl) in TYPES[::3]:
        for ps in ([1, 254], [3, 299], [260], [1, 253]):
            lines.append("utt %s %d %d %s" % (ty, cl, rng.randrange(1, 10 ** 6), " ".join(map(str, ps))))
            ids.append("feat-oversized-%s-%d#%d" % (ty, cl, len(ids)))
    lib, _ = sut.build_lib("asan")
    drv = sut.build_harness("feat_drv", ["feat/feat_drv.c"], lib)
    path = os.path.join(ctx.work, "feat.ndjson")
    r = runner.run(drv, [path], "\n".join(lines) + "\n", timeout=900, leaks=True)
    if r.crashed or r.rc != 0:
        p = os.path.join(ctx.replays, "feat_crash.script")
        open(p, "w").write("#feat\n" + "\n".join(lines) + "\n")
        rep.violation(runner.crash_key(r.why()), "feature computation driver crashed: %s" % r.why()[:500], p)
        return 0
    out = open(path).read().splitlines()
    if len(out) != len(lines):
        raise tlc.ModelError("feat_drv wrote %d events for %d utterances" % (len(out), len(lines)))
    chunks = [(ids[i], [out[i]]) for i in range(len(out))]
    acc, fails, res = tracecheck.validate(SPEC, "FeatTrace.tla", "FeatTrace.cfg", chunks, ctx.work, timeout=1800, max_fail=40,
                                          heap="6g")
    for x in res:
        rep.add_tlc("FeatTrace", x, mode="trace-validation")
    rep.traces += acc
    rep.evaluations += len(out)
    notes = []
    for f in fails:
        i = ids.index(f.exec_id)
        p = os.path.join(ctx.replays, "feat_reject_%s.script" % f.exec_id.replace("#", "_"))
        open(p, "w").write("#feat\n" + lines[i] + "\n")
        if f.clause == "count":
            rep.violation("feat:count", "feature computation, %s (%s): the number of feature frames is not the number of cepstral "
                          "frames: %s" % (f.exec_id, lines[i][:80], f.event[-60:]), p)
        elif f.exec_id.startswith("feat-oversized"):
            notes.append({"clause": f.clause, "execution": f.exec_id, "known_observation": "oversized final call"})
        else:
            print("NOTE: extended specification of the feature values (not a listed property): %s, clause %s (%s)" %
                  (f.exec_id, f.clause, lines[i][:80]))
            notes.append({"clause": f.clause, "execution": f.exec_id})
    rep.notes["feature_value_mismatches"] = notes
    rep.notes["feature_value_executions"] = len(lines)
    return len(lines)


def replay(ctx, path):
    rep = ctx.report
    lib, _ = sut.build_lib("asan")
    drv = sut.build_harness("feat_drv", ["feat/feat_drv.c"], lib)
    s = [l for l in open(path).read().split("\n") if l and not l.startswith("#")]
    out = os.path.join(ctx.work, "feat_replay.ndjson")
    r = runner.run(drv, [out], "\n".join(s) + "\n", timeout=300, leaks=True)
    if r.crashed or r.rc != 0:
        rep.violation(runner.crash_key(r.why()), "feature computation replay crashed: %s" % r.why()[:500], path)
        return
    lines = open(out).read().splitlines()
    acc, fails, res = tracecheck.validate(SPEC, "FeatTrace.tla", "FeatTrace.cfg", [("replay", lines)], ctx.work, heap="4g")
    rep.traces += acc
    for f in fails:
        if f.clause == "count":
            rep.violation("feat:count", "feature computation replay: frame count differs: %s" % f.event[-60:], path)
        else:
            print("NOTE: extended specification of the feature values: clause %s fails" % f.clause)
