"""Shared decode matrix for the decoder-level properties (C01 C03 C04 C07 C11 C12 C14).

A *case* is one self-contained script for harness/decoder/dec_drv.c: fresh decoder, grammar, one utterance
fed in some chunking with queries along the way.  Cases are generated from a seeded RNG over
  grammars  hand-written JSGF shapes + random JSGF ASTs + FSG files (bundled and random) + alignment texts
  audio     the bundled recording and variants (reversed, clipped, truncated, silence, noise, doubled, tiny)
  beams     default / narrow / wide
  chunking  one call, random pieces, tiny pieces, buffered (no_search) pieces, int16/float32 entry points
  queries   partial results between pieces, final results, and whatever the property asks (`want`)
"""
import json, os, re, random, concurrent.futures
from vlib import sut, runner, tlc

HOT = ["go", "forward", "backward", "ten", "meters", "meter", "two", "one", "the", "a", "turn", "left", "right",
       "stop", "three", "to", "and", "hello", "you", "what"]


def hx(s):
    return s.encode().hex() if s else "-"


def words_of_dict(path):
    ws = []
    for ln in open(path, errors="replace"):
        p = ln.split()
        if p and "(" not in p[0]:
            ws.append(p[0])
    return ws


# ---------------------------------------------------------------- grammars
FIXED_JSGF = [
    "public <s> = go forward ten meters;",
    "public <s> = go (forward | backward) (one | two | three | ten) [meter | meters];",
    "public <s> = [go] [forward] [ten] [meters];",
    "public <s> = (go | turn | stop)* ;",
    "public <s> = (go forward | go backward | go)+ ten meters;",
    "public <s> = <a> <b>; <a> = go | go forward; <b> = [ten] meters | forward ten meters;",
    "public <s> = go <s> | meters;",
    "public <s> = (go | <NULL>) forward (ten | <NULL>) [meters];",
    "public <s> = /2/ go forward ten meters | /1/ go backward two meters | /0.5/ stop;",
    "public <s> = go forward ten meters | go forward ten | go forward | go;",
    "public <s> = the (a | the)* go;",
    "public <s> = turn left | turn right | turn around;",
    "public <s> = (one | two | three)+;",
    "public <s> = [<NULL>];",
    "public <s> = go [forward [ten [meters]]];",
    "public <s> = <x>* meters; <x> = go | forward | ten;",
    "public <s> = a | the | to | and;",
    "public <s> = hello [you] | what;",
    # words with alternate pronunciations after longer words that begin with them (and / are / around ... a, then ... the,
    # tom ... to, seventeen ... seven): the alternates' arcs belong beside their own base word only
    "public <s> = (and | are | around) (go | forward) [a] ten meters;",
    "public <s> = then go forward (tom | ten) meters [the | to];",
    "public <s> = (around | and) [a] | then [the] go | tom to go;",
]


def rand_expr(rng, depth, words):
    r = rng.random()
    if depth == 0 or r < 0.30:
        return rng.choice(words)
    if r < 0.55:
        return " ".join(rand_expr(rng, depth - 1, words) for _ in range(rng.randint(2, 3)))
    if r < 0.75:
        alts = [rand_expr(rng, depth - 1, words) for _ in range(rng.randint(2, 3))]
        if rng.random() < 0.3:
            alts = ["/%g/ %s" % (rng.choice([1, 2, 0.5, 3]), a) for a in alts]
        return "( " + " | ".join(alts) + " )"
    if r < 0.87:
        return "[ " + rand_expr(rng, depth - 1, words) + " ]"
    if r < 0.94:
        return "( " + rand_expr(rng, depth - 1, words) + " )*"
    return "( " + rand_expr(rng, depth - 1, words) + " )+"


def rand_jsgf(rng):
    words = rng.sample(HOT, rng.randint(3, 8))
    if rng.random() < 0.6:
        for w in ("go", "forward", "ten", "meters"):
            if w not in words:
                words.append(w)
    if rng.random() < 0.4:
        body = "go forward " + rand_expr(rng, 2, words)
    else:
        body = rand_expr(rng, 3, words)
    if rng.random() < 0.3:
        sub = rand_expr(rng, 2, words)
        return "public <s> = %s <t> | %s; <t> = %s;" % (rng.choice(words), body, sub)
    return "public <s> = %s;" % body


def fsg_annotation(text):
    """the grammar a piece of FSG text describes, as the JSON members the driver copies into the Grammar event
    (n, start, final, arcs [from, to, word or "", 0]): what the user wrote, independent of the reader"""
    n = start = final = 0
    arcs = []
    for ln in text.split("\n"):
        t = ln.split()
        if not t:
            continue
        if t[0] in ("NUM_STATES", "N"):
            n = int(t[1])
        elif t[0] in ("START_STATE", "S"):
            start = int(t[1])
        elif t[0] in ("FINAL_STATE", "F"):
            final = int(t[1])
        elif t[0] in ("TRANSITION", "T"):
            # (results are reported with alternate-pronunciation markers removed: label = base form)
            arcs.append([int(t[1]), int(t[2]), re.sub(r"\(\d+\)$", "", t[4]) if len(t) > 4 else "", 0])
    return '"n":%d,"start":%d,"final":%d,"arcs":%s' % (n, start, final, json.dumps(arcs))


def rand_fsg_text(rng, name="g"):
    n = rng.randint(2, 7)
    words = rng.sample(HOT, rng.randint(2, 6)) + ["go", "forward"]
    if rng.random() < 0.3:          # spellings the dictionary also has in another case or as a numbered variant
        words += rng.sample(["A", "THE", "a(2)", "the(2)", "to(3)", "what(2)", "hello(2)"], 2)
    arcs = []
    # a backbone so that the final state is usually reachable
    if rng.random() < 0.85:
        for s in range(n - 1):
            arcs.append((s, s + 1, rng.choice([1.0, 0.5, 0.9]), rng.choice(words + [None])))
    for _ in range(rng.randint(1, 8)):
        f, t = rng.randrange(n), rng.randrange(n)
        w = rng.choice(words + [None])
        if w is None and f == t:
            continue
        arcs.append((f, t, rng.choice([1.0, 0.5, 0.25, 0.1]), w))
    # (the start state need not be state 0, nor the final state the last one)
    if rng.random() < 0.35:
        perm = list(range(n))
        rng.shuffle(perm)
        arcs = [(perm[f], perm[t], p, w) for f, t, p, w in arcs]
        st, fi = perm[0], perm[n - 1]
    else:
        st, fi = 0, n - 1
    out = ["FSG_BEGIN %s" % name, "NUM_STATES %d" % n, "START_STATE %d" % st, "FINAL_STATE %d" % fi]
    for f, t, p, w in arcs:
        out.append("TRANSITION %d %d %g%s" % (f, t, p, " " + w if w else ""))
    out.append("FSG_END")
    return "\n".join(out) + "\n"


ALIGN_TEXTS = ["go forward ten meters", "go forward", "go", "go backward two meters", "ten meters go forward",
               "hello", "go forward ten meters go forward ten meters", "stop", "a", "the the the",
               "go  forward\tten\nmeters", "one two three"]


# grammars written as FSG text whose words exist in the dictionary in another case, or are numbered pronunciation
# variants the text names itself (both added at run time first): the reader must keep the spellings apart, and
# results are reported under the base form
VARIANT_WORDS = [("TEN", "T EH N"), ("GO", "G OW"), ("ten(2)", "T EH N"), ("meters(2)", "M IY T ER Z"), ("forward(2)", "F AO R W ER D")]
FIXED_FSG_VARIANTS = [
    "FSG_BEGIN v\nNUM_STATES 6\nSTART_STATE 0\nFINAL_STATE 5\nTRANSITION 0 5 0.5 ten\nTRANSITION 0 1 0.5 go\n"
    "TRANSITION 1 2 1.0 forward\nTRANSITION 2 3 1.0 TEN\nTRANSITION 3 5 1.0 meters\nFSG_END\n",
    "FSG_BEGIN v\nNUM_STATES 5\nSTART_STATE 0\nFINAL_STATE 4\nTRANSITION 0 1 1.0 GO\nTRANSITION 1 2 1.0 forward\n"
    "TRANSITION 2 3 1.0 ten\nTRANSITION 3 4 1.0 meters\nTRANSITION 0 4 0.1 go\nFSG_END\n",
    "FSG_BEGIN v\nNUM_STATES 5\nSTART_STATE 0\nFINAL_STATE 4\nTRANSITION 0 1 1.0 go\nTRANSITION 1 2 1.0 forward\n"
    "TRANSITION 2 3 1.0 ten(2)\nTRANSITION 3 4 1.0 meters\nFSG_END\n",
    "FSG_BEGIN v\nNUM_STATES 5\nSTART_STATE 0\nFINAL_STATE 4\nTRANSITION 0 1 1.0 go\nTRANSITION 1 2 1.0 forward(2)\n"
    "TRANSITION 2 3 0.5 ten\nTRANSITION 2 3 0.5 ten(2)\nTRANSITION 3 4 1.0 meters(2)\nFSG_END\n",
]
VARIANT_ALIGN = ["go forward ten(2) meters", "GO forward TEN meters(2)"]


def variant_grammars():
    """every directed variant / case grammar once: [(script lines, kind)]"""
    out = []
    for k, txt in enumerate(FIXED_FSG_VARIANTS):
        out.append((variant_prelude() + ["fsgtext " + hx(txt) + " " + hx(fsg_annotation(txt))], "fsg-variants%d" % k))
    for k, txt in enumerate(VARIANT_ALIGN):
        out.append((variant_prelude() + ["align " + hx(txt)], "align-variants%d" % k))
    return out


def variant_prelude():
    return ["addword %s %s 0" % (w.encode().hex(), p.encode().hex()) for w, p in VARIANT_WORDS]


def pick_grammar(rng, ctx, idx, valid_only=False):
    """returns list of script lines that set a grammar"""
    r = rng.random()
    data = os.path.join(sut.REPO, "tests", "data")
    if r < 0.03:
        # a start rule chosen by configuration (toprule): public or not, it is the rule whose language counts
        g = ("#JSGF V1.0;\ngrammar g;\npublic <move> = go forward ten meters | stop;\n<back> = go backward (one | two | ten) meters;\n"
             "<short> = (go | turn) (left | right);\n")
        return ["toprule " + hx(rng.choice(["g.back", "g.short", "g.move"])), "jsgf " + hx(g), "toprule -"], "jsgf-toprule"
    if r < 0.07:
        if rng.random() < 0.7:
            txt = rng.choice(FIXED_FSG_VARIANTS)
            return variant_prelude() + ["fsgtext " + hx(txt) + " " + hx(fsg_annotation(txt))], "fsg-variants"
        return variant_prelude() + ["align " + hx(rng.choice(VARIANT_ALIGN))], "align-variants"
    if r < 0.30:
        return ["jsgf " + hx("#JSGF V1.0;\ngrammar g;\n" + rng.choice(FIXED_JSGF) + "\n")], "jsgf-fixed"
    if r < 0.55:
        return ["jsgf " + hx("#JSGF V1.0;\ngrammar g;\n" + rand_jsgf(rng) + "\n")], "jsgf-rand"
    if r < 0.62:
        return ["fsgfile " + os.path.join(data, rng.choice(["goforward.fsg", "goforward2.fsg"] + ([] if valid_only else ["goforward3.fsg"])))], "fsg-file"
    if r < 0.80:
        txt = rand_fsg_text(rng)
        # (case variants exist only as run-time additions; they come before the grammar)
        pre = ["addword %s %s 0" % (w.encode().hex(), p.encode().hex()) for w, p in (("A", "EY"), ("THE", "DH AH")) if " " + w + "\n" in txt]
        return pre + ["fsgtext " + hx(txt) + " " + hx(fsg_annotation(txt))], "fsg-rand"
    return ["align " + hx(rng.choice(ALIGN_TEXTS))], "align"


# ---------------------------------------------------------------- audio
def audio_defs():
    gf = os.path.join(sut.REPO, "tests", "data", "goforward.raw")
    gff = os.path.join(sut.REPO, "tests", "data", "goforward-float32.raw")
    return [
        "audio gf file %s 0 i16" % gf,
        "audio gff file %s 0 f32" % gff,
        "audio rev reverse gf",
        "audio clip clip gf 800",
        "audio quiet clip gf 5",
        "audio sil silence 16000",
        "audio noise noise 20000 7 3000",
        "audio gf2 cat gf gf",
        "audio head slice gf 0 12000",
        "audio mid slice gf 7000 14000",
        "audio cut slice gf 0 21000",
        "audio cut20 slice gf 0 20000",
        "audio tail slice gf 20000 -1",
        "audio t0 slice gf 0 0",
        "audio t1 slice gf 8000 100",
        "audio t2 slice gf 8000 410",
        "audio t3 slice gf 8000 600",
        "audio t4 slice gf 8000 1100",
        "audio t5 slice gf 8000 2500",
        "audio nsil cat noise sil",
        "audio silgf cat sil gf",
        # runs of exactly-zero samples (drop-outs, zero padding) inside and around speech: frames without energy
        "audio z16 silence 1600",
        "audio zhead cat z16 head",
        "audio hz cat head z16",
        "audio hzh cat hz mid",
    ]


AUDIO_LEN = {"gf": 44580, "gff": 57344, "rev": 44580, "clip": 44580, "quiet": 44580, "sil": 16000, "noise": 20000,
             "gf2": 89160, "head": 12000, "mid": 14000, "cut": 21000, "cut20": 20000, "tail": 24580, "t0": 0, "t1": 100, "t2": 410,
             "t3": 600, "t4": 1100, "t5": 2500, "nsil": 36000, "silgf": 60580, "z16": 1600, "zhead": 13600, "hz": 13600, "hzh": 27600}
AUDIO_WEIGHTS = [("gf", 8), ("rev", 2), ("clip", 2), ("quiet", 1), ("sil", 1), ("noise", 1), ("gf2", 1), ("head", 2),
                 ("mid", 2), ("cut", 3), ("tail", 2), ("t0", 1), ("t1", 1), ("t2", 1), ("t3", 1), ("t4", 1), ("t5", 1),
                 ("nsil", 1), ("silgf", 1), ("gff", 1), ("zhead", 1), ("hzh", 1)]

BEAMS = {
    "default": {},
    "narrow": {"beam": 1e-10, "wbeam": 1e-5, "pbeam": 1e-10},
    "wide": {"beam": 1e-80, "wbeam": 1e-60, "pbeam": 1e-80},
}


def chunking(rng, name, mode):
    """list of (off, n, enc, no_search, full)"""
    n = AUDIO_LEN[name]
    if mode == "one":
        return [(0, n, rng.choice(["i16", "f32"]), 0, rng.choice([0, 0, 1]))]
    out, off = [], 0
    hi = {"tiny": 700, "small": 5000, "big": 30000}[mode]
    while off < n:
        k = min(n - off, rng.randint(0, hi))
        out.append((off, k, rng.choice(["i16", "i16", "f32"]), 1 if rng.random() < 0.15 else 0, 0))
        off += k
        if len(out) > 400:
            out.append((off, n - off, "i16", 0, 0))
            break
    return out


FR_WORDS = ["avance", "recule", "tourne", "gauche", "droite", "avancer", "dix", "deux", "trois", "un", "et", "à", "mètres", "stop",
            "le", "la", "oui", "non"]
FR_JSGF = ["public <s> = (avance | recule) [de] (un | deux | trois | dix) mètres;",
           "public <s> = (tourne | avance | recule | stop)+ ;",
           "public <s> = tourne à (gauche | droite) [et avance];",
           "public <s> = [oui | non] (le | la)* stop;",
           "public <s> = avance <n> mètres | recule; <n> = un | deux | trois | dix | <NULL>;"]
FR_ALIGN = ["avance de dix mètres", "tourne à gauche", "oui", "stop stop stop"]


def french_dict(ctx):
    """a small dictionary for the French model, cut out of the bundled one (written once per run)"""
    path = os.path.join(ctx.work, "fr-matrix.dic")
    if not os.path.exists(path):
        want = set(FR_WORDS + ["de"])
        with open(os.path.join(sut.REPO, "model", "fr-fr", "dict.txt"), encoding="utf-8") as f, open(path, "w", encoding="utf-8") as o:
            for ln in f:
                w = ln.split(" ", 1)[0]
                if w.split("(")[0] in want:
                    o.write(ln)
    return path


def make_case(rng, ctx, idx, want, opts=None):
    """want: set of {"result","partial","lattice","nbest","alignment","json"}"""
    opts = opts or {}
    cfg = {"hmm": os.path.join(sut.REPO, "model", "en-us"),
           "dict": os.path.join(sut.REPO, "tests", "data", "turtle.dic"), "loglevel": "FATAL"}
    # one case in twelve runs on the other bundled model (another phone inventory, other model sizes)
    french = "grammar" not in opts and not opts.get("english_only") and rng.random() < 0.085
    if french:
        cfg.update({"hmm": os.path.join(sut.REPO, "model", "fr-fr"), "dict": french_dict(ctx)})
        if rng.random() < 0.7:
            opts = dict(opts, grammar=(["jsgf " + hx("#JSGF V1.0;\ngrammar g;\n" + rng.choice(FR_JSGF) + "\n")], "jsgf-fr"))
        else:
            opts = dict(opts, grammar=(["align " + hx(rng.choice(FR_ALIGN))], "align-fr"))
    beam = rng.choice(["default", "default", "narrow", "wide"])
    cfg.update(BEAMS[beam])
    cfg.update(opts.get("config", {}))
    gl, gkind = opts.get("grammar") or pick_grammar(rng, ctx, idx)
    names, weights = zip(*AUDIO_WEIGHTS)
    aud = opts.get("audio") or rng.choices(names, weights)[0]
    mode = opts.get("chunking") or rng.choice(["one", "one", "small", "small", "tiny", "big"])
    if AUDIO_LEN[aud] > 50000 and mode == "tiny":
        mode = "small"
    s = list(audio_defs())
    s.append("init " + hx(json.dumps(cfg)))
    s += gl
    # about one case in seven runs on synthetic acoustics: the scorer's output is replaced by a seeded function of
    # (frame, senone) - dense random costs, all-equal costs (ties everywhere), or a few cheap senones among dear ones
    synth = None
    if rng.random() < 0.15 and not opts.get("no_synth"):
        synth = rng.choice(["hash", "hash", "sparse", "flat"])
        s.append("senmode %s %d %d" % (synth, rng.randrange(1, 10 ** 6), rng.choice([40, 300, 1500, 6000])))
    s.append("start")
    pieces = chunking(rng, aud, mode)
    np_ = 0
    for i, (off, n, enc, ns, full) in enumerate(pieces):
        s.append("feed %s %d %d %s %d %d" % (aud, off, n, enc, ns, full))
        if "partial" in want and rng.random() < (0.5 if len(pieces) < 12 else 0.08):
            np_ += 1
            s.append("result p%d" % np_)
            if "nbest" in want and rng.random() < 0.3:       # an interim N-best list (builds a lattice on the way)
                s.append("nbest p%d %d 1" % (np_, rng.choice([2, 5])))
            if "lattice" in want and rng.random() < 0.5:
                s.append("lattice p%d %d" % (np_, 1 if "latscores" in want else 0))
            if "alignment" in want and rng.random() < 0.4:
                s.append("alignment p%d" % np_)
            if "json" in want and rng.random() < 0.5:
                s.append("json p%d %d %d" % (np_, rng.choice([0, 1500, 1234567, 100000123, 899999999]), rng.choice([0, 1, 2])))
    s.append("end")
    s.append("result fin")
    nb_first = "nbest" in want and rng.random() < 0.5     # the N-best list asked before anything fetched the final lattice
    if nb_first:
        s.append("nbest fin %d 1" % rng.choice([3, 10, 40]))
    if "lattice" in want:
        s.append("lattice fin %d" % (1 if "latscores" in want else 0))
    if "nbest" in want and not nb_first:
        s.append("nbest fin %d 1" % rng.choice([3, 10, 40]))
    if "alignment" in want:
        s.append("alignment fin")
    if "json" in want:
        for lvl in (0, 1, 2):
            s.append("json fin %d %d" % (rng.choice([0, 1500, 1234567, 100000123, 899999999]), lvl))
    s.append("free")
    eid = "%s-%s-%s-%s%s#%d" % (gkind, aud, beam, mode, ("-" + synth) if synth else "", idx)
    return eid, s


def run_cases(ctx, drv, cases, jobs=14, per_proc=12, timeout=600, leaks=False, split_on_mark=None):
    """Execute cases on the real decoder, `per_proc` per harness process, processes in parallel.
    Returns (chunks, crashes): chunks = [(eid, [trace lines])], crashes = [(eid, why)]."""
    batches = [cases[i:i + per_proc] for i in range(0, len(cases), per_proc)]

    def split(path, n_expected):
        chunks, cur = [], None
        start = '{"e":"Header"' if not split_on_mark else '{"e":"Mark","v":"%s"' % split_on_mark
        if split_on_mark == "__case__":
            start = '{"e":"Mark","v":"__case__"'
        for ln in open(path):
            if ln.startswith(start):
                cur = []
                chunks.append(cur)
            if cur is not None:
                cur.append(ln)
        return chunks

    def do(bi_batch):
        bi, batch = bi_batch
        path = os.path.join(ctx.work, "dec_%d_%d.ndjson" % (os.getpid(), bi))
        text = "\n".join("\n".join(s) for _, s in batch) + "\n"
        r = runner.run(drv, [path], text, timeout=timeout, leaks=leaks)
        res, crashes = [], []
        if r.rc == 0:
            ch = split(path, len(batch))
            os.unlink(path)
            if len(ch) != len(batch):
                raise tlc.ModelError("dec_drv wrote %d executions for %d cases" % (len(ch), len(batch)))
            return [(eid, c) for (eid, _), c in zip(batch, ch)], []
        if os.path.exists(path):
            os.unlink(path)
        if r.rc == 3:
            raise tlc.ModelError("dec_drv rejected its script: " + r.err[-500:])
        # a crash: run one case per process to attribute it
        for k, (eid, s) in enumerate(batch):
            p2 = path + ".%d" % k
            r2 = runner.run(drv, [p2], "\n".join(s) + "\n", timeout=timeout, leaks=leaks)
            if r2.rc == 0:
                ch = split(p2, 1)
                res.append((eid, ch[0]))
            else:
                if r2.rc == 3:
                    raise tlc.ModelError("dec_drv rejected its script: " + r2.err[-500:])
                crashes.append((eid, r2.why()))
                # a leak is only reported when the process exits: the execution itself is complete and is
                # still validated
                if "LeakSanitizer" in r2.err and "AddressSanitizer:" not in r2.err.replace("SUMMARY: AddressSanitizer", ""):
                    ch = split(p2, 1)
                    if ch:
                        res.append((eid, ch[0]))
            if os.path.exists(p2):
                os.unlink(p2)
        return res, crashes

    chunks, crashes = [], []
    with concurrent.futures.ThreadPoolExecutor(max_workers=jobs) as ex:
        for res, cr in ex.map(do, list(enumerate(batches))):
            chunks += res
            crashes += cr
    return chunks, crashes


def build_driver():
    libdir, _ = sut.build_lib("asan")
    return sut.build_harness("dec_drv", ["decoder/dec_drv.c"], libdir, wraps=("acmod_score", "__ckd_calloc__"))


def filter_events(chunk, keep):
    """keep only the event types a trace specification knows"""
    out = []
    for ln in chunk:
        # cheap test on the line prefix: {"e":"Name",
        name = ln[6:ln.index('"', 6)]
        if name in keep:
            out.append(ln)
    return out


def write_replay(ctx, name, lines):
    p = os.path.join(ctx.replays, name.replace("#", "_").replace("/", "_") + ".script")
    with open(p, "w") as f:
        f.write("\n".join(lines) + "\n")
    return p
