"""C14 - the JSON result is well-formed and says what the iterators say.

  - JsonSizeImpl.tla: the two-pass (count, then write) bookkeeping of decoder_result_json, every result shape;
  - the real decoder's JSON lines (levels 0/1/2, partial and final, empty results, start offsets, frame rates,
    hostile spellings added to the dictionary) are parsed by TLC with the RFC 8259 acceptor JsonSyntax.tla and
    compared field by field with the hypothesis / segmentation / alignment interfaces (JsonTrace.tla).
"""
import json, os, random
from vlib import sut, tlc, tracecheck, runner
from checks import decmatrix

SPEC = os.path.join(sut.VERIF, "specs", "json")
KEEP = {"Header", "Json"}

# spellings the dictionary accepts (anything without blanks); name -> bytes
HOSTILE = {
    "quote": b'go"x', "backslash": b"go\\x", "backslash-n": b"a\\nb", "control": b"go\x01x", "tab-like": b"go\x1fx",
    "utf8": "gö".encode(), "latin1": b"g\xf6", "brace": b"{go}", "quote-only": b'"', "bs-end": b"go\\",
    "slash": b"go/x", "u-escape": b"\\u0041", "plain": b"gox",
}


def hostile_case(rng, idx, name):
    w = HOSTILE[name]
    cfg = {"hmm": os.path.join(sut.REPO, "model", "en-us"),
           "dict": os.path.join(sut.REPO, "tests", "data", "turtle.dic"), "loglevel": "FATAL"}
    s = list(decmatrix.audio_defs())
    s.append("init " + decmatrix.hx(json.dumps(cfg)))
    s.append("addword %s %s 1" % (w.hex(), b"G OW".hex()))
    fsg = b"FSG_BEGIN h\nNUM_STATES 3\nSTART_STATE 0\nFINAL_STATE 2\nTRANSITION 0 1 1.0 " + w + \
          b"\nTRANSITION 1 2 1.0 forward\nFSG_END\n"
    s.append("fsgtext " + fsg.hex())
    s.append("start")
    s.append("feed cut 0 -1 i16 0 0")
    s.append("end")
    for lvl in (0, 1, 2):
        s.append("json fin %d %d" % (rng.choice([0, 1500]), lvl))
    s.append("free")
    return "hostile-%s#%d" % (name, idx), s


LONG_PRONS = {8: "G OW F AO R W ER D", 9: "G OW F AO R W ER D T", 12: "G OW F AO R W ER D T EH N M",
              14: "G OW F AO R W ER D T EH N M IY T", 7: "G OW F AO R W ER"}


def long_word_case(rng, idx, nph):
    """a result whose LAST aligned word has many phones (the per-phone bookkeeping of the formatter adds up)"""
    cfg = {"hmm": os.path.join(sut.REPO, "model", "en-us"),
           "dict": os.path.join(sut.REPO, "tests", "data", "turtle.dic"), "loglevel": "FATAL"}
    w = b"longword%d" % nph
    s = list(decmatrix.audio_defs())
    s.append("init " + decmatrix.hx(json.dumps(cfg)))
    s.append("addword %s %s 1" % (w.hex(), LONG_PRONS[nph].encode().hex()))
    s.append("align " + w.hex())
    s.append("start")
    aud = rng.choice(["cut", "head", "mid"])
    n = decmatrix.AUDIO_LEN[aud]
    off = 0
    while off < n:
        k = min(n - off, rng.randint(1500, 6000))
        s.append("feed %s %d %d i16 0 0" % (aud, off, k))
        off += k
        s.append("json p%d %d %d" % (off, rng.choice([0, 1500]), rng.choice([1, 2])))
    s.append("end")
    for lvl in (0, 1, 2):
        s.append("json fin 0 %d" % lvl)
    s.append("free")
    return "long-word-%d#%d" % (nph, idx), s


def two_utterance_case(rng, idx):
    """two utterances on one decoder; in the second (longer) one, alignment-level JSON is requested frame by frame
    around the frame count at which the first one ended (anything cached from the first utterance must not
    resurface)"""
    cfg = {"hmm": os.path.join(sut.REPO, "model", "en-us"),
           "dict": os.path.join(sut.REPO, "tests", "data", "turtle.dic"), "loglevel": "FATAL"}
    s = list(decmatrix.audio_defs())
    s.append("init " + decmatrix.hx(json.dumps(cfg)))
    s.append("align " + decmatrix.hx("go forward ten meters"))
    a1, n1 = "gf", decmatrix.AUDIO_LEN["gf"]
    s += ["start", "feed %s 0 -1 i16 0 0" % a1, "end", "json u1 0 %d" % rng.choice([1, 2])]
    frames1 = 1 + (n1 - 410) // 160 + 1
    # second utterance: silence + the recording (longer than the first); one frame per call around the point
    # where as many frames have been searched as the first utterance had in total
    a2 = "silgf"
    lead = 410 + (frames1 - 12) * 160
    s += ["start", "feed %s 0 %d i16 0 0" % (a2, lead)]
    off = lead
    lvl = rng.choice([1, 2])
    for k in range(24):
        s.append("feed %s %d 160 i16 0 0" % (a2, off))
        off += 160
        # the FIRST alignment-level request of this utterance comes exactly when as many frames have been
        # searched as the first utterance had (the decoder's "nothing has changed" test looks at that count)
        s.append("if %d json u2hit 0 %d" % (frames1, lvl))
    s += ["feed %s %d -1 i16 0 0" % (a2, off), "end", "json u2fin 0 1", "free"]
    return "two-utterances#%d" % idx, s


def classify(f):
    clause = f.clause or "unknown-clause"
    try:
        ev = json.loads(f.event)
        raw = bytes(ev.get("bytes", []))
        if clause in ("syntax", "text-is-hypothesis", "entries"):
            # which kind of byte in a word spelling was written without escaping?
            words = [bytes(ev["hyp"])] + [bytes(v["t"]) for v in ev.get("view", [])]
            kinds = set()
            for w in words:
                if b'"' in w:
                    kinds.add("quote")
                if b"\\" in w:
                    kinds.add("backslash")
                if any(c < 32 for c in w):
                    kinds.add("control")
            if kinds:
                return "json:%s:unescaped-%s" % (clause, "+".join(sorted(kinds)))
        return "json:" + clause
    except Exception:
        return "json:" + clause


def model_check(ctx, quick):
    rep = ctx.report
    r = tlc.run("JsonSizeImpl.tla", "JsonSizeImpl.cfg", SPEC, workers=8, timeout=900, coverage=True)
    if r.violated:
        raise tlc.ModelError("JsonSizeImpl violates %s:\n%s" % (r.violated, r.out[-2500:]))
    for act in ("CountPiece", "WritePiece", "Finish"):
        if r.coverage.get(act, (0, 0))[0] == 0:
            raise tlc.ModelError("vacuous: action %s never taken in JsonSizeImpl" % act)
    rep.add_tlc("JsonSizeImpl.tla/JsonSizeImpl.cfg", r)


def run(ctx):
    rep = ctx.report
    quick = ctx.tier == "quick"
    rng = random.Random(ctx.seed * 15485863 + 14)
    drv = decmatrix.build_driver()
    if ctx.replay:
        cases = [("replay", [l for l in open(ctx.replay).read().split("\n") if l])]
    else:
        model_check(ctx, quick)
        n = 70 if quick else 900
        cases = []
        for i in range(n):
            opts = {}
            r = rng.random()
            if r < 0.25:
                opts["config"] = {"frate": rng.choice([50, 200, 60, 90, 150, 125])}     # (60, 90, 150: the frame shift is not a whole number of samples)
            cases.append(decmatrix.make_case(rng, ctx, i, {"result", "partial", "json", "alignment"}, opts))
        for j, name in enumerate(sorted(HOSTILE)):
            cases.append(hostile_case(rng, n + j, name))
        for j, nph in enumerate(sorted(LONG_PRONS)):
            cases.append(long_word_case(rng, n + 100 + j, nph))
        for j in range(4 if quick else 30):
            cases.append(two_utterance_case(rng, n + 200 + j))
    by_id = dict(cases)
    chunks, crashes = decmatrix.run_cases(ctx, drv, cases)
    for eid, why in crashes:
        p = decmatrix.write_replay(ctx, "crash_" + eid, by_id[eid])
        rep.violation(runner.crash_key(why), "decoder crashed while formatting a result (%s): %s" % (eid, why), p)
    fch = [(eid, decmatrix.filter_events(ch, KEEP)) for eid, ch in chunks]
    acc, fails, results = tracecheck.validate(SPEC, "JsonTrace.tla", "JsonTrace.cfg", fch, ctx.work, timeout=2400,
                                              max_fail=20, heap="8g")
    for r in results:
        rep.add_tlc("JsonTrace", r, mode="trace-validation")
    rep.traces += acc
    for eid, ch in fch:
        for ln in ch:
            if ln.startswith('{"e":"Json"'):
                rep.evaluations += 1
                ev = json.loads(ln)
                if not ev["null"] and len(ev["view"]) >= 2:
                    rep.nontrivial.add((ev["level"], bytes(ev["bytes"])))
                    if ev["level"] == 0 and len(ev["bytes"]) < 400:
                        rep.sample({"execution": eid, "level": 0, "start_ms": ev["start_ms"],
                                    "json": bytes(ev["bytes"]).decode(errors="replace"),
                                    "view": [[bytes(v["t"]).decode(errors="replace"), v["s"], v["d"], v["pm"]] for v in ev["view"]]},
                                   cap=3)
    for f in fails:
        c2, cr2 = decmatrix.run_cases(ctx, drv, [(f.exec_id, by_id[f.exec_id])])
        f2 = []
        if c2:
            _, f2, _ = tracecheck.validate(SPEC, "JsonTrace.tla", "JsonTrace.cfg",
                                           [(e, decmatrix.filter_events(c, KEEP)) for e, c in c2], ctx.work)
        if not f2 and not cr2:
            continue
        p = decmatrix.write_replay(ctx, "reject_" + f.exec_id, by_id[f.exec_id])
        rep.violation(classify(f), "event %d of %s: JSON line breaks clause %s: %s" %
                      (f.local_line, f.exec_id, f.clause, bytes(json.loads(f.event).get("bytes", [])).decode(errors="replace")[:300]), p)
    rep.rule = ("JSON lines of the decode matrix (partial/final/empty results, levels 0-2, start offsets 0/1.5/1234.567 s, "
                "frame rates 50/100/200) + one execution per hostile spelling added with decoder_add_word; non-trivial = "
                "distinct (level, JSON bytes) with >= 2 list entries")
    rep.assumptions += ["numbers are compared in integer thousandths with a tolerance of one thousandth (binary rounding of %.3f)",
                        "byte-level UTF-8 validity of spellings is not demanded, only JSON structure and string escaping",
                        "the allocation size is observed by a linker wrap of __ckd_calloc__ called from decoder.c"]
