"""C15 - endpointed speech segments are exact excerpts with consistent timestamps.

  1. TLC, exhaustive: the sentences of the property, phrased on the stream alone, hold for the FIFO
     machine of EndpointerAbs (MC_abs); EndpointerImpl (ps_endpointer.c transcribed: ring arrays, pos, n,
     qstart, timestamp, ep_push/ep_pop/ep_speech_count/ep_linearize/end_stream) refines EndpointerAbs and
     never leaves the ring -- for the repaired ep_speech_count (MC_fix_*); the transcription of the loop as
     it stands refines EndpointerAbs up to the step where it reads one past the ring (MC_asis_*), and TLC's
     shortest counterexample to NoOob (MC_oob_*) is replayed on the real code.
  2. spec -> code: every decision sequence up to a length, ended at every point with a trailing frame
     of 0 / 1 / frame_size samples, on real configurations with windows of 3..5 frames; edge tours of the
     complete Layer-A state graph of the default configuration (window 10) and of a 44.1 kHz one (window 6);
     seeded run-structured decision sequences on larger windows.  Decisions are scripted through
     --wrap=vad_classify; every frame carries unique content so that byte identity is checked by memcmp.
  3. code -> spec: the same harness with the real WebRTC classifier on the bundled recordings,
     concatenations, noise and near-silence, several configurations, ended at many points.
  4. Every recorded execution is validated call by call by TLC against EndpointerAbs (EndpointerTrace).
"""
import os, json, random, itertools, re, time, concurrent.futures
from vlib import sut, tlc, tours, tracecheck, runner

SPEC = os.path.join(os.path.dirname(os.path.dirname(os.path.abspath(__file__))), "specs", "endpointer")
NOTE = ("-noGenerateSpecTE",)
KNOWN_OOB_KEY = "oob-read:ep_speech_count:partly-filled-queue-head-at-last-slot"

# name -> (win_ms, ratio_pm, vad mode, sample rate, frame length ms, default bits)
CONFIGS = {
    "m3-r70": (90, 700, 0, 16000, 30, 0),        # window 3: open > 2, close < 1
    "m3-r50": (90, 500, 1, 16000, 30, 0),        # window 3: open > 1, close < 2
    "m3-r60": (90, 600, 0, 16000, 30, 0),        # window 3: open > 1, close < 1
    "m4-r75": (120, 750, 0, 16000, 30, 0),       # window 4: open > 3, close < 1
    "m4-r50": (120, 500, 2, 16000, 30, 0),       # window 4: open > 2, close < 2
    "m4-8k10": (40, 600, 0, 8000, 10, 0),        # 80-sample frames, window 4: open > 2, close < 2
    "m5-32k20": (100, 800, 3, 32000, 20, 0),     # 640-sample frames, window 5: open > 4, close < 1
    "m5-48k30": (150, 700, 0, 48000, 30, 0),     # 1440-sample frames, window 5: open > 3, close < 2
    "default": (300, 900, 0, 16000, 30, 15),     # everything passed as 0: window 10, open > 9, close < 1
    "m6-44k": (200, 500, 0, 44100, 30, 0),       # closest rate 48000, 1440-sample frames of 32.65 ms, window 6
    "m14-11k": (300, 900, 1, 11025, 30, 0),      # closest rate 8000, 240-sample frames of 21.8 ms, window 14
    "m20-r85": (200, 850, 2, 16000, 10, 0),      # 160-sample frames, window 20: open > 17, close < 3
    "m7-r70": (210, 700, 3, 16000, 30, 0),       # window 7: open > 4, close < 2
    "m16-r50": (480, 500, 0, 16000, 30, 0),      # window 16: open > 8, close < 8
    # windows that are NOT a whole number of frames (the initialiser rounds the window to frames first and derives
    # the thresholds from the rounded length): 2.5 -> 3, 3.5 -> 4, 4.5 -> 5, 11.67 -> 12 frames
    "m3-f75": (75, 700, 0, 16000, 30, 0),        # window 3: open > 2, close < 1   (from 2.5 frames: > 1)
    "m4-f105": (105, 750, 1, 16000, 30, 0),      # window 4: open > 3, close < 1   (from 3.5: > 2)
    "m5-f135": (135, 600, 0, 16000, 30, 0),      # window 5: open > 3, close < 2   (from 4.5: > 2)
    "m12-f350": (350, 500, 2, 16000, 30, 0),     # window 12: open > 6, close < 6  (from 11.67: > 5)
    "m4-f130": (130, 700, 0, 16000, 30, 0),      # window 4 (from 4.33): open > 2  (from 4.33: > 3)
    # ratios BELOW one half: the closing threshold lies above the opening one, so a segment a few speech frames opened
    # must close again at once unless the window has filled up with speech meanwhile
    "m4-r25": (120, 250, 0, 16000, 30, 0),       # window 4: open > 1, close < 3
    "m5-r30": (150, 300, 1, 16000, 30, 0),       # window 5: open > 1, close < 4
    "m10-r30": (300, 300, 0, 16000, 30, 0),      # window 10: open > 3, close < 7
    "m15-r20-32k": (450, 200, 2, 32000, 30, 0),  # 960-sample frames, window 15: open > 3, close < 12
}


def exec_line(eid_num, mode, cfg, seed):
    w, r, vm, rate, fl, bits = CONFIGS[cfg]
    return "exec %d %s %d %d %d %d %d %d %d" % (eid_num, mode, w, r, vm, rate, fl, bits, seed)


def thresholds_exact(win_ms, ratio_pm, fsize, rate):
    m = (2 * win_ms * rate + 1000 * fsize) // (2000 * fsize)
    return m, ratio_pm * m // 1000, (2 * (1000 - ratio_pm) * m + 1000) // 2000


def thresholds_double(win_ms, ratio_pm, fsize, rate):
    """the initialiser's own arithmetic (C doubles == Python floats)"""
    fl = float(fsize) / rate
    m = int((win_ms / 1000.0) / fl + 0.5)
    ratio = ratio_pm / 1000.0
    return m, int(ratio * m), int((1.0 - ratio) * m + 0.5)


# --------------------------------------------------------------------------------------------------
# running the harness

class Exec:
    """one execution: its script, the recorded events and (if the child died) the crash event"""
    def __init__(self, eid, lines):
        self.eid, self.script = eid, lines
        self.events = []
        self.crash = None

    @property
    def cfg(self):
        return self.eid.split(":")[1]


ASAN = "exitcode=77:detect_leaks=0:allocator_may_return_null=1:abort_on_error=0:symbolize=%d"


def run_batch(drv, execs, work, tag, symbolize=False):
    """symbolising a sanitizer report costs ~0.1 s, so bulk runs record the faulting offset only and one
    representative per kind of crash is re-run with symbols"""
    path = os.path.join(work, "ep_%s.ndjson" % tag)
    text = "\n".join("\n".join(l for l in e.script if not l.startswith("#")) for e in execs) + "\n"
    r = runner.run(drv, [path, sut.REPO], text, timeout=3000, leaks=False, env={"ASAN_OPTIONS": ASAN % symbolize})
    if r.rc != 0:
        raise tlc.ModelError("endpointer harness failed on batch %s: %s" % (tag, r.why()))
    cur = -1
    for ln in open(path):
        if ln.startswith('{"e":"Header"'):
            cur += 1
            if cur >= len(execs):
                raise tlc.ModelError("harness produced more executions than scripts in batch " + tag)
            execs[cur].events, execs[cur].crash = [ln], None
        elif ln.startswith('{"e":"Crash"'):
            execs[cur].crash = json.loads(ln)
        else:
            execs[cur].events.append(ln)
    os.unlink(path)
    if cur + 1 != len(execs):
        raise tlc.ModelError("harness produced %d executions for %d scripts (batch %s)" % (cur + 1, len(execs), tag))
    return execs


def run_all(drv, execs, work, tag, par):
    """split into batches per configuration (keeps order inside), run them concurrently"""
    size = 1500
    batches = [execs[i:i + size] for i in range(0, len(execs), size)]
    with concurrent.futures.ThreadPoolExecutor(max_workers=par) as ex:
        futs = [ex.submit(run_batch, drv, b, work, "%s%d" % (tag, i)) for i, b in enumerate(batches)]
        for f in futs:
            f.result()
    return execs


def usable(e):
    """the recorded input must be what the check assumes it produced (machinery, not property)"""
    hdr = json.loads(e.events[0])
    if hdr.get("init") != 1:
        raise tlc.ModelError("initialiser refused configuration %s that the check relies on" % e.cfg)
    m, s, en = thresholds_exact(hdr["win_ms"], hdr["ratio_pm"], hdr["fsize"], hdr["rate"])
    if (m, s, en) != thresholds_double(hdr["win_ms"], hdr["ratio_pm"], hdr["fsize"], hdr["rate"]):
        raise tlc.ModelError("configuration %s: thresholds are ambiguous under double rounding" % e.cfg)
    for ln in e.events[1:]:
        if '"e":"P"' in ln and ('"vc":1,' not in ln or '"dup":0,' not in ln):
            ev = json.loads(ln)
            raise tlc.ModelError("execution %s: frame %d %s" % (e.eid, ev["k"],
                                 "is identical to fed frame %d (identification needs distinct frames)" % ev["dup"]
                                 if ev["dup"] else "was classified %d times" % ev["vc"]))
    return hdr, (m, s, en)


def n_script_frames(e):
    return sum(len(l) - 2 for l in e.script if l.startswith("p "))


def crash_signature(e):
    """(call, sanitizer kind, faulting offset, ring-head-at-last-slot-and-partly-filled, call number).
    The ring head/occupancy before the crashing call follow from the calls logged so far (a frame handed
    back = one pop); that is enough to recognise the ep_speech_count overrun the model predicts."""
    if getattr(e, "_sig", None):
        return e._sig
    hdr, (m, s, en) = usable(e)
    pos = n = 0
    np_ = 0
    for ln in e.events[1:]:
        ev = json.loads(ln)
        if ev["e"] != "P":
            continue
        np_ += 1
        if n == m:
            pos = (pos + 1) % m
        else:
            n += 1
        if ev["ret"] != 0:
            pos, n = (pos + 1) % m, n - 1
    scripted = hdr["mode"] == "s"
    op = "process" if (not scripted or np_ < n_script_frames(e)) else "end_stream"
    e._sig = (op, e.crash.get("kind", "unknown"), e.crash.get("pc", ""), pos == m - 1 and n + 1 < m, np_ + 1)
    return e._sig


def crash_key(sig, fn):
    op, kind, _, last_slot_partial, _ = sig
    if op == "process" and kind == "heap-buffer-overflow" and fn == "ep_speech_count" and last_slot_partial:
        return KNOWN_OOB_KEY
    return "crash:%s:%s@%s" % (op, kind, fn or "?")


def write_replay(ctx, name, e, note):
    p = os.path.join(ctx.replays, re.sub(r"[^A-Za-z0-9_.-]", "_", name) + ".script")
    done = ctx.__dict__.setdefault("_replays_written", set())
    if p in done:
        return p        # the first (smallest) reproduction of a key in this run is the one kept
    done.add(p)
    with open(p, "w") as f:
        f.write("# %s\n# %s\n" % (e.eid, note))
        f.write("\n".join(l for l in e.script if not l.startswith("#")) + "\n")
    return p


def validate(chunks, work, diag=False, max_fail=6):
    return tracecheck.validate(SPEC, "EndpointerTrace.tla", "EndpointerTrace.cfg", chunks, work, timeout=2400,
                               max_fail=max_fail, env={"DIAG": "1" if diag else "0"})


def diagnose(e, work):
    """which observable of which kind of call differs (first one); '' if the execution is accepted"""
    acc, fails, _ = validate([(e.eid, e.events)], work)
    if not fails:
        return None
    f = fails[0]
    ev = json.loads(f.event) if f.event else {}
    _, _, res = validate([(e.eid, e.events)], work, diag=True)
    flat = re.sub(r"\s*\n\s*", " ", res[0].out)      # TLC wraps long tuples over several lines
    mm = re.search(r'<<\s*"MISMATCH", (\d+), "(\w+)", "(\w+)", "(.*?)", "(.*?)"\s*>>', flat)
    call = {"P": "process", "E": "end_stream", "Header": "init"}.get(ev.get("e"), "event")
    if mm:
        key = "mismatch:%s:%s@%s" % (call, mm.group(2), mm.group(3))
        what = "call %d of %s: %s after a call the model classifies as '%s' should be %s, the real code gave %s; event %s" % (
            f.local_line - 1, e.eid, mm.group(2), mm.group(3), mm.group(4), mm.group(5), f.event.strip()[:260])
    else:
        key = "rejected:%s" % call
        what = "event %d of %s is not explained by the endpointer model: %s" % (f.local_line, e.eid, f.event.strip()[:260])
    return key, what


# --------------------------------------------------------------------------------------------------
# input generation

class Gen:
    def __init__(self, seed):
        self.n = 0
        self.seed = seed

    def scripted(self, campaign, cfg, decisions, trail, detail):
        self.n += 1
        lines = [exec_line(self.n, "s", cfg, self.seed)]
        if decisions:
            lines.append("p " + decisions)
        if trail is not None:
            lines.append("e %d" % trail)
        return Exec("%s:%s:%s" % (campaign, cfg, detail), lines)

    def real(self, cfg, audio, nframes, trail, detail):
        self.n += 1
        lines = [exec_line(self.n, "r", cfg, self.seed)] + audio + ["run %d %d" % (nframes, trail)]
        return Exec("real:%s:%s" % (cfg, detail), lines)


def fsize_of(cfg):
    """frame size the library will pick (only used to choose trailing lengths; the Header is authoritative)"""
    w, r, vm, rate, fl, bits = CONFIGS[cfg]
    closest = min((8000, 16000, 32000, 48000), key=lambda x: abs(1.0 - float(x) / rate))
    return int(closest * (fl / 1000.0))


def exhaustive(drv, gen, lens, work, par, tag, notes):
    """lens: cfg -> L.  Every decision sequence of length <= L, each ended by end_stream, executed level by
    level; a sequence that extends a prefix on which the real code already aborted (in a process call) is
    skipped, since it can only abort in the same call again."""
    bad = {cfg: set() for cfg in lens}
    out, skipped = [], 0
    i = 0
    top = max(lens.values())
    for grp in [list(range(0, 9))] + [[l] for l in range(9, top + 1)]:
        batch = []
        for cfg, L in lens.items():
            fs = fsize_of(cfg)
            trails = [0, 1, fs, fs // 2, fs - 1]
            for ln in grp:
                if ln > L:
                    continue
                for seq in itertools.product("01", repeat=ln):
                    s = "".join(seq)
                    if bad[cfg] and any(s[:k] in bad[cfg] for k in range(1, ln + 1)):
                        skipped += 1
                        continue
                    # the trailing length cycles so that each of 0 / 1 / full frame is met many times at
                    # every length; short sequences get all three
                    ts = trails[:3] if ln <= 7 else [trails[i % len(trails)]]
                    for t in ts:
                        batch.append(gen.scripted("exh", cfg, s, t, "%s/e%d" % (s or "-", t)))
                    i += 1
        if not batch:
            continue
        run_all(drv, batch, work, "%sL%d" % (tag, grp[0]), par)
        for e in batch:
            if e.crash:
                sig = crash_signature(e)
                if sig[0] == "process":
                    bad[e.cfg].add(e.script[1][2:][:sig[4]])
        out += batch
    notes["exhaustive_sequences_skipped_after_aborting_prefix"] = \
        notes.get("exhaustive_sequences_skipped_after_aborting_prefix", 0) + skipped
    return out


def run_structured(rng, length, m):
    """decision sequence made of runs (speech bursts, pauses, flicker) sized around the window length"""
    s = []
    while len(s) < length:
        kind = rng.random()
        if kind < 0.35:
            s += [1] * rng.randint(1, 2 * m + 2)
        elif kind < 0.70:
            s += [0] * rng.randint(1, 2 * m + 2)
        else:
            p = rng.choice([0.2, 0.5, 0.8])
            s += [1 if rng.random() < p else 0 for _ in range(rng.randint(1, 2 * m))]
    return "".join(str(x) for x in s[:length])


AUDIO = {
    "goforward": ("tests/data/goforward.raw", 44580),
    "goforward_fr": ("tests/data/goforward_fr.raw", 38387),
    "vadtest": ("tests/data/vad/test-audio.raw", 7245),
}


def audio_recipe(rng, rate, parts):
    """parts: list of names from AUDIO / 'noise' / 'hush'; 16 kHz recordings are decimated or sample-repeated
    to the configured rate (crude, but all that matters is that the classifier gets real signal)"""
    decim, rep = {8000: (2, 1), 11025: (1, 1), 16000: (1, 1), 32000: (1, 2), 44100: (1, 3), 48000: (1, 3)}[rate]
    lines, total = [], 0
    for p in parts:
        if p == "noise":
            n = rng.randint(rate // 4, rate)
            lines.append("a noise %d %d %d" % (n, rng.choice([300, 3000, 12000]), rng.randint(1, 10 ** 6)))
        elif p == "hush":
            n = rng.randint(rate // 4, rate)
            lines.append("a noise %d 2 %d" % (n, rng.randint(1, 10 ** 6)))
        else:
            path, ns = AUDIO[p]
            gain = rng.choice([100, 100, 60, 30])
            lines.append("a file %s 0 -1 %d %d %d" % (path, gain, decim, rep))
            n = (ns + decim - 1) // decim * rep
        total += n
    return lines, total


# --------------------------------------------------------------------------------------------------
# the model runs

HACTS = ("HIdle", "HOpen", "HStay", "HClose", "HEndIn", "HEndOut")
PACTS = ("PIdle", "POpen", "PStay", "PClose", "EndIn", "EndOut")


def counterexamples(ctx, quick):
    """TLC's shortest behaviours in which the counting loop as it stands leaves the ring"""
    rep, cex = ctx.report, []
    for m in ((3,) if quick else (3, 4, 5)):
        cfg = "MC_oob_M%d.cfg" % m
        r = tlc.run("MC_impl.tla", cfg, SPEC, workers=1, timeout=900, heap="2g", extra=NOTE)   # 1 worker: BFS order fixed
        if r.violated != "NoOob" or r.rc != 12:
            raise tlc.ModelError("%s: expected a NoOob counterexample, TLC reports %s\n%s" % (cfg, r.violated, r.out[-2000:]))
        rep.add_tlc("MC_impl.tla/" + cfg, r, mode="counterexample-search")
        # decisions are the action arguments, thresholds are in the last state
        ds = re.findall(r"State \d+: <P\w+\((\d)\)", r.out)
        last = r.error_trace[-1] if r.error_trace else ""
        me, ms = re.search(r"/\\ E = (\d+)", last), re.search(r"/\\ S = (\d+)", last)
        if not ds or not me or not ms:
            raise tlc.ModelError("cannot read TLC's counterexample in " + cfg)
        cex.append((m, int(ms.group(1)), int(me.group(1)), "".join(ds)))
    return cex


def start_models(ctx, quick, pool):
    """the exhaustive runs, started in the background (they do not depend on the code under test)"""
    jobs = []   # (module, cfg, actions that must occur)
    if quick:
        jobs += [("MC_abs.tla", "MC_abs_M3_q.cfg", HACTS), ("MC_abs.tla", "MC_abs_M4_q.cfg", HACTS)]
        ms, sfx = (3, 4), "_q"
    else:
        jobs += [("MC_abs.tla", "MC_abs_M%d.cfg" % m, HACTS) for m in (3, 4, 5)]
        ms, sfx = (3, 4, 5, 6), ""
    for m in ms:
        jobs.append(("MC_impl.tla", "MC_fix_M%d%s.cfg" % (m, sfx), PACTS))
        jobs.append(("MC_impl.tla", "MC_asis_M%d%s.cfg" % (m, sfx), PACTS + ("PCrash",)))
    return [(j, pool.submit(tlc.run, j[0], j[1], SPEC, workers=2 if quick else 4, timeout=1700, coverage=True,
                            heap="3g", extra=NOTE)) for j in jobs]


def finish_models(ctx, futs):
    rep = ctx.report
    for (mod, cfg, acts), f in futs:
        r = f.result()
        # rc, not only r.violated: a violated action property (the refinement) is reported by rc 13
        if r.violated or r.rc != 0:
            raise tlc.ModelError("%s/%s: TLC reports %s (rc %s)\n%s" % (mod, cfg, r.violated, r.rc, r.out[-2500:]))
        for a in acts:
            if r.coverage.get(a, (0, 0))[0] == 0:
                raise tlc.ModelError("vacuous model run: action %s never taken in %s" % (a, cfg))
        if cfg.startswith("MC_fix") and r.coverage.get("PCrash", (0, 0))[0] != 0:
            raise tlc.ModelError("repaired transcription leaves the ring in " + cfg)
        if cfg.startswith("MC_asis"):
            rep.notes.setdefault("asis_transcription_oob_steps", {})[cfg] = r.coverage.get("PCrash", (0, 0))[0]
        rep.add_tlc("%s/%s" % (mod, cfg), r, mode="exhaustive")


def config_for(m, s, e):
    """a real configuration (30 ms frames at 16 kHz) whose initialiser yields window m and thresholds s, e"""
    pms = [pm for pm in range(1, 1000)
           if thresholds_exact(30 * m, pm, 480, 16000) == (m, s, e) == thresholds_double(30 * m, pm, 480, 16000)]
    if not pms:
        return None
    return (30 * m, pms[len(pms) // 2], 0, 16000, 30, 0)     # the middle one: away from rounding boundaries


# --------------------------------------------------------------------------------------------------

def process_results(ctx, drv, execs, tag, par):
    """triage crashes, validate everything else (and the prefixes before a crash) with TLC"""
    rep = ctx.report
    by_id = {e.eid: e for e in execs}
    crashed = [e for e in execs if e.crash]
    for e in execs:
        usable(e)
    # crashes: grouped by signature, the shortest script of each group is re-run alone with symbols
    best, count = {}, {}
    for e in crashed:
        g = crash_signature(e)[:4]
        count[g] = count.get(g, 0) + 1
        cost = (len(e.events), sum(len(l) for l in e.script), e.eid)
        if g not in best or cost < best[g][0]:
            best[g] = (cost, e)
    rep.notes["executions_crashed_" + tag] = len(crashed)
    for g in sorted(best):
        e = best[g][1]
        again = run_batch(drv, [Exec(e.eid, e.script)], ctx.work, tag + "re", symbolize=True)[0]
        if not again.crash:
            continue    # not reproducible alone: not reported (soundness rule)
        sig = crash_signature(again)
        if (sig[0], sig[1], sig[3]) != (g[0], g[1], g[3]):
            continue
        key = crash_key(sig, again.crash.get("fn", ""))
        hdr, (m, s, en) = usable(e)
        p = write_replay(ctx, "crash_" + key, e, "crashes in call %d (%s)" % (sig[4], sig[0]))
        rep.violation(key, "endpointer_%s aborts under ASan (%s in %s) at call %d of %s (window %d frames, open > %d, "
                      "close < %d); the model predicts a normal return; %d executions of this batch end the same way" % (
                          sig[0], sig[1], again.crash.get("fn") or "?", sig[4], e.eid, m, s, en, count[g]), p)
    # validation, in parallel groups of ~40k events
    groups, cur, cnt = [], [], 0
    for e in execs:
        cur.append((e.eid, e.events))
        cnt += len(e.events)
        if cnt >= 40000:
            groups.append(cur)
            cur, cnt = [], 0
    if cur:
        groups.append(cur)
    fails = []
    with concurrent.futures.ThreadPoolExecutor(max_workers=par) as ex:
        for gi, (acc, fl, results) in enumerate(ex.map(lambda g: validate(g, ctx.work), groups)):
            for r in results:
                rep.add_tlc("EndpointerTrace(%s/%d)" % (tag, gi), r, mode="trace-validation")
            fails += fl
            rejected = {f.exec_id for f in fl}
            # executions after the last isolated failure were not looked at when max_fail was reached
            seen = len(groups[gi]) if len(fl) < 6 else [i for i, (eid, _) in enumerate(groups[gi]) if eid == fl[-1].exec_id][0] + 1
            for eid, ev in groups[gi][:seen]:
                if eid in rejected:
                    continue
                e = by_id[eid]
                if not e.crash:
                    rep.traces += 1
                rep.evaluations += len(ev) - 1
                opened = any('"insp":1' in l for l in ev)
                if opened and (any('"e":"P"' in l and '"insp":0' in l and '"ret":0' not in l for l in ev) or
                               any('"e":"E"' in l and '"null":0' in l for l in ev)):
                    rep.nontrivial.add(eid)
    seen_keys = set()
    for f in fails[:12]:
        e = by_id[f.exec_id]
        again = run_batch(drv, [Exec(e.eid, e.script)], ctx.work, tag + "rv")[0]
        d = diagnose(again, ctx.work)
        if d is None:
            continue    # not reproducible alone
        key, what = d
        if key in seen_keys:
            continue
        seen_keys.add(key)
        p = write_replay(ctx, "reject_" + key, e, what)
        rep.violation(key, what, p)
    return fails


def run(ctx):
    rep = ctx.report
    rng = random.Random(ctx.seed)
    quick = ctx.tier == "quick"
    par = 8
    # the driver is linked into the scratch directory: the shared build cache is pruned by concurrent runs
    for attempt in range(3):
        try:
            libdir, _ = sut.build_lib("asan")
            drv = sut.build_harness("ep_drv", ["endpointer/ep_drv.c"], libdir, wraps=("vad_classify",), outdir=ctx.work)
            break
        except (sut.BuildError, OSError):
            if attempt == 2:
                raise
    rep.assumptions += [
        "the thresholds 'more than the configured fraction' / 'fewer than the complementary fraction' are the integers "
        "the initialiser documents: start = floor(ratio*maxlen), end = round((1-ratio)*maxlen), maxlen = round(window/"
        "frame_length); only configurations where exact and double arithmetic agree on them are used",
        "times are compared as sample positions llround(t*sample_rate) and must lie within 1e-9 s of them (streams of "
        "at most a few thousand frames, accumulated double additions stay far below that)",
        "the stream ends at endpointer_end_stream (the property does not speak about reusing the object afterwards)",
        "speech_start is compared once a segment was opened, speech_end once one was closed and none is open",
        "end_stream is given at most frame_size trailing samples (documented precondition)",
    ]

    if ctx.replay:
        lines = [l for l in open(ctx.replay).read().split("\n") if l]
        eid = lines[0][2:].strip() if lines[0].startswith("# ") and lines[0].count(":") >= 2 else "replay:default:file"
        if eid.split(":")[1] not in CONFIGS:
            eid = "replay:default:file"
        e = run_batch(drv, [Exec(eid, lines)], ctx.work, "replay")[0]
        # the Header in the trace is authoritative for the configuration; the id only names it
        process_results(ctx, drv, [e], "replay", 1)
        rep.states = max(rep.states, sum(m["distinct_states"] for m in rep.models))
        rep.transitions = max(rep.transitions, sum(m["states_generated"] for m in rep.models))
        rep.rule = "replay of one stored endpointer script"
        return

    t0 = time.time()
    phases = rep.notes.setdefault("wall_s_phases", {})
    # 1. models: counterexample search now, the exhaustive runs in the background
    cex = counterexamples(ctx, quick)
    mpool = concurrent.futures.ThreadPoolExecutor(max_workers=4)
    mfuts = start_models(ctx, quick, mpool)

    phases["counterexample_search"] = round(time.time() - t0, 1)
    gen = Gen(ctx.seed)
    units = []      # (tag, executions): run and validated one after the other so that memory stays bounded
    misc = []
    # 2a. TLC's counterexamples for the untouched counting loop, on real configurations
    for m, s, e, ds in cex:
        c = config_for(m, s, e)
        if c is None:
            raise tlc.ModelError("no real configuration gives window %d thresholds %d/%d" % (m, s, e))
        name = "cex-m%d-s%d-e%d" % (m, s, e)
        CONFIGS[name] = c
        misc.append(gen.scripted("cex", name, ds, 1, ds))
    rep.notes["model_counterexamples_replayed"] = ["window %d, open > %d, close < %d, decisions %s" % c for c in cex]

    # 2c. edge tours of the Layer-A graph of two real configurations
    n_edges = 0
    for cfg, tcfg in (("default", "MC_tour_default.cfg"), ("m6-44k", "MC_tour_m6.cfg")):
        r = tlc.run("MC_tour.tla", tcfg, SPEC, workers=1, timeout=900, extra=NOTE)
        if r.violated or r.rc != 0:
            raise tlc.ModelError("tour model violated %s (rc %s)" % (r.violated, r.rc))
        rep.add_tlc("MC_tour.tla/" + tcfg, r, mode="graph-export")
        edges = tours.parse_edges(r.out)
        if not edges:
            raise tlc.ModelError("no edges exported by " + tcfg)
        n_edges += len(edges)
        fs = fsize_of(cfg)
        for ti, t in enumerate(tours.tours(edges, edges[0][0], max_len=300, rng=random.Random(ctx.seed))):
            ds, trail = "", None
            for ei in t:
                a = edges[ei][1]
                if a["op"] == "P":
                    ds += str(a["d"])
                else:
                    trail = {0: 0, 1: 1, 3: fs}[a["t"]]
            misc.append(gen.scripted("tour", cfg, ds, trail, "t%d" % ti))
    rep.notes["graph_edges_covered"] = n_edges

    # 2d. seeded run-structured sequences on larger windows
    n_rand = 40 if quick else 400
    big = ["default", "m6-44k", "m14-11k", "m20-r85", "m7-r70", "m16-r50", "m5-48k30", "m4-r50", "m12-f350", "m4-f130", "m10-r30", "m15-r20-32k",
           "m5-r30"]
    for i in range(n_rand):
        cfg = big[i % len(big)]
        m = thresholds_exact(CONFIGS[cfg][0], CONFIGS[cfg][1], fsize_of(cfg), CONFIGS[cfg][3])[0]
        ds = run_structured(rng, rng.choice([60, 150, 400]), m)
        fs = fsize_of(cfg)
        misc.append(gen.scripted("rand", cfg, ds, rng.choice([0, 1, fs, rng.randint(0, fs)]), "r%d" % i))

    # 3. real classifier on real audio
    reals = []
    real_cfgs = ["default", "m7-r70", "m10-r30", "m20-r85", "m14-11k", "m6-44k", "m4-8k10", "m15-r20-32k", "m5-32k20", "m5-48k30",
                 "m4-r75", "m3-r70", "m16-r50", "m4-r50"]
    mixes = [["goforward"], ["hush", "goforward", "hush"], ["goforward", "noise", "goforward_fr"],
             ["vadtest", "hush", "vadtest"], ["noise"], ["hush"], ["goforward_fr", "goforward"]]
    for ci, cfg in enumerate(real_cfgs if not quick else real_cfgs[:8]):
        rate = CONFIGS[cfg][3]
        fs = fsize_of(cfg)
        for mi, mix in enumerate(mixes if not quick else mixes[:4] if ci < 3 else mixes[:2]):
            audio, total = audio_recipe(rng, rate, mix)
            nfr = total // fs
            reals.append(gen.real(cfg, audio, -1, -1, "%s/all" % "+".join(mix)))
            # the same stream ended early at seeded points (inside and outside segments)
            cuts = sorted({rng.randint(1, max(1, nfr - 1)) for _ in range(3 if quick else 12)})
            for cut in cuts:
                reals.append(gen.real(cfg, audio, cut, rng.choice([0, 1, fs, rng.randint(0, fs)]),
                                      "%s/cut%d" % ("+".join(mix), cut)))
    units.append(("mix", misc + reals))

    # 2b. all decision sequences up to a length on small windows
    lens = {"m3-r70": 10, "m3-r50": 10, "m3-r60": 9, "m4-r75": 10, "m4-r50": 10, "m4-8k10": 9, "m5-32k20": 10,
            "m5-48k30": 9, "m3-f75": 9, "m4-f105": 9, "m5-f135": 8, "m4-f130": 8, "m4-r25": 9, "m5-r30": 9} if quick else \
           {"m3-r70": 13, "m3-r50": 13, "m3-r60": 12, "m4-r75": 13, "m4-r50": 13, "m4-8k10": 12, "m5-32k20": 13,
            "m5-48k30": 12, "m3-f75": 12, "m4-f105": 12, "m5-f135": 11, "m4-f130": 11, "m4-r25": 12, "m5-r30": 12}
    if quick:
        units.append(("exh", None, lens))
    else:
        for cfg, ln in lens.items():
            units.append(("exh-" + cfg, None, {cfg: ln}))
    rep.notes["exhaustive_decision_sequences"] = {c: "all of length <= %d, each ended" % l for c, l in lens.items()}

    phases["generation"] = round(time.time() - t0, 1)
    # 4. execute and validate
    n_fail = n_crash = 0
    samples = []
    for u in units:
        tag, execs = u[0], u[1]
        t1 = time.time()
        if execs is None:
            execs = exhaustive(drv, gen, u[2], ctx.work, par, tag, rep.notes)
        else:
            run_all(drv, execs, ctx.work, tag, par)
        phases["harness_" + tag] = round(time.time() - t1, 1)
        t1 = time.time()
        n_fail += len(process_results(ctx, drv, execs, tag, par))
        phases["validate_" + tag] = round(time.time() - t1, 1)
        n_crash += sum(1 for e in execs if e.crash)
        samples = [x for x in execs if x.eid.startswith("exh:m4-r75:0111101/e")][:1] + \
                  [x for x in execs if x.eid.startswith("real:default:goforward/all")][:1] + \
                  [x for x in execs if x.eid.startswith("tour:default") and x.events and '"null":0' in x.events[-1]][:1]
        for e in samples:
            evs = [json.loads(l) for l in e.events]
            keep = [v for v in evs[1:] if v["e"] == "E" or v.get("ret")]
            rep.sample({"execution": e.eid, "events": len(evs) - 1, "header": evs[0],
                        "some_events": keep[:2] + keep[-1:]})
        samples = []
        for e in execs:
            e.events = None
    t1 = time.time()
    finish_models(ctx, mfuts)
    mpool.shutdown()
    phases["waiting_for_models_after_validation"] = round(time.time() - t1, 1)
    rep.notes["executions_crashed"] = n_crash
    real_open = sum(1 for e in reals if e.eid in rep.nontrivial)
    rep.notes["real_audio_executions"] = len(reals)
    rep.notes["real_audio_executions_with_segment"] = real_open
    if real_open == 0 and not n_fail and not any(e.crash for e in reals):
        raise tlc.ModelError("vacuous: the real classifier never opened a segment on the bundled recordings")
    rep.rule = ("executions = every scripted decision sequence up to a length x end points (small windows), edge tours "
                "of the Layer-A state graph (default + 44.1 kHz configuration), seeded run-structured sequences, and "
                "the real classifier on bundled audio; non-trivial = distinct execution in which the real endpointer "
                "opened a segment and either closed it or returned samples from end_stream inside it")
