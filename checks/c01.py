"""C01 - recognition results are sentences of the active grammar.
C03 - the segmentation tiles the utterance and agrees with hypothesis and score.

Both share this module (checks/c03.py imports it): the decode matrix of checks/decmatrix.py is executed on
the real decoder and every recorded Result / Feed / End event is validated by TLC with
specs/result/ResultTrace.tla (clauses selected by WHICH) against the Layer-A predicates of ResultPred.tla;
the abstract search FsgSearchAbs.tla is model-checked exhaustively for the same predicates.
"""
import json, os, random
from vlib import sut, tlc, tracecheck, runner
from checks import decmatrix, synhist

SPEC = os.path.join(sut.VERIF, "specs", "result")
KEEP = {"Header", "Grammar", "Start", "Feed", "End", "Result", "SynHist"}


def model_check(ctx, which, quick):
    """FsgSearchAbs: the transcribed history table / null propagation / find_exit / backtrace satisfies the
    Layer-A predicates for every acoustic outcome and every pruning, exhaustively at small bounds and by
    simulation at larger ones."""
    rep = ctx.report
    cfgs = ["FsgSearchAbs_small.cfg"] if quick else ["FsgSearchAbs_small.cfg", "FsgSearchAbs_big.cfg"]
    for cfg in cfgs:
        r = tlc.run("MC_FsgSearchAbs.tla", cfg, SPEC, workers=16, timeout=2400, coverage=True, heap="16g")
        if r.violated:
            raise tlc.ModelError("abstract search model violates %s in %s:\n%s" % (r.violated, cfg, r.out[-2500:]))
        for act in ("DoWordExit", "DoNullStep", "DoEnter", "DoPrune", "NextFrame", "Finish"):
            if r.coverage.get(act, (0, 0))[0] == 0:
                raise tlc.ModelError("vacuous: action %s never taken in %s" % (act, cfg))
        rep.add_tlc("MC_FsgSearchAbs.tla/" + cfg, r)
    r = tlc.run("MC_FsgSearchAbs.tla", "FsgSearchAbs_sim.cfg", SPEC, workers=8, timeout=900,
                simulate=1500 if quick else 40000, depth=80, seed=ctx.seed)
    if r.violated:
        raise tlc.ModelError("abstract search model (simulation) violates %s:\n%s" % (r.violated, r.out[-2500:]))
    rep.add_tlc("MC_FsgSearchAbs.tla/FsgSearchAbs_sim.cfg", r, mode="simulation")


def nontrivial_key(chunk):
    """a case is non-trivial when its final result has >= 2 words; distinct by (grammar, audio, pieces)"""
    g, words, feeds = None, 0, []
    for ln in chunk:
        ev = json.loads(ln)
        if ev["e"] == "Grammar":
            g = json.dumps(ev.get("arcs"))
        elif ev["e"] == "Feed":
            feeds.append(ev["n"])
        elif ev["e"] == "Result" and ev["final"]:
            words = len(ev["hyp"])
    return (g, tuple(feeds)) if words >= 2 else None


def long_after_batch(rng, idx):
    """Several utterances on one decoder: a long one passed as ONE full-utterance block (which enlarges the cepstrum
    buffer for good), then long ones streamed in one or two calls, immediately searched or buffered - every frame the
    front end makes must still be searched, and the results must be results of the grammar."""
    cfg = {"hmm": os.path.join(sut.REPO, "model", "en-us"), "dict": os.path.join(sut.REPO, "tests", "data", "turtle.dic"),
           "loglevel": "FATAL"}
    s = list(decmatrix.audio_defs()) + ["init " + decmatrix.hx(json.dumps(cfg)),
         "jsgf " + decmatrix.hx("#JSGF V1.0;\ngrammar g;\npublic <s> = (go forward ten meters | go backward | stop)+;\n")]
    for u in range(4):
        aud = rng.choice(["gf2", "silgf", "gf2", "gf"])
        n = decmatrix.AUDIO_LEN[aud]
        s.append("start")
        if u == 0 or rng.random() < 0.25:
            s.append("feed %s 0 -1 %s %d 1" % (aud, rng.choice(["i16", "f32"]), rng.choice([0, 0, 1])))
        else:
            first = rng.choice([0, 160, 1000, 4000, 20000, 41000])
            enc, ns = rng.choice(["i16", "f32"]), rng.choice([0, 0, 1])
            if first:
                s.append("feed %s 0 %d %s %d 0" % (aud, first, enc, ns))
                if rng.random() < 0.5:
                    s.append("result p%d" % u)
            s.append("feed %s %d %d %s %d 0" % (aud, first, n - first, enc, ns))
        s += ["end", "result fin%d" % u]
    s.append("free")
    return "long-after-batch#%d" % idx, s


def short_after_stream(rng, idx):
    """Very short utterances (less than a handful of frames, down to less than one analysis window) on a decoder that
    has streamed an utterance before, in one call and in small pieces."""
    cfg = {"hmm": os.path.join(sut.REPO, "model", "en-us"), "dict": os.path.join(sut.REPO, "tests", "data", "turtle.dic"),
           "loglevel": "FATAL"}
    s = list(decmatrix.audio_defs()) + ["init " + decmatrix.hx(json.dumps(cfg)),
         "jsgf " + decmatrix.hx("#JSGF V1.0;\ngrammar g;\npublic <s> = (go | forward | ten | meters | stop)+;\n")]
    s += ["start", "feed %s 0 -1 i16 0 0" % rng.choice(["head", "mid", "gf"]), "end", "result u0"]
    for u in range(1, 9):
        n = rng.choice([0, 1, 100, 300, 409, 410, 450, 570, 600, 730, 800, 889, 890, 1050, 1600])
        enc = rng.choice(["i16", "i16", "f32"])
        s.append("start")
        if rng.random() < 0.5:
            s.append("feed gf 8000 %d %s %d 0" % (n, enc, rng.choice([0, 0, 1])))
        else:
            off = 0
            while off < n:
                k = min(n - off, rng.choice([100, 37, 160, 1]))
                s.append("feed gf %d %d %s 0 0" % (8000 + off, k, enc))
                off += k
        if rng.random() < 0.3:
            s.append("result p%d" % u)
        s += ["end", "result u%d" % u]
        if rng.random() < 0.25:
            s += ["start", "feed tail 0 -1 i16 0 0", "end", "result v%d" % u]
    s.append("free")
    return "short-after-stream#%d" % idx, s


def window_exact(rng, idx):
    """Utterances whose length is exactly one analysis window plus a whole number of frame shifts (410 + 160 k samples at
    the bundled model's 16 kHz), one sample less and one more, passed as ONE full-utterance call, as one streaming call
    and in two pieces, on a fresh decoder and after other utterances: the frame-count estimate the full-utterance path
    takes from the front end decides how many frames are searched."""
    cfg = {"hmm": os.path.join(sut.REPO, "model", "en-us"), "dict": os.path.join(sut.REPO, "tests", "data", "turtle.dic"),
           "loglevel": "FATAL"}
    s = list(decmatrix.audio_defs()) + ["init " + decmatrix.hx(json.dumps(cfg)),
         "jsgf " + decmatrix.hx("#JSGF V1.0;\ngrammar g;\npublic <s> = (go | forward | ten | meters | stop)+;\n")]
    for u in range(6):
        k = rng.choice([0, 1, 2, 3, 10, 50, 99, 100, 262])
        n = 410 + 160 * k + rng.choice([0, 0, 0, -1, 1, 159])
        off = rng.choice([0, 1000, 2000])
        enc = rng.choice(["i16", "f32"])
        ns = rng.choice([0, 0, 1])
        s.append("start")
        how = rng.choice(["full", "full", "one", "two"])
        if how == "full":
            s.append("feed gf %d %d %s %d 1" % (off, n, enc, ns))
        elif how == "one":
            s.append("feed gf %d %d %s %d 0" % (off, n, enc, ns))
        else:
            cut = rng.randrange(0, n + 1)
            s.append("feed gf %d %d %s %d 0" % (off, cut, enc, ns))
            s.append("feed gf %d %d %s %d 0" % (off + cut, n - cut, enc, ns))
        s += ["end", "result w%d" % u]
    s.append("free")
    return "window-exact#%d" % idx, s


def big_history(rng, idx, beam):
    """A free word loop over the whole test dictionary between two fixed words: tens of thousands of word exits in one
    utterance (the history table grows past 2^15 entries), so that every index kept in the table is exercised at its
    full width.  The result must still be a sentence: go <any words> meters."""
    dic = os.path.join(sut.REPO, "tests", "data", "turtle.dic")
    cfg = {"hmm": os.path.join(sut.REPO, "model", "en-us"), "dict": dic, "loglevel": "FATAL"}
    cfg.update(decmatrix.BEAMS[beam])
    ws = [w for w in decmatrix.words_of_dict(dic) if w[0].isalpha() and w.isalnum()]
    g = "#JSGF V1.0;\ngrammar g;\npublic <s> = go <w>* meters;\n<w> = " + " | ".join(ws) + ";\n"
    # the doubled recording: the table passes 2^15 entries half way, so the best path itself runs through the upper half
    aud = "gf2" if beam == "default" else "gf"
    s = list(decmatrix.audio_defs()) + ["init " + decmatrix.hx(json.dumps(cfg)), "jsgf " + decmatrix.hx(g), "start"]
    n, off = decmatrix.AUDIO_LEN[aud], 0
    while off < n:
        k = min(n - off, rng.choice([8000, 16000, 30000]))
        s.append("feed %s %d %d i16 0 0" % (aud, off, k))
        off += k
        if off < n and rng.random() < 0.5:
            s.append("result p%d" % off)
    s += ["end", "result fin", "histsize", "free"]
    return "big-history-%s#%d" % (beam, idx), s


def run_which(ctx, which):
    rep = ctx.report
    quick = ctx.tier == "quick"
    rng = random.Random(ctx.seed * 7919 + (1 if which == "C01" else 3))
    drv = decmatrix.build_driver()
    env = {"WHICH": which}

    if ctx.replay:
        lines = [l for l in open(ctx.replay).read().split("\n") if l]
        cases = [("replay", lines)]
    else:
        model_check(ctx, which, quick)
        n = 160 if quick else 2500
        cases = [decmatrix.make_case(rng, ctx, i, {"result", "partial"}) for i in range(n)]
        # every history table the abstract search reaches, written into a real search object: the real find_exit /
        # backtrace / segment iterator on each (a seeded sample in the quick tier)
        cases += [long_after_batch(rng, n + 50 + i) for i in range(3 if quick else 40)]
        cases += [short_after_stream(rng, n + 70 + i) for i in range(3 if quick else 40)]
        cases += [window_exact(rng, n + 60 + i) for i in range(4 if quick else 40)]
        cases += [big_history(rng, n + 66 + i, b) for i, b in enumerate(["default"] if quick else ["default", "default", "wide"])]
        # alignments and alignment-level JSON asked for in mid-utterance (they rewind the acoustic model and run a second
        # pass): the frames that follow must still all be searched
        for i in range(8 if quick else 100):
            cases.append(decmatrix.make_case(rng, ctx, n + 80 + i, {"result", "partial", "alignment", "json"},
                                             {"chunking": rng.choice(["small", "small", "big"]), "audio": rng.choice(["gf", "gf", "cut", "silgf"])}))
        for k, g in enumerate(decmatrix.variant_grammars()):
            cases.append(decmatrix.make_case(rng, ctx, n + 20 + k, {"result", "partial"},
                                             {"grammar": g, "audio": "gf", "no_synth": True}))
        cases += synhist.cases(ctx, rng, quick, lambda tag: ["result " + tag], n + 100, count=2000 if quick else None)
    by_id = dict(cases)
    chunks, crashes = decmatrix.run_cases(ctx, drv, cases)
    for eid, why in crashes:
        p = decmatrix.write_replay(ctx, "crash_" + eid, by_id[eid])
        rep.violation(runner.crash_key(why), "decoder crashed while producing a result (%s): %s" % (eid, why), p)
    big = [json.loads(l)["n"] for eid, ch in chunks if eid.startswith("big-history") for l in ch if l.startswith('{"e":"HistSize"')]
    if big:
        rep.notes["big_history_table_entries"] = big
        if not ctx.replay and max(big) <= 33000:
            raise tlc.ModelError("vacuous: the big-history family reached only %d history entries (wanted > 2^15)" % max(big))
    fch = [(eid, decmatrix.filter_events(ch, KEEP)) for eid, ch in chunks]
    acc, fails, results = tracecheck.validate(SPEC, "ResultTrace.tla", "ResultTrace.cfg", fch, ctx.work, timeout=1500,
                                              env=env, max_fail=8)
    for r in results:
        rep.add_tlc("ResultTrace(%s)" % which, r, mode="trace-validation")
    rep.traces += acc
    for eid, ch in fch:
        rep.evaluations += sum(1 for l in ch if l.startswith('{"e":"Result"') or l.startswith('{"e":"Feed"'))
        k = nontrivial_key(ch)
        if k:
            rep.nontrivial.add(k)
    for f in fails:
        c2, cr2 = decmatrix.run_cases(ctx, drv, [(f.exec_id, by_id[f.exec_id])])
        f2 = []
        if c2:
            _, f2, _ = tracecheck.validate(SPEC, "ResultTrace.tla", "ResultTrace.cfg",
                                           [(e, decmatrix.filter_events(c, KEEP)) for e, c in c2], ctx.work, env=env)
        if not f2 and not cr2:
            continue      # not reproducible: do not report
        p = decmatrix.write_replay(ctx, "reject_" + f.exec_id, by_id[f.exec_id])
        ev = json.loads(f.event) if f.event else {}
        rep.violation("%s:%s" % (ev.get("e", "?").lower(), f.exec_id.split("#")[0]),
                      "event %d of %s breaks the %s predicate: %s" % (f.local_line, f.exec_id, which, f.event.strip()[:400]), p)
    for eid, ch in fch[:3]:
        evs = [json.loads(x) for x in ch]
        res = [e for e in evs if e["e"] == "Result"]
        rep.sample({"execution": eid, "grammar_arcs": next((e.get("arcs") for e in evs if e["e"] == "Grammar"), None),
                    "feeds": [e["n"] for e in evs if e["e"] == "Feed"][:12],
                    "results": [{"final": r["final"], "hyp": r["hyp"], "score": r["score"],
                                 "segs": [[s["b"], s["sf"], s["ef"]] for s in r["segs"]]} for r in res[:3]]})
    rep.rule = ("cases drawn (seeded) from grammars {hand-written JSGF shapes, random JSGF ASTs, bundled and random FSG "
                "files incl. null arcs/unreachable finals, alignment texts} x audio {recording, reversed, clipped, "
                "truncated mid-word, silence, noise, doubled, 0..2500-sample snippets} x beams {default,narrow,wide} x "
                "chunkings {one call, random pieces to single windows, buffered pieces, int16/float32} with partial-result "
                "queries between pieces; non-trivial = distinct (grammar, chunking) whose final hypothesis has >= 2 words")
    rep.assumptions += ["the user's grammar G is the FSG returned by the public grammar readers/compiler before the search "
                        "adds silence and alternate arcs (JSGF compilation itself is C05's subject)",
                        "which words are fillers is taken from the dictionary's filler flag",
                        "frames searched are counted by a linker wrap of acmod_score, not by the API under test"]


def run(ctx):
    run_which(ctx, "C01")
