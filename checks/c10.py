"""C10 - untrusted grammar, dictionary, configuration and text inputs are handled safely.

The input formats are the specification.  specs/textin/TextFormats.tla (+ TextConfig.tla) read, byte by byte, the FSG
text format, the pronunciation dictionary, JSON configuration strings, alignment text, word/pronunciation pairs and
CMN text and say of any bytes: "T" an instance (with the abstract object every conforming reader builds), "F" no
object can be made of it, "U" the documentation does not say.  JSGF is carried as instances + derived damages only.

  1. TLC, exhaustive (TextInit.tla): for a handful of valid instances per format, EVERY truncation length, every
     field deleted / duplicated / swapped with its neighbour, every line duplicated / deleted, every numeric field replaced by each of ~20 edge texts
     (1e999, twenty nines, -1, 0, NaN, hex, INT_MAX, 2^32+1, ...), a control / NUL / non-UTF-8 byte at the start of every
     field, CR-LF, CR only, no final newline, and *descriptions* of very long fields and deep nesting (expanded by this
     file).  The fields are the ones the reader consumed from the valid instance.  Theorems about the readers are
     invariants; the cases are exported with verdict and value.
  2. spec -> code: harness/textin/txt_drv.c hands the bytes of every case to the real public entry point in a forked
     child under ASan + UBSan + LeakSanitizer with assertions on, dumps the returned object through public accessors,
     uses it (search 0.5 s of audio with the grammar, write it, look words up, serialise) and frees it; the parent
     records how the child ended.
  3. code -> spec: TLC (TextTrace.tla) re-reads the recorded bytes with the format's reader and checks the clauses
     ended-normally / valid-accepted / valid-value / well-formed / used-and-freed on every execution.
  4. unstructured bytes: seeded random byte strings and random splices of instances (safety clauses only).
"""
import json, os, random, re, shutil
from concurrent.futures import ThreadPoolExecutor
from vlib import sut, tlc, tracecheck, runner

SPEC = os.path.join(sut.VERIF, "specs", "textin")
LIB = [os.path.join(sut.VERIF, "specs", "json")]
WRAPS = ("mmio_file_read", "mmio_file_unmap", "mmio_file_ptr", "mmio_file_size")
JOBS = int(os.environ.get("VERIF_JOBS", "12"))
ASAN = ("exitcode=77:detect_leaks=1:allocator_may_return_null=1:abort_on_error=0:max_allocation_size_mb=2048:"
        "hard_rss_limit_mb=6144:detect_odr_violation=0:detect_stack_use_after_return=0")
DICT = ("go G OW\nforward F AO R W ER D\nbackward B AE K W ER D\nten T EH N\nmeters M IY T ER Z\nmiles M AY L Z\n"
        "one W AH N\ntwo T UW\n")
FORMATS = ["fsg", "dict", "config", "align", "addword", "cmn", "jsgf"]
_CASE = re.compile(r'^<<"CASE", "(.*)">>$')
TIMEOUT_S = 20


# ------------------------------------------------------------------------------------------------ derivation
def export(ctx, workers):
    r = tlc.run("TextInit.tla", "TextInit_export.cfg", SPEC, workers=workers, timeout=900, heap="4g", lib=LIB)
    if r.violated:
        raise tlc.ModelError("the format specification violates its own theorem %s:\n%s" % (r.violated, r.out[-1500:]))
    cases = []
    for ln in r.out.splitlines():
        m = _CASE.match(ln)
        if m:
            js = m.group(1)
            cases.append(json.loads(js.encode().decode("unicode_escape") if "\\" in js else js))
    if r.distinct != len(cases) + 1 or len(cases) < 3000:
        raise tlc.ModelError("export: %d states for %d cases" % (r.distinct, len(cases)))
    verdicts = {v: sum(1 for c in cases if c["verdict"] == v) for v in "TFU"}
    if verdicts["T"] < 300 or verdicts["F"] < 500 or {c["fmt"] for c in cases} != set(FORMATS):
        raise tlc.ModelError("vacuous derivation: %r" % verdicts)
    ctx.report.add_tlc("TextInit.tla/TextInit_export.cfg", r)
    ctx.report.notes["derived_cases"] = len(cases)
    ctx.report.notes["derived_verdicts"] = verdicts
    ctx.report.notes["distinct_reasons"] = len({(c["fmt"], c["why"]) for c in cases})
    cases.sort(key=lambda c: (FORMATS.index(c["fmt"]), c["inst"], c["name"]))
    return cases


def expand(c):
    """bytes of a case; descriptions (very long field, deep nesting) are expanded here"""
    b = bytes(c["bytes"])
    if not c["described"]:
        return b
    d = c["desc"]
    if c["cls"] == "longtoken":
        lo, hi = d["r"]
        tok = b[lo - 1:hi] or b"x"
        grown = (tok * (d["a"] // len(tok) + 1))[:d["a"]]
        return b[:lo - 1] + grown + b[hi:]
    if c["cls"] == "deepnest":
        n = d["a"]
        if d["x"] == "json-array":
            return b'{"hmm": ' + b"[" * n + b"]" * n + b"}"
        if d["x"] == "json-object":
            return b'{"hmm": ' + b'{"a":' * n + b"1" + b"}" * n + b"}"
        if d["x"] == "jsgf-group":
            return b"#JSGF V1.0;\ngrammar g;\npublic <g> = " + b"(" * n + b"go" + b")" * n + b";\n"
        if d["x"] == "jsgf-optional":
            return b"#JSGF V1.0;\ngrammar g;\npublic <g> = " + b"[" * n + b"go" + b"]" * n + b";\n"
    raise tlc.ModelError("unknown description %r" % (c,))


def unstructured(rng, cases, n):
    """random bytes and random splices of the instances: verdict left to the trace specification (mostly "U")"""
    intact = [c for c in cases if c["cls"] == "intact"]
    out = []
    for i in range(n):
        src = intact[i % len(intact)]
        b = bytearray(src["bytes"])
        mode = i % 4
        if mode == 0:
            b = bytearray(rng.randrange(256) for _ in range(rng.randrange(1, 200)))
            kind = "random-bytes"
        elif mode == 1:
            for _ in range(rng.randrange(1, 6)):
                if b:
                    b[rng.randrange(len(b))] = rng.randrange(256)
            kind = "random-byte-flips"
        elif mode == 2:
            other = bytearray(rng.choice(intact)["bytes"])
            a, z = sorted((rng.randrange(len(other) + 1), rng.randrange(len(other) + 1)))
            p = rng.randrange(len(b) + 1)
            b[p:p] = other[a:z]
            kind = "random-splice"
        else:
            for _ in range(rng.randrange(1, 4)):
                if len(b) > 1:
                    a, z = sorted((rng.randrange(len(b)), rng.randrange(len(b))))
                    del b[a:min(z, a + 12)]
            kind = "random-deletions"
        out.append({"fmt": src["fmt"], "inst": src["inst"], "name": "%s#%d" % (kind, i), "kind": kind, "cls": "random", "described": False,
                    "desc": {}, "bytes": list(b), "verdict": "?", "why": "-", "val": {}})
    return out


# ------------------------------------------------------------------------------------------------ execution
class Batch:
    def __init__(self, bid, cases):
        self.bid, self.cases = bid, cases
        self.events, self.errs = {}, {}


def setup(ctx):
    d = os.path.join(ctx.work, "dict.txt")
    with open(d, "w") as f:
        f.write(DICT)
    audio = os.path.join(ctx.work, "audio.raw")
    with open(os.path.join(sut.REPO, "tests", "data", "goforward.raw"), "rb") as f:
        f.seek(2 * 4000)
        open(audio, "wb").write(f.read(16000))
    return d, audio


def run_batch(drv, batch, work, dictp, audio, timeout_s=TIMEOUT_S):
    scratch = os.path.join(work, "b_%s" % batch.bid)
    os.makedirs(scratch, exist_ok=True)
    trace = os.path.join(scratch, "trace.ndjson")
    script = "".join("case %s %s %s\n" % (c["id"], c["fmt"], expand(c).hex() or "-") for c in batch.cases)
    r = runner.run(drv, [trace, os.path.join(sut.REPO, "model", "en-us"), dictp, audio, scratch, str(timeout_s)], script,
                   timeout=60 + (timeout_s + 2) * len(batch.cases), leaks=True, env={"ASAN_OPTIONS": ASAN})
    if r.rc != 0:
        raise tlc.ModelError("driver failed (rc %s) in batch %s: %s" % (r.rc, batch.bid, r.err[-600:]))
    cur = None
    for ln in open(trace, errors="replace").read().split("\n"):
        if not ln.endswith("}"):
            continue
        try:
            e = json.loads(ln)
        except ValueError:
            continue
        if e.get("e") == "case":
            cur = e["id"]
            batch.events[cur] = [ln]
        elif cur is not None and e.get("e") in ("parsed", "used", "freed", "end"):
            batch.events[cur].append(ln)
    for c in batch.cases:
        p = os.path.join(scratch, "err.%s" % c["id"])
        if os.path.exists(p):
            batch.errs[c["id"]] = open(p, errors="replace").read(20000)
    shutil.rmtree(scratch, ignore_errors=True)
    return batch


def execute(ctx, drv, cases, dictp, audio, tag, timeout_s=TIMEOUT_S):
    for i, c in enumerate(cases):
        c["id"] = "%s%d" % (tag, i)
    # long running inputs spread over the batches
    nb = max(1, min(JOBS * 3, len(cases) // 20 + 1))
    batches = [Batch("%s%d" % (tag, k), cases[k::nb]) for k in range(nb)]
    with ThreadPoolExecutor(max_workers=JOBS) as pool:
        list(pool.map(lambda b: run_batch(drv, b, ctx.work, dictp, audio, timeout_s), batches))
    for b in batches:
        for c in b.cases:
            c["events"] = b.events.get(c["id"], [])
            c["err"] = b.errs.get(c["id"], "")
            if not c["events"] or not c["events"][-1].startswith('{"e":"end"'):
                raise tlc.ModelError("no end event for case %s (%s %s)" % (c["id"], c["fmt"], c["name"]))
            c["end"] = json.loads(c["events"][-1])
    return cases


# ------------------------------------------------------------------------------------------------ keys
def site(c):
    """where it happened (source file of the library, function), from the child's stderr"""
    err = c["err"]
    m = re.search(r'FATAL: "([\w.]+)", line \d+', err)
    if c["end"]["how"] == "exit" and m:
        return m.group(1)
    m = re.search(r"(calloc|malloc|realloc)\(.*?\) failed from ([\w./]+)\(\d+\)", err)
    if c["end"]["how"] == "exit" and m:
        return m.group(2).split("/")[-1] + ":allocation-failed"
    m = re.search(r"([\w./-]+\.[ch]):\d+:\d+: runtime error: ([^\n]+)", err)
    if m and "ERROR: AddressSanitizer" not in err.split("runtime error:")[0]:
        kind = "null-deref" if "null pointer" in m.group(2) else re.sub(r"[^a-z]+", "-", re.sub(r"[-\d.e+]{3,}|0x[0-9a-f]+", "", m.group(2).lower()))[:40].strip("-")
        return "%s:%s" % (m.group(1).split("/")[-1], kind)
    m = re.search(r"([\w./-]+\.[ch]):\d+: (?:[\w \*]+? )?\**(\w+)\(.*?Assertion", err, re.S) or re.search(r"([\w./-]+\.[ch]):\d+: (\w+): Assertion", err)
    if m:
        return "%s:%s:assert" % (m.group(1).split("/")[-1], m.group(2))
    m = re.search(r"ERROR: (?:Address|Leak)Sanitizer: ([\w-]+)", err)
    if m:
        kind = m.group(1)
        if kind == "attempting":
            kind = "double-free" if "double-free" in err else "bad-free"
        if kind == "detected":
            kind = "leak"
        fr = [x for x in re.findall(r"#\d+ 0x[0-9a-f]+ in (\w+) [^\n]*?/src/([\w/]+\.[ch])", err)
              if not x[0].startswith("__") and x[1].split("/")[-1] not in ("ckd_alloc.c",)]
        if fr:
            return ("%s:%s" % (fr[0][1].split("/")[-1], fr[0][0])) if kind == "leak" else "%s:%s:%s" % (kind, fr[0][1].split("/")[-1], fr[0][0])
        return kind
    if c["end"]["how"] in ("signal", "abort"):
        return "signal-%d" % c["end"]["code"]
    if c["end"]["how"] == "exit":
        return "status-%d" % c["end"]["code"]
    return c["end"]["how"]


def group(c):
    """coarse, stable class of damage for violation keys"""
    cls, kind = c["cls"], c["kind"]
    if cls == "trunc":
        return "truncated"
    if cls in ("del", "dup"):
        return kind                                   # <field kind>-deleted / -duplicated
    if cls == "swap":
        return "fields-swapped"
    if cls == "repl":
        return kind                                   # <field kind>-<replacement>
    if cls == "byte":
        return "odd-byte"
    if cls == "longtoken":
        return "long-field-%d" % c["desc"]["a"]
    if cls == "deepnest":
        return kind                                   # <what>-nested-<depth>
    if cls == "random":
        return "unstructured"
    if cls in ("linedup", "linedel"):
        return kind
    return cls


CLASS = {"exit": "exit", "abort": "abort", "signal": "crash", "sanitizer": "crash", "leak": "leak", "timeout": "timeout"}


# ------------------------------------------------------------------------------------------------ validation
_REPLAYS = {}


def write_replay(ctx, c, key):
    if ctx.replay:
        return ctx.replay
    lst = _REPLAYS.setdefault(key, [])
    if len(lst) >= 2:
        return lst[0]
    p = os.path.join(ctx.replays, "%s.json" % re.sub(r"[^\w.-]", "_", "%s-%s-%s" % (c["fmt"], c["inst"], c["name"]))[:150])
    with open(p, "w") as f:
        json.dump({k: c[k] for k in ("fmt", "inst", "name", "kind", "cls", "described", "desc", "bytes", "verdict", "why")}, f)
    lst.append(p)
    return p


def validate(ctx, cases, stage, stats):
    rep = ctx.report
    chunks, by_id = [], {}
    for c in cases:
        by_id[c["id"]] = c
        rep.evaluations += 1
        chunks.append((c["id"], c["events"]))
    acc, fails, results = tracecheck.validate(SPEC, "TextTrace.tla", "TextTrace.cfg", chunks, ctx.work, timeout=1500, max_fail=3, heap="6g",
                                              prefix=['{"e":"Header","ncep":13}'], lib=LIB)
    for r in results:
        rep.add_tlc("TextTrace(%s)" % stage, r, mode="trace-validation")
    if fails:
        raise tlc.ModelError("trace of %s not explained by TextTrace at event %d: %s" % (fails[0].exec_id, fails[0].local_line, fails[0].event[:300]))
    starts, n = [], 1
    for eid, lines in chunks:
        starts.append((n, eid))
        n += len(lines)

    def owner(line):
        lo, hi = 0, len(starts) - 1
        while lo < hi:
            mid = (lo + hi + 1) // 2
            if starts[mid][0] <= line - 1:
                lo = mid
            else:
                hi = mid - 1
        return by_id[starts[lo][1]]

    out = results[0].out if results else ""
    failed = {}
    for clause, line in re.findall(r'<<\s*"CLAUSE-FAILED",\s*"([^"]+)",\s*(\d+)\s*>>', out):
        c = owner(int(line))
        failed.setdefault(c["id"], []).append(clause)
    verd = {}
    for v, line in re.findall(r'<<\s*"VERDICT",\s*"([TFU])",\s*(\d+)\s*>>', out):
        verd[owner(int(line))["id"]] = v
    for c in cases:
        c["tverdict"] = verd.get(c["id"], "?")
        if c["verdict"] in "TFU" and c["tverdict"] != c["verdict"] and not c["described"] and len(c["bytes"]) <= 700:
            raise tlc.ModelError("TextInit and TextTrace disagree on %s %s: %s vs %s" % (c["fmt"], c["name"], c["verdict"], c["tverdict"]))
        how = c["end"]["how"]
        stats["ended"][how] = stats["ended"].get(how, 0) + 1
        cl = failed.get(c["id"], [])
        if not cl:
            rep.traces += 1
            ret = json.loads(c["events"][1])["ret"] if len(c["events"]) > 1 else None
            stats["returned" if ret == 1 else "refused"] += 1
            rep.nontrivial.add((c["fmt"], c["kind"], ret))
            continue
        for clause in cl:
            if clause == "ended-normally" and how == "leak":
                # C10 as stated does not speak of leaks (C09 does): a note, never a violation of this property
                k = "leak:%s:%s" % (c["fmt"], site(c))
                if k not in stats.setdefault("leak_notes", {}):
                    print("NOTE: a refused or accepted input leaked memory (not part of C10; see C09): %s, e.g. %s/%s %s"
                          % (k, c["fmt"], c["inst"], c["name"]))
                stats["leak_notes"][k] = stats["leak_notes"].get(k, 0) + 1
                continue
            if clause == "ended-normally":
                key = "%s:%s:%s:%s" % (CLASS.get(how, how), c["fmt"], "damaged" if how == "leak" else group(c), site(c))
                what = "the process %s" % ("did not return within %d s" % TIMEOUT_S if how == "timeout" else "ended by %s (%s)" % (how, c["end"]["code"]))
                what += ": " + re.sub(r"\s+", " ", c["err"][:600])
            else:
                key = "%s:%s:%s" % (clause, c["fmt"], group(c))
                what = "clause %s fails: %s" % (clause, " ".join(c["events"][1:3])[:400])
            k = stats["keys"].setdefault(key, {"n": 0, "examples": []})
            k["n"] += 1
            if len(k["examples"]) < 4:
                k["examples"].append("%s/%s %s" % (c["fmt"], c["inst"], c["name"]))
            rep.violation(key, "%s, %s instance %s, %s (verdict %s %s): %s" % (stage, c["fmt"], c["inst"], c["name"], c["tverdict"], c["why"], what),
                          write_replay(ctx, c, key))
    return stats


def confirm_timeouts(ctx, drv, cases, dictp, audio):
    """a time-out under load is re-run alone with three times the limit before it counts"""
    slow = [c for c in cases if c["end"]["how"] == "timeout"]
    if slow:
        copies = [dict(c) for c in slow]
        save_jobs = min(4, len(copies))
        for i, c in enumerate(copies):
            c["id"] = "again%d" % i
        batches = [Batch("again%d" % i, [c]) for i, c in enumerate(copies)]
        with ThreadPoolExecutor(max_workers=save_jobs) as pool:
            list(pool.map(lambda b: run_batch(drv, b, ctx.work, dictp, audio, 3 * TIMEOUT_S), batches))
        for c, cp, b in zip(slow, copies, batches):
            ev = b.events.get(cp["id"], [])
            if not ev or not ev[-1].startswith('{"e":"end"'):
                raise tlc.ModelError("no end event re-running %s" % c["name"])
            c["events"] = [e.replace('"id":"%s"' % cp["id"], '"id":"%s"' % c["id"]) for e in ev]
            c["err"] = b.errs.get(cp["id"], "")
            c["end"] = json.loads(ev[-1])
    return len(slow)


# ------------------------------------------------------------------------------------------------ main
def select_quick(cases, rng):
    """quick tier: every case that is not a truncation; of truncations every second length (seeded phase) plus the
    lengths next to a field boundary (verdict changes)"""
    out, groups = [], {}
    for c in cases:
        if c["cls"] == "trunc":
            groups.setdefault((c["fmt"], c["inst"]), []).append(c)
        else:
            out.append(c)
    for g in groups.values():
        g.sort(key=lambda c: len(c["bytes"]))
        ph = rng.randrange(2)
        for i, c in enumerate(g):
            edge = i == 0 or i == len(g) - 1 or g[i - 1]["why"] != c["why"] or g[i - 1]["verdict"] != c["verdict"]
            if edge or i % 2 == ph:
                out.append(c)
    return out


def run(ctx):
    rep = ctx.report
    rng = random.Random(ctx.seed)
    quick = ctx.tier == "quick"
    libdir, _ = sut.build_lib("asan")
    drv = sut.build_harness("txt_drv", ["textin/txt_drv.c"], libdir, wraps=WRAPS, outdir=ctx.work)
    dictp, audio = setup(ctx)
    stats = {"executions": 0, "returned": 0, "refused": 0, "ended": {}, "keys": {}}
    if ctx.replay:
        c = json.load(open(ctx.replay))
        c["val"] = {}
        execute(ctx, drv, [c], dictp, audio, "r")
        confirm_timeouts(ctx, drv, [c], dictp, audio)
        validate(ctx, [c], "replay", stats)
        rep.rule = "replay of one stored case"
        return
    cases = export(ctx, 8 if not os.environ.get("VERIF_JOBS") else min(JOBS, 8))
    chosen = select_quick(cases, rng) if quick else cases
    chosen = chosen + unstructured(rng, cases, 400 if quick else 4000)
    import time
    t0 = time.time()
    execute(ctx, drv, chosen, dictp, audio, "c")
    t1 = time.time()
    stats["executions"] = len(chosen)
    stats["timeouts_rerun"] = confirm_timeouts(ctx, drv, chosen, dictp, audio)
    t2 = time.time()
    validate(ctx, chosen, "derived cases", stats)
    # not vacuous: every format with a value binding must have had instances judged "T" whose value TextTrace compared
    bound = {f: sum(1 for c in chosen if c["fmt"] == f and c.get("tverdict") == "T" and len(c["events"]) > 1 and '"ret":1' in c["events"][1])
             for f in FORMATS}
    rep.notes["valid_inputs_accepted_and_compared"] = bound
    weak = [f for f in FORMATS if bound[f] < (1 if f == "jsgf" else 10)]
    # (a tree so broken that every valid input of a format ends abnormally is reported through the clauses, not here)
    crashed_all = [f for f in weak if all(c["end"]["how"] != "ok" for c in chosen if c["fmt"] == f and c.get("tverdict") == "T")]
    if [f for f in weak if f not in crashed_all]:
        raise tlc.ModelError("vacuous: no valid input of %s was accepted and compared (%r)" % (weak, bound))
    rep.notes["wall_s"] = {"execute": round(t1 - t0), "timeouts_rerun": round(t2 - t1), "validate": round(time.time() - t2)}
    rep.notes["stats"] = stats
    for c in (chosen[0], chosen[len(chosen) // 3]):
        rep.sample({"format": c["fmt"], "instance": c["inst"], "damage": c["name"], "verdict": c["tverdict"], "why": c["why"],
                    "events": [json.loads(e) for e in c["events"][1:]][:4]})
    print("C10: %d executions (%d derived cases available): %d returned an object, %d reported failure; ended: %s" % (
        len(chosen), len(cases), stats["returned"], stats["refused"], ", ".join("%s x%d" % kv for kv in sorted(stats["ended"].items()))))
    rep.exhaustive = not quick
    rep.rule = ("executions = (format, instance, damage) cases derived by TLC from the format specification plus seeded unstructured bytes; "
                "non-trivial = distinct (format, kind of damage, object returned or not) among executions accepted by TextTrace")
    rep.assumptions += [
        "verdict 'U' (documentation silent, library lenient) obliges only the safety clauses and well-formedness of what is returned",
        "allocation limit of the sanitizer run-time 2 GiB: an input whose declared size makes the library request more and exit is reported as exit:...",
        "alignment text, CMN text and JSGF have no public accessor for the object built: only acceptance, use and free are checked for them "
        "(CMN: the values read back through decoder_get_cmn)",
        "the phone set is that of model/en-us; the dictionary the harness loads is a fixed 8-word file",
    ]
