"""C12 - see checks/c11.py (shared machinery, clause selection WHICH=C12)."""
from checks import c11


def run(ctx):
    c11.run_which(ctx, "C12")
