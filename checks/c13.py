"""C13 - grammar transformations and FSG files preserve the grammar.

  1. TLC, exhaustive:
       MC_abs     the C13 statements (same real-word sentences with the same best log-prob, idempotence,
                  closedness) are theorems of the DEFINITIONS in FsgAbs, from every grammar of a family;
       MC_impl    FsgModelImpl (fsg_model.c transcribed: link lists with prepend, duplicate merge, the
                  closure loop as written, add_silence, add_alt) refines FsgAbsSpec - from the empty
                  grammar under every order of calls (small), from every null-transition graph with
                  3 / 4 states (chains, cycles, unreachable parts; with weight upgrades between closures),
                  from every mixed grammar of a family.
  2. TLC exports the complete labelled state graph of a small instance; tours covering every
     (grammar state, call) edge become call scripts.
  3. The scripts are executed on the real fsg_model_* API (harness/fsg/fsg_drv.c), together with
     enumerated small grammars (every null graph on 3 states, sampled ones on 4, long chains and rings,
     closed grammars whose arcs are then improved, vocabularies of > 32 words), seeded random larger
     grammars (<= 10 states, <= 30 arcs, language weights 1.0 and 6.5), grammars handed to a real decoder
     (decoder_set_fsg: fsg_search.c adds the fillers and alternates of script-provided dictionaries) and
     write/read round trips (named, unnamed, tiny probabilities, other language weight, literal files).
     After every call the whole grammar is dumped through the public arc iterator.
  4. Every recorded execution is validated by TLC against FsgAbs (FsgTrace.tla): named predicates per
     event; a false one, reproduced by re-running the script alone, is a violation keyed by its name
     (names starting with diag: are observations the property does not state and are only recorded).
"""
import os, random, json, re, itertools, shutil, zlib, concurrent.futures
from vlib import sut, tlc, tours, runner

SPEC = os.path.join(os.path.dirname(os.path.dirname(os.path.abspath(__file__))), "specs", "fsg")

# probability whose integer weight at lw = 1 is the model's filler penalty
SILPROB = {-2: "0.99975", 0: "1.0", -1: "0.99985"}


# ---------------------------------------------------------------------------------------------------
# script generators: (execution id, [lines])
# ---------------------------------------------------------------------------------------------------
def tour_script(eid, ns, start, final, labels):
    s = ["new tour 1.0 %d %d %d" % (ns, start, final)]
    for a in labels:
        op = a["op"]
        if op == "trans":
            s.append("trans %d %d L %d %s" % (a["f"], a["t"], a["lp"], a["w"]))
        elif op == "null":
            s.append("null %d %d L %d" % (a["f"], a["t"], a["lp"]))
        elif op == "closure":
            s.append("closure")
        elif op == "sil":
            s.append("sil %s %d %s" % (a["w"], a["state"], SILPROB[a["lp"]]))
        elif op == "alt":
            s.append("alt %s %s" % (a["base"], a["alt"]))
        else:
            raise tlc.ModelError("unknown tour label %r" % (a,))
    s.append("end")
    return (eid, s)


def xform_tail(rng, ns, words, roundtrip, lw=1.0):
    """the transformations every enumerated / random grammar goes through, in the order fsg_search.c uses
    (closure by the reader / JSGF compiler, silences, alternates), each idempotent one twice"""
    t = ["closure", "closure"]
    t += ["sil <sil> -1 0.005", "sil <sil> -1 0.005"]
    if rng.random() < 0.5:
        t.append("sil <sil> %d %s" % (rng.randrange(ns), rng.choice(["0.5", "0.001", "1.0"])))   # merge: keep the higher
    if not roundtrip and rng.random() < 0.5:
        t += ["sil +noise+ -1 1e-8", "sil +noise+ -1 1e-8"]     # fillprob default
    for w in words:
        if rng.random() < 0.6:
            t.append("alt %s %s(2)" % (w, w))
            if rng.random() < 0.3:
                t.append("alt %s %s(3)" % (w, w))
    t.append("alt <sil> <sil>(2)")
    if rng.random() < 0.3:
        t.append("alt nosuchword nosuchword(2)")
    t.append("closure")
    if rng.random() < 0.5:       # a null transition added to a closed grammar, then closed again
        f, to = rng.randrange(ns), rng.randrange(ns)
        t += ["null %d %d L %d" % (f, to, rng.choice([0, -1, -3, -40])), "closure", "closure"]
    if roundtrip:
        t += ["write 1", "read 1 %s" % lw]
    return t


def small_script(rng, eid, ns, eps, nwords):
    """eps: list of (f, t, lp) null arcs; a few word arcs around them, duplicates, self-loops"""
    start, final = rng.randrange(ns), rng.randrange(ns)
    if rng.random() < 0.7:
        start, final = 0, ns - 1
    build = ["null %d %d L %d" % a for a in eps]
    words = ["a", "b"][:nwords]
    for _ in range(rng.randint(1, 4)):
        f, t = rng.randrange(ns), rng.randrange(ns)
        build.append("trans %d %d L %d %s" % (f, t, rng.choice([0, -1, -3]), rng.choice(words)))
    if build and rng.random() < 0.6:     # duplicates with another weight
        for _ in range(rng.randint(1, 2)):
            p = rng.choice(build).split()
            p[4] = str(rng.choice([0, -1, -3, -7]))
            build.append(" ".join(p))
    if rng.random() < 0.4:
        s = rng.randrange(ns)
        build.append("null %d %d L %d" % (s, s, rng.choice([0, -1])))      # redundant self-loop
    rng.shuffle(build)
    s = ["new g 1.0 %d %d %d" % (ns, start, final)] + build + xform_tail(rng, ns, words, rng.random() < 0.3)
    s.append("end")
    return (eid, s)


PROBS = ["1.0", "1.0", "0.5", "0.5", "0.1", "0.9", "0.25", "0.75", "0.01", "0.001", "0.3333", "1e-5", "0.05"]


def random_script(rng, eid):
    ns = rng.randint(5, 10)
    narcs = rng.randint(10, 30)
    lw = rng.choice(["1.0", "6.5"])
    real = ["w%d" % i for i in range(rng.randint(2, 4))]
    extra = ["x%d" % i for i in range(rng.randint(6, 12))]     # > 10 words: the vocabulary bit vectors grow
    dead = set(rng.sample(range(1, ns - 1), rng.randint(1, 2)))  # never entered: unreachable from state 0
    live = [s for s in range(ns) if s not in dead]
    build = []
    # a backbone so that the language is not empty
    path = [0] + sorted(rng.sample([s for s in live if s not in (0, ns - 1)], min(len(live) - 2, rng.randint(1, 3)))) + [ns - 1]
    for f, t in zip(path, path[1:]):
        if rng.random() < 0.4:
            build.append("null %d %d P %s" % (f, t, rng.choice(PROBS)))
        else:
            build.append("trans %d %d P %s %s" % (f, t, rng.choice(PROBS), rng.choice(real)))
    while len(build) < narcs:
        f = rng.randrange(ns)
        t = rng.choice(live)
        if rng.random() < 0.35:
            build.append("null %d %d P %s" % (f, t, rng.choice(PROBS + ["1e-8"])))
        else:
            w = rng.choice(extra + real) if f in dead else rng.choice(real)
            build.append("trans %d %d P %s %s" % (f, t, rng.choice(PROBS + ["1e-8"]), w))
    rng.shuffle(build)
    s = ["new rnd %s %d 0 %d" % (lw, ns, ns - 1)] + build + xform_tail(rng, ns, real, False) + ["end"]
    return (eid, s)


def roundtrip_script(rng, eid, flavor):
    ns = rng.randint(2, 6)
    lw = rng.choice(["1.0", "6.5"])
    if flavor == "rawweights":
        lw = rng.choice(["6.5", "7.5", "9.5", "2.25"])
    rlw = lw
    name = "rt%d" % rng.randrange(1000)
    probs = ["1.0", "0.5", "0.1", "0.9", "0.25", "0.01", "0.001234", "0.3333", "1e-5", "6e-7", "0.999", "0.05"]
    if flavor == "noname-null":
        name = "NULL"
    elif flavor == "noname-empty":
        name = "-"
    elif flavor == "lwx":
        rlw = "6.5" if lw == "1.0" else "1.0"
    # spellings that differ only in letter case are different words (Polish / polish, US / us)
    words = rng.choice([["go", "stop", "left"], ["go", "Go", "GO"], ["us", "US", "left", "Left"], ["a", "A", "b"]])
    build = []
    for _ in range(rng.randint(2, 9)):
        f, t = rng.randrange(ns), rng.randrange(ns)
        if flavor == "rawweights":
            # weights given as integers (the form the API takes), anywhere on the integer grid - not only where a
            # probability times the language weight lands
            w = -rng.randrange(1, rng.choice([200, 20000, 60000]))
            if rng.random() < 0.35 and f != t:
                build.append("null %d %d L %d" % (f, t, w))
            else:
                build.append("trans %d %d L %d %s" % (f, t, w, rng.choice(words)))
        elif rng.random() < 0.35 and f != t:
            build.append("null %d %d P %s" % (f, t, rng.choice(probs)))
        else:
            build.append("trans %d %d P %s %s" % (f, t, rng.choice(probs), rng.choice(words)))
    if flavor == "tiny":
        f, t = rng.randrange(ns), rng.randrange(ns)
        build.append("trans %d %d P %s tiny" % (f, t, rng.choice(["1e-8", "4e-7", "1e-7", "1e-12", "1e-30"])))
    s = ["new %s %s %d %d %d" % (name, lw, ns, rng.randrange(ns), rng.randrange(ns))] + build
    if flavor != "unclosed":
        s.append("closure")
    if flavor == "xformed":
        s += ["sil <sil> -1 0.005", "alt go go(2)"]
    s += ["write 1", "read 1 %s" % rlw, "end"]
    return (eid, s)


# dictionaries for the decoder family: (main dictionary, filler dictionary)
DICTS = {
    "std": ("go G OW\ngo(2) G AO\nforward F AO R W ER D\nstop S T AA P\nleft L EH F T\nleft(2) L EH F\nleft(3) L EH\nback B AE K\n",
            "<s> SIL\n</s> SIL\n<sil> SIL\n[NOISE] +NSN+\n[SPEECH] +SPN+\n"),
    "sil-last": ("go G OW\nforward F AO R W ER D\nstop S T AA P\nleft L EH F T\nback B AE K\nback(2) B AE\n",
                 "[NOISE] +NSN+\n<s> SIL\n</s> SIL\n<sil> SIL\n"),
    "sil-alt": ("go G OW\ngo(2) G AO\nforward F AO R W ER D\nstop S T AA P\nleft L EH F T\nback B AE K\n",
                "<s> SIL\n</s> SIL\n<sil> SIL\n<sil>(2) SIL\n[NOISE] +NSN+\n[NOISE](2) +SPN+\n[SPEECH] +SPN+\n"),
}


def dict_config(text, ftext):
    words = [l.split()[0] for l in text.splitlines() if l.strip()]
    fwords = [l.split()[0] for l in ftext.splitlines() if l.strip()]
    base = lambda w: re.sub(r"\(\d+\)$", "", w)
    fillers = [w for w in fwords if w not in ("<s>", "</s>")]
    alts = [(base(w), w) for w in words + fwords if base(w) != w]
    return [w for w in words if base(w) == w], fillers, alts


def search_script(rng, eid):
    """a grammar over dictionary words handed to a real decoder: fsg_search.c adds the fillers and the
    alternates the dictionaries list"""
    dn = rng.choice(sorted(DICTS))
    text, ftext = DICTS[dn]
    dp, fp = "%s.dict" % dn, "%s.fdict" % dn
    words, fillers, alts = dict_config(text, ftext)
    ns = rng.randint(2, 6)
    lw = rng.choice(["1.0", "6.5"])
    silprob, fillprob = rng.choice([("0.005", "1e-8"), ("0.1", "0.01"), ("0.005", "0.005"), ("1.0", "0.5")])
    use = rng.sample(words, rng.randint(2, 4))
    build = []
    path = list(range(ns))
    for f, t in zip(path, path[1:]):
        build.append("trans %d %d P %s %s" % (f, t, rng.choice(PROBS), rng.choice(use)))
    for _ in range(rng.randint(1, 8)):
        f, t = rng.randrange(ns), rng.randrange(ns)
        if rng.random() < 0.3:
            build.append("null %d %d P %s" % (f, t, rng.choice(PROBS)))
        else:
            build.append("trans %d %d P %s %s" % (f, t, rng.choice(PROBS), rng.choice(use)))
    rng.shuffle(build)
    s = ["new dec %s %d 0 %d" % (lw, ns, ns - 1), "file %s %s" % (dp, text.encode().hex()),
         "file %s %s" % (fp, ftext.encode().hex())] + build + ["closure"]
    s.append("search %s %s %s %s %s %s" % (dp, fp, silprob, fillprob, ",".join(fillers) or "-",
                                         ",".join("%s=%s" % a for a in alts) or "-"))
    s += ["closure", "end"]
    return (eid, s)


TEXTS = {
    # documented format, short keywords, comments, no trailing newline handled by the reader
    "short-keywords": "# comment\nFSG_BEGIN t1\nN 3\nS 0\nF 2\nT 0 1 0.5 hello\nT 0 1 0.25 world\n# mid comment\nT 1 2 1.0\nT 1 2 0.1 x\nFSG_END\n",
    "long-keywords": "FSG_BEGIN t2\nNUM_STATES 3\nSTART_STATE 1\nFINAL_STATE 1\nTRANSITION 1 0 1.0 a\nTRANSITION 0 2 0.9\nTRANSITION 2 1 0.9\nTRANSITION 2 2 0.5\nTRANSITION 0 0 0.3 a\nFSG_END\n",
    "duplicates": "FSG_BEGIN t3\nN 2\nS 0\nF 1\nT 0 1 0.1 a\nT 0 1 0.5 a\nT 0 1 0.2 a\nT 0 1 0.5\nT 0 1 0.7\nT 1 0 1.0\nFSG_END\n",
    "null-chain": "FSG_BEGIN t4\nN 5\nS 0\nF 4\nT 0 1 0.5\nT 1 2 0.5\nT 2 3 0.5\nT 3 4 0.5\nT 4 0 0.5\nT 2 2 0.9 w\nFSG_END\n",
    # fsg_model.h: "It has an optional fsg name string.  If not present, the FSG has the empty string as its name."
    "no-name": "FSG_BEGIN\nN 2\nS 0\nF 1\nT 0 1 1.0 a\nFSG_END\n",
}


# ---------------------------------------------------------------------------------------------------
# execution on the real code
# ---------------------------------------------------------------------------------------------------
def execute(drv, scripts, work, tag):
    """Run scripts in one harness process.  The trace is line buffered, so after a crash / hang the last
    execution that was started is the culprit: the ones before it are kept, the ones after it run in a
    new process.  Returns (chunks [(eid, [json lines])], crashes [(eid, why)])."""
    fdir = os.path.join(work, "files_%s" % tag)
    os.makedirs(fdir, exist_ok=True)
    chunks, crashes, todo, part = [], [], list(scripts), 0
    while todo:
        path = os.path.join(work, "fsg_%s_%d.ndjson" % (tag, part))
        part += 1
        text = "\n".join("\n".join(s) for _, s in todo) + "\n"
        r = runner.run(drv, [path, fdir, os.path.join(sut.REPO, "model", "en-us")], text,
                       timeout=600 + len(todo) // 5, leaks=False)   # leaks are C09's business
        if r.rc in (3, 4):
            raise tlc.ModelError("harness refused a script (%s): %s" % (tag, r.why()))
        chs = []
        if os.path.exists(path):
            for ln in open(path):
                if ln.startswith('{"e":"Header"') or ln.startswith('{"e":"Text"'):
                    chs.append([])
                if not chs:
                    raise tlc.ModelError("harness output does not start with a Header: " + ln[:100])
                if ln.endswith("\n"):
                    chs[-1].append(ln)
            os.unlink(path)
        if r.rc == 0:
            if len(chs) != len(todo):
                raise tlc.ModelError("harness produced %d executions for %d scripts" % (len(chs), len(todo)))
            chunks += [(eid, ch) for (eid, _), ch in zip(todo, chs)]
            break
        k = max(len(chs), 1)            # executions started; the last one did not finish
        chunks += [(eid, ch) for (eid, _), ch in zip(todo[:k - 1], chs[:k - 1])]
        why = "a library call did not return within 20 s (" + r.err.strip()[-80:] + ")" if r.rc == 99 else r.why()
        crashes.append((todo[k - 1][0], why))
        todo = todo[k:]
        if len(crashes) > 40:
            break                       # everything crashes: no point in going on
    return chunks, crashes


_FAIL = re.compile(r'^<<"FAIL", (\d+), "([^"]+)">>', re.M)
_REJ = re.compile(r'<<"REJECTED-AT", (\d+)>>')


def _validate_group(group, work, gi):
    """one TLC run over the concatenation of a group of executions (repeated after a rejected one).
    Returns ({eid: set(names)}, [TlcResult], n_consumed_executions)"""
    fails, results = {}, []
    todo = list(group)
    while todo:
        path = os.path.join(work, "trace_%d_%d.ndjson" % (gi, len(results)))
        starts, n = [], 0
        with open(path, "w") as f:
            for eid, lines in todo:
                starts.append(n)
                for ln in lines:
                    f.write(ln.rstrip("\n") + "\n")
                n += len(lines)
        r = tlc.run("FsgTrace.tla", "FsgTrace.cfg", SPEC, workers=1, timeout=1500, env={"TRACE": path}, heap="3g")
        results.append(r)
        os.unlink(path)

        def owner(line):      # 1-based line -> index of the execution holding it
            idx = 0
            for i, s0 in enumerate(starts):
                if s0 <= line - 1:
                    idx = i
            return idx
        for m in _FAIL.finditer(r.out):
            fails.setdefault(todo[owner(int(m.group(1)))][0], set()).add(m.group(2))
        m = _REJ.search(r.out)
        if m:
            idx = owner(int(m.group(1)))
            fails.setdefault(todo[idx][0], set()).add("trace:unexplained-event")
            todo = todo[idx + 1:]
            continue
        if "No error has been found" not in r.out or r.rc != 0:
            raise tlc.ModelError("trace validation did not finish cleanly:\n" + r.out[-3000:])
        break
    return fails, results


def validate(chunks, work, tag, par):
    """Returns ({eid: set(failed predicate names)}, [TlcResult])"""
    if not chunks:
        return {}, []
    par = max(1, min(par, len(chunks)))
    groups = [[] for _ in range(par)]
    load = [0] * par
    for ch in sorted(chunks, key=lambda c: -sum(len(x) for x in c[1])):      # balance by bytes
        i = load.index(min(load))
        groups[i].append(ch)
        load[i] += sum(len(x) for x in ch[1])
    fails, results = {}, []
    with concurrent.futures.ThreadPoolExecutor(max_workers=par) as ex:
        futs = [ex.submit(_validate_group, g, work, zlib.crc32(tag.encode()) % 100000 * 100 + i) for i, g in enumerate(groups) if g]
        for fu in futs:
            f, r = fu.result()
            fails.update(f)
            results += r
    return fails, results


def write_replay(ctx, name, lines):
    p = os.path.join(ctx.replays, re.sub(r"[^A-Za-z0-9_.-]", "_", name) + ".script")
    with open(p, "w") as f:
        f.write("\n".join(lines) + "\n")
    return p


WHAT = {
    "func": "the grammar shown by the arc iterator after the call is not the one the operation's definition gives",
    "ret": "the call did not return the documented value",
    "marks": "filler / alternate marks of the vocabulary are not the ones the calls imply",
    "preserve": "the transformation changed the real-word sentences (<= 4 words) or the best log-prob of one of them",
    "closed": "after the closure a null path has no direct null arc with the best weight",
    "idem": "repeating the call changed the grammar again",
    "write": "the written file does not say what the grammar is",
    "roundtrip": "write then read does not give the grammar back",
    "trace": "the recorded event is not explained by any action of FsgTrace",
    "crash": "the real code crashed on a call sequence the model allows",
}


def nontrivial(ch):
    """a transformation changed the arc list (closure added / improved a null arc, a silence loop merged
    into an existing one or alternates were copied), or a file was read back"""
    prev, hit = None, False
    for ln in ch:
        e = json.loads(ln)
        if e["e"] == "Read" and e.get("ok"):
            hit = True
        if e["e"] == "Closure" and prev is not None and sorted(map(tuple, e["st"]["arcs"])) != prev:
            hit = True
        if e["e"] == "Alt" and e["ret"] > 0:
            hit = True
        if "st" in e:
            prev = sorted(map(tuple, e["st"]["arcs"]))
    return hit


def run_and_report(ctx, drv, scripts, tag, par):
    rep = ctx.report
    by_id = dict(scripts)
    chunks, crashes = execute(drv, scripts, ctx.work, tag)
    for eid, why in crashes:
        p = write_replay(ctx, "crash_%s" % eid, by_id[eid])
        rep.violation("crash:" + eid.split("#")[0], WHAT["crash"] + ": " + why, p)
    fails, results = validate(chunks, ctx.work, tag, par)
    for r in results:
        rep.add_tlc("FsgTrace(%s)" % tag, r, mode="trace-validation")
    # diag: names are observations C13 does not state: recorded, never a violation
    diags = rep.notes.setdefault("diagnostics_not_violations", {})
    for eid in list(fails):
        for name in [n for n in fails[eid] if n.startswith("diag:")]:
            d = diags.setdefault(name, {"executions": 0, "example": " / ".join(by_id[eid])[-300:]})
            d["executions"] += 1
            fails[eid].discard(name)
        if not fails[eid]:
            del fails[eid]
    rep.traces += sum(1 for eid, _ in chunks if eid not in fails)
    for eid, ch in chunks:
        rep.evaluations += len(ch)
        if nontrivial(ch):
            rep.nontrivial.add(eid)
    # reproduce alone before reporting (soundness rule); a few executions per predicate are enough
    per_key = {}
    for eid in sorted(fails):
        for name in sorted(fails[eid]):
            per_key.setdefault(name, []).append(eid)
    confirmed = {}
    for name, eids in sorted(per_key.items()):
        eids.sort(key=lambda e: (not e.startswith("min-"), len(by_id[e]), sum(map(len, by_id[e])), e))   # hand-minimised, then shortest
        for eid in eids[:3]:
            if (eid, name) in confirmed:
                continue
            c2, cr2 = execute(drv, [(eid, by_id[eid])], ctx.work, tag + "r")
            f2, _ = validate(c2, ctx.work, tag + "r", 1)
            for n2 in f2.get(eid, set()):
                confirmed[(eid, n2)] = True
            if cr2:
                p = write_replay(ctx, "crash_%s" % eid, by_id[eid])
                rep.violation("crash:" + eid.split("#")[0], WHAT["crash"] + ": " + cr2[0][1], p)
        hit = [eid for eid in eids if confirmed.get((eid, name))]
        if not hit:
            continue
        eid = hit[0]
        p = ctx.replay or write_replay(ctx, "%s_%s" % (name.replace(":", "-"), eid), by_id[eid])
        rep.violation(name, "%s (predicate %s of FsgTrace false on %d execution(s), e.g. %s: %s)" %
                      (WHAT.get(name.split(":")[0], ""), name, len(eids), eid, " / ".join(by_id[eid])[:260]), p)
    return chunks, fails


def selftest(work):
    """Binding demonstration, run by hand (python3 -c 'import checks.c13 as c; c.selftest(dir)'): an accepted
    trace of the real code is rejected by TLC once ONE recorded field is corrupted."""
    libdir, _ = sut.build_lib("asan")
    drv = sut.build_harness("fsg_drv", ["fsg/fsg_drv.c"], libdir)
    sc = ("selftest", ["new g 1.0 4 0 3", "trans 0 1 L -1 a", "null 1 2 L -1", "null 2 3 L -3", "trans 3 3 L 0 b",
                       "closure", "closure", "sil <sil> -1 0.005", "alt a a(2)", "end"])
    chunks, crashes = execute(drv, [sc], work, "self")
    fails, _ = validate(chunks, work, "self", 1)
    out = {"accepted_as_recorded": not fails and not crashes}
    lines = list(chunks[0][1])
    for i, ln in enumerate(lines):
        e = json.loads(ln)
        if e["e"] == "Closure":
            for a in e["st"]["arcs"]:
                if a[:3] == [1, 3, ""]:
                    a[3] -= 1            # the closure's 1 -> 3 null arc: -4 recorded, -5 claimed
            lines[i] = json.dumps(e) + "\n"
            break
    fails2, _ = validate([("selftest", lines)], work, "self2", 1)
    out["rejected_after_corrupting_one_weight"] = sorted(fails2.get("selftest", []))
    return out


# ---------------------------------------------------------------------------------------------------
def exhaustive(ctx, quick):
    rep = ctx.report
    acts = ("TransAddB", "NullAddB", "ClosureB", "AddSilenceB", "AddAltB")
    if quick:
        cfgs = [("MC_impl.tla", "MC_small2.cfg", 3, acts),
                ("MC_impl.tla", "MC_nulls3u.cfg", 3, ("ClosureB",)),
                ("MC_impl.tla", "MC_nulls4q.cfg", 3, ("ClosureB",)),
                ("MC_impl.tla", "MC_mixed3q.cfg", 4, ("ClosureB", "AddSilenceB", "AddAltB")),
                ("MC_abs.tla", "MC_abs3q.cfg", 4, ("AClosure", "ASil", "AAltOnce"))]
    else:
        cfgs = [("MC_impl.tla", "MC_small2t.cfg", 4, acts),
                ("MC_impl.tla", "MC_small2r.cfg", 4, acts),      # the refinement stated as A!ASpec, no shortcut
                ("MC_impl.tla", "MC_nulls3u.cfg", 2, ("ClosureB",)),
                ("MC_impl.tla", "MC_nulls4qu.cfg", 6, ("ClosureB",)),     # <= 3 arcs, then upgrades and closures
                ("MC_impl.tla", "MC_nulls4.cfg", 12, ("ClosureB",)),       # <= 5 arcs, weights {0,-1,-3}
                ("MC_impl.tla", "MC_nulls4w2.cfg", 6, ("ClosureB",)),     # <= 6 arcs, weights {0,-1}
                ("MC_impl.tla", "MC_mixed3t.cfg", 8, ("ClosureB", "AddSilenceB", "AddAltB")),
                ("MC_abs.tla", "MC_abs3t.cfg", 8, ("AClosure", "ASil", "AAltOnce")),
                ("MC_abs.tla", "MC_abs2w.cfg", 8, ("AClosure", "ASil", "AAltOnce"))]

    def one(c):
        mod, cfg, w, need = c
        # -coverage makes these recursive-operator models 5-7 times slower: it is used on the from-empty
        # instance (every action); the family instances must get past their initial states instead
        cov = cfg.startswith("MC_small")
        return c, tlc.run(mod, cfg, SPEC, workers=w, timeout=1700, coverage=cov, heap="6g" if w >= 8 else "3g")
    order = sorted(cfgs, key=lambda c: -c[2])
    with concurrent.futures.ThreadPoolExecutor(max_workers=5 if quick else 3) as ex:
        for c, r in ex.map(one, order):
            mod, cfg, w, need = c
            if r.violated:
                raise tlc.ModelError("%s/%s: %s violated - the transcription does not satisfy the abstract "
                                     "definitions:\n%s" % (mod, cfg, r.violated, r.out[-2500:]))
            if r.coverage:
                for a in need:
                    if r.coverage.get(a, (0, 0))[0] == 0:
                        raise tlc.ModelError("vacuous model run: action %s never taken in %s" % (a, cfg))
            else:
                m = re.search(r"Finished computing initial states: (\d+) distinct", r.out)
                if not m or r.depth < 2 or r.generated <= int(m.group(1)):
                    raise tlc.ModelError("vacuous model run: no transformation taken in %s" % cfg)
            rep.add_tlc("%s/%s" % (mod, cfg), r)
    # non-vacuity of "passes until no update": some null graph needs three passes
    r = tlc.run("MC_impl.tla", "MC_passes.cfg", SPEC, workers=1, timeout=600)
    if r.violated != "AtMostTwoPasses":
        raise tlc.ModelError("expected a null graph that needs more than two closure passes, got %r" % r.violated)
    rep.notes["closure_needs_three_passes_witness"] = True


def run(ctx):
    rep = ctx.report
    rng = random.Random(ctx.seed)
    quick = ctx.tier == "quick"
    drv = None
    for attempt in range(3):     # the shared build cache is pruned by concurrent builds: keep a private copy
        try:
            libdir, _ = sut.build_lib("asan")
            built = sut.build_harness("fsg_drv", ["fsg/fsg_drv.c"], libdir)
            drv = shutil.copy(built, os.path.join(ctx.work, "fsg_drv"))
            break
        except (FileNotFoundError, sut.BuildError):
            if attempt == 2:
                raise
    par = 6 if quick else 12

    if ctx.replay:
        lines = [l for l in open(ctx.replay).read().split("\n") if l]
        run_and_report(ctx, drv, [("replay", lines)], "replay", 1)
        rep.rule = "replay of one stored call script"
        return

    # 1. exhaustive model runs (in the background while the real code is exercised)
    pool = concurrent.futures.ThreadPoolExecutor(max_workers=1)
    fut = pool.submit(exhaustive, ctx, quick)

    # 2. state graph -> tours
    scripts = []
    tcfg = "MC_tour2.cfg" if quick else "MC_tour3.cfg"
    ns = 2 if quick else 3
    r = tlc.run("MC_tour.tla", tcfg, SPEC, workers=1, timeout=1500, heap="6g")
    if r.violated:
        raise tlc.ModelError("tour model violated %s" % r.violated)
    rep.add_tlc("MC_tour.tla/" + tcfg, r, mode="graph-export")
    edges = tours.parse_edges(r.out)
    if not edges:
        raise tlc.ModelError("no edges exported by " + tcfg)
    rep.notes["graph_edges_covered"] = len(edges)
    ts = tours.tours(edges, edges[0][0], max_len=40, rng=random.Random(ctx.seed))
    if len({e for t in ts for e in t}) != len(edges):
        raise tlc.ModelError("tours cover %d of %d edges" % (len({e for t in ts for e in t}), len(edges)))
    for ti, t in enumerate(ts):
        start, final = (0, ns - 1) if ti % 3 else (rng.randrange(ns), rng.randrange(ns))
        scripts.append(tour_script("tour#%d" % ti, ns, start, final, [edges[e][1] for e in t]))
    n_tours = len(scripts)

    # 3. enumerated small grammars: every null graph on 3 states (sampled in the quick tier), sampled on 4
    pairs3 = [(f, t) for f in range(3) for t in range(3) if f != t]
    all3 = list(itertools.product([None, 0, -1, -3], repeat=len(pairs3)))
    pick3 = rng.sample(all3, 120) if quick else all3
    for gi, ws in enumerate(pick3):
        eps = [(f, t, w) for (f, t), w in zip(pairs3, ws) if w is not None]
        scripts.append(small_script(rng, "null3#%d" % gi, 3, eps, rng.randint(1, 2)))
    pairs4 = [(f, t) for f in range(4) for t in range(4) if f != t]
    for gi in range(80 if quick else 2500):
        eps = [(f, t, rng.choice([0, -1, -3])) for f, t in rng.sample(pairs4, rng.randint(2, 8))]
        scripts.append(small_script(rng, "null4#%d" % gi, 4, eps, rng.randint(1, 2)))
    # long chains and rings: the closure needs several passes
    for gi, n in enumerate([5, 6, 7, 8] if quick else [5, 6, 7, 8, 9, 10, 12]):
        order = list(range(n))
        rng.shuffle(order)
        eps = [(order[i], order[(i + 1) % n], rng.choice([0, -1, -3])) for i in range(n)]
        if gi % 2:
            eps = eps[:-1]       # chain instead of ring
        scripts.append(small_script(rng, "chain#%d" % gi, n, eps, 1))

    # a closed grammar whose null transitions are then given better weights (null_trans_add returns 0) and
    # which is closed again: improvements have to travel through links that all exist already
    for gi in range(30 if quick else 600):
        n = rng.randint(4, 7)
        order = list(range(n))
        rng.shuffle(order)
        ring = gi % 3 == 0
        eps = [(order[i], order[(i + 1) % n], rng.choice([-3, -7, -10])) for i in range(n if ring else n - 1)]
        s = ["new up 1.0 %d %d %d" % (n, order[0], order[-1])] + ["null %d %d L %d" % a for a in eps]
        s += ["trans %d %d L -1 a" % (order[-1], order[-1]), "closure"]
        for _ in range(rng.randint(1, 3)):
            f, t, w = rng.choice(eps)
            s += ["null %d %d L %d" % (f, t, rng.choice([0, -1, -2])), "closure"]
        s += ["closure", "end"]
        scripts.append(("upgrade#%d" % gi, s))

    # a vocabulary that outgrows the filler / alternate bit vectors after they were allocated
    for gi in range(4 if quick else 40):
        n = rng.randint(3, 5)
        s = ["new big %s %d 0 %d" % (rng.choice(["1.0", "6.5"]), n, n - 1), "trans 0 %d P 0.5 w0" % (n - 1),
             "trans 0 %d P 0.25 w1" % (n - 1), "null 0 %d P 0.1" % (n - 1), "closure",
             "sil <sil> -1 0.005", "alt w0 w0(2)"]
        many = ["v%d" % i for i in range(rng.randint(30, 70))]
        for i, w in enumerate(many):          # arcs out of state 1, which nothing enters
            s.append("word %s" % w if i % 3 else "trans 1 %d P 0.5 %s" % (rng.randrange(n), w))
        late = rng.sample(many, 4)
        s += ["alt %s %s(2)" % (late[0], late[0]), "sil %s -1 0.01" % late[1], "alt %s %s(2)" % (late[1], late[1]),
              "sil +late+ -1 1e-8", "alt w1 w1(2)", "alt %s %s(2)" % (late[2], late[2]), "closure", "end"]
        scripts.append(("bigvocab#%d" % gi, s))

    # 4. seeded random larger grammars
    for gi in range(24 if quick else 400):
        scripts.append(random_script(rng, "rand#%d" % gi))

    # ... and grammars handed to a real decoder (fsg_search.c's use of add_silence / add_alt)
    for gi in range(24 if quick else 300):
        scripts.append(search_script(rng, "search#%d" % gi))

    # 5. write / read
    flavors = ["plain", "rawweights", "tiny", "noname-null", "noname-empty", "lwx", "unclosed", "xformed", "rawweights", "plain"]
    for gi in range(32 if quick else 400):
        fl = flavors[gi % len(flavors)]
        scripts.append(roundtrip_script(rng, "rt-%s#%d" % (fl, gi), fl))
    for name, text in sorted(TEXTS.items()):
        for lw in ("1.0", "6.5"):
            scripts.append(("text-%s#%s" % (name, lw), ["text 1 %s" % text.encode().hex(), "read 1 %s" % lw, "end"]))

    # minimal forms of what the design probes had found (stable, short replay files)
    scripts.append(("min-tiny-prob#0", ["new g 1.0 2 0 1", "trans 0 1 P 1e-8 a", "write 1", "read 1 1.0", "end"]))
    scripts.append(("min-unnamed#0", ["new NULL 1.0 2 0 1", "trans 0 1 P 1.0 a", "write 1", "read 1 1.0", "end"]))
    # integer weights given directly, so that the example does not depend on how logmath_log rounds
    scripts.append(("min-prob#0", ["new g 1.0 2 0 1", "trans 0 1 L -1054 a", "trans 0 1 L -6931 b", "trans 0 1 L -2877 c",
                                   "trans 0 1 L -23028 d", "write 1", "read 1 1.0", "end"]))
    scripts.append(("min-prob-lw#0", ["new g 6.5 2 0 1", "trans 0 1 L -6851 a", "trans 0 1 L -45051 b", "trans 0 1 L -18700 c",
                                      "trans 0 1 L -149682 d", "write 1", "read 1 6.5", "end"]))

    # 6. execute + validate
    chunks, fails = run_and_report(ctx, drv, scripts, "all", par)
    fut.result()
    pool.shutdown()

    rep.notes["executions"] = {"tours": n_tours, "enumerated_small": sum(1 for e, _ in scripts if e.startswith(("null", "chain", "upgrade", "bigvocab"))),
                               "random_large": sum(1 for e, _ in scripts if e.startswith("rand")),
                               "decoder_search": sum(1 for e, _ in scripts if e.startswith("search")),
                               "roundtrip": sum(1 for e, _ in scripts if e.startswith(("rt-", "text-", "min-")))}
    rep.notes["executions_with_a_false_predicate"] = len(fails)
    shown = set()
    for eid, ch in chunks:
        fam = eid.split("#")[0].split("-")[0]
        if fam in shown:
            continue
        shown.add(fam)
        evs = [json.loads(x) for x in ch]
        rep.sample({"execution": eid, "events": len(ch), "calls": [e["e"] for e in evs][:14],
                    "last_arcs": (evs[-1].get("st") or evs[-1].get("st2") or {"arcs": []})["arcs"][:6]})
    rep.rule = ("executions = edge tours of FsgModelImpl's complete state graph (every (grammar state, call) edge) + "
                "enumerated null-transition graphs on 3/4 states with word arcs, duplicates and self-loops + seeded "
                "random grammars (5-10 states, 10-30 arcs, lw 1.0/6.5) + grammars handed to a decoder + write/read round "
                "trips; non-trivial = distinct "
                "execution in which a closure changed the arc list, alternates were copied, or a written file was read back")
    rep.assumptions += [
        "arc weights are log-probabilities <= 0 (a null transition with logp > 0 is E_FATAL and is not generated)",
        "state arguments are within 0..n_state-1 (fsg_model.c documents the crash otherwise; C10's business)",
        "an alternate is declared for one base word only, and a filler is not declared the alternate of a real word",
        "the reader closes null transitions: a grammar read back is compared with the closure of the written one; "
        "null-arc probabilities are compared only when the written grammar was closed",
        "real-word language and best log-probs are compared for sentences of at most 4 words",
        "pn (probability denoted by an integer weight) is computed by the harness with libm pow(), not by logmath.c",
        "language weights >= 1 (the coarse round-trip tolerance of 3 log steps counts one weight unit as <= 1 step)",
        "decoder family: which fillers / alternates the dictionaries hold is declared by the script that wrote them; "
        "that EVERY one of them is inserted is not part of C13 (recorded under diag:)",
    ]
