"""C08 - utterances and decoder instances are isolated; decoding is deterministic.

  - SessionImpl.tla: two decoder instances with the hidden state the code carries across utterances; TLC checks
    that hidden state never reaches a result (intended design) and that the pre-fix code does (negative control);
  - every edge of the model's state graph (new / free / set grammar / set cmn / begin streaming or batch utterance
    / end, on one or two live instances, interleaved) is executed on the real library; TLC (SessionTrace.tla)
    files every finished utterance under the tuple the property names - with the CMN state read back from the
    decoder - and requires equal tuples to have equal hypothesis, score, segmentation, alignment and lattice
    across ALL histories, instances and fresh decoders.
"""
import json, os, random, re
from concurrent.futures import ThreadPoolExecutor
from vlib import sut, tlc, tours, tracecheck, runner
from checks import decmatrix

SPEC = os.path.join(sut.VERIF, "specs", "session")
CMN = "41.00,-5.29,-0.12,5.09,2.48,-4.07,-1.37,-1.78,-5.08,-2.05,-6.45,-1.42,1.17"
GRAMS = {1: "public <s> = go forward ten meters | go backward | stop;",
         2: "public <s> = (go | turn) (forward | left | right) [ten meters];"}
# two mappings of the model's audios to real audio: ordinary excerpts, and one with an utterance shorter than one
# analysis window (its only frame comes from fe_end; its leading feature window must not show stale ring contents)
# "m": the configuration limits the active HMMs per frame (maxhmmpf) and a2 is cut off where the search is still
# throttled, so the next utterance starts after narrowed beams (the model's Throttling audio)
AUDIOS = {"v": {"a1": "head", "a2": "mid"}, "w": {"a1": "tail", "a2": "t1"}, "x": {"a1": "t3", "a2": "cut"},
          "m": {"a1": "gf", "a2": "cut20"}}
VARIANT_CFG = {"m": {"maxhmmpf": 5}}
FAN = "public <s> = go (forward | backward) (one | two | three | four | five | six | seven | eight | nine | ten) [meter | meters];"
VARIANT_GRAMS = {"m": {1: FAN, 2: "public <s> = (go | turn) (forward | left | right) [ten meters];"}}
CMN_SHORT = "40,3,-1"
AUDIO = AUDIOS["v"]
KEEP = {"Header", "Use", "Mark", "Start", "Feed", "End", "Result", "Align", "Lattice", "Grammar", "SetCmn"}


def render(ops, cfg, variant):
    """ops: list of model labels (last') -> harness script"""
    s = ["mark __case__"] + list(decmatrix.audio_defs())
    gram = {}
    hx = decmatrix.hx
    GR = VARIANT_GRAMS.get(variant, GRAMS)
    for op in ops:
        kind = op[0]
        if kind == "new":
            i = op[1]
            s += ["use %d" % i, "init " + hx(json.dumps(dict(cfg, **VARIANT_CFG.get(variant, {})))), "jsgf " + hx("#JSGF V1.0;\ngrammar g;\n" + GR[1] + "\n")]
            gram[i] = 1
        elif kind == "free":
            s += ["use %d" % op[1], "free"]
        elif kind == "gram":
            i, g = op[1], op[2]
            s += ["use %d" % i, "jsgf " + hx("#JSGF V1.0;\ngrammar g;\n" + GR[g] + "\n")]
            gram[i] = g
        elif kind == "setcmn":
            s += ["use %d" % op[1], "cmn " + hx(CMN if len(op) < 3 or op[2] == "full" else CMN_SHORT)]
        elif kind == "begin":
            i, a, batch = op[1], op[2], op[3]
            aud = AUDIOS[variant][a]
            n = decmatrix.AUDIO_LEN[aud]
            s += ["use %d" % i, "mark %s:g%d:%s:%s" % ("B" if batch else "S", gram[i], aud, variant), "start"]
            if batch:
                s.append("feed %s 0 -1 i16 0 1" % aud)
            else:
                cuts = [0, min(3100, n), min(7777, n), n]
                for k in range(3):
                    s.append("feed %s %d %d %s 0 0" % (aud, cuts[k], cuts[k + 1] - cuts[k], "i16" if k != 1 else "f32"))
                    if k == 1:      # mid-utterance: the same question twice
                        s += ["result p1", "alignment p1", "alignment p1", "lattice p1 0", "result p1"]
        elif kind == "end":
            s += ["use %d" % op[1], "end", "result fin", "alignment fin", "lattice fin 0"]
    s += ["use 1", "free", "use 2", "free"]
    return s


def model_check(ctx, quick):
    rep = ctx.report
    r = tlc.run("MC_Session.tla", "Session_small.cfg", SPEC, workers=16, timeout=1800, coverage=True, heap="8g")
    if r.violated:
        raise tlc.ModelError("SessionImpl (intended design) violates %s:\n%s" % (r.violated, r.out[-2500:]))
    for act in ("ANew", "AFree", "ASetGram", "ASetCmn", "ABegin", "AEnd"):
        if r.coverage.get(act, (0, 0))[0] == 0:
            raise tlc.ModelError("vacuous: action %s never taken" % act)
    rep.add_tlc("MC_Session.tla/Session_small.cfg", r)
    r = tlc.run("MC_Session.tla", "Session_aswas.cfg", SPEC, workers=8, timeout=900)
    if r.violated != "FunctionalDependency":
        raise tlc.ModelError("negative control failed: the sticky CMN mode should violate FunctionalDependency, got %s" % r.violated)
    rep.notes["negative_control"] = "Session_aswas.cfg (feat_cmn overwrites the stored CMN mode) violates FunctionalDependency as expected"
    for cfgname, what in (("Session_dev_sums.cfg", "a partial CMN vector keeps the running sums"),
                          ("Session_dev_beams.cfg", "narrowed beams survive the start of an utterance"),
                          ("Session_dev_static.cfg", "a value cached in a static variable is shared by decoders with different models")):
        r = tlc.run("MC_Session.tla", cfgname, SPEC, workers=8, timeout=900)
        if r.violated != "FunctionalDependency":
            raise tlc.ModelError("negative control failed: %s should violate FunctionalDependency, got %s" % (cfgname, r.violated))
        rep.notes["negative_control_" + cfgname[12:-4]] = "%s (%s) violates FunctionalDependency as expected" % (cfgname, what)


def classify(f, script):
    clause = f.clause or "unknown-clause"
    try:
        ev = json.loads(f.event)
        # which tuple disagreed: batch or streaming
        return "session:%s:%s" % (clause, "batch" if ev.get("e") and any(l.startswith("mark B:") for l in script[-40:]) and False else "utterance")
    except Exception:
        return "session:" + clause


def run(ctx):
    rep = ctx.report
    quick = ctx.tier == "quick"
    rng = random.Random(ctx.seed * 67867967 + 8)
    drv = decmatrix.build_driver()
    cfg = {"hmm": os.path.join(sut.REPO, "model", "en-us"),
           "dict": os.path.join(sut.REPO, "tests", "data", "turtle.dic"), "loglevel": "FATAL"}
    if ctx.replay:
        cases = []          # a replay holds several executions (the baselines, then the rejected one)
        for l in open(ctx.replay).read().split("\n"):
            if l == "mark __case__":
                cases.append(("replay#%d" % len(cases), []))
            if l and cases:
                cases[-1][1].append(l)
    else:
        model_check(ctx, quick)
        tcfg = "Session_tour6.cfg" if quick else "Session_tour7.cfg"
        r = tlc.run("MC_Session.tla", tcfg, SPEC, workers=1, timeout=1800, heap="8g")
        if r.violated:
            raise tlc.ModelError("tour model violated %s" % r.violated)
        rep.add_tlc("MC_Session.tla/" + tcfg, r, mode="graph-export")
        edges = tours.parse_edges(r.out)
        if not edges:
            raise tlc.ModelError("no edges exported")
        ts = tours.tours(edges, edges[0][0], max_len=8, rng=random.Random(ctx.seed))
        rep.notes["graph_edges_covered"] = len(edges)
        cases = []
        for ti, t in enumerate(ts):
            ops = [edges[e][1] for e in t]
            if not any(o[0] == "end" for o in ops):
                continue        # nothing observable
            for variant in (("v", "w", "m") if quick else ("v", "w", "x", "m")):
                if variant != "v" and ti % 3 != ("vwm".index(variant) % 3 if variant in "vwm" else 0) and quick:
                    continue
                cases.append(("tour-%s#%d" % (variant, ti), render(ops, cfg, variant)))
        # a fresh decoder for every tuple, as the baseline the property names
        for variant in AUDIOS:
            for g in GRAMS:
                for a in AUDIO:
                    for batch in (False, True):
                        for kind in (("full", "short") if not batch else ("none",)):
                            ops = [("new", 1)] + ([("gram", 1, g)] if g != 1 else []) + ([("setcmn", 1, kind)] if not batch else []) + \
                                  [("begin", 1, a, batch), ("end", 1)]
                            cases.insert(0, ("fresh-%s-g%d-%s-%s-%s#%d" % (variant, g, a, "B" if batch else "S", kind, len(cases)),
                                             render(ops, cfg, variant)))
        # what comes after a reset must not depend on what came before it - also not in the second utterance after
        # it: the same two streaming utterances after decoder_set_cmn on a fresh decoder and on one that has history
        for variant in (("v", "m") if quick else AUDIOS):
            for kind in ("full", "short"):
                for (u1, u2) in (("a1", "a2"), ("a2", "a1")):
                    after = [("setcmn", 1, kind), ("begin", 1, u1, False), ("end", 1), ("begin", 1, u2, False), ("end", 1)]
                    for hi, before in enumerate(([], [("begin", 1, "a2", False), ("end", 1), ("begin", 1, "a1", False), ("end", 1)],
                                                 [("gram", 1, 2), ("begin", 1, "a1", False), ("end", 1), ("gram", 1, 1),
                                                  ("begin", 1, "a2", True), ("end", 1)])):
                        cases.append(("after-reset-%s-%s-%s%s-h%d#%d" % (variant, kind, u1, u2, hi, len(cases)),
                                      render([("new", 1)] + before + after, cfg, variant)))
        # an utterance cut off while the search is throttled (more HMMs active than maxhmmpf) leaves narrowed beams
        # behind; the next utterance must not see them.  Where throttling is still on at the end depends on the
        # cut, so the cut sweeps the recording.
        for mh in ((3, 10) if quick else (3, 5, 10, 20)):
            c2 = dict(cfg, maxhmmpf=mh)
            head = ["mark __case__"] + list(decmatrix.audio_defs()) + ["use 1", "init " + decmatrix.hx(json.dumps(c2)),
                    "jsgf " + decmatrix.hx("#JSGF V1.0;\ngrammar g;\n" + FAN + "\n")]
            probe = ["cmn " + decmatrix.hx(CMN), "mark S:fan%d:gf:t" % mh, "start", "feed gf 0 -1 i16 0 0", "end", "result fin",
                     "alignment fin", "lattice fin 0"]
            cases.append(("throttle-fresh-%d#%d" % (mh, len(cases)), head + probe + ["free"]))
            for cut in range(12000, 31000, 1000 if quick else 500):
                cases.append(("throttle-%d-%d#%d" % (mh, cut, len(cases)),
                              head + ["audio cx slice gf 0 %d" % cut, "cmn " + decmatrix.hx(CMN), "mark S:fan%d:cx%d:t" % (mh, cut),
                                      "start", "feed cx 0 -1 i16 0 0", "end", "result fin"] + probe + ["free"]))
        # the live feature computation keeps a 256-slot ring whose position carries over from utterance to utterance:
        # the same streamed utterance 256 times in a row on one decoder (each advances the ring by an odd number of
        # slots, so every alignment of the utterance against the ring occurs once), always after resetting the CMN state
        # (a word-loop grammar, so that every one of them has a hypothesis whose score can differ)
        for aud in (("t5", "mid") if quick else ("t5", "mid", "head", "t4", "cut")):
            n = decmatrix.AUDIO_LEN[aud]
            s = ["mark __case__"] + list(decmatrix.audio_defs()) + ["use 1", "init " + decmatrix.hx(json.dumps(cfg)),
                 "jsgf " + decmatrix.hx("#JSGF V1.0;\ngrammar g;\npublic <s> = (go | forward | ten | meters | stop | left)+;\n")]
            for k in range(256):
                s += ["cmn " + decmatrix.hx(CMN), "mark S:loop:%s:ring" % aud, "start", "feed %s 0 %d i16 0 0" % (aud, n // 2),
                      "feed %s %d %d i16 0 0" % (aud, n // 2, n - n // 2), "end", "result fin"]
                if k % 16 == 0:
                    s += ["alignment fin", "lattice fin 0"]
            s.append("free")
            cases.append(("ring-sweep-%s#%d" % (aud, len(cases)), s))
        # two decoders with DIFFERENT acoustic models (different phone inventories) in one process, used in both
        # orders, against each model alone; with and without filler words, so that the first word is entered in frame 0
        frwords = ["avance", "recule", "tourne", "gauche", "droite", "avancer"]
        frdict = os.path.join(ctx.work, "fr-small.dic")
        with open(os.path.join(sut.REPO, "model", "fr-fr", "dict.txt"), encoding="utf-8") as f, open(frdict, "w", encoding="utf-8") as o:
            for ln in f:
                if ln.split(" ", 1)[0] in frwords:
                    o.write(ln)
        for nofill in (False, True):
            extra = {"fsgusefiller": False} if nofill else {}
            en = dict(cfg, **extra)
            fr = dict({"hmm": os.path.join(sut.REPO, "model", "fr-fr"), "dict": frdict, "loglevel": "FATAL"}, **extra)
            gen = "jsgf " + decmatrix.hx("#JSGF V1.0;\ngrammar g;\npublic <s> = (go | forward | ten | meters | stop | left)+;\n")
            gfr = "jsgf " + decmatrix.hx("#JSGF V1.0;\ngrammar g;\npublic <s> = (avance | recule | tourne | gauche | droite | avancer)+;\n")
            tag = "nf" if nofill else "f"

            def utt(inst, lang, aud):
                return ["use %d" % inst, "cmn " + decmatrix.hx(CMN), "mark S:%s:%s:two-%s" % (lang, aud, tag), "start",
                        "feed %s 0 -1 i16 0 0" % aud, "end", "result fin", "alignment fin", "lattice fin 0"]
            head = ["mark __case__"] + list(decmatrix.audio_defs())
            for aud in ("mid", "tail"):
                cases.append(("two-models-en-only-%s-%s#%d" % (tag, aud, len(cases)),
                              head + ["use 1", "init " + decmatrix.hx(json.dumps(en)), gen] + utt(1, "en", aud) + ["use 1", "free"]))
                cases.append(("two-models-fr-only-%s-%s#%d" % (tag, aud, len(cases)),
                              head + ["use 1", "init " + decmatrix.hx(json.dumps(fr)), gfr] + utt(1, "fr", aud) + ["use 1", "free"]))
                for order in ((1, 2), (2, 1)):
                    body = head + ["use 1", "init " + decmatrix.hx(json.dumps(en)), gen, "use 2", "init " + decmatrix.hx(json.dumps(fr)), gfr]
                    for inst in order + order:
                        body += utt(inst, "en" if inst == 1 else "fr", aud)
                    cases.append(("two-models-%s-%s-%d%d#%d" % (tag, aud, order[0], order[1], len(cases)), body + ["use 1", "free", "use 2", "free"]))
        # long utterances streamed in ONE call, int16 and float32, on a fresh decoder and after a long full-utterance decode
        # (which enlarges the cepstrum buffer for good); CMN state replaced before each
        for enc in ("i16", "f32"):
            for first in ("none", "gf2:i16", "gf2:f32", "silgf:i16"):
                s = ["mark __case__"] + list(decmatrix.audio_defs()) + ["use 1", "init " + decmatrix.hx(json.dumps(cfg)),
                     "jsgf " + decmatrix.hx("#JSGF V1.0;\ngrammar g;\npublic <s> = (go forward ten meters | go backward | stop)+;\n")]
                if first != "none":
                    a, e = first.split(":")
                    s += ["cmn " + decmatrix.hx(CMN), "start", "feed %s 0 -1 %s 0 1" % (a, e), "end"]
                s += ["cmn " + decmatrix.hx(CMN), "mark S:loop2:gf2-%s-onecall:long" % enc, "start", "feed gf2 0 -1 %s 0 0" % enc, "end",
                      "result fin", "alignment fin", "free"]
                cases.append(("long-after-batch-%s-%s#%d" % (enc, first.replace(":", "-"), len(cases)), s))
        # a decoder configured with vocal-tract-length warping next to plain ones, created before / after it, alive or freed:
        # the warp modules keep their parameters in process-wide variables
        plain = dict(cfg)
        for k, (wt, wp) in enumerate([("inverse_linear", "1.12"), ("affine", "1.1:0.05"), ("piecewise_linear", "1.2:3000")]):
            warped = dict(cfg, warp_type=wt, warp_params=wp)
            gl = "jsgf " + decmatrix.hx("#JSGF V1.0;\ngrammar g;\npublic <s> = (go | forward | ten | meters | stop | left)+;\n")

            def utt(inst, tag):
                return ["use %d" % inst, "cmn " + decmatrix.hx(CMN), "mark S:loop:mid:%s" % tag, "start", "feed mid 0 -1 i16 0 0", "end",
                        "result fin", "alignment fin"]
            head = ["mark __case__"] + list(decmatrix.audio_defs())
            cases.append(("two-models-plain-only-%d#%d" % (k, len(cases)),
                          head + ["use 1", "init " + decmatrix.hx(json.dumps(plain)), gl] + utt(1, "warp-plain") + ["use 1", "free"]))
            cases.append(("two-models-warped-only-%d#%d" % (k, len(cases)),
                          head + ["use 1", "init " + decmatrix.hx(json.dumps(warped)), gl] + utt(1, "warp-%d" % k) + ["use 1", "free"]))
            cases.append(("two-models-warp-then-plain-%d#%d" % (k, len(cases)),
                          head + ["use 1", "init " + decmatrix.hx(json.dumps(warped)), gl, "use 2", "init " + decmatrix.hx(json.dumps(plain)), gl]
                          + utt(2, "warp-plain") + utt(1, "warp-%d" % k) + utt(2, "warp-plain") + ["use 2", "call reinitfeat 0 0"] + utt(2, "warp-plain")
                          + ["use 1", "free", "use 3", "init " + decmatrix.hx(json.dumps(plain)), gl] + utt(3, "warp-plain")
                          + ["use 2", "free", "use 3", "free"]))
        # asking the same question again, mid-utterance, at points where the first-best ends before the newest frame
        for n in (9000, 12000, 15000, 17000, 22000, 26000, 31000):
            s = ["mark __case__"] + list(decmatrix.audio_defs()) + ["use 1", "init " + decmatrix.hx(json.dumps(cfg)),
                 "align " + decmatrix.hx("go forward ten meters"), "cmn " + decmatrix.hx(CMN), "mark S:align:gf%d:v" % n, "start",
                 "feed gf 0 %d i16 0 0" % n, "result p1", "alignment p1", "lattice p1 0", "alignment p1", "result p1",
                 "alignment p1", "end", "result fin", "alignment fin", "alignment fin", "free"]
            cases.append(("ask-again-%d#%d" % (n, len(cases)), s))
    by_id = dict(cases)
    # process-wide state (a static variable shared by every decoder) only shows when the order WITHIN a process differs:
    # the two-model cases each get a process of their own
    solo = [c for c in cases if c[0].startswith("two-models")]
    rest = [c for c in cases if not c[0].startswith("two-models")]
    chunks, crashes = decmatrix.run_cases(ctx, drv, rest, per_proc=10, split_on_mark="__case__")
    if solo:
        c2, cr2 = decmatrix.run_cases(ctx, drv, solo, per_proc=1, split_on_mark="__case__")
        chunks, crashes = chunks + c2, crashes + cr2
    # run_cases splits at Header events: a tour with two instances has two Headers -> glue by case
    for eid, why in crashes:
        p = decmatrix.write_replay(ctx, "crash_" + eid, by_id[eid])
        rep.violation(runner.crash_key(why), "decoder crashed in a history (%s): %s" % (eid, why), p)
    fch = [(eid, decmatrix.filter_events(ch, KEEP)) for eid, ch in chunks]
    # Tuples of different audio mappings never coincide (the mapping is part of every tag), so each mapping is
    # validated by its own TLC run, in parallel: the map of seen tuples is what makes a run expensive.
    shards = {}
    for eid, ch in fch:
        m = re.match(r"(?:tour|fresh|after-reset)-([vwxm])\b", eid)
        shards.setdefault(m.group(1) if m else ("v" if eid.startswith("ask-again") else "m" if eid.startswith("throttle") else "w" if eid.startswith("ring-sweep") else "x" if eid.startswith("two-models") else "w" if eid.startswith("long-after-batch") else "all"), []).append((eid, ch))
    if "all" in shards:
        shards = {"all": fch}
    fails = []
    with ThreadPoolExecutor(max_workers=4) as ex:
        futs = [ex.submit(tracecheck.validate, SPEC, "SessionTrace.tla", "SessionTrace.cfg", sh, ctx.work, 2400, 6, "6g")
                for _, sh in sorted(shards.items())]
        for fu in futs:
            acc, fl, results = fu.result()
            for r in results:
                rep.add_tlc("SessionTrace", r, mode="trace-validation")
            rep.traces += acc
            fails += fl
    keys = set()
    for eid, ch in fch:
        for ln in ch:
            if ln.startswith('{"e":"Result"'):
                rep.evaluations += 1
            if ln.startswith('{"e":"Mark"'):
                keys.add(ln)
        if sum(1 for ln in ch if ln.startswith('{"e":"Start"')) >= 2:
            rep.nontrivial.add(eid)
    for f in fails:
        # a disagreement involves an EARLIER execution too (the one that filed the tuple first): replay = the
        # fresh baselines + this execution
        pre = [c for c in cases if c[0].startswith("fresh-")]
        script = sum((s for _, s in pre), []) + by_id[f.exec_id]
        p = decmatrix.write_replay(ctx, "reject_" + f.exec_id, script)
        ev = json.loads(f.event) if f.event else {}
        rep.violation("session:%s" % (f.clause or "unknown-clause"),
                      "event %d of %s: the same tuple gave a different %s than before: %s" %
                      (f.local_line, f.exec_id, ev.get("e"), f.event.strip()[:300]), p)
    for eid, ch in fch[8:10]:
        rep.sample({"execution": eid, "ops": [l for l in by_id[eid] if not l.startswith(("audio", "init", "jsgf", "cmn"))][:30]})
    rep.rule = ("executions = edge tours of SessionImpl's state graph (every (state, operation) edge: new/free/grammar switch/"
                "set_cmn/begin streaming or batch/end on one or two live instances) + one fresh decoder per tuple; non-trivial = "
                "execution with >= 2 utterances; distinct tuples compared = %d" % len(keys))
    rep.assumptions += ["the CMN state at the start of an utterance is read back with decoder_get_cmn and is part of the tuple",
                        "streaming utterances use one fixed feeding schedule (chunk invariance is C07's subject)",
                        "audio excerpts of 0.75-0.9 s; two grammars; one dictionary"]
