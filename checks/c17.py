"""C17 - damaged acoustic-model files are rejected without memory errors.

The file formats are the specification.  specs/modelfile/MFFormats.tla reads the s3 container (text header, "endhdr",
byte-order word, arrays announced by counts, optional trailing checksum), the binary model definition, the senone dump
and the cross-checks between the files of a model directory, and says of any bytes: "T" this still is a model,
"F" it is not - initialisation MUST report failure -, "U" cannot tell from the bytes shown.

  1. TLC, exhaustive (ModelInit.tla): four miniature but complete acoustic models (tied mixtures + 8-bit senone dump,
     semi-continuous + 4-bit clustered dump + feature transform, continuous + mixture_weights, tied mixtures written in
     the other byte order) are written byte by byte by the specification's writers; for EVERY file, EVERY truncation
     length, the file missing, trailing garbage, EVERY corruption class of EVERY field the reader consumes (counts,
     dimensions, lengths, byte-order words, header words, checksum, data) and well-formed-but-different sibling files,
     the specification derives the verdict.  Theorems checked on the way: the instances are models and are read to
     their last byte, every truncation is refused (but for an unverified trailing checksum), mandatory files must
     exist, nothing is undecided.
  2. spec -> code: the driver writes those bytes to disk as real model directories and runs the real
     decoder_init(hmm=<dir>) on every case, one process per case under ASan + UBSan + LeakSanitizer with assertions on,
     with the library's mmap and with a heap block of exactly the file's length in its place (so that every access
     outside the file's bytes is seen), then decoder_init on the intact directory and a short utterance in the same
     process.
  3. code -> spec: every execution records the bytes the library was given (read back from disk), the return value,
     what was built; TLC (ModelTrace.tla) recomputes the verdict from the recorded bytes and checks the clauses
     must-refuse / intact-loads / intact-announces / intact-decodes.
  4. The bundled models (en-us, fr-fr): the same readers, on the bytes around every field (the driver shows them),
     derive field positions, truncation boundaries and corruptions; a seeded sample of truncation lengths is added;
     every case goes through decoder_init with both back ends, then the intact model must load and decode
     tests/data/goforward.raw to "go forward ten meters".

A crash, sanitizer report, failed assertion or leak is a violation keyed by where it happened; a "must-refuse"
directory that loads is a violation keyed by file kind and class of damage.  A process that ends through the library's
own E_FATAL / out-of-memory exit while reading the damaged directory counts as a (crude) report of failure.
"""
import json, os, random, re, shutil, struct
from concurrent.futures import ThreadPoolExecutor
from vlib import sut, tlc, tracecheck, runner

SPEC = os.path.join(sut.VERIF, "specs", "modelfile")
WRAPS = ("mmio_file_read", "mmio_file_unmap", "mmio_file_ptr", "mmio_file_size")
JOBS = int(os.environ.get("VERIF_JOBS", "12"))
KINDS = ["mdef", "means", "variances", "tmat", "sendump", "mixw", "lda", "featparams"]
FNAME = {"mdef": "mdef", "means": "means", "variances": "variances", "tmat": "transition_matrices", "sendump": "sendump",
         "mixw": "mixture_weights", "lda": "feature_transform", "featparams": "feat_params.json"}
ASAN = ("exitcode=77:detect_leaks=1:allocator_may_return_null=1:abort_on_error=0:max_allocation_size_mb=1024:"
        "hard_rss_limit_mb=4096:detect_odr_violation=0")
MINI_GRAM = "#JSGF V1.0;\ngrammar g;\npublic <g> = (a | sa)+;\n"
BIG_GRAM = "#JSGF V1.0;\ngrammar g;\npublic <g> = go (forward | backward) ten (meters | miles);\n"
BIG_DICT = {"en-us": "go G OW\nforward F AO R W ER D\nbackward B AE K W ER D\nten T EH N\nmeters M IY T ER Z\nmiles M AY L Z\n"}
_PRINT = re.compile(r'^<<"(CASE|MODEL|LAYOUT)", "(.*)">>$')


def printed_json(out):
    res = {"CASE": [], "MODEL": [], "LAYOUT": []}
    for ln in out.splitlines():
        m = _PRINT.match(ln)
        if m:
            js = m.group(2)
            res[m.group(1)].append(json.loads(js.encode().decode("unicode_escape") if "\\" in js else js))
    return res


# ------------------------------------------------------------------------------------------------ keys
GROUPS = (("trunc", "truncated"), ("missing", "missing"), ("extend", "extended"), ("variant:", "sibling-mismatch"),
          ("checksum:", "checksum"), ("data:", "data"), ("byte-order:", "header"), ("BMDF:", "header"), ("s3:", "header"),
          ("endhdr:", "header"), ("hdr-", "header"), ("version:", "header"))


def damage_group(cls):
    for pre, g in GROUPS:
        if cls.startswith(pre):
            return g
    return "count-or-dimension"


def crash_key(r):
    """where it happened, not what was fed"""
    why = r.why()
    err = r.err
    if "LeakSanitizer" in why and "ERROR: AddressSanitizer" not in err:
        return runner.crash_key(why)
    m = re.search(r"([\w./-]+\.c):\d+:\d+: runtime error: ([^\n]+)", err)
    if m and "ERROR: AddressSanitizer" not in err.split("runtime error:")[0]:
        f = re.search(r"#0 0x[0-9a-f]+ in (\w+) ", err[err.index("runtime error:"):])
        kind = "null-deref" if "null pointer" in m.group(2) else re.sub(r"[^a-z]+", "-", m.group(2).lower())[:32].strip("-")
        return "crash:%s:%s:%s" % (kind, m.group(1).split("/")[-1], f.group(1) if f else "?")
    m = re.search(r"([\w./-]+\.c):\d+: (?:[\w \*]+? )?\**(\w+)\(.*?Assertion", err, re.S) or re.search(r"([\w./-]+\.c):\d+: (\w+): Assertion", err)
    if m:
        return "crash:%s:%s:assert" % (m.group(1).split("/")[-1], m.group(2))
    m = re.search(r"ERROR: AddressSanitizer: ([\w-]+)", err)
    if m:
        kind = m.group(1)
        if kind == "attempting":
            kind = "double-free" if "double-free" in err else "bad-free"
        if "hard rss limit" in err or kind in ("out-of-memory", "allocation-size-too-big"):
            return "crash:memory-exhausted"
        fr = [x for x in re.findall(r"#\d+ 0x[0-9a-f]+ in (\w+) [^\n]*?/src/([\w/]+\.c)", err)
              if not x[0].startswith("__") and x[1].split("/")[-1] != "ckd_alloc.c"]
        if fr:
            return "crash:%s:%s:%s" % (kind, fr[0][1].split("/")[-1], fr[0][0])
        return "crash:%s" % kind
    if r.rc == 124:
        return "crash:timeout"
    return runner.crash_key(why)


# ------------------------------------------------------------------------------------------------ executions
class Exec:
    """one process: script, what it printed, how it ended"""

    def __init__(self, eid, meta, script):
        self.eid, self.meta, self.script = eid, meta, script
        self.lines, self.run, self.cls = [], None, None


def run_exec(drv, ex, work, timeout=120):
    path = os.path.join(work, "t_%s.ndjson" % re.sub(r"\W", "_", ex.eid))
    r = runner.run(drv, [path], "\n".join(ex.script) + "\n", timeout=timeout, leaks=True, env={"ASAN_OPTIONS": ASAN})
    lines = []
    if os.path.exists(path):
        for ln in open(path, errors="replace").read().split("\n"):
            if ln.endswith("}"):        # a line cut short by the end of the process is not an event
                try:
                    json.loads(ln)
                    lines.append(ln)
                except ValueError:
                    pass
        os.unlink(path)
    ex.lines, ex.run = lines, r
    inside = None
    for ln in lines:
        e = json.loads(ln)
        if e["e"] == "begin":
            inside = e["what"]
        elif e["e"] in ("load", "reload", "decode"):
            inside = None
    ex.inside = inside
    leak_only = "ERROR: LeakSanitizer" in r.err and "ERROR: AddressSanitizer" not in r.err and "runtime error:" not in r.err
    if r.rc == 3:
        raise tlc.ModelError("driver error in %s: %s" % (ex.eid, r.err[-400:]))
    if r.rc == 0:
        ex.cls = "ok"
    elif leak_only and inside is None:
        ex.cls = "leak"
    elif r.crashed or r.rc < 0:
        ex.cls = "crash"
    elif r.rc in (1, 255) and inside is not None:
        ex.cls = "fatal"        # E_FATAL -> exit(EXIT_FAILURE); ckd_alloc failure -> exit(-1)
    else:
        ex.cls = "crash"
    return ex


def fatal_site(ex):
    m = re.findall(r"FATAL: \"([\w.]+)\", line (\d+)", ex.run.err) or re.findall(r"(calloc|malloc|realloc)\(.*?\) failed from ([\w./]+)\((\d+)\)", ex.run.err)
    if m:
        return ":".join(str(x).split("/")[-1] for x in m[-1])
    return "exit-%d" % ex.run.rc


def run_all(drv, execs, work, jobs=JOBS):
    with ThreadPoolExecutor(max_workers=jobs) as pool:
        return list(pool.map(lambda e: run_exec(drv, e, work), execs))


def count(stats, key, ex):
    k = stats["keys"].setdefault(key, {"n": 0, "examples": []})
    k["n"] += 1
    name = "%s/%s %s" % (ex.meta["name"], ex.meta["kind"], ex.meta["dmg"])
    if len(k["examples"]) < 8 and name not in k["examples"]:
        k["examples"].append(name)


def report(ctx, execs, stage, prefix=()):
    """sanitizer findings directly, everything else through TLC.  Returns statistics."""
    rep = ctx.report
    stats = {"executions": len(execs), "refused": 0, "loaded": 0, "fatal": 0, "crash": 0, "leak": 0, "fatal_sites": {}, "keys": {}}
    chunks, by_id = [], {}
    for ex in execs:
        by_id[ex.eid] = ex
        rep.evaluations += 1
        if ex.cls in ("crash", "leak"):
            stats[ex.cls] += 1
            key = crash_key(ex.run)
            if ex.cls == "crash" and ex.inside in ("reload", "decode"):
                key = key + (":while-loading-the-intact-model-afterwards" if ex.inside == "reload" else ":while-decoding-with-the-intact-model-afterwards")
            count(stats, key, ex)
            rep.violation(key, "%s, %s %s [%s, %s]: %s" % (stage, ex.meta["kind"], ex.meta["dmg"], ex.meta["name"], ex.meta["mode"],
                                                           ex.run.why()[:500]), write_replay(ctx, ex, key))
            if ex.cls == "crash":
                continue
        if ex.cls == "fatal":
            stats["fatal"] += 1
            site = fatal_site(ex)
            stats["fatal_sites"][site] = stats["fatal_sites"].get(site, 0) + 1
        lines = list(ex.lines) + [json.dumps({"e": "exit", "class": "fatal" if ex.cls == "fatal" else "ok"})]
        for ln in ex.lines:
            if ln.startswith('{"e":"load"'):
                stats["loaded" if json.loads(ln)["ret"] == 1 else "refused"] += 1
        chunks.append((ex.eid, lines))
    acc, fails, results = tracecheck.validate(SPEC, "ModelTrace.tla", "ModelTrace.cfg", chunks, ctx.work, timeout=1500, max_fail=3,
                                              heap="6g", prefix=list(prefix))
    for r in results:
        rep.add_tlc("ModelTrace(%s)" % stage, r, mode="trace-validation")
    if fails:
        raise tlc.ModelError("trace of %s not explained by ModelTrace at event %d: %s" % (fails[0].exec_id, fails[0].local_line, fails[0].event[:300]))
    # clauses are soft (the trace goes on): map the printed line numbers back to executions
    starts, n = [], len(prefix)
    for eid, lines in chunks:
        starts.append((n, eid, lines))
        n += len(lines)

    def owner(line):
        lo, hi = 0, len(starts) - 1
        while lo < hi:
            mid = (lo + hi + 1) // 2
            if starts[mid][0] <= line - 1:
                lo = mid
            else:
                hi = mid - 1
        return starts[lo]

    out = results[0].out if results else ""
    notes = re.findall(r'<<"NOTE", "([^"]+)", (\d+)>>', out)
    for nl in notes[:5]:
        st = owner(int(nl[1]))
        print("NOTE: %s: %s in %s: %s" % (stage, nl[0], st[1], st[2][int(nl[1]) - 1 - st[0]][:200]))
    stats["notes"] = len(notes)
    failed = set()
    for clause, line in re.findall(r'<<"CLAUSE-FAILED", "([^"]+)", (\d+)>>', out):
        st = owner(int(line))
        ex = by_id[st[1]]
        event = st[2][int(line) - 1 - st[0]]
        failed.add(ex.eid)
        if clause == "harness-checksum":
            raise tlc.ModelError("the driver's checksum routine disagrees with the specification: %s" % event[:300])
        if clause == "must-refuse":
            key = "must-refuse:%s:%s" % (ex.meta["kind"], damage_group(ex.meta["cls"]))
            what = "the directory is not a model (%s) but decoder_init() loaded it" % ex.meta.get("why", "?")
        else:
            key = "%s:after:%s:%s" % (clause, ex.meta["kind"], damage_group(ex.meta["cls"]))
            what = "clause %s fails" % clause
        count(stats, key, ex)
        rep.violation(key, "%s, %s %s [%s, %s]: %s: %s" % (stage, ex.meta["kind"], ex.meta["dmg"], ex.meta["name"], ex.meta["mode"], what,
                                                           event.strip()[:300]), write_replay(ctx, ex, key))
    acc = len(chunks) - len(failed)
    rep.traces += acc
    stats["accepted"] = acc
    return stats


_REPLAYS = {}


def write_replay(ctx, ex, key=None):
    """a replay file for the first executions of every key only"""
    if ctx.replay:
        return ctx.replay
    if key is not None:
        _REPLAYS.setdefault(key, [])
        if len(_REPLAYS[key]) >= 3:
            return _REPLAYS[key][0]
    p = os.path.join(ctx.replays, "%s.json" % re.sub(r"[^\w.-]", "_", ex.eid)[:150])
    with open(p, "w") as f:
        json.dump(ex.meta, f)
    if key is not None:
        _REPLAYS[key].append(p)
    return p


# ------------------------------------------------------------------------------------------------ miniature models
def write_model_dir(d, files):
    """files: kind -> bytes or None"""
    os.makedirs(d, exist_ok=True)
    for k, b in files.items():
        if b is not None:
            with open(os.path.join(d, FNAME[k]), "wb") as f:
                f.write(b)
    with open(os.path.join(d, "dict.txt"), "w") as f:
        f.write("a A\nsa SIL A\n")
    with open(os.path.join(d, "noisedict.txt"), "w") as f:
        f.write("<sil> SIL\n")


def damaged_dir(d, intact, kind, data):
    """directory like `intact` (symbolic links) with the file of `kind` replaced by data (None = missing)"""
    os.makedirs(d)
    for fn in os.listdir(intact):
        if fn != FNAME[kind]:
            os.symlink(os.path.join(intact, fn), os.path.join(d, fn))
    if data is not None:
        with open(os.path.join(d, FNAME[kind]), "wb") as f:
            f.write(data)


def mini_exec(ctx, eid, model, meta, intact, gram, audio, with_sums):
    """meta: model (number), name, kind, dmg, cls, mode, present, bytes"""
    d = os.path.join(ctx.work, "d_" + re.sub(r"\W", "_", eid))
    if os.path.isdir(d):
        shutil.rmtree(d)
    damaged_dir(d, intact, meta["kind"], bytes(meta["bytes"]) if meta["present"] else None)
    s = ["mode %s %d %s %s" % (meta["mode"], meta["model"], meta["kind"], re.sub(r"\s", "_", meta["dmg"])),
         "jsgf " + gram, "audio " + audio,
         "view %s %s -1 -1 0 0:100000" % (meta["kind"], os.path.join(d, FNAME[meta["kind"]])),
         "load " + d]
    for k, a, b, sw in with_sums:
        s.append("view %s %s %d %d %d 0:100000" % (k, os.path.join(intact, FNAME[k]), a, b, sw))
    s += ["reload " + intact, "end"]
    ex = Exec(eid, dict(meta, stage="mini"), s)
    ex.dir = d
    return ex


def run_mini(ctx, drv, exported, quick, rng):
    rep = ctx.report
    models, cases = exported["MODEL"], exported["CASE"]
    if len(models) != 4 or len(cases) < 4000:
        raise tlc.ModelError("export gave %d models, %d cases" % (len(models), len(cases)))
    gram = os.path.join(ctx.work, "mini.gram")
    open(gram, "w").write(MINI_GRAM)
    audio = os.path.join(ctx.work, "mini.raw")
    with open(os.path.join(sut.REPO, "tests", "data", "goforward.raw"), "rb") as f:
        f.seek(20000)
        open(audio, "wb").write(f.read(6400))
    intact = {}
    for m in models:
        d = os.path.join(ctx.work, "model_%s" % m["name"])
        write_model_dir(d, {x["kind"]: (bytes(x["bytes"]) if x["present"] else None) for x in m["files"]})
        intact[m["model"]] = d
    # which cases: every one in thorough; in quick every case that is not a truncation, every truncation with a verdict
    # other than "F", and of the refused truncations the first and last length of every refusal reason plus a seeded sample
    cases.sort(key=lambda c: (c["model"], KINDS.index(c["kind"]), c["dmg"]))
    chosen = []
    if quick:
        groups = {}
        for c in cases:
            if c["cls"] == "trunc" and c["verdict"] == "F":
                groups.setdefault((c["model"], c["kind"], c["why"]), []).append(c)
            else:
                chosen.append(c)
        for g in groups.values():
            g.sort(key=lambda c: len(c["bytes"]))
            pick = {0, len(g) - 1} | set(rng.sample(range(len(g)), min(len(g), 3)))
            chosen += [g[i] for i in sorted(pick)]
    else:
        chosen = cases
    execs = []
    for i, c in enumerate(chosen):
        # both back ends in thorough; in quick alternate, heap copy ("read": exact bounds) twice as often
        modes = ("read", "mmap") if not quick else (("mmap",) if i % 3 == 2 else ("read",))
        for mode in modes:
            eid = "mini-%s-%s-%s-%s" % (c["name"], c["kind"], c["dmg"], mode)
            meta = {"model": c["model"], "name": c["name"], "kind": c["kind"], "dmg": c["dmg"], "cls": c["cls"], "mode": mode,
                    "present": c["present"], "bytes": c["bytes"], "why": c["why"], "verdict": c["verdict"]}
            execs.append(mini_exec(ctx, eid, c["model"], meta, intact[c["model"]], gram, audio, ()))
    # executions that also show the intact checksummed files, to bind the driver's checksum routine to the specification's
    for m in models:
        sums = []
        for x in m["files"]:
            if x["present"] and x["kind"] in ("means", "variances", "tmat", "mixw", "lda") and x["kind"] in m["sums"]:
                a, b, sw = m["sums"][x["kind"]]
                sums.append((x["kind"], a, b, 1 if sw else 0))
        meta = {"model": m["model"], "name": m["name"], "kind": "featparams", "dmg": "extend+0", "cls": "intact", "mode": "read",
                "present": True, "bytes": [x for x in m["files"] if x["kind"] == "featparams"][0]["bytes"], "why": "-", "verdict": "T"}
        execs.append(mini_exec(ctx, "mini-%s-intact-sums" % m["name"], m["model"], meta, intact[m["model"]], gram, audio, sums))
    run_all(drv, execs, ctx.work)
    for ex in execs:
        shutil.rmtree(ex.dir, ignore_errors=True)
    stats = report(ctx, execs, "miniature model")
    for ex in execs:
        if ex.cls != "crash":
            rep.nontrivial.add((ex.meta["kind"], ex.meta["why"] if ex.meta["verdict"] == "F" else ex.meta["cls"]))
    for ex in (execs[0], execs[len(execs) // 2]):
        rep.sample({"execution": ex.eid, "verdict": ex.meta["verdict"], "why": ex.meta["why"], "ended": ex.cls,
                    "events": [json.loads(l) for l in ex.lines if l.startswith('{"e":"load"') or l.startswith('{"e":"reload"')][:2]})
    return stats, len(cases)


def replay_mini(ctx, drv, meta, exported):
    models = {m["model"]: m for m in exported["MODEL"]}
    m = models[meta["model"]]
    d = os.path.join(ctx.work, "model_%s" % m["name"])
    write_model_dir(d, {x["kind"]: (bytes(x["bytes"]) if x["present"] else None) for x in m["files"]})
    gram = os.path.join(ctx.work, "mini.gram")
    open(gram, "w").write(MINI_GRAM)
    audio = os.path.join(ctx.work, "mini.raw")
    with open(os.path.join(sut.REPO, "tests", "data", "goforward.raw"), "rb") as f:
        f.seek(20000)
        open(audio, "wb").write(f.read(6400))
    ex = mini_exec(ctx, "replay", meta["model"], meta, d, gram, audio, ())
    run_exec(drv, ex, ctx.work)
    return report(ctx, [ex], "miniature model (replay)")


# ------------------------------------------------------------------------------------------------ main
def export(ctx, workers):
    r = tlc.run("ModelInit.tla", "ModelInit_export.cfg", SPEC, workers=workers, timeout=1500, heap="6g")
    if r.violated:
        raise tlc.ModelError("the format specification violates its own theorem %s:\n%s" % (r.violated, r.out[-1500:]))
    ex = printed_json(r.out)
    n = len(ex["CASE"])
    if r.distinct != 2 * n + 4:
        raise tlc.ModelError("export: %d states for %d cases" % (r.distinct, n))
    verdicts = {v: sum(1 for c in ex["CASE"] if c["verdict"] == v) for v in "TFU"}
    if verdicts["F"] < 3000 or verdicts["T"] < 300 or len({c["why"] for c in ex["CASE"]}) < 60:
        raise tlc.ModelError("vacuous derivation: verdicts %r" % verdicts)
    ctx.report.add_tlc("ModelInit.tla/ModelInit_export.cfg", r)
    ctx.report.notes["derived_cases"] = n
    ctx.report.notes["derived_verdicts"] = verdicts
    ctx.report.notes["distinct_refusal_reasons"] = len({c["why"] for c in ex["CASE"] if c["verdict"] == "F"})
    return ex


def run(ctx):
    rep = ctx.report
    rng = random.Random(ctx.seed)
    quick = ctx.tier == "quick"
    libdir, _ = sut.build_lib("asan")
    drv = sut.build_harness("mf_drv", ["modelfile/mf_drv.c"], libdir, wraps=WRAPS, outdir=ctx.work)
    exported = export(ctx, 16 if not os.environ.get("VERIF_JOBS") else JOBS)
    if ctx.replay:
        meta = json.load(open(ctx.replay))
        if meta.get("stage") == "mini":
            replay_mini(ctx, drv, meta, exported)
        else:
            from checks import c17_bundled
            c17_bundled.replay(ctx, drv, meta)
        rep.rule = "replay of one stored case"
        return
    stats, n_cases = run_mini(ctx, drv, exported, quick, rng)
    rep.notes["miniature"] = stats
    from checks import c17_bundled
    bstats, nb = c17_bundled.run_stage(ctx, drv, quick, rng)
    rep.notes["bundled"] = bstats
    rep.notes["bundled_cases_derived"] = nb
    for stage, st in (("miniature", stats), ("bundled", bstats)):
        print("C17 %s models: %d executions: %d refused, %d loaded, %d ended by the library's fatal-error exit, %d crashed, %d leaked; "
              "%d accepted by ModelTrace" % (stage, st["executions"], st["refused"], st["loaded"], st["fatal"], st["crash"], st["leak"], st["accepted"]))
        if st["fatal_sites"]:
            print("NOTE: %s models: the process was ended by E_FATAL / allocation failure while reading a damaged directory (counted as a report "
                  "of failure, see assumptions) at: %s" % (stage, ", ".join("%s x%d" % kv for kv in sorted(st["fatal_sites"].items()))))
    rep.exhaustive = not quick
    rep.rule = ("executions = damaged model directories derived by TLC from the format specification; non-trivial = distinct "
                "(file kind, refusal reason) pairs among executed must-refuse cases plus distinct (file kind, damage class) pairs "
                "among executed may-load cases, counting only executions that did not crash")
    rep.assumptions += [
        "a process that ends through the library's own E_FATAL / allocation-failure exit while reading the damaged directory counts as reporting failure",
        "'must refuse' is claimed only for rules the loaders check or the formats' embedded descriptions state; implied rules no loader checks "
        "(senone ids below n_sen, rows of a senone dump equal to the number of densities, transition matrices matching the model definition) "
        "are left to the sanitizers",
        "feat_params.json is optional and read leniently: a damaged one never obliges a refusal",
        "the heap back end (file bytes in a block of exactly the file's length) stands for 'without memory mapping': the configuration "
        "parameter mmap is not read by this version of the library",
    ]
