"""C09, stage "config": histories of config_* calls (the property's quantifier names them).

  - ConfigStore/ConfigImpl.tla: the configuration object as a typed store with the documented coercions; TLC
    checks well-typedness, "a refused call changes nothing", getters, and the two round-trip laws of the JSON
    form, for the code's two known deviations from the header and without them;
  - every (state, call) edge of a small instance's graph plus seeded random histories over larger pools are
    executed on the real library, one process per history under ASan + LeakSanitizer; ConfigTrace.tla checks
    every recorded answer and the complete store after every call.

What counts for C09: crashes, sanitizer reports, leaks, and clauses "ret:*" (a call that must be refused is
refused, one that must succeed succeeds, reference counts).  Clauses "val:*" are the value semantics of the
extended specification; a mismatch there is reported as a NOTE and recorded in the evidence, never as a
violation of C09.
"""
import json, os, random
from concurrent.futures import ThreadPoolExecutor
from vlib import sut, tlc, tours, tracecheck, runner

SPEC = os.path.join(sut.VERIF, "specs", "config")
LIB = (os.path.join(sut.VERIF, "specs", "json"),)
NULL = [-1]

B = lambda s: [ord(c) for c in s]
NAMES = [B("i"), B("f"), B("b"), B("s"), B("t"), B("jsgf"), B("fsg"), B("xx"), B("z")]
STRS = [NULL, B("yes"), B("No"), B("0"), B("1"), B("12ab"), B(" -3"), B("abc"), [], B("1.5"), B("-0.25"), B(".5"), B("1e2"),
        B("true"), B("false"), B("Ttt"), B("a\"\\\n\tb"), B("x y"), B("-"), B("+7"), B("007"), B("2.0"), B("999.875")]
INTS = [-3, 0, 1, 7, 250, -1, 999]
FLTS = [0, 12, -2, 8, 7999, -7, -12, 1, 100]
STD_NAMES = [B(n) for n in ("samprate", "frate", "hmm", "jsgf", "fsg", "loglevel", "cmn", "compallsen", "bestpath", "lw",
                            "ascale", "pip", "xx")]
STD_STRS = [B("8000"), B("16000"), B("yes"), B("no"), B("x y"), B("live"), B("batch"), B("6.5"), B("20"), B("1"), B("0.5"),
            B("abc"), [], B("12ab"), B("a\"\\b")]


def hexs(codes):
    return bytes(codes).hex() or "-"


def jstr(codes):
    """spell a byte string as a JSON string with the escapes config_parse_json understands"""
    out = ['"']
    esc = {34: '\\"', 92: "\\\\", 8: "\\b", 12: "\\f", 10: "\\n", 13: "\\r", 9: "\\t"}
    for c in codes:
        out.append(esc.get(c, chr(c)))
    return "".join(out) + '"'


def bare_ok(codes):
    return codes and all((48 <= c <= 57) or (65 <= c <= 90) or (97 <= c <= 122) or c in (45, 46, 43, 95) for c in codes)


def spell(pairs, style):
    """the JSON / 'degenerate YAML' text for a list of (key, value) byte strings"""
    if style == 0 or not pairs or not all(bare_ok(k) and bare_ok(v) for k, v in pairs):
        return "{" + ", ".join("%s: %s" % (jstr(k), jstr(v)) for k, v in pairs) + "}"
    if style == 1:      # bare keys and values, one per line, no braces, no commas
        return "".join("%s: %s\n" % (bytes(k).decode(), bytes(v).decode()) for k, v in pairs)
    if style == 2:      # braces, bare primitives
        return "{ " + ", ".join("%s: %s" % (jstr(k), bytes(v).decode()) for k, v in pairs) + " }"
    return "{\n" + ",\n".join("\t%s:%s" % (jstr(k), jstr(v)) for k, v in pairs) + "\n}\n"


def line(op, args, style=0):
    if op in ("init",):
        return "init custom"
    if op in ("retain", "free", "serialize", "validate", "freenull"):
        return op
    if op == "setstr":
        return "setstr %s %s" % (hexs(args[0]), "NULL" if args[1] == NULL else hexs(args[1]))
    if op in ("setint", "setfloat", "setbool"):
        return "%s %s %d" % (op, hexs(args[0]), args[1])
    if op == "unset":
        return "unset %s" % hexs(args[0])
    if op == "setgen":
        kind, v = args[1], args[2]
        return "setgen %s %s %s" % (hexs(args[0]), kind, hexs(v) if kind == "str" else str(v))
    if op in ("parse", "parsenew"):
        pairs = [(list(k), list(v)) for k, v in args[0]]
        return "%s %s %s" % (op, spell(pairs, style).encode("latin-1").hex(), json.dumps(pairs).encode().hex())
    raise ValueError(op)


def random_history(rng, std):
    names, strs = (STD_NAMES, STD_STRS) if std else (NAMES, STRS)
    s = ["init std" if std else "init custom"]
    refs = 1
    for _ in range(rng.randrange(8, 40)):
        r = rng.random()
        n = rng.choice(names)
        if r < 0.25:
            s.append(line("setstr", [n, rng.choice(strs)]))
        elif r < 0.35:
            s.append(line("setint", [n, rng.choice(INTS)]))
        elif r < 0.45:
            s.append(line("setfloat", [n, rng.choice(FLTS)]))
        elif r < 0.5:
            s.append(line("setbool", [n, rng.choice([0, 1, 5])]))
        elif r < 0.58:
            s.append(line("unset", [n]))
        elif r < 0.70:
            kind = rng.choice(["null", "str", "int", "bool", "flt"])
            v = {"null": 0, "str": rng.choice([x for x in strs if x != NULL]), "int": rng.choice(INTS), "bool": rng.choice([0, 1]),
                 "flt": rng.choice(FLTS)}[kind]
            s.append(line("setgen", [n, kind, v]))
        elif r < 0.82:
            pairs = [(rng.choice(names), rng.choice([x for x in strs if x != NULL])) for _ in range(rng.randrange(0, 4))]
            op = "parsenew" if (std and rng.random() < 0.5) else "parse"
            if op == "parsenew":
                pairs = [(k, v) for k, v in pairs]
            s.append(line(op, [pairs], rng.randrange(4)))
        elif r < 0.9:
            s.append("serialize")
        elif r < 0.94:
            s.append("validate")
        elif r < 0.96:
            s.append("freenull")
        elif r < 0.98 and refs < 3:
            s.append("retain")
            refs += 1
        elif refs > 1:
            s.append("free")
            refs -= 1
    if rng.random() < 0.5:
        s += ["free"] * refs
    return s


def run_stage(ctx, drv):
    rep = ctx.report
    quick = ctx.tier == "quick"
    rng = random.Random(ctx.seed * 2654435761 + 99)
    # 1. the model
    for cfg in ("Config_small.cfg", "Config_doc.cfg"):
        r = tlc.run("MC_Config.tla", cfg, SPEC, workers=8, timeout=900, heap="4g")
        if r.violated:
            raise tlc.ModelError("ConfigImpl (%s) violates %s:\n%s" % (cfg, r.violated, r.out[-2000:]))
        if r.distinct < 500:
            raise tlc.ModelError("vacuous: ConfigImpl explored only %d states" % r.distinct)
        rep.add_tlc("MC_Config.tla/" + cfg, r)
    # 2. every edge of the small instance
    tcfg = "Config_tourq.cfg" if quick else "Config_tour.cfg"
    r = tlc.run("MC_Config.tla", tcfg, SPEC, workers=1, timeout=900, heap="4g")
    if r.violated:
        raise tlc.ModelError("config tour model violated %s" % r.violated)
    rep.add_tlc("MC_Config.tla/" + tcfg, r, mode="graph-export")
    edges = tours.parse_edges(r.out)
    if len(edges) < 100:
        raise tlc.ModelError("config graph export gave only %d edges" % len(edges))
    cases = []
    for ti, t in enumerate(tours.tours(edges, edges[0][0], max_len=60, rng=random.Random(ctx.seed))):
        s = []
        for k, e in enumerate(t):
            a = edges[e][1]
            s.append(line(a["op"], a["args"], (ti + k) % 4))
        cases.append(("cfg-tour#%d" % ti, s))
    rep.notes["config_graph_edges_covered"] = len(edges)
    # 3. random histories over the larger pools, on the harness's table and on the library's standard table
    for i in range(120 if quick else 1500):
        cases.append(("cfg-rand%s#%d" % ("-std" if i % 4 == 3 else "", i), random_history(rng, i % 4 == 3)))
    by_id = dict(cases)

    def one(c):
        eid, s = c
        path = os.path.join(ctx.work, "cfg_%s.ndjson" % eid.replace("#", "_"))
        r = runner.run(drv, [path], "\n".join(s) + "\n", timeout=120, leaks=True)
        lines = open(path).read().splitlines() if os.path.exists(path) else []
        return eid, r, lines

    with ThreadPoolExecutor(max_workers=12) as ex:
        results = list(ex.map(one, cases))
    chunks = []
    for eid, r, lines in results:
        if r.crashed or r.rc != 0:
            p = os.path.join(ctx.replays, "config_crash_%s.script" % eid.replace("#", "_"))
            open(p, "w").write("#config\n" + "\n".join(by_id[eid]) + "\n")
            rep.violation(runner.crash_key(r.why()), "config_* history %s: %s" % (eid, r.why()[:600]), p)
        if lines:
            chunks.append((eid, lines))
            rep.evaluations += len(lines)
            if len(lines) >= 10:
                rep.nontrivial.add(eid)
    acc, fails, res = tracecheck.validate(SPEC, "ConfigTrace.tla", "ConfigTrace.cfg", chunks, ctx.work, timeout=1800,
                                          max_fail=12, heap="4g", lib=LIB)
    for r in res:
        rep.add_tlc("ConfigTrace", r, mode="trace-validation")
    rep.traces += acc
    notes = []
    for f in fails:
        clause = f.clause or "unknown-clause"
        p = os.path.join(ctx.replays, "config_reject_%s.script" % f.exec_id.replace("#", "_"))
        open(p, "w").write("#config\n" + "\n".join(by_id[f.exec_id]) + "\n")
        what = "config_* history %s, call %d (%s): clause %s fails: %s" % (
            f.exec_id, f.local_line, by_id[f.exec_id][f.local_line - 1][:80] if f.local_line - 1 < len(by_id[f.exec_id]) else "?",
            clause, f.event[:300])
        if clause.startswith("ret:"):
            rep.violation("config:" + clause, what, p)
        else:
            print("NOTE: extended specification of config_* (value semantics, not a listed property): " + what[:400])
            notes.append({"clause": clause, "execution": f.exec_id, "call": f.local_line})
    rep.notes["config_value_semantics_mismatches"] = notes
    rep.sample({"execution": cases[3][0], "script": cases[3][1][:12]})
    return len(cases)


def replay(ctx, drv, path):
    s = [l for l in open(path).read().split("\n") if l and not l.startswith("#")]
    out = os.path.join(ctx.work, "cfg_replay.ndjson")
    r = runner.run(drv, [out], "\n".join(s) + "\n", timeout=120, leaks=True)
    rep = ctx.report
    if r.crashed or r.rc != 0:
        rep.violation(runner.crash_key(r.why()), "config_* replay: %s" % r.why()[:600], path)
    lines = open(out).read().splitlines() if os.path.exists(out) else []
    acc, fails, res = tracecheck.validate(SPEC, "ConfigTrace.tla", "ConfigTrace.cfg", [("replay", lines)], ctx.work, timeout=600,
                                          heap="4g", lib=LIB)
    rep.traces += acc
    for f in fails:
        if (f.clause or "").startswith("ret:"):
            rep.violation("config:" + f.clause, "config_* replay, call %d: clause %s fails: %s" % (f.local_line, f.clause, f.event[:300]), path)
        else:
            print("NOTE: extended specification of config_*: clause %s fails at call %d" % (f.clause, f.local_line))
