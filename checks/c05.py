"""C05 - JSGF compilation preserves the language of the grammar.

  A  specs/jsgf/JsgfSem.tla         what a JSGF grammar means: Den(ast, k), Representable, the property
                                    CompiledOK / NormalisedOK
  B  specs/jsgf/JsgfCompileImpl.tla jsgf_parser.y actions + jsgf.c expand_rule/expand_rhs + link->arc
                                    conversion transcribed; TLC, exhaustive over enumerated grammars:
                                    the mechanism satisfies A outside the known defect classes, and
                                    with the proposed repairs everywhere
  C  every enumerated grammar is rendered to JSGF text in several guises, compiled by the REAL library
     (harness/jsgf/jsgf_drv.c: jsgf_build_fsg, jsgf_build_fsg_raw, re-compilation, jsgf_read_string,
     decoder_set_jsgf_string) and specs/jsgf/JsgfTrace.tla recomputes Lang(dumped fsg, k) and
     Den(ast, k) and compares; the weights leaving each state of the raw grammar must sum to one.

Grammars as data (JSON-ready, same shape as in JsgfSem.tla):
  G = {"rules": [[name, public, alts], ...]},  alts = [[w, [item, ...]], ...]
  item = ["t",w] | ["q",w] | ["r",name] | ["n"] | ["v"] | ["g",alts] | ["o",alts] | ["k",item] | ["p",item]
       | ["x",item]
"""
import functools, itertools, json, os, random, re
from vlib import sut, tlc, tracecheck, runner

SPEC = os.path.join(os.path.dirname(os.path.dirname(os.path.abspath(__file__))), "specs", "jsgf")
K = 4

# ------------------------------------------------------------------------------------------------
# grammars as data
# ------------------------------------------------------------------------------------------------
T = lambda w: ("t", w)
R = lambda n: ("r", n)
NUL, VOID = ("n",), ("v",)


def compositions(n):
    if n == 0:
        yield ()
        return
    for f in range(1, n + 1):
        for r in compositions(n - f):
            yield (f,) + r


def enumerator(leaves, wrap_single=True):
    """items/seqs/alts with exactly s leaves and nesting depth <= d (alts are weight-less here:
    tuples of sequences; weights are attached by with_weights)."""
    @functools.lru_cache(None)
    def items(s, d):
        out = []
        if s == 1:
            out += list(leaves)
        if d >= 1:
            for a in alts(s, d - 1):
                if not wrap_single and s == 1:
                    continue
                out.append(("g", a))
                out.append(("o", a))
            for it in items(s, d - 1):
                out.append(("k", it))
                out.append(("p", it))
        return tuple(out)

    @functools.lru_cache(None)
    def seqs(s, d):
        out = []
        for comp in compositions(s):
            out += itertools.product(*[items(c, d) for c in comp])
        return tuple(out)

    @functools.lru_cache(None)
    def alts(s, d):
        out = []
        for comp in compositions(s):
            out += itertools.product(*[seqs(c, d) for c in comp])
        return tuple(out)

    return items, seqs, alts


WEIGHT_PATTERNS = {1: [(1,)], 2: [(1, 1), (2, 1), (1, 3)], 3: [(1, 1, 1), (2, 1, 1), (1, 2, 3)],
                   4: [(1, 1, 1, 1), (1, 2, 3, 2)]}


def with_weights(a, pick):
    """weight-less alts (tuple of seqs of items) -> JSON-ready alts; pick(n) chooses a weight tuple"""
    ws = pick(len(a))
    return [[ws[i], [item_json(it, pick) for it in seq]] for i, seq in enumerate(a)]


def item_json(it, pick):
    if it[0] in ("g", "o"):
        return [it[0], with_weights(it[1], pick)]
    if it[0] in ("k", "p", "x"):
        return [it[0], item_json(it[1], pick)]
    return list(it)


def picker(rng):
    def pick(n):
        pats = WEIGHT_PATTERNS.get(n)
        if not pats:
            return tuple(rng.choice((1, 1, 2, 3)) for _ in range(n))
        return pats[0] if rng.random() < 0.5 else rng.choice(pats)
    return pick


def grammar(rules):
    """rules: [(name, public, json alts)]"""
    return {"rules": [[n, p, a] for n, p, a in rules]}


# ---- analysis (a Python twin of JsgfSem!Issues, used for choosing inputs and NAMING violations only;
# ---- acceptance is decided by TLC) ---------------------------------------------------------------
def rule_map(g):
    return {r[0]: r for r in g["rules"]}


def top_rule(g):
    for r in g["rules"]:
        if r[1]:
            return r[0]
    return None


def issues(g):
    rm, top = rule_map(g), top_rule(g)
    out = set()
    if top is None:
        return {"nopublic"}

    def alts_(alts, stack, nt, nh):
        for w, seq in alts:
            for j, it in enumerate(seq):
                last = j == len(seq) - 1
                item_(it, stack, nt if last else len(stack), nh if j == 0 else len(stack), len(seq) == 1, j == 0, last)

    def item_(a, stack, nt, nh, single, first, last):
        k = a[0]
        if k == "v":
            out.add("void")
        elif k == "r":
            if a[1] not in rm:
                out.add("undef")
            elif a[1] in stack:
                p = stack.index(a[1]) + 1
                if p <= nt:
                    out.add("nontail")
                    out.add("nontail-left" if (first and not last) else
                            "nontail-mid" if not last else "nontail-nested")
                if p > nh:
                    out.add("headrec")
                if single:
                    out.add("unitrec")
            else:
                alts_(rm[a[1]][2], stack + [a[1]], nt, nh)
        elif k in ("g", "o"):
            alts_(a[1], stack, nt, nh)
        elif k in ("k", "p"):
            item_(a[1], stack, len(stack), nh, False, False, False)
        elif k == "x":
            item_(a[1], stack, nt, nh, single, first, last)

    alts_(rm[top][2], [top], 0, 0)
    return out


def n_leaves(g):
    def it_(a):
        if a[0] in ("g", "o"):
            return sum(it_(i) for w, s in a[1] for i in s)
        if a[0] in ("k", "p", "x"):
            return it_(a[1])
        return 1
    return sum(it_(i) for r in g["rules"] for w, s in r[2] for i in s)


def kinds(g):
    out = set()

    def it_(a):
        out.add(a[0])
        if a[0] in ("g", "o"):
            if len(a[1]) > 1:
                out.add("alt")
            for w, s in a[1]:
                for i in s:
                    it_(i)
        elif a[0] in ("k", "p", "x"):
            it_(a[1])
    for r in g["rules"]:
        if len(r[2]) > 1:
            out.add("alt")
        for w, s in r[2]:
            for i in s:
                it_(i)
    return out


def map_tokens(g, f):
    def it_(a):
        if a[0] in ("t", "q"):
            return [a[0], f(a[1])]
        if a[0] in ("g", "o"):
            return [a[0], [[w, [it_(i) for i in s]] for w, s in a[1]]]
        if a[0] in ("k", "p", "x"):
            return [a[0], it_(a[1])]
        return list(a)
    return {"rules": [[r[0], r[1], [[w, [it_(i) for i in s]] for w, s in r[2]]] for r in g["rules"]]}


def tokens_of(g):
    out = []
    map_tokens(g, lambda w: out.append(w) or w)
    return out


def dup_unit_alts(g):
    """an alternative list holding the same single-reference alternative twice (the two arcs would
    coincide in the automaton; excluded from the inputs because the weight sum is then not defined)"""
    bad = []

    def strip(i):
        return strip(i[1]) if i[0] == "x" else i

    def alts_(alts):
        seen = set()
        for w, s in alts:
            if len(s) == 1 and strip(s[0])[0] == "r":
                key = strip(s[0])[1]
                if key in seen:
                    bad.append(key)
                seen.add(key)
            for i in s:
                it_(i)

    def it_(a):
        if a[0] in ("g", "o"):
            alts_(a[1])
        elif a[0] in ("k", "p", "x"):
            it_(a[1])
    for r in g["rules"]:
        alts_(r[2])
    return bool(bad)


def latin(word):
    """how a UTF-8 word looks once the harness has written it byte by byte (\\u00XX)"""
    return "".join(chr(b) for b in word.encode("utf-8"))


# ------------------------------------------------------------------------------------------------
# rendering a grammar to JSGF text in a guise
# ------------------------------------------------------------------------------------------------
GUISES = ["plain", "grouped", "comments", "tags", "weights", "quoted", "odd", "dense", "header"]
# "nlsemi" (a line break right before the semicolon that ends a rule) is only used by a few dedicated cases
TOKMAPS = {
    "plain": {},
    "dict": {"a": "go", "b": "ten", "c": "meters"},
    "odd": [{"a": "été", "b": "x-ray", "c": "10"}, {"a": "A", "b": "a", "c": "o'k"},
            {"a": "public", "b": "grammar", "c": "import"}, {"a": "3.5", "b": "_", "c": "a.b"}],
}
TAGS = ["{t}", "{ a tag }", "{x|y;}", "{}", "{<r> = (z)*}", "{esc \\} brace}", "{\"q\"}"]
COMMENTS = ["/* c */", "/** doc ; | <x> */", "// line ; comment | ( [ {\n", "/* \"q\" {t} */", "//\n", "/* * / */"]
RULESPELL = [{}, {"s": "top-rule", "t": "Sub_1", "r2": "x9"}, {"s": "règle", "t": "T", "r2": "t"}]


def render(g, guise, rng):
    """-> (text, alias pairs).  The text means exactly g (only its spelling varies)."""
    o = {"group": 0.0, "comment": 0.0, "tag": 0.0, "wstyle": 0, "quote": False, "dense": False,
         "hdr": 0, "gname": "g", "qualify": False, "spell": {}, "wforce": False}
    if guise == "grouped":
        o["group"] = 0.5
    elif guise == "comments":
        o["comment"] = 0.5
    elif guise == "tags":
        o["tag"] = 0.6
    elif guise == "weights":
        o["wstyle"], o["wforce"] = rng.randint(1, 6), True
    elif guise == "quoted":
        o["quote"] = True
    elif guise == "dense":
        o["dense"] = True
    elif guise == "header":
        o["hdr"], o["gname"], o["qualify"] = rng.randint(1, 4), rng.choice(["g", "com.example.gram", "G2"]), True
        o["spell"] = rng.choice(RULESPELL)
    elif guise == "odd":
        o["spell"] = rng.choice(RULESPELL)
        o["comment"], o["tag"], o["group"], o["wstyle"] = 0.15, 0.2, 0.15, rng.randint(0, 6)
    alias = {}

    def wtext(w):
        # styles 5 and 6 scale every weight of the grammar by 1/10 resp. 1/100: the proportions - all that JSGF
        # weights mean - are the same, but a choice point's weights now total LESS than one
        return "/%s/" % [str(w), "%d.0" % w, "%d.00" % w, "%de-1" % (w * 10), "0%d.000" % w, "0.%d" % w, "%de-2" % w][o["wstyle"]]

    def tok(w, quoted):
        if quoted or o["quote"] or " " in w:
            sp = '"' + w + '"'
            alias[latin(sp)] = latin(w)
            return sp
        return w

    def rname(n):
        n = o["spell"].get(n, n)
        if o["qualify"] and rng.random() < 0.5 and n not in ("NULL", "VOID"):
            return "<%s.%s>" % (o["gname"], n)
        return "<%s>" % n

    def atom(a):       # -> list of lexical tokens
        k = a[0]
        if k in ("t", "q"):
            return [tok(a[1], k == "q")]
        if k == "r":
            return [rname(a[1])]
        if k == "n":
            return ["<NULL>"]
        if k == "v":
            return ["<VOID>"]
        if k == "g":
            return ["("] + alts_(a[1]) + [")"]
        if k == "o":
            return ["["] + alts_(a[1]) + ["]"]
        if k in ("k", "p"):
            inner = a[1]
            body = atom(inner) if inner[0] != "x" else ["("] + item(inner) + [")"]
            return body + ["*" if k == "k" else "+"]
        if k == "x":
            return item(a)
        raise ValueError(a)

    def item(a):
        if a[0] == "x":
            return item(a[1]) + [rng.choice(TAGS)]
        out = atom(a)
        if o["group"] and rng.random() < o["group"]:
            out = ["("] + out + [")"]
            if rng.random() < 0.3:
                out = ["("] + out + [")"]
        while o["tag"] and rng.random() < o["tag"]:
            out = out + [rng.choice(TAGS)]
        return out

    def alts_(alts):
        explicit = o["wforce"] or any(w != 1 for w, s in alts)
        mixed = explicit and not o["wforce"] and rng.random() < 0.3
        out = []
        for i, (w, seq) in enumerate(alts):
            if i:
                out.append("|")
            part = []
            for it in seq:
                part += item(it)
            if o["group"] and len(seq) > 1 and rng.random() < o["group"] / 2:
                part = ["("] + part + [")"]
            if explicit and len(alts) > 1 and not (mixed and w == 1):
                part = [wtext(w)] + part
            out += part
        if o["group"] and rng.random() < o["group"] / 3:
            out = ["("] + out + [")"]
        return out

    hdrs = [["#JSGF", "V1.0", ";"], ["#JSGF", "V1.0", "UTF-8", ";"], ["#JSGF", "V1.0", "UTF-8", "en", ";"],
            ["﻿#JSGF", "V1.0", ";"], ["#JSGF", ";"]]
    lex = list(hdrs[o["hdr"]]) + ["\n", "grammar", o["gname"], ";", "\n"]
    for name, pub, alts in g["rules"]:
        if pub:
            lex.append("public")
        lex += ["<%s>" % o["spell"].get(name, name), "="] + alts_(alts) + [";", "\n"]

    punct = set("()[]|;=*+")
    out = []
    for i, t in enumerate(lex):
        if i:
            p = lex[i - 1]
            if t == "\n" or p == "\n":
                sep = ""
            elif o["dense"] and (t in punct or p in punct or t[0] in "<{" or p[-1] in ">}" or
                                 (p[0] == "/" and p[-1] == "/" and len(p) > 2)) \
                    and p not in ("public", "grammar") \
                    and not p.startswith("#JSGF") and not p.startswith("﻿"):
                sep = ""
            else:
                sep = rng.choice([" ", " ", "  ", "\t", "\n", " \n "]) if (o["comment"] or guise == "odd") else " "
            if o["comment"] and i > 3 and rng.random() < o["comment"]:
                sep = " " + rng.choice(COMMENTS) + " "
            if t == ";":
                # a newline immediately before ';' is a case of its own (guise nlsemi)
                sep = "\n" if guise == "nlsemi" and i > 6 else sep.rstrip("\n") + (" " if sep.endswith("\n") else "")
            out.append(sep)
        out.append(t)
    return "".join(out), sorted([k, v] for k, v in alias.items())


def header_ast(g):
    """the grammar as the trace carries it: words spelled the way the harness writes them"""
    return map_tokens(g, latin)


# ------------------------------------------------------------------------------------------------
# executing grammars on the real library
# ------------------------------------------------------------------------------------------------
class Case:
    """one execution: a grammar, one spelling of it, the routes to compile it through"""

    def __init__(self, eid, g, guise, routes, rng_seed):
        rng = random.Random(rng_seed)
        if guise == "odd":
            m = rng.choice(TOKMAPS["odd"])
            g = map_tokens(g, lambda w: m.get(w, w))
        elif "d" in routes:
            g = map_tokens(g, lambda w: TOKMAPS["dict"].get(w, w))
        self.eid, self.g, self.guise, self.routes = eid, g, guise, routes
        self.text, self.alias = render(g, guise, rng)
        self.payload = payload(g, self.alias, guise)

    def line(self, num):
        return "exec %d %d %s %s %s" % (num, K, self.routes, self.text.encode("utf-8").hex(), self.payload)


def payload(g, alias, guise):
    """what the Header carries: the grammar, the aliases, and whether the text has exactly the structure
    of the grammar (no redundant grouping), i.e. whether the shape diagnostic applies"""
    return json.dumps({"ast": header_ast(g), "alias": alias, "shape": guise not in ("grouped", "odd")},
                      separators=(",", ":"))


def script_head():
    return "decoder %s/model/en-us %s/tests/data/turtle.dic" % (sut.REPO, sut.REPO)


MAX_CULPRITS = 24


def execute(drv, cases, work, tag, budget=None):
    """Run the cases in one harness process; on a crash bisect down to the culprit (at most MAX_CULPRITS
    culprits are isolated, after that crashing batches are dropped and counted as one more crash).
    Returns (chunks [(eid, [lines])], crashes [(eid, why)])."""
    if not cases:
        return [], []
    if budget is None:
        budget = [MAX_CULPRITS]
    path = os.path.join(work, "jsgf_%s.ndjson" % tag)
    text = script_head() + "\n" + "\n".join(c.line(i + 1) for i, c in enumerate(cases)) + "\n"
    r = runner.run(drv, [path], text, timeout=1800, leaks=False)   # leaks are C09's business
    if r.rc == 0:
        chunks, cur = [], None
        for ln in open(path):
            if ln.startswith('{"e":"Header"'):
                cur = []
                chunks.append(cur)
            cur.append(ln)
        os.unlink(path)
        if len(chunks) != len(cases):
            raise tlc.ModelError("harness produced %d executions for %d grammars" % (len(chunks), len(cases)))
        return [(c.eid, ch) for c, ch in zip(cases, chunks)], []
    if not r.crashed and r.rc in (3, 4, 5):
        raise tlc.ModelError("harness failed: " + r.why())
    if len(cases) == 1 or budget[0] <= 0:
        budget[0] -= 1
        return [], [(cases[0].eid, r.why())]
    mid = len(cases) // 2
    c1, x1 = execute(drv, cases[:mid], work, tag + "a", budget)
    c2, x2 = execute(drv, cases[mid:], work, tag + "b", budget)
    return c1 + c2, x1 + x2


# ------------------------------------------------------------------------------------------------
# families of grammars
# ------------------------------------------------------------------------------------------------
LEAVES1 = (T("a"), T("b"), NUL, VOID, R("s"))


def single_rule_family(max_size, depth, leaves=LEAVES1, seed=0):
    """every one-rule grammar  public <s> = ...  with at most max_size leaves, nesting <= depth"""
    items, seqs, alts = enumerator(leaves)
    rng = random.Random(seed)
    pick = picker(rng)
    for s in range(1, max_size + 1):
        for a in alts(s, depth):
            g = grammar([("s", 1, with_weights(a, pick))])
            if not dup_unit_alts(g):
                yield g


# ------------------------------------------------------------------------------------------------
# trace validation (TLC decides; see JsgfTrace.tla)
# ------------------------------------------------------------------------------------------------
def validate(chunks, work, workers=8, timeout=1500):
    """-> (bad {eid: [(local line index, event text)]}, shape {eid,...}, TlcResult).  Every execution is
    validated; the rejected events are reported by TLC as <<"BAD", line>>, raw grammars that differ
    from what JsgfCompileImpl predicts as <<"SHAPE", line>> (diagnostic)."""
    import re, tempfile
    if not chunks:
        raise tlc.ModelError("nothing to validate")
    fd, path = tempfile.mkstemp(prefix="trace.", suffix=".ndjson", dir=work)
    owner, n = [], 0
    with os.fdopen(fd, "w") as f:
        for eid, lines in chunks:
            for i, ln in enumerate(lines):
                f.write(ln.rstrip("\n") + "\n")
                owner.append((eid, i, ln))
    r = tlc.run("JsgfTrace.tla", "JsgfTrace.cfg", SPEC, workers=workers, timeout=timeout, heap="4g",
                env={"TRACE": path, "JAVA_TOOL_OPTIONS": "-Xss64m"}, extra=("-noGenerateSpecTE",))
    os.unlink(path)
    if r.rc != 0 or "No error has been found" not in r.out or r.distinct != len(owner):
        raise tlc.ModelError("trace validation did not finish cleanly (%d states for %d lines):\n%s"
                             % (r.distinct, len(owner), r.out[-3000:]))
    bad = {}
    for m in re.finditer(r'<<"BAD", (\d+)>>', r.out):
        eid, i, ln = owner[int(m.group(1)) - 1]
        bad.setdefault(eid, []).append((i, ln))
    shape = set()
    for m in re.finditer(r'<<"SHAPE", (\d+)>>', r.out):
        shape.add(owner[int(m.group(1)) - 1][0])
    return bad, shape, r


LEAVES_U = (T("a"), NUL, R("s"), R("u"))


def undefined_family(seed=0):
    """one-rule grammars that refer to a rule <u> nobody defines (never together with <VOID>)"""
    items, seqs, alts = enumerator(LEAVES_U)
    pick = picker(random.Random(seed))
    for s in (1, 2):
        for a in alts(s, 1):
            g = grammar([("s", 1, with_weights(a, pick))])
            if "undef" in issues(g) and not dup_unit_alts(g):
                yield g


def two_rule_family(depth, seed=0):
    """public <s> over {a, <s>, <t>} and <t> over {b, <s>, <t>}, up to two leaves each, <t> used by
    <s>; the public rule first or second in the text"""
    _, _, alts_s = enumerator((T("a"), R("s"), R("t")))
    _, _, alts_t = enumerator((T("b"), R("s"), R("t")))
    pick = picker(random.Random(seed))
    n = 0
    for ss in (1, 2):
        for a in alts_s(ss, depth):
            if '"t"), ' not in repr(a) and "('r', 't')" not in repr(a):
                continue
            for st in (1, 2):
                for b in alts_t(st, depth):
                    rs = [("s", 1, with_weights(a, pick)), ("t", 0, with_weights(b, pick))]
                    n += 1
                    g = grammar(rs if n % 2 else rs[::-1])
                    if not dup_unit_alts(g):
                        yield g


def random_grammar(rng):
    """up to 3 rules, 3-7 leaves, nesting <= 3; recursion mostly (not always) in tail position"""
    nrules = rng.choice((1, 1, 2, 2, 3))
    names = ["s", "t", "r2"][:nrules]
    flavour = rng.choice(("clean",) * 7 + ("void",) * 2 + ("undef",))
    toks = ["a", "b", "c"]

    def leaf(cur, last, single=False):
        r = rng.random()
        p_ref = (0.12 if single else 0.45) if last else 0.07
        if r < p_ref:
            later = names[names.index(cur) + 1:]
            if later and rng.random() < 0.6:
                return ["r", rng.choice(later)]
            if flavour == "undef" and rng.random() < 0.3:
                return ["r", "u"]
            return ["r", rng.choice(names)]
        r = rng.random()
        if r < 0.08:
            return ["n"]
        if r < 0.14 and flavour == "void":
            return ["v"]
        if r < 0.17:
            return ["q", rng.choice(["a b", "c"])]
        return ["t", rng.choice(toks)]

    def item(size, depth, cur, last, single=False):
        if size == 1 and (depth == 0 or rng.random() < 0.7):
            return leaf(cur, last, single)
        k = rng.choice("ggookp")
        if k in "go":
            return [k, alts(size, depth - 1, cur, last)]
        if size == 1:
            return [k, item(1, depth - 1, cur, False)]
        return [k, ["g", alts(size, depth - 1, cur, False)]]

    def seq(size, depth, cur, last):
        if depth == 0:
            parts = [1] * size
        else:
            parts = list(rng.choice(list(compositions(size))))
        out = []
        for i, p in enumerate(parts):
            it = item(p, depth, cur, last and i == len(parts) - 1, len(parts) == 1)
            if rng.random() < 0.08 and it[0] != "x":
                it = ["x", it]
            out.append(it)
        return out

    def alts(size, depth, cur, last):
        nalt = rng.randint(1, min(3, size))
        cuts = sorted(rng.sample(range(1, size), nalt - 1)) if nalt > 1 else []
        sizes = [b - a for a, b in zip([0] + cuts, cuts + [size])]
        ws = rng.choice(WEIGHT_PATTERNS.get(nalt, [(1,) * nalt])) if rng.random() < 0.4 else (1,) * nalt
        return [[ws[i], seq(s, depth, cur, last)] for i, s in enumerate(sizes)]

    total = rng.randint(3, 7)
    sizes = [1] * nrules
    for _ in range(total - nrules):
        sizes[rng.randrange(nrules)] += 1
    rules = [[n, 0, alts(sizes[i], rng.choice((1, 2, 2, 3)), n, True)] for i, n in enumerate(names)]
    rules[0][1] = 1
    for i in range(1, nrules):      # make (most) rules reachable
        if ("'r', '%s'" % names[i]) not in repr(rules[:i]) and rng.random() < 0.85:
            rng.choice(rules[i - 1][2])[1].append(["r", names[i]])
    if rng.random() < 0.4:
        rng.shuffle(rules)
    return {"rules": rules}


def random_family(n, seed):
    rng, seen, out = random.Random(seed), set(), []
    while len(out) < n:
        g = random_grammar(rng)
        key = json.dumps(g)
        if key in seen or dup_unit_alts(g):
            continue
        seen.add(key)
        out.append(g)
    return out


def zoo():
    """hand-written grammars: the minimal forms of the known defects, realistic grammars, corner cases.
    (name, grammar)"""
    A = lambda *alts: [[1, list(s)] for s in alts]
    t = lambda w: ["t", w]
    r = lambda n: ["r", n]
    digits = A(*[[t(w)] for w in "one two three four five six seven eight nine ten".split()])
    out = [
        ("void-last-alt", grammar([("s", 1, A([t("a")], [["v"]]))])),                 # a | <VOID>
        ("void-first-alt", grammar([("s", 1, A([["v"]], [t("a")]))])),                # <VOID> | a  (works)
        ("void-in-group", grammar([("s", 1, A([t("b"), ["g", A([["v"]], [t("a")])]]))])),
        ("void-only", grammar([("s", 1, A([["v"]]))])),
        ("void-group-only", grammar([("s", 1, A([["g", A([["v"]])]]))])),
        ("undefined-in-opt", grammar([("s", 1, A([t("a"), ["o", A([r("u")])]]))])),
        ("undefined", grammar([("s", 1, A([t("a"), r("u")]))])),
        ("left-rec", grammar([("s", 1, A([r("s"), t("a")], [t("b")]))])),
        ("mid-rec", grammar([("s", 1, A([t("a"), r("s"), t("c")], [t("b")]))])),
        ("group-rec", grammar([("s", 1, A([["g", A([t("a"), r("s")])], t("c")], [t("b")]))])),
        ("rule-rec", grammar([("s", 1, A([r("t"), t("c")], [t("b")])), ("t", 0, A([t("a"), r("s")]))])),
        ("star-rec", grammar([("s", 1, A([["k", ["g", A([t("a"), r("s")])]], t("b")]))])),
        ("tail-rec", grammar([("s", 1, A([t("a"), r("s")], [t("b")]))])),
        ("tail-rec-group", grammar([("s", 1, A([t("a"), ["g", A([t("b"), r("s")], [t("c")])]]))])),
        ("tail-rec-opt", grammar([("s", 1, A([t("a"), ["o", A([r("s")])]]))])),
        # embedded recursion through a second rule that ALSO has a legal self tail recursion, written before / after the
        # alternative that goes back to the outer rule (alternatives are expanded last first): still embedded, still refused
        ("embedded-via-inner-tail-after", grammar([("s", 1, A([r("t"), t("b")], [t("c")])), ("t", 0, A([t("a"), r("s")], [t("c"), r("t")]))])),
        ("embedded-via-inner-tail-before", grammar([("s", 1, A([r("t"), t("b")], [t("c")])), ("t", 0, A([t("c"), r("t")], [t("a"), r("s")]))])),
        ("embedded-via-inner-tail-3", grammar([("s", 1, A([t("a"), r("t"), t("b")], [t("c")])),
                                               ("t", 0, A([t("b"), r("s")], [t("a")], [t("c"), r("t")]))])),
        ("mutual-tail", grammar([("s", 1, A([t("a"), r("t")], [t("b")])), ("t", 0, A([t("c"), r("s")]))])),
        ("no-base-case", grammar([("s", 1, A([t("a"), r("s")]))])),
        ("repeat-ref", grammar([("s", 1, A([r("t"), r("t")], [r("t"), t("c"), r("t")])),
                                ("t", 0, [[2, [t("a")]], [1, [t("b")]]])])),
        ("public-second", grammar([("t", 0, A([t("b")])), ("s", 1, A([t("a"), r("t")]))])),
        ("unused-bad-rule", grammar([("s", 1, A([t("a")])), ("t", 0, A([r("t"), t("b")], [r("u")]))])),
        ("nested-closures", grammar([("s", 1, A([["k", ["p", t("a")]], ["o", A([["k", t("b")]])]]))])),
        ("opt-star-plus", grammar([("s", 1, A([["o", A([t("a")])], ["k", t("b")], ["p", t("c")]]))])),
        ("null-everywhere", grammar([("s", 1, A([["n"], t("a"), ["n"]], [["n"]]))])),
        ("goforward", grammar([("s", 1, A([t("go"), r("t"), r("r2"), ["o", A([t("meter")], [t("meters")])]])),
                               ("t", 0, A([t("forward")], [t("backward")])), ("r2", 0, digits)])),
        ("order", grammar([("s", 1, A([["o", A([r("t")])], ["o", A([t("a")], [t("one")])],
                                       ["g", A([t("go")], [t("two"), t("to")])],
                                       ["k", ["g", A([["o", A([t("and")])], t("ten")])]]])),
                           ("t", 0, A([t("hello")], [t("bye")]))])),
        # a rule the USER names like the names the compiler generates for groups (g00000, g00001, ...): defined before
        # the group that would take the name, and after it
        ("gen-name-before", grammar([("g00001", 0, A([t("a")])), ("s", 1, A([["g", A([t("b")], [t("c")])], r("g00001")]))])),
        ("gen-name-after", grammar([("s", 1, A([["g", A([t("b")], [t("c")])], r("g00000")])), ("g00000", 0, A([t("a")]))])),
        ("no-public-1", grammar([("s", 0, A([t("a")]))])),
        ("no-public-2", grammar([("s", 0, A([t("a")])), ("t", 0, A([t("b")]))])),
    ]
    return out


# ------------------------------------------------------------------------------------------------
# naming what TLC rejected
# ------------------------------------------------------------------------------------------------
DEFECT = {"void", "undef", "nontail"}


def violation_key(case, ev):
    iss = issues(case.g)
    if ev["e"] == "Norm":
        return "norm:weights-of-a-choice-point-do-not-sum-to-one"
    if ev["e"] == "TopRule":
        return "refuse:undefined-start-rule"
    gen = [i for i, r in enumerate(case.g["rules"]) if re.fullmatch(r"g\d{5}", r[0])]
    if gen:
        # which came first in the text: the grammar's own rule of that name, or the rule whose group takes the name
        name = case.g["rules"][gen[0]][0]
        users = [i for i, r in enumerate(case.g["rules"]) if json.dumps(["r", name]) in json.dumps(r[2])]
        if users and gen[0] < min(users):
            return "lang:generated-group-name-taken-by-a-user-rule"
        return "lang:user-rule-named-like-a-generated-group"
    if ev["refused"]:
        if "\n;" in case.text and (not ev["parsed"] or ev["via"] in ("read", "decoder")):
            return "parse:newline-before-semicolon"
        if not ev["parsed"]:
            return "parse:" + case.guise
        return "refused:" + ("grammar-with-void-alternative" if "void" in iss else "representable-grammar")
    if "nopublic" in iss:
        return "refuse:no-public-rule" + ("-read-string" if ev["via"] == "read" else "")
    if "undef" in iss:
        return "refuse:undefined-rule"
    if "nontail" in iss and case.guise in ("grouped", "odd"):
        # the text wraps items in extra groups: whatever the recursion looks like in the grammar, in the
        # text it may well end a group, and that is the form the compiler fails to recognise
        return "refuse:embedded-recursion-group"
    if "nontail-left" in iss:
        return "refuse:left-recursion"
    if "nontail-mid" in iss:
        return "refuse:embedded-recursion"
    if "nontail-nested" in iss:
        return "refuse:embedded-recursion-group"
    if "void" in iss:
        return "lang:void-alternative"
    if ev["via"] == "rebuild":
        return "lang:second-compilation-of-the-same-grammar"
    return "lang:?"


def crash_key(case):
    if "2" in case.routes and issues(case.g) & DEFECT:
        return "crash:recompilation-after-failed-expansion"
    return "crash:compilation"


WHAT = {
    "lang:void-alternative": "an alternative containing <VOID> aborts the whole expansion: the other alternatives "
                             "and everything expanded later are lost (a | <VOID> compiles to a grammar without arcs)",
    "refuse:undefined-rule": "a reference to an undefined rule is not refused: the value returned by the top-level "
                             "expand_rule is ignored and a partial grammar is returned",
    "refuse:left-recursion": "left recursion is detected by expand_rhs but the failure is ignored at top level: a "
                             "partial grammar with a different language is returned",
    "refuse:embedded-recursion": "embedded recursion (x <s> z, <s>*) is detected by expand_rhs but the failure is "
                                 "ignored at top level: a partial grammar with a different language is returned",
    "refuse:embedded-recursion-group": "recursion that ends a group/optional/closure/sub-rule which is itself followed "
                                       "by something is taken for right recursion and compiled into a loop",
    "lang:generated-group-name-taken-by-a-user-rule":
        "a group is given a generated name (g00001, ...) that a rule of the grammar defined EARLIER already has; "
        "references to the group reach that rule",
    "lang:user-rule-named-like-a-generated-group":
        "a rule the grammar itself names like the names the compiler generates for groups (g00000, g00001, ...) and a "
        "group end up under one name: references to one reach the other",
    "refuse:undefined-start-rule": "decoder_set_jsgf_string with the toprule parameter naming a rule that does not exist "
                                   "compiles some other rule instead of refusing",
    "refuse:no-public-rule-read-string": "jsgf_read_string compiles the last rule of the hash table when no rule is public",
    "parse:newline-before-semicolon": "a line break immediately before ';' makes the grammar unparsable (scanner rule "
                                      "'.|\\n;' swallows the semicolon)",
    "crash:recompilation-after-failed-expansion": "after a failed expansion the rule stack is not unwound; compiling the "
                                                  "same jsgf_t again links to stale state numbers (heap overflow)",
}


# ------------------------------------------------------------------------------------------------
# the check
# ------------------------------------------------------------------------------------------------
JAVA = {"JAVA_TOOL_OPTIONS": "-Xss64m"}      # deep (not wide) recursion in the language operators
NOTE = ("-noGenerateSpecTE",)


def gkey(g):
    return json.dumps(g, separators=(",", ":"), sort_keys=True)


def stored_case(d):
    c = Case.__new__(Case)
    c.eid, c.g, c.guise, c.routes, c.text, c.alias = d["eid"], d["g"], d["guise"], d["routes"], d["text"], d["alias"]
    c.payload = payload(c.g, c.alias, c.guise)
    return c


def case_dict(c):
    return {"eid": c.eid, "g": c.g, "guise": c.guise, "routes": c.routes, "text": c.text, "alias": c.alias}


def write_replay(ctx, key, cases):
    p = os.path.join(ctx.replays, key.replace(":", "_").replace("+", "-").replace("/", "_") + ".json")
    with open(p, "w") as f:
        json.dump({"property": "C05", "key": key, "cases": [case_dict(c) for c in cases]}, f, indent=1)
        f.write("\n")
    return p


def layer_b(ctx, gs, quick):
    """TLC: the transcription of the compiler satisfies the property on every grammar of the family -
    as it is outside the defect classes, with the repairs everywhere."""
    rep = ctx.report
    classes = {}
    for g in gs:
        for c in (issues(g) & {"void", "undef", "nontail-left", "nontail-mid", "nontail-nested", "nopublic"}) or \
                {"clean-recursive" if '"r"' in json.dumps(g) else "clean"}:
            classes[c] = classes.get(c, 0) + 1
    for c in ("clean", "clean-recursive", "void", "undef", "nontail-left", "nontail-mid", "nontail-nested", "nopublic"):
        if not classes.get(c):
            raise tlc.ModelError("vacuous family: no grammar of class " + c)
    rep.notes["family_classes"] = classes
    PART = 50000                     # grammars per TLC run (keeps the heap small)
    for p0 in range(0, len(gs), PART):
        part = gs[p0:p0 + PART]
        path = os.path.join(ctx.work, "asts%d.ndjson" % p0)
        with open(path, "w") as f:
            for g in part:
                f.write(json.dumps({"ast": g, "iss": sorted(issues(g) & {"void", "undef", "nontail", "unitrec", "headrec",
                                                                        "nopublic"})}, separators=(",", ":")) + "\n")
        for cfg in ("MC_file_asis.cfg", "MC_file_fixed.cfg"):
            r = tlc.run("MC_JsgfFile.tla", cfg, SPEC, workers=16, timeout=2400, heap="4g",
                        env=dict(JAVA, ASTS=path), extra=NOTE)
            if r.violated or r.rc != 0:
                import re
                m = re.search(r"\bi = (\d+)", r.out)
                g = part[int(m.group(1)) - 1] if m else None
                raise tlc.ModelError("JsgfCompileImpl (%s) violates %s on %s\n%s" %
                                     (cfg, r.violated, render(g, "plain", random.Random(0))[0] if g else "?", r.out[-1500:]))
            if r.distinct != len(part):
                raise tlc.ModelError("%s: %d states for %d grammars" % (cfg, r.distinct, len(part)))
            rep.add_tlc("MC_JsgfFile.tla/%s[%d..]" % (cfg, p0), r)
        os.unlink(path)
    size = 1 if quick else 3
    for cfg in ("MC_enum_asis_%d.cfg" % size, "MC_enum_fixed_%d.cfg" % size):
        r = tlc.run("MC_JsgfEnum.tla", cfg, SPEC, workers=4, timeout=2400, heap="4g", env=JAVA, extra=NOTE)
        if r.violated or r.rc != 0:
            raise tlc.ModelError("JsgfCompileImpl (%s) violates %s\n%s" % (cfg, r.violated, r.out[-2500:]))
        if r.distinct < 8000:
            raise tlc.ModelError("%s: only %d grammars enumerated" % (cfg, r.distinct))
        rep.add_tlc("MC_JsgfEnum.tla/" + cfg, r)


def families(ctx, quick):
    """-> (grammars for layer B, cases for layer C)"""
    seed = ctx.seed
    rng = random.Random(seed)
    core = list(single_rule_family(2, 1))
    size3 = list(single_rule_family(3, 1))[len(core):]
    undef = list(undefined_family())
    two = list(two_rule_family(0))
    two1 = [] if quick else list(two_rule_family(1))
    rnd = random_family(500 if quick else 6000, seed)
    zoo_ = zoo()
    cases = []

    def routes_for(g, extra=""):
        return "b" + ("2" if not (issues(g) & (DEFECT | {"nopublic"})) else "r") + extra

    def add(tag, g, guise, routes):
        cases.append(Case("%s#%d" % (tag, len(cases)), g, guise, routes, seed * 1000003 + len(cases)))

    for g in core:                                            # every small grammar, plainly spelled
        add("core", g, "plain", routes_for(g, "s"))
    for g in (size3 if not quick else rng.sample(size3, 600)):
        add("size3", g, "plain", routes_for(g))
    pool = core + rng.sample(size3, 2000)
    for guise in GUISES[1:]:                                  # the same grammars in every guise
        for g in rng.sample(pool, 70 if quick else 700):
            add("guise-" + guise, g, guise, routes_for(g))
    for g in undef:
        add("undef", g, "plain", "brs")
    for g in two + (rng.sample(two1, 5000) if two1 else []):
        add("two", g, "plain", routes_for(g))
        add("two", g, rng.choice(GUISES[1:]), "b")
    for g in rnd:
        add("rand", g, rng.choice(GUISES), routes_for(g))
    for name, g in zoo_:
        for guise in GUISES:
            if guise == "quoted" and name in ("goforward", "order"):
                continue
            add("zoo-" + name, g, guise, routes_for(g, "s"))
    for name, g in zoo_:                                      # dedicated cases for two known defects
        if name in ("tail-rec", "goforward", "opt-star-plus"):
            add("nlsemi-" + name, g, "nlsemi", "bs")
        if name in ("void-group-only", "undefined-in-opt"):
            add("recompile-" + name, g, "plain", "2")
    # one parsed grammar, every rule compiled in turn (route m): a good public rule next to rules the compiler
    # refuses or that nobody uses; what a refused compilation leaves in the jsgf_t must not reach the next one
    A = lambda *alts: [[1, list(s)] for s in alts]
    t, r = (lambda w: ["t", w]), (lambda n: ["r", n])
    goods = [A([t("a")]), A([t("a"), t("b")], [t("c")]), A([t("a"), ["k", t("b")], t("c")]), A([t("c"), ["o", A([t("a")], [t("b")])]]),
             A([t("a"), r("r2")], [t("b")])]
    bads = [A([r("t"), t("b")], [t("a")]), A([t("b"), r("t"), t("c")], [t("a")]), A([t("c"), t("b"), r("u")]),
            A([t("b"), t("c"), ["g", A([t("a"), r("t"), t("b")])], t("a")], [t("c")]), A([t("b"), t("c"), t("a"), t("b"), ["v"]]),
            A([t("a"), t("b"), t("c"), t("a"), ["k", ["g", A([t("b"), r("t")])]], t("c")]), A([t("b"), t("a")])]
    for gi, good in enumerate(goods):
        for bi, bad in enumerate(bads):
            rs = [("s", 1, good), ("t", 0, bad)] + ([("r2", 0, A([t("c")], [t("b"), t("a")]))] if gi == 4 else [])
            for order in (rs, rs[::-1]):
                add("multi-g%d-b%d" % (gi, bi), grammar(order), "plain", "bm")
    for name, g in zoo_:
        add("multi-zoo-" + name, g, "plain", "m")
    for g in rng.sample(two, min(len(two), 150 if quick else 1500)) + rnd[:100 if quick else 2000]:
        add("multi", g, "plain", "m")
    dguises = ["plain", "comments", "tags", "grouped", "weights", "dense"]
    dec = [g for n, g in zoo_ if not issues(g) & {"nopublic"}] + \
          [g for g in rnd if '"q"' not in json.dumps(g)][:15 if quick else 150]
    for i, g in enumerate(dec):                               # the decoder's route, dictionary words
        add("decoder", g, dguises[i % len(dguises)], "dt")
    layer_b_set, seen = [], set()
    b3 = size3 if not quick else rng.sample(size3, 18000) + [c.g for c in cases if c.eid.startswith(("size3", "guise"))]
    for g in core + b3 + undef + two + two1 + rnd + [g for n, g in zoo_]:
        k = gkey(g)
        if k not in seen:
            seen.add(k)
            layer_b_set.append(g)
    return layer_b_set, cases


def corrupt(chunk):
    """three one-field corruptions of an accepted execution; TLC must reject each"""
    out = []
    hdr = chunk[0]
    fsg = [l for l in chunk if '"via":"build"' in l][0]
    ev = json.loads(fsg)
    w = [a for a in ev["arcs"] if a[2]][0]
    e1 = json.loads(fsg)
    [a for a in e1["arcs"] if a[2]][0][2] = w[2] + "x"            # one word label
    out.append(("selftest#word", [hdr, json.dumps(e1) + "\n"]))
    e2 = json.loads(fsg)
    e2["refused"], e2["arcs"], e2["n"] = True, [], 0              # claims a refusal
    out.append(("selftest#refused", [hdr, json.dumps(e2) + "\n"]))
    norm = [l for l in chunk if l.startswith('{"e":"Norm"')]
    if norm:
        e3 = json.loads(norm[0])
        e3["arcs"][0][1] += 5000                                  # one weight off by 0.005
        out.append(("selftest#weight", [hdr, json.dumps(e3) + "\n"]))
    return out


def run_cases(ctx, drv, cases, selftest=True):
    """execute + validate; report violations (each re-run alone before it is reported)"""
    rep = ctx.report
    by = {c.eid: c for c in cases}
    chunks, crashes = execute(drv, cases, ctx.work, "all")
    found = {}                       # key -> [(case, detail)]
    for eid, why in crashes:
        found.setdefault(crash_key(by[eid]), []).append((by[eid], "the library crashed: " + why[:300]))
    extra = []
    if selftest:
        good = [ch for eid, ch in chunks if eid.startswith("zoo-goforward")]
        if good:
            extra = corrupt(good[0])
    bad, shape, n_events = {}, set(), 0
    todo = chunks + extra
    B = 8000                         # executions per TLC run
    for i in range(0, len(todo), B):
        b, s, r = validate(todo[i:i + B], ctx.work, workers=16)
        rep.add_tlc("JsgfTrace.tla(batch %d)" % (i // B), r, mode="trace-validation")
        bad.update(b)
        shape |= s
    for eid, _ in extra:
        if eid not in bad:
            raise tlc.ModelError("trace validation accepted the corrupted execution " + eid)
        del bad[eid]
    if extra:
        rep.notes["corrupted_executions_rejected"] = len(extra)
    for eid, ch in chunks:
        rep.evaluations += len(ch) - 1
        if eid not in bad:
            rep.traces += 1
        if kinds(by[eid].g) & {"alt", "k", "p", "o", "g", "r"}:
            rep.nontrivial.add(gkey(by[eid].g))
    for eid, evs in bad.items():
        c = by[eid]
        parsed = [(json.loads(ln), ln) for i, ln in evs]
        first_only = [e for e in parsed if not (e[0]["e"] == "Fsg" and e[0]["via"] == "rebuild")]
        for ev, ln in (first_only or parsed):      # a failing re-compilation counts only when nothing else fails
            found.setdefault(violation_key(c, ev), []).append(
                (c, "%s via %s: %s" % ("refused" if ev.get("refused") else "compiled to a different language"
                                      if ev["e"] == "Fsg" else "weights", ev.get("via", "raw"), ln.strip()[:260])))
    # language mismatches outside the named classes form ONE finding, named after its smallest example
    # (the small grammars are enumerated exhaustively whatever the seed, so the name is stable)
    generic = [k for k in found if k.startswith("lang:?")]
    if generic:
        allg = [cd for k in generic for cd in found.pop(k)]
        c0 = min(allg, key=lambda cd: (not (cd[0].guise == "plain" and cd[0].eid.startswith(("core", "undef", "zoo"))),
                                       len(cd[0].text), cd[0].text, cd[0].eid))[0]
        found["lang:" + ("+".join(sorted(kinds(c0.g) - {"t", "q", "x"})) or "token-sequence")] = allg
    rep.notes["rejected_events_by_key"] = {k: len(v) for k, v in sorted(found.items())}
    rep.notes["raw_grammars_differing_from_JsgfCompileImpl"] = len(shape)
    # smallest example of every key, re-run alone (own process), then reported
    reps, again, rechunks = {}, set(), []
    for key in sorted(found):
        c, detail = min(found[key], key=lambda cd: (not (cd[0].guise == "plain" and cd[0].eid.startswith(("core", "undef", "zoo"))),
                                                    len(cd[0].text), cd[0].text, cd[0].eid))
        reps[key] = (c, detail)
        ch2, cr2 = execute(drv, [c], ctx.work, "again")
        if cr2:
            again.add(key)
        rechunks += [("%s|%s" % (key, eid), ch) for eid, ch in ch2]
    if rechunks:
        b2, _, _ = validate(rechunks, ctx.work, workers=8)
        again |= {k.split("|")[0] for k in b2}
    for key in sorted(found):
        c, detail = reps[key]
        if key not in again:
            rep.notes.setdefault("not_reproduced", []).append(key)
            continue
        p = write_replay(ctx, key, [c])
        gram = " ".join(c.text.split("\n")[2:]).strip()
        rep.violation(key, "%s | grammar: %s | %s (%d rejected events of this class)" %
                      (WHAT.get(key, "the compiled grammar does not speak the language of the rule"), gram[:200],
                       detail, len(found[key])), p)
    return chunks


def run(ctx):
    rep = ctx.report
    quick = ctx.tier == "quick"
    libdir, _ = sut.build_lib("asan")
    # linked into the scratch directory: the shared build cache is pruned by concurrent runs on other trees
    drv = sut.build_harness("jsgf_drv", ["jsgf/jsgf_drv.c"], libdir, outdir=ctx.work)
    rep.assumptions += [
        "sentences are compared up to length k = 4 over the words of the grammar (bounded language equivalence)",
        "at most one public rule per grammar (with several, jsgf_get_public_rule picks one in hash order); no imports",
        "a quoted token may be reported with or without its quotes (the library keeps them: \"a\" is not the word a)",
        "weights are positive and written on the alternatives only; two alternatives of one choice point are never "
        "both the same bare rule reference (their arcs would coincide)",
        "a rule that speaks no sentence at all may be refused or compiled to an empty-language grammar",
        "JsgfCompileImpl treats the repeated in-place weight normalisation as exact (float32 error is within the bound)",
    ]
    if ctx.replay:
        d = json.load(open(ctx.replay))
        run_cases(ctx, drv, [stored_case(c) for c in d["cases"]], selftest=False)
        rep.rule = "replay of stored grammar texts"
        return
    gs, cases = families(ctx, quick)
    layer_b(ctx, gs, quick)
    chunks = run_cases(ctx, drv, cases)
    for eid, ch in [c for c in chunks if c[0].startswith(("zoo-goforward", "zoo-order", "rand"))][:4]:
        ev = json.loads(ch[1])
        rep.sample({"execution": eid, "grammar": " ".join({c.eid: c for c in cases}[eid].text.split("\n")[2:])[:300],
                    "refused": ev["refused"], "states": ev["n"], "arcs": len(ev["arcs"])})
    rep.notes["layer_b_grammars"] = len(gs)
    rep.notes["executions"] = len(cases)
    rep.rule = ("executions = grammars (every one-rule grammar with <= 2 leaves over {a, b, <NULL>, <VOID>, <s>} and one "
                "level of ( ) [ ] * +, samples/all of the 3-leaf ones, two-rule reference graphs, undefined references, "
                "seeded random grammars with up to 3 rules / 9 leaves / nesting 3, hand-written realistic grammars) x "
                "spellings (grouping, comments, tags, weight formats, quoting, odd tokens, dense, headers) x routes "
                "(build, raw, re-compilation, read_string, decoder); non-trivial = distinct grammar compiled by the "
                "real library that contains a choice, closure, optional, group or rule reference")
