"""C07 - decoding results do not depend on chunking or buffering mode.

  - AcmodPipeImpl.tla: the cepstrum ring / live feature ring / feature buffer / utterance state machine of
    acmod.c + feat.c + the decoder's process loop, model-checked against FeatStream (frames reach the search as
    windows 0,1,2,... each once per pass, first/last frame replicated);
  - schedules (piece sizes chosen around the real buffer sizes: one analysis window, 128-frame cepstrum buffer,
    256-frame live ring; buffered pieces; interleaved queries incl. partial alignments, which rewind the feature
    buffer) are executed on the real decoder next to a one-call reference with the same CMN state, and TLC
    validates (PipeTrace.tla) that every final result equals the reference's.
"""
import json, os, random
from vlib import sut, tlc, tracecheck, runner
from checks import decmatrix, c07_feat

SPEC = os.path.join(sut.VERIF, "specs", "pipe")
CMN = "41.00,-5.29,-0.12,5.09,2.48,-4.07,-1.37,-1.78,-5.08,-2.05,-6.45,-1.42,1.17"
SIZE, SHIFT = 410, 160


def samples_for(frames):
    """smallest sample count whose full-frame count is `frames`"""
    return 0 if frames <= 0 else SIZE + (frames - 1) * SHIFT


def boundary_pieces(rng, n):
    """piece sizes around the boundaries that matter: < 1 window, exactly k frames, the 128-frame cepstrum
    buffer, the 256-frame live ring, single samples"""
    special = [0, 1, 2, SHIFT - 1, SHIFT, SHIFT + 1, SIZE - SHIFT, SIZE - 1, SIZE, SIZE + 1, SIZE + SHIFT - 1, SIZE + SHIFT,
               samples_for(127), samples_for(128) - 1, samples_for(128), samples_for(128) + 1, samples_for(129),
               samples_for(255), samples_for(256), samples_for(257), samples_for(7), samples_for(4), 3 * SHIFT,
               # the same boundaries counted in FEATURE frames (a feature frame needs W = 3 cepstra of lookahead)
               samples_for(128 + 3) - 1, samples_for(128 + 3), samples_for(128 + 3) + SHIFT - 1, samples_for(128 + 3) + SHIFT,
               samples_for(256 + 3), samples_for(256 + 3) + SHIFT - 1, samples_for(64 + 3), samples_for(253), samples_for(254)]
    out, off = [], 0
    while off < n:
        r = rng.random()
        if r < 0.5:
            k = rng.choice(special)
        elif r < 0.8:
            k = rng.randint(0, 3000)
        else:
            k = rng.randint(0, 30000)
        k = min(k, n - off)
        out.append(k)
        off += k
        if len(out) > 120:
            out.append(n - off)
            break
    return out


def variant(rng, aud, n, grammar_lines, cfg, idx):
    s = ["mark var%d" % idx, "init " + decmatrix.hx(json.dumps(cfg))] + grammar_lines + ["cmn " + decmatrix.hx(CMN), "start"]
    kind = rng.choice(["tiny", "boundary", "boundary", "buffered", "queries", "rand", "first-small", "buffered-queries",
                       "after-batch", "cut128", "after-stream"])
    if kind == "after-stream":
        # the same decoder first decodes another utterance in pieces (the read position of its cepstrum ring ends up
        # somewhere in the middle); then calls long enough to run past the end of the ring
        a2 = rng.choice(["head", "mid", "gf"])
        n2, off2 = decmatrix.AUDIO_LEN[a2], 0
        while off2 < n2:
            k2 = min(n2 - off2, rng.choice([2048, 1600, 5000]))
            s.append("feed %s %d %d i16 0 0" % (a2, off2, k2))
            off2 += k2
        s += ["end", "cmn " + decmatrix.hx(CMN), "start"]
    if kind == "after-batch":
        # the same decoder first decodes a long utterance as ONE full-utterance block (which enlarges its cepstrum
        # buffer for good); then the streaming variant: a short first piece and one very long piece
        s += ["feed gf 0 -1 i16 0 1", "end", "cmn " + decmatrix.hx(CMN), "start"]
    if kind == "tiny":
        pieces = []
        off = 0
        while off < n and len(pieces) < 300:
            k = min(n - off, rng.randint(0, 700))
            pieces.append(k)
            off += k
        if off < n:
            pieces.append(n - off)
    elif kind == "after-batch":
        first = rng.choice([1000, 2048, 160, 500, 4000])
        pieces = [min(first, n), max(0, n - first)]
    elif kind == "after-stream":
        first = rng.choice([n, 20000, 30000, 25000])
        pieces = [min(first, n)] + ([n - first] if first < n else [])
    elif kind == "cut128":
        # one cut placed exactly where 128 (or 64, 256) feature frames exist
        c = rng.choice([samples_for(128 + 3) + rng.randint(0, SHIFT - 1), samples_for(64 + 3) + rng.randint(0, SHIFT - 1),
                        samples_for(256 + 3) + rng.randint(0, SHIFT - 1)])
        pre = rng.choice([[], [5000], [5000, 12345]])
        cuts = sorted(set([x for x in pre + [c] if x < n]))
        pieces, last = [], 0
        for x in cuts:
            pieces.append(x - last)
            last = x
        pieces.append(n - last)
    elif kind == "first-small":
        first = rng.choice([0, 1, 100, SHIFT, SIZE - 1, SIZE, SIZE + SHIFT - 1])
        pieces = [min(first, n)] + boundary_pieces(rng, max(0, n - first))
    elif kind == "rand":
        pieces = []
        off = 0
        while off < n:
            k = min(n - off, rng.randint(0, rng.choice([50, 5000, 30000])))
            pieces.append(k)
            off += k
            if len(pieces) > 400:
                pieces.append(n - off)
                break
    else:
        pieces = boundary_pieces(rng, n)
    off = 0
    for i, k in enumerate(pieces):
        ns = 0
        if kind in ("buffered", "buffered-queries"):
            ns = 1 if rng.random() < 0.6 else 0
        elif rng.random() < 0.1:
            ns = 1
        s.append("feed %s %d %d %s %d 0" % (aud, off, k, rng.choice(["i16", "i16", "f32"]), ns))
        off += k
        if kind in ("queries", "buffered-queries") or rng.random() < 0.05:
            q = rng.random()
            if q < 0.3:
                s.append("result q%d" % i)
            elif q < 0.5:
                s.append("lattice q%d 0" % i)
            elif q < 0.75:
                s.append("alignment q%d" % i)
            elif q < 0.85:
                s.append("json q%d 0 %d" % (i, rng.choice([0, 1, 2])))
    s += ["end", "result fin", "alignment fin", "free"]
    return s, kind


def make_execution(rng, ctx, idx, nvar):
    cfg = {"hmm": os.path.join(sut.REPO, "model", "en-us"),
           "dict": os.path.join(sut.REPO, "tests", "data", "turtle.dic"), "loglevel": "FATAL"}
    cfg.update(decmatrix.BEAMS[rng.choice(["default", "default", "narrow", "wide"])])
    if rng.random() < 0.2:
        cfg["compallsen"] = True
    if rng.random() < 0.15:
        cfg["input_endian"] = "big"       # the driver then hands the samples over byte-swapped (both entry points)
    gl, gkind = decmatrix.pick_grammar(rng, ctx, idx, valid_only=True)
    aud = rng.choice(["gf", "gf", "gf", "cut", "mid", "head", "tail", "rev", "clip", "t4", "t5", "t3", "t2", "t1", "sil", "noise",
                      "zhead", "hzh", "hzh"])
    n = decmatrix.AUDIO_LEN[aud]
    s = list(decmatrix.audio_defs())
    s += ["mark ref", "init " + decmatrix.hx(json.dumps(cfg))] + gl + ["cmn " + decmatrix.hx(CMN), "start",
          "feed %s 0 %d i16 0 0" % (aud, n), "end", "result fin", "alignment fin", "free"]
    kinds = []
    for v in range(nvar):
        vs, kind = variant(rng, aud, n, gl, cfg, v)
        s += vs
        kinds.append(kind)
    return "%s-%s-%s#%d" % (gkind, aud, "+".join(kinds), idx), s


def model_check(ctx, quick):
    """AcmodPipeImpl against FeatStream: for every split of the cepstra over process calls (empty ones included),
    every placement of buffered calls and the end of the utterance, the search receives exactly the canonical
    windows; the pre-fix STARTED handling must violate it (negative control)."""
    rep = ctx.report
    for cfg in (["AcmodPipe_small.cfg"] if quick else ["AcmodPipe_small.cfg", "AcmodPipe_big.cfg"]):
        # (TLC's -coverage disables LET caching, which makes the nested loops of this model explode; vacuity is
        # excluded by the state count and by the negative control below, which needs Process and EndUtt to fire)
        r = tlc.run("MC_AcmodPipe.tla", cfg, SPEC, workers=8, timeout=2400, heap="8g")
        if r.violated:
            raise tlc.ModelError("AcmodPipeImpl violates %s in %s:\n%s" % (r.violated, cfg, r.out[-2500:]))
        if r.distinct < 30:
            raise tlc.ModelError("vacuous: only %d states explored in %s" % (r.distinct, cfg))
        rep.add_tlc("MC_AcmodPipe.tla/" + cfg, r)
    # two utterances, the first possibly a full-utterance call that enlarges the cepstrum ring for good
    r = tlc.run("MC_AcmodPipe.tla", "AcmodPipe_two.cfg", SPEC, workers=8, timeout=1200, heap="8g")
    if r.violated:
        raise tlc.ModelError("AcmodPipeImpl violates %s in AcmodPipe_two.cfg:\n%s" % (r.violated, r.out[-2500:]))
    rep.add_tlc("MC_AcmodPipe.tla/AcmodPipe_two.cfg", r)
    r = tlc.run("MC_AcmodPipe.tla", "AcmodPipe_nocap.cfg", SPEC, workers=4, timeout=600)
    if not r.violated:
        raise tlc.ModelError("negative control failed: an enlarged ring without the per-call cap should lose frames")
    rep.notes["negative_control_ring"] = "AcmodPipe_nocap.cfg (streaming call fills a ring enlarged by a full-utterance call) violates %s as expected" % r.violated
    r = tlc.run("MC_AcmodPipe.tla", "AcmodPipe_keepidx.cfg", SPEC, workers=4, timeout=600)
    if not r.violated:
        raise tlc.ModelError("negative control failed: a ring read position that survives the start of an utterance should break the windows")
    rep.notes["negative_control_outidx"] = "AcmodPipe_keepidx.cfg (read position of the cepstrum ring not reset by start_utt) violates %s as expected" % r.violated
    r = tlc.run("MC_AcmodPipe.tla", "AcmodPipe_aswas.cfg", SPEC, workers=4, timeout=600)
    if r.violated not in ("CompleteAtEnd", "SearchedAreWindows"):
        raise tlc.ModelError("negative control failed: the pre-fix STARTED handling should violate the window invariants, got %s" % r.violated)
    rep.notes["negative_control"] = "AcmodPipe_aswas.cfg (empty first chunk ends STARTED) violates %s as expected" % r.violated


def classify(f, script):
    clause = f.clause or "unknown-clause"
    return "pipe:" + clause


def run(ctx):
    rep = ctx.report
    quick = ctx.tier == "quick"
    rng = random.Random(ctx.seed * 49979687 + 7)
    drv = decmatrix.build_driver()
    if ctx.replay and open(ctx.replay).readline().startswith("#feat"):
        c07_feat.replay(ctx, ctx.replay)
        return
    if ctx.replay:
        cases = [("replay", [l for l in open(ctx.replay).read().split("\n") if l])]
    else:
        c07_feat.run_stage(ctx)
        model_check(ctx, quick)
        n = 40 if quick else 500
        cases = [make_execution(rng, ctx, i, 3 if quick else 4) for i in range(n)]
    by_id = dict(cases)
    chunks, crashes = decmatrix.run_cases(ctx, drv, cases, per_proc=4, split_on_mark="ref")
    for eid, why in crashes:
        p = decmatrix.write_replay(ctx, "crash_" + eid[-40:], by_id[eid])
        rep.violation(runner.crash_key(why), "decoder crashed under a chunking (%s): %s" % (eid, why), p)
    # one execution = everything from its first Header to the next execution's; run_cases splits at every
    # Header, so glue the pieces of a case back together
    fch = chunks
    acc, fails, results = tracecheck.validate(SPEC, "PipeTrace.tla", "PipeTrace.cfg", fch, ctx.work, timeout=2400,
                                              max_fail=10, heap="8g")
    for r in results:
        rep.add_tlc("PipeTrace", r, mode="trace-validation")
    rep.traces += acc
    for eid, ch in fch:
        nf = sum(1 for l in ch if l.startswith('{"e":"Feed"'))
        rep.evaluations += sum(1 for l in ch if l.startswith('{"e":"Result"') or l.startswith('{"e":"Align"'))
        fin = [json.loads(l) for l in ch if l.startswith('{"e":"Result"') and '"final":true' in l]
        if fin and len(fin[0]["hyp"]) >= 2 and nf > 4:
            rep.nontrivial.add(eid.split("#")[0] + str(nf))
    for f in fails:
        c2, cr2 = decmatrix.run_cases(ctx, drv, [(f.exec_id, by_id[f.exec_id])], per_proc=1, split_on_mark="ref")
        f2 = []
        if c2:
            _, f2, _ = tracecheck.validate(SPEC, "PipeTrace.tla", "PipeTrace.cfg", c2, ctx.work)
        if not f2 and not cr2:
            continue
        p = decmatrix.write_replay(ctx, "reject_" + f.exec_id[-40:], by_id[f.exec_id])
        rep.violation(classify(f, by_id[f.exec_id]), "event %d of %s breaks clause %s: %s" %
                      (f.local_line, f.exec_id, f.clause, f.event.strip()[:300]), p)
    for eid, ch in fch[:2]:
        feeds = [json.loads(l) for l in ch if l.startswith('{"e":"Feed"')]
        rep.sample({"execution": eid, "pieces": [[e["n"], e["enc"], e["no_search"], e["ret"]] for e in feeds[:25]]})
    rep.rule = ("each execution = one-call reference + 3-4 variants of the same audio and CMN state on fresh decoders: tiny "
                "pieces, pieces around 1 window / 128 / 256 frames, buffered pieces, interleaved result/lattice/alignment/JSON "
                "queries, int16/float32; non-trivial = distinct (case, piece count) with a >= 2-word result and > 4 pieces")
    rep.assumptions += ["CMN state is fixed with decoder_set_cmn before every utterance; audio < 300 frames (no live CMN update)",
                        "full_utt (batch CMN) is a different normalisation by design and is not compared with streaming"]
