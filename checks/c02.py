"""C02 - with pruning disabled the search returns the true Viterbi optimum.

  - ViterbiNet.tla: the declarative network (every word arc x left/right-context models from the dict2pid / model
    definition tables, fillers, one-phone words, null arcs, penalties) and the exact max-plus recursion;
  - MC_Viterbi: the recursion on a tiny synthetic network with nondeterministic frame costs, checked by TLC against
    structural facts (achievability, bounds);
  - real decodes with beams opened (beam = pbeam = wbeam = 0, compallsen = yes) are recorded: network tables, the
    senone scores the scorer produced for every frame (acmod_score wrap), the reported path score; TLC runs the
    recursion over the recorded frames (ViterbiTrace.tla): reported score = optimum; with default / narrow beams:
    reported score <= optimum.
"""
import re, json, os, random
from vlib import sut, tlc, tracecheck, runner
from checks import decmatrix, c02_history, c02_hmm

SPEC = os.path.join(sut.VERIF, "specs", "viterbi")
KEEP = {"Net", "Frame", "Result"}
SHAPES = [
    "public <s> = go forward ten meters;",
    "public <s> = (go | to | two | do) (forward | backward | left | right);",
    "public <s> = (a | the | to) (a | and | eight | one);",
    "public <s> = (go | turn | stop)+ ;",
    "public <s> = [go] [forward] ten [meters];",
    "public <s> = (ten | then | two) (meters | meter | minus);",
    "public <s> = (a | the)* go [a];",
    "public <s> = go (a | to | the) (a | forward) ten;",
    "public <s> = /3/ go forward | /1/ go backward ten | /0.5/ stop;",
    "public <s> = <x> <y>; <x> = go | go forward | a; <y> = [ten] meters | forward ten meters | a;",
    "public <s> = go <s> | meters;",
    "public <s> = hello | what | you | to you;",
    "public <s> = (one | two | three | four | five | six | seven | eight | nine | ten)+ ;",
    "public <s> = ten <t> | [ [ ( backward )* ] ]; <t> = [ meters ];",      # accepts the empty sentence: a result without words
    # a state left towards words whose first phones span the whole phone inventory (the exit of the word before is
    # recorded per right context, and the entries of one exit compete with each other)
    "public <s> = go (what | you | three | a | and | eight | office | window | one | are | exit) ten meters;",
    "public <s> = (go | ten | forward | left) (thirty | wander | you | around | office | understand | eleven | say);",
    "public <s> = (forward | go) (W0 | W1 | W2 | W3 | W4 | W5 | W6 | W7) (ten | W8 | W9);",
    "public <s> = (W0 | W1 | go) (W2 | W3 | W4 | meters) [W5 | W6];",
    # run-time words of ONE phone that is also the first phone of a dictionary word standing where silence or the start of
    # the utterance is its left context (the one-phone word's context tables and the word-initial ones are neighbours)
    "public <s> = (meters | forward | P_M | P_F) (ten | go | P_T | P_G);",
    "public <s> = (P_G | go | ten | P_T) (P_M | meters | hundred) [P_T_EH | ten | the];",
]
PHONES = ["AA", "AE", "AH", "AO", "AW", "AY", "B", "CH", "D", "DH", "EH", "ER", "EY", "F", "G", "HH", "IH", "IY", "JH", "K", "L", "M", "N",
          "NG", "OW", "OY", "P", "R", "S", "SH", "T", "TH", "UH", "UW", "V", "W", "Y", "Z", "ZH"]


def runtime_words(rng, g):
    """words W0..W9 of a shape are added at run time (decoder_add_word), with pronunciations that no dictionary word
    prepared the context tables for: first phones spread over the inventory, 1-6 phones"""
    lines, k = [], 0
    firsts = rng.sample(PHONES, 10)
    while "W%d" % k in g:
        n = rng.choice([1, 2, 3, 4, 4, 5, 6])
        pron = [firsts[k]] + [rng.choice(PHONES) for _ in range(n - 1)]
        w = "zzw%d" % k
        g = g.replace("W%d" % k, w)
        lines.append("addword %s %s 0" % (w.encode().hex(), " ".join(pron).encode().hex()))
        if k % 3 == 0:      # ... and two to four more pronunciations of it (every one of them belongs to the network)
            for a in range(2, rng.choice([3, 4, 5]) + 1):
                pa = [rng.choice(PHONES) for _ in range(rng.choice([1, 2, 3, 4]))]
                lines.append("addword %s %s 0" % (("%s(%d)" % (w, a)).encode().hex(), " ".join(pa).encode().hex()))
        k += 1
    # P_<PH>[_<PH>...]: a run-time word with exactly that pronunciation
    for m in sorted(set(re.findall(r"P(?:_[A-Z]+)+", g)), key=len, reverse=True):
        w = "zz" + m.lower().replace("_", "")
        g = re.sub(r"\b%s\b" % m, w, g)
        lines.append("addword %s %s 0" % (w.encode().hex(), " ".join(m.split("_")[1:]).encode().hex()))
    return lines, g
AUDIOS = ["head", "mid", "t5", "t4", "cut", "tail"]


def make_case(rng, idx, beams, big, synth=None):
    cfg = {"hmm": os.path.join(sut.REPO, "model", "en-us"),
           "dict": os.path.join(sut.REPO, "tests", "data", "turtle.dic"), "loglevel": "FATAL", "compallsen": True}
    cfg.update({"open": {"beam": 0, "pbeam": 0, "wbeam": 0}, "default": {},
                "narrow": {"beam": 1e-20, "wbeam": 1e-10, "pbeam": 1e-20}}[beams])
    # insertion penalties and language weight other than the defaults (the default phone insertion penalty is 1.0, whose
    # logarithm is 0: with it a penalty applied in the wrong place or not at all changes nothing)
    if rng.random() < 0.5:
        cfg.update({"pip": rng.choice([0.5, 0.05, 2.0]), "wip": rng.choice([0.65, 0.2, 1.0, 0.01])})
        if rng.random() < 0.4:
            cfg["lw"] = rng.choice([1.0, 9.5, 3.0])
    r = rng.random()
    if r < 0.6 or (beams == "open" and idx < len(SHAPES)):       # every shape at least once with open beams
        g = SHAPES[idx % len(SHAPES)] if (rng.random() < 0.8 or idx < len(SHAPES)) else rng.choice(SHAPES)
        add, g2 = runtime_words(rng, g)
        gl, gk = add + ["jsgf " + decmatrix.hx("#JSGF V1.0;\ngrammar g;\n" + g2 + "\n")], "shape%d" % SHAPES.index(g)
    elif r < 0.8:
        gl, gk = ["jsgf " + decmatrix.hx("#JSGF V1.0;\ngrammar g;\n" + decmatrix.rand_jsgf(rng) + "\n")], "jsgf-rand"
    else:
        gl, gk = ["fsgtext " + decmatrix.hx(decmatrix.rand_fsg_text(rng))], "fsg-rand"
    aud = "gf" if big else rng.choice(AUDIOS)
    n = decmatrix.AUDIO_LEN[aud]
    if not big and n > 16000:
        off = rng.randrange(0, n - 14000, 160)
        ln = rng.choice([6000, 9000, 12000, 14000])
    else:
        off, ln = 0, n
    s = list(decmatrix.audio_defs()) + ["init " + decmatrix.hx(json.dumps(cfg))] + gl + ["net", "senscr 1"]
    # a third of the cases run on synthetic acoustics: the scorer's output is replaced by a seeded function of (frame,
    # senone) - dense random costs, all-equal costs (ties everywhere), or a few cheap senones among dear ones
    if synth:
        s.append("senmode %s %d %d" % (synth, rng.randrange(1, 10 ** 6), rng.choice([40, 300, 1500, 6000])))
    s.append("start")
    # a couple of pieces: the recursion does not care, the decoder must not either
    cut = rng.choice([ln, ln // 2, 410])
    s += ["feed %s %d %d i16 0 0" % (aud, off, min(cut, ln))]
    if cut < ln:
        s += ["feed %s %d %d f32 0 0" % (aud, off + cut, ln - cut)]
    s += ["end", "result fin", "senscr 0", "free"]
    return "%s-%s-%s%s#%d" % (gk, aud, beams, ("-" + synth) if synth else "", idx), s


def model_check(ctx, quick):
    rep = ctx.report
    r = tlc.run("MC_Viterbi.tla", "MC_Viterbi.cfg", SPEC, workers=8, timeout=1800, heap="8g")
    if r.violated:
        raise tlc.ModelError("ViterbiNet on the synthetic network violates %s:\n%s" % (r.violated, r.out[-2500:]))
    if r.distinct < 50:
        raise tlc.ModelError("vacuous: MC_Viterbi explored only %d states" % r.distinct)
    rep.add_tlc("MC_Viterbi.tla/MC_Viterbi.cfg", r)


def run(ctx):
    rep = ctx.report
    quick = ctx.tier == "quick"
    rng = random.Random(ctx.seed * 86028121 + 2)
    drv = decmatrix.build_driver()
    if ctx.replay and open(ctx.replay).readline().startswith("#history"):
        c02_history.replay(ctx, ctx.replay)
        return
    if ctx.replay and open(ctx.replay).readline().startswith("#hmm"):
        c02_hmm.replay(ctx, ctx.replay)
        return
    if ctx.replay:
        cases = [("replay", [l for l in open(ctx.replay).read().split("\n") if l])]
    else:
        rep.notes["history_executions"] = c02_history.run_stage(ctx)
        rep.notes["hmm_executions"] = c02_hmm.run_stage(ctx)
        model_check(ctx, quick)
        cases = []
        n_open, n_pruned = (24, 6) if quick else (140, 40)
        for i in range(n_open):
            cases.append(make_case(rng, i, "open", big=(not quick and i % 30 == 29)))
        for i in range(n_open // 2):
            cases.append(make_case(rng, i * 2 + 1, "open", big=False, synth=["hash", "sparse", "flat", "hash"][i % 4]))
        for i in range(n_pruned):
            cases.append(make_case(rng, n_open + i, rng.choice(["default", "narrow"]), big=False))
    by_id = dict(cases)
    chunks, crashes = decmatrix.run_cases(ctx, drv, cases, per_proc=2, timeout=900)
    for eid, why in crashes:
        p = decmatrix.write_replay(ctx, "crash_" + eid, by_id[eid])
        rep.violation(runner.crash_key(why), "decoder crashed (%s): %s" % (eid, why), p)
    fch = [(eid, decmatrix.filter_events(ch, KEEP)) for eid, ch in chunks]
    fch = [(eid, ch) for eid, ch in fch if any(l.startswith('{"e":"Net"') for l in ch)]
    acc, fails, results = tracecheck.validate(SPEC, "ViterbiTrace.tla", "ViterbiTrace.cfg", fch, ctx.work, timeout=3000,
                                              max_fail=6, heap="10g")
    for r in results:
        rep.add_tlc("ViterbiTrace", r, mode="trace-validation")
    rep.traces += acc
    nets = {}
    for eid, ch in fch:
        nfr = sum(1 for l in ch if l.startswith('{"e":"Frame"'))
        rep.evaluations += nfr
        net = json.loads(next(l for l in ch if l.startswith('{"e":"Net"')))
        res = [json.loads(l) for l in ch if l.startswith('{"e":"Result"')]
        if res and not res[-1]["segsnull"] and nfr >= 20 and len(net["arcs"]) >= 8:
            rep.nontrivial.add((json.dumps(net["arcs"]), nfr))
        if len(nets) < 3:
            nets[eid] = {"execution": eid, "states": net["n"], "arcs": len(net["arcs"]), "words": [w["w"] for w in net["words"]],
                         "models": len(net["sseq"]), "frames": nfr, "reported_score": res[-1]["score"] if res else None,
                         "open_beams": net["beam"] < -400000}
    for v in nets.values():
        rep.sample(v)
    for f in fails:
        c2, cr2 = decmatrix.run_cases(ctx, drv, [(f.exec_id, by_id[f.exec_id])], per_proc=1)
        f2 = []
        if c2:
            _, f2, _ = tracecheck.validate(SPEC, "ViterbiTrace.tla", "ViterbiTrace.cfg",
                                           [(e, decmatrix.filter_events(c, KEEP)) for e, c in c2], ctx.work, heap="10g")
        if not f2 and not cr2:
            continue
        p = decmatrix.write_replay(ctx, "reject_" + f.exec_id, by_id[f.exec_id])
        rep.violation("viterbi:%s" % (f.clause or "unknown-clause"),
                      "%s: clause %s fails at event %d: %s" % (f.exec_id, f.clause, f.local_line, f.event.strip()[:260]), p)
    rep.rule = ("grammar shapes (branching into/out of a state with differing neighbouring phones, one-/two-/three-phone words, "
                "fillers, null chains, loops, alternates, weights; random JSGF and FSG) x audio excerpts of 6-120 frames (thorough: "
                "also the full 278-frame recording) x {open, default, narrow} beams; non-trivial = distinct (network, frame count) "
                "with >= 8 arcs, >= 20 frames and a hypothesis")
    rep.assumptions += ["the (phone, left, right, position) -> senone-sequence lookup (dict2pid / model definition tables) is taken "
                        "from the implementation; how those models are wired into the search is what is checked",
                        "frame scores are the ones the scorer produced (compallsen = yes so every needed senone is computed)",
                        "decoder conventions stated in ViterbiNet: one-phone words take silence as right context, fillers are "
                        "context independent, the final word may use the best right context possible at the final state"]
