"""C02, stage "history": the word-exit history table (fsg_history.c), the mechanism the property names "history entry
insertion keeps, per (state, left ctx), only entries not dominated on score and right-context set".

  - HistoryDom.tla: the documented list discipline transcribed (Layer B) and what the optimum needs from it (Layer A:
    per bucket and right context the best offered score survives); TLC checks A on B exhaustively for small universes
    and requires the seeded slip (subtraction using the wrong machine word) to break it (negative control);
  - every (list state, offered entry) edge of the one-bucket graph is executed on the real table through
    fsg_history_entry_add, under several mappings of the model's contexts to real phone ids (same word of the bit
    vector, 32 apart, neighbouring words, all four words), plus seeded random frames over three buckets and several
    frames; HistoryTrace.tla evaluates Layer A on the real lists after every call ("opt:" clauses: violations of
    C02's mechanism) and compares them with the transcription ("impl:" clauses: notes).
"""
import json, os, random
from vlib import sut, tlc, tours, tracecheck, runner

SPEC = os.path.join(sut.VERIF, "specs", "viterbi")
# model contexts 1..4 -> real phone ids, then the two left contexts (ascending)
MAPS = ["2 34 8 40 7 9", "0 1 2 3 4 5", "31 32 33 63 30 41", "5 37 13 20 0 33", "2 34 66 98 3 35", "9 41 10 11 39 40",
        "64 96 0 32 1 2"]


def mask(rc):
    return sum(1 << (c - 1) for c in rc)


def run_stage(ctx):
    rep = ctx.report
    quick = ctx.tier == "quick"
    rng = random.Random(ctx.seed * 40503 + 17)
    for cfg in (("History_small.cfg",) if quick else ("History_small.cfg", "History_big.cfg")):
        r = tlc.run("MC_History.tla", cfg, SPEC, workers=8, timeout=900, heap="4g")
        if r.violated:
            raise tlc.ModelError("HistoryDom (%s) violates %s:\n%s" % (cfg, r.violated, r.out[-2000:]))
        if r.distinct < 1000:
            raise tlc.ModelError("vacuous: HistoryDom explored only %d states" % r.distinct)
        rep.add_tlc("MC_History.tla/" + cfg, r)
    r = tlc.run("MC_History.tla", "History_dev.cfg", SPEC, workers=4, timeout=600, heap="4g")
    if r.violated != "BestKept":
        raise tlc.ModelError("negative control failed: subtracting the wrong machine word should violate BestKept, got %s" % r.violated)
    rep.notes["history_negative_control"] = "History_dev.cfg (context subtraction uses the lower word) violates BestKept as expected"
    tcfg = "History_tourq.cfg" if quick else "History_tour.cfg"
    r = tlc.run("MC_History.tla", tcfg, SPEC, workers=1, timeout=900, heap="4g")
    if r.violated:
        raise tlc.ModelError("history tour model violated %s" % r.violated)
    rep.add_tlc("MC_History.tla/" + tcfg, r, mode="graph-export")
    edges = tours.parse_edges(r.out)
    if len(edges) < 500:
        raise tlc.ModelError("history graph export gave only %d edges" % len(edges))
    rep.notes["history_graph_edges_covered"] = len(edges)
    ts = tours.tours(edges, edges[0][0], max_len=200, rng=random.Random(ctx.seed))
    cases = []
    for mi, m in enumerate(MAPS if not quick else MAPS[:5]):
        for ti, t in enumerate(ts):
            if quick and (ti + mi) % 2 and mi > 1:
                continue
            s = ["map " + m, "new"]
            for e in t:
                a = edges[e][1]
                if a["op"] == "add":
                    s.append("add %d %d %d %d" % ((ti + mi) % 3 + 1, a["score"] * 100 - 5000, mask(a["rc"]), a["pred"]))
                elif a["op"] == "endframe":
                    s.append("endframe")
            cases.append(("hist-tour-m%d#%d" % (mi, ti), s))
    # random frames over three buckets, several frames, wider score range (ties included)
    for i in range(60 if quick else 1200):
        s = ["map " + rng.choice(MAPS), "new"]
        for fr in range(rng.randrange(1, 4)):
            for _ in range(rng.randrange(1, 14)):
                s.append("add %d %d %d %d" % (rng.randrange(1, 4), rng.choice([-7, -7, -6, -5, -3, 0, 2]) * 1000, rng.randrange(1, 16),
                                              rng.randrange(0, 5)))
            s.append("endframe")
        cases.append(("hist-rand#%d" % i, s))
    lib, _ = sut.build_lib("asan")
    drv = sut.build_harness("hist_drv", ["history/hist_drv.c"], lib)
    mdef = os.path.join(sut.REPO, "model", "en-us", "mdef")
    # one process for all executions (each starts with `new`): the table has no state outside the object
    path = os.path.join(ctx.work, "hist.ndjson")
    script = []
    for eid, s in cases:
        script += s
    r = runner.run(drv, [path, mdef], "\n".join(script) + "\n", timeout=900, leaks=True)
    lines = open(path).read().splitlines() if os.path.exists(path) else []
    by_id = dict(cases)
    if r.crashed or r.rc != 0:
        p = os.path.join(ctx.replays, "history_crash.script")
        open(p, "w").write("#history\n" + "\n".join(script) + "\n")
        rep.violation(runner.crash_key(r.why()), "history table driver crashed: %s" % r.why()[:500], p)
        return len(cases)
    # split at New events
    chunks, k = [], -1
    for ln in lines:
        if ln.startswith('{"e":"New"'):
            k += 1
            chunks.append((cases[k][0], []))
        chunks[-1][1].append(ln)
    if len(chunks) != len(cases):
        raise tlc.ModelError("hist_drv wrote %d executions for %d cases" % (len(chunks), len(cases)))
    acc, fails, res = tracecheck.validate(SPEC, "HistoryTrace.tla", "HistoryTrace.cfg", chunks, ctx.work, timeout=1800,
                                          max_fail=8, heap="4g")
    for x in res:
        rep.add_tlc("HistoryTrace", x, mode="trace-validation")
    rep.traces += acc
    rep.evaluations += len(lines)
    notes = []
    for f in fails:
        clause = f.clause or "unknown-clause"
        p = os.path.join(ctx.replays, "history_reject_%s.script" % f.exec_id.replace("#", "_"))
        open(p, "w").write("#history\n" + "\n".join(by_id[f.exec_id]) + "\n")
        what = "history table, %s call %d (%s): clause %s fails: %s" % (f.exec_id, f.local_line, by_id[f.exec_id][f.local_line] if
                                                                       f.local_line < len(by_id[f.exec_id]) else "?", clause, f.event[:300])
        if clause.startswith("opt:"):
            rep.violation("history:" + clause, what, p)
        else:
            print("NOTE: extended specification of the history table (list layout, not a listed property): " + what[:300])
            notes.append({"clause": clause, "execution": f.exec_id})
    rep.notes["history_layout_mismatches"] = notes
    return len(cases)


def replay(ctx, path):
    rep = ctx.report
    lib, _ = sut.build_lib("asan")
    drv = sut.build_harness("hist_drv", ["history/hist_drv.c"], lib)
    s = [l for l in open(path).read().split("\n") if l and not l.startswith("#")]
    out = os.path.join(ctx.work, "hist_replay.ndjson")
    r = runner.run(drv, [out, os.path.join(sut.REPO, "model", "en-us", "mdef")], "\n".join(s) + "\n", timeout=300, leaks=True)
    if r.crashed or r.rc != 0:
        rep.violation(runner.crash_key(r.why()), "history table replay crashed: %s" % r.why()[:500], path)
        return
    lines = open(out).read().splitlines()
    acc, fails, res = tracecheck.validate(SPEC, "HistoryTrace.tla", "HistoryTrace.cfg", [("replay", lines)], ctx.work, heap="4g")
    rep.traces += acc
    for f in fails:
        if (f.clause or "").startswith("opt:"):
            rep.violation("history:" + f.clause, "history table replay, call %d: clause %s fails: %s" % (f.local_line, f.clause, f.event[:300]), path)
        else:
            print("NOTE: extended specification of the history table: clause %s fails at call %d" % (f.clause, f.local_line))
