"""C19 - log-domain addition is accurate, commutative and monotone (src/logmath.c).

  1. TLC, exhaustive, Layer A (LogAdd): for EVERY table over small values that satisfies the table
     axioms (non-increasing, at most one per step, also into the implicit zeros) and every pair of
     arguments: symmetry, max <= Add <= max + T[0], identity of log-zero, monotonicity in each argument,
     exact rounding.  Two negative controls (one axiom dropped) must violate monotonicity.
  2. TLC, exhaustive, Layer B (LogAddImpl): logmath_add transcribed branch by branch (zero tests, swap,
     wrapped W-bit difference, `d < 0', `d >= table_size', width-1/2/4 reads from a byte image) refines
     Add; every branch must be covered.  LogConvImpl: the cast-then-shift of logmath_log; the intended
     design (floor) satisfies the round-trip clause, the code as written (truncation) must violate
     "never increases" and nothing else.  LogTableImpl: the construction loops of logmath_init (width
     choice, size loop, "keep the first of a block" fill); the intended design yields exactly the rounded
     table, the code as written (width from log 2 rounded before the shift) must violate that.
     TLAPS (specs/logmath/proofs/LogAddProofs.tla) proves the Layer-A consequences for arbitrary tables.
  3. Real code: for every configuration (base x shift, plus bases chosen at the width switches) the
     harness creates the real logmath_t, dumps the real table with long-double brackets of the exact
     value, and records logmath_add for EVERY difference d = 0..size+16 in both argument orders for
     several x (0/1 adjacent, large positive, near log-zero), log-zero cases, random pairs (seeded),
     and logmath_log/logmath_exp round trips.
  4. TLC validates every recorded execution against LogAdd (LogTrace.tla), clause by clause, for every d.
"""
import os, random, json, re, math, shutil, subprocess, concurrent.futures
from decimal import Decimal, getcontext
from vlib import sut, tlc, runner, evidence

SPEC = os.path.join(os.path.dirname(os.path.dirname(os.path.abspath(__file__))), "specs", "logmath")
NOTE = ("-noGenerateSpecTE",)
TOL = Decimal(1) / Decimal(1048576)
BEYOND = 16
MAX_KEYS_PER_CLAUSE = 3

STD_BASES = ["1.0001", "1.0003", "1.001", "1.003"]
STD_SHIFTS = [0, 1, 2, 8]
FIXED_P = ["0.5", "0.1", "0.9", "1e-05", "1", "2", "42", "1e-48", "1e-150", "1e-300", "0.999999", "1.000001",
           "100000", "3e+10", "1e+30", "0.25", "0.75", "0.3333333333333333", "1e-10", "6e-48"]


class Cfg:
    def __init__(self, name, tag, base, shift):
        self.name, self.tag, self.base, self.shift = name, tag, base, shift


def boundary_base(u):
    """a base whose unshifted log of 2 is u (so that the rounded, shifted log 2 sits at a width switch)"""
    return "%.17g" % math.exp(math.log(2.0) / u)


def configurations(quick):
    cfgs = [Cfg("b%s_s%d" % (b, s), "std", b, s) for b in STD_BASES for s in STD_SHIFTS]
    # the width of an entry switches where log_B 2 rounds to 256 / 65536: take bases just on either side
    cfgs += [Cfg("wb8_s1_hi", "width-boundary", boundary_base(511.2), 1),
             Cfg("wb8_s1_lo", "width-boundary", boundary_base(510.9), 1),
             Cfg("wb8_s2_hi", "width-boundary", boundary_base(1022.5), 2),
             Cfg("wb8_s0_hi", "width-boundary", boundary_base(255.7), 0),
             Cfg("wb8_s0_lo", "width-boundary", boundary_base(255.4), 0)]
    # 4-byte entries need log_B 2 >= 65536, i.e. a table of more than a million entries
    cfgs.append(Cfg("b1.00001_s0", "std", "1.00001", 0))
    # 2-byte entries above 32767 (log_B 2 between 2^15 and 2^16)
    cfgs.append(Cfg("b1.00002_s0", "std", "1.00002", 0))
    if not quick:
        cfgs += [Cfg("b1.00001_s%d" % s, "std", "1.00001", s) for s in (1, 2, 8)]
        cfgs += [Cfg("b1.000012_s0", "std", "1.000012", 0), Cfg("b1.000001_s4", "std", "1.000001", 4),
                 Cfg("b1.0001_s3", "std", "1.0001", 3), Cfg("b1.003_s10", "std", "1.003", 10)]
        cfgs += [Cfg("wb16_s1_hi", "width-boundary", boundary_base(131071.2), 1),
                 Cfg("wb16_s1_lo", "width-boundary", boundary_base(131070.8), 1)]
    return cfgs


# ---------------------------------------------------------------------------------------------------
def shape_of(drv, cfgs, work):
    """ask the real initialiser for (size, zero, width) of every configuration.
    Returns (headers, crashes): headers[i] is None where logmath_init itself crashed."""
    def ask(cs):
        script = "".join("cfg %s %s %d\nend\n" % (c.tag, c.base, c.shift) for c in cs)
        path = os.path.join(work, "shape.ndjson")
        r = runner.run(drv, [path], script, timeout=600, leaks=False)
        hs = [json.loads(l) for l in open(path)] if r.rc == 0 and os.path.exists(path) else None
        if os.path.exists(path):
            os.unlink(path)
        return r, hs

    r, hs = ask(cfgs)
    if hs is not None:
        if len(hs) != len(cfgs):
            raise tlc.ModelError("shape query: %d headers for %d configurations" % (len(hs), len(cfgs)))
        return hs, []
    if not r.crashed:
        raise tlc.ModelError("shape query failed: " + r.why())
    out, crashes = [], []
    for c in cfgs:              # the initialiser crashed somewhere: find out where
        r1, h1 = ask([c])
        if h1 is not None and len(h1) == 1:
            out.append(h1[0])
        elif r1.crashed:
            out.append(None)
            crashes.append((c, r1.why()))
        else:
            raise tlc.ModelError("shape query failed: " + r1.why())
    return out, crashes


def add_scripts(c, h, rng, quick):
    """the add half of one configuration: table, rows for every d, log-zero cases, random pairs.
    Returns [(part, lines)]; tables of more than 200000 entries are spread over several executions
    (each with its own copy of the table) so that one TLC process never holds more than ~80 MB of trace."""
    n, z = h["size"], h["zero"]
    full = n + BEYOND
    big = n > 200000
    head = ["cfg %s %s %d" % (c.tag, c.base, c.shift), "table"]
    near_zero = [z, z + 1, z + 2, z + 255, z + 256, z + min(300, n - 2)]   # the smaller argument runs into log-zero
    groups = []          # lists of x; adjacent pairs (x, x+1) also check monotonicity in the larger argument
    if big and quick:
        groups.append([0] + near_zero)
    else:
        groups.append([0, 1] + near_zero)
        groups.append([z + full, z + full + 1])      # complete rows that end exactly at log-zero
        g = [1 << 30]                                # large positive values
        if not quick or n < 30000:
            for _ in range(1 if quick or big else 3):
                x = rng.randint(z + full + 2, (1 << 30) - 2)
                g += [x, x + 1]
        groups.append(g)
    if not big:
        groups = [[x for g in groups for x in g]]
    iv = [z, z + 1, z + 2, z + 100, z + n - 1, z + n, -1000000, -1000, -1, 0, 1, 1000, 1 << 30]
    iv += [rng.randint(z, 1 << 30) for _ in range(50)]
    pairs = []
    for _ in range(1000 if quick else 10000):
        k = rng.random()
        x = rng.randint(z, 1 << 20) if k < 0.8 else rng.randint(z, z + 2 * n)
        if k < 0.4:
            y = rng.randint(z, 1 << 20)
        elif k < 0.8:
            y = x - rng.randint(0, n + 50)
        elif k < 0.9:
            y = x + rng.choice([0, 1, n - 1, n, n + 1, 2 * n, 1000000, 1 << 29])
        else:
            y = rng.randint(z, z + 2 * n)
        if y < z:
            y = z
        pairs += [x, y]
    xe = -(1000 >> c.shift) - 1
    ds = sorted({0, 1, 2, 5, 100, n // 2, n - 1, n, n + BEYOND} | {rng.randint(0, n) for _ in range(40)})
    out = []
    for gi, g in enumerate(groups):
        s = list(head) + ["row %d" % x for x in g]
        if gi == 0:
            s.append("ident " + " ".join(map(str, iv)))
            s.append("pairs " + " ".join(map(str, pairs)))
            s.append("exact %d %s" % (xe, " ".join(str(d) for d in ds if xe - d >= z)))
        s.append("end")
        out.append(("add" if gi == 0 else "add%d" % (gi + 1), s))
    return out


def conv_script(c, h, rng, quick):
    ps = list(FIXED_P)
    lnB = math.log(float(c.base)) * (1 << c.shift)
    for _ in range(200 if quick else 3000):
        k = rng.random()
        if k < 0.6:
            ps.append("%.17g" % math.exp(rng.uniform(math.log(1e-300), math.log(1e30))))
        elif k < 0.8:
            ps.append("%.17g" % (1.0 + rng.uniform(-1, 1) * 10 ** rng.uniform(-9, -1)))
        else:   # exact powers of B: the fixed points of the round trip
            ps.append("%.17g" % math.exp(rng.randint(-int(600 / lnB), int(60 / lnB)) * lnB))
    s = ["cfg %s %s %d" % (c.tag, c.base, c.shift), "convzero"]
    for i in range(0, len(ps), 500):
        s.append("conv " + " ".join(ps[i:i + 500]))
    s.append("end")
    return s


# ---------------------------------------------------------------------------------------------------
def execute(drv, scripts, work, tag):
    """scripts: list of (exec_id, lines).  One harness process; on a crash one process per script to find
    the culprit.  Returns (chunks [(exec_id, [json lines])], crashes [(exec_id, why)])."""
    path = os.path.join(work, "log_%s.ndjson" % tag)
    text = "\n".join("\n".join(s) for _, s in scripts) + "\n"
    r = runner.run(drv, [path], text, timeout=1800, leaks=False)
    if r.rc == 0:
        chunks, cur = [], None
        with open(path) as f:
            for ln in f:
                if ln.startswith('{"e":"Header"'):
                    cur = []
                    chunks.append(cur)
                cur.append(ln)
        os.unlink(path)
        if len(chunks) != len(scripts):
            raise tlc.ModelError("harness produced %d executions for %d scripts" % (len(chunks), len(scripts)))
        return [(eid, ch) for (eid, _), ch in zip(scripts, chunks)], []
    if os.path.exists(path):
        os.unlink(path)
    if r.rc == 3:
        raise tlc.ModelError("harness rejected its script (%s): %s" % (tag, r.err[-300:]))
    if len(scripts) == 1:
        return [], [(scripts[0][0], r.why())]
    chunks, crashes = [], []
    for i, sc in enumerate(scripts):
        c, cr = execute(drv, [sc], work, "%s_%d" % (tag, i))
        chunks += c
        crashes += cr
    return chunks, crashes


FAIL_RE = re.compile(r'^<<"FAIL", (\d+), "([^"]+)", (\d+), (-?\d+)>>', re.M)


def validate_group(args):
    """one TLC run over the concatenation of some executions -> [(exec_id, event_no, clause, count, first)]"""
    gi, group, work = args
    path = os.path.join(work, "trace_%d.ndjson" % gi)
    starts, n = [], 0
    with open(path, "w") as f:
        for eid, lines in group:
            starts.append(n)
            f.writelines(lines)
            n += len(lines)
    nbytes = os.path.getsize(path)
    heap = "10g" if nbytes > 60e6 else "6g" if nbytes > 15e6 else "3g"
    try:
        # -maxSetSize: the set of failing indices of one clause may hold every d of a million-entry table
        r = tlc.run("LogTrace.tla", "LogTrace.cfg", SPEC, workers=1, timeout=2400, env={"TRACE": path}, heap=heap,
                    extra=NOTE + ("-maxSetSize", "50000000"))
    finally:
        os.unlink(path)
    m = re.search(r'<<"REJECTED-AT", (\d+)>>', r.out)
    if m:
        ln = int(m.group(1))
        idx = max(i for i, s in enumerate(starts) if s <= ln - 1)
        raise tlc.ModelError("trace line %d (execution %s, event %d) has a shape LogTrace does not know:\n%s" %
                             (ln, group[idx][0], ln - starts[idx], r.out[-1500:]))
    fails = []
    for m in FAIL_RE.finditer(r.out):
        ln = int(m.group(1))
        idx = max(i for i, s in enumerate(starts) if s <= ln - 1)
        fails.append((group[idx][0], ln - starts[idx], m.group(2), int(m.group(3)), int(m.group(4))))
    clean = "No error has been found" in r.out and r.rc == 0
    if not clean and not fails:
        raise tlc.ModelError("trace validation did not finish cleanly:\n" + r.out[-3000:])
    if clean and fails:
        raise tlc.ModelError("TLC printed FAIL lines but accepted the trace")
    return r, fails


def validate(chunks, work, jobs):
    """balanced groups, validated by parallel TLC processes"""
    groups = [[] for _ in range(max(1, min(jobs, len(chunks))))]
    load = [0] * len(groups)
    for eid, lines in sorted(chunks, key=lambda c: -sum(len(l) for l in c[1])):
        i = load.index(min(load))
        groups[i].append((eid, lines))
        load[i] += sum(len(l) for l in lines) + 2000000    # a JVM start is worth ~2 MB of trace
    groups = [g for g in groups if g]
    results, fails = [], []
    with concurrent.futures.ThreadPoolExecutor(max_workers=len(groups)) as ex:
        for r, f in ex.map(validate_group, [(i, g, work) for i, g in enumerate(groups)]):
            results.append(r)
            fails += f
    return results, fails


# ---------------------------------------------------------------------------------------------------
def dec_ref(base, shift, d):
    getcontext().prec = 60
    lnB = Decimal(float(base)).ln() * (1 << shift)
    return ((-lnB * d).exp() + 1).ln() / lnB


def crosscheck_reference(chunks, cfg_of, rng, per_cfg):
    """the harness's long-double brackets against 60-digit decimal arithmetic, at sampled d and p"""
    n = 0
    for eid, lines in chunks:
        c = cfg_of[eid.split("#")[0]]
        for ln in lines[1:]:
            if ln.startswith('{"e":"Table"'):
                ev = json.loads(ln)
                size = len(ev["t"])
                ds = {0, 1, 2, size // 2, size - 1, size, size + BEYOND} | {rng.randrange(size) for _ in range(per_cfg)}
                for d in sorted(ds):
                    L = dec_ref(c.base, c.shift, d)
                    near = min(abs((L + Decimal("0.5") + s * TOL) % 1) for s in (1, -1))
                    near = min(near, 1 - near)
                    if near < Decimal("1e-12"):
                        continue     # a bracket end that close to an integer may legitimately fall either way
                    lo = math.ceil(L - Decimal("0.5") - TOL)
                    hi = math.floor(L + Decimal("0.5") + TOL)
                    if (lo, hi) != (ev["lo"][d], ev["hi"][d]):
                        raise tlc.ModelError("reference mismatch for %s d=%d: long double gives [%d,%d], decimal [%d,%d]"
                                             % (eid, d, ev["lo"][d], ev["hi"][d], lo, hi))
                    n += 1
            elif ln.startswith('{"e":"Conv"'):
                ev = json.loads(ln)
                getcontext().prec = 60
                lnB = Decimal(float(c.base)).ln() * (1 << c.shift)
                for i in sorted({0, 1, 2, 3} | {rng.randrange(len(ev["p"])) for _ in range(8)}):
                    if i >= len(ev["p"]):
                        continue
                    L = Decimal(float(ev["p"][i])).ln() / lnB
                    fr = L % 1
                    if min(abs(fr - TOL), abs(fr + TOL - 1), abs(fr), abs(1 - fr)) < Decimal("1e-9") or \
                            abs(L - L.to_integral_value()) < 2 * TOL:
                        continue
                    if (math.floor(L + TOL), math.ceil(L - TOL)) != (ev["flo"][i], ev["cei"][i]):
                        raise tlc.ModelError("reference mismatch for %s p=%s: long double floor/ceil %d/%d, decimal %d/%d"
                                             % (eid, ev["p"][i], ev["flo"][i], ev["cei"][i], math.floor(L + TOL),
                                                math.ceil(L - TOL)))
                    n += 1
    return n


# ---------------------------------------------------------------------------------------------------
def key_of(clause, eid):
    """violation key: the failing clause; table/add clauses also name the configuration (so that a known
    defect of one configuration cannot hide a new one elsewhere)"""
    if clause.startswith(("roundtrip", "exp-")):
        return clause
    return "%s:%s" % (clause, eid.split("#")[0])


def write_replay(ctx, name, eid, lines):
    """the script of one execution; the leading comment (ignored by the harness) names the execution so
    that --replay reports under the same key"""
    p = os.path.join(ctx.replays, re.sub(r"[^A-Za-z0-9_.-]", "_", name) + ".script")
    with open(p, "w") as f:
        f.write("# exec %s\n" % eid)
        f.write("\n".join(l for l in lines if not l.startswith("# exec ")) + "\n")
    return p


def analyse(ctx, drv, scripts, tag_of, jobs, label, confirm=True):
    """execute, validate, turn failed clauses into violations (after reproducing them alone)"""
    rep = ctx.report
    by_id = dict(scripts)
    chunks, crashes = execute(drv, scripts, ctx.work, label)
    known = {f["key"] for f in evidence.load_findings() if f["property"] == ctx.pid and f["status"] == "open"}
    ncrash = 0
    for eid, why in crashes:
        key = "crash:%s" % eid.split("#")[0]
        if key not in known:
            ncrash += 1
            if ncrash > MAX_KEYS_PER_CLAUSE:
                continue
        p = write_replay(ctx, "crash_" + eid, eid, by_id[eid])
        rep.violation(key, "logmath crashed on configuration/inputs of the domain (%s): %s" % (eid, why), p)
    if ncrash > MAX_KEYS_PER_CLAUSE:
        rep.notes["further_crashing_executions_not_listed"] = ncrash - MAX_KEYS_PER_CLAUSE
    results, fails = validate(chunks, ctx.work, jobs)
    for r in results:
        rep.add_tlc("LogTrace(%s)" % label, r, mode="trace-validation")
    order = {eid: i for i, (eid, _) in enumerate(scripts)}
    fails.sort(key=lambda f: (order.get(f[0], 0), f[1], f[2]))      # TLC processes finish in any order
    hard = [f for f in fails if not f[2].startswith("diag-")]
    diag = [f for f in fails if f[2].startswith("diag-")]
    if diag:
        rep.notes.setdefault("diagnostics", [])
        for eid, evno, clause, cnt, first in diag[:20]:
            rep.notes["diagnostics"].append("%s event %d: %s (%d indices, first %d)" % (eid, evno, clause, cnt, first))
    bad_execs = sorted({f[0] for f in hard})
    confirmed = set()
    if hard and confirm:
        # soundness rule: reproduce each failing execution on its own before reporting
        c2, cr2 = execute(drv, [(e, by_id[e]) for e in bad_execs], ctx.work, label + "_re")
        _, f2 = validate(c2, ctx.work, jobs)
        confirmed = {(f[0], f[2]) for f in f2} | {(e, None) for e, _ in cr2}
    ev_of = {eid: lines for eid, lines in chunks}
    per_clause, suppressed = {}, 0
    for eid, evno, clause, cnt, first in hard:
        if confirm and (eid, clause) not in confirmed:
            rep.notes.setdefault("unreproduced", []).append("%s %s" % (eid, clause))
            continue
        # a wrong sum that is explained by a wrong table entry is reported as the table's fault only
        if clause == "accurate" and any(f[0] == eid and f[2] in ("table-accurate", "tail-accurate") for f in hard):
            continue
        key = key_of(clause, eid)
        # a change that breaks a clause everywhere would print one line per configuration: keep the first
        # few new keys per clause (known findings are always passed on), count the rest
        if key not in known:
            seen = per_clause.setdefault(clause, set())
            if key not in seen and len(seen) >= MAX_KEYS_PER_CLAUSE:
                suppressed += 1
                continue
            seen.add(key)
        ev = json.loads(ev_of[eid][evno - 1])
        detail = describe(ev, clause, first)
        p = write_replay(ctx, "%s__%s" % (clause, eid), eid, by_id[eid])
        rep.violation(key, "%s: clause '%s' fails at %d place(s) of event %d (%s); first: %s" %
                      (eid, clause, cnt, evno, ev["e"], detail), p)
    if suppressed:
        rep.notes["further_failing_configurations_not_listed"] = suppressed
    rep.traces += len(chunks) - len(bad_execs)
    return chunks, fails


def describe(ev, clause, i):
    try:
        if ev["e"] == "Table":
            t = ev["t"]
            return "d=%d entry %s neighbours %s exact value within [%s, %s]" % (
                i, t[i] if i < len(t) else 0, t[max(0, i - 1):i + 2], ev["lo"][i], ev["hi"][i])
        if ev["e"] == "Row":
            return "d=%d: add(%d, %d) = %d, add(%d, %d) = %d" % (i, ev["x"], ev["x"] - i, ev["fwd"][i], ev["x"] - i,
                                                                ev["x"], ev["rev"][i])
        if ev["e"] == "Ident":
            return "v=%d: add(zero, v) = %d, add(v, zero) = %d" % (ev["v"][i], ev["l"][i], ev["r"][i])
        if ev["e"] == "Pairs":
            return "add(%d, %d) = %d, add(%d, %d) = %d" % (ev["x"][i], ev["y"][i], ev["r"][i], ev["y"][i], ev["x"][i], ev["q"][i])
        if ev["e"] == "Conv":
            return "p=%s: logmath_log = %d, exact log in [%d, %d]; log of logmath_exp(that) in [%d, %d]" % (
                ev["p"][i], ev["v"][i], ev["flo"][i], ev["cei"][i], ev["elo"][i], ev["ehi"][i])
    except (KeyError, IndexError):
        pass
    return "index %d" % i


def corruption_selftest(ctx, chunks, bad_execs):
    """binding self-test: change ONE recorded number of an accepted execution (one sum of a row; then one
    table entry) and require TLC to reject exactly that event"""
    ok = [(eid, lines) for eid, lines in chunks if eid.endswith("#add") and eid not in bad_execs]
    if not ok:
        return "no accepted add execution to corrupt"
    eid, lines = min(ok, key=lambda c: sum(len(l) for l in c[1]))
    out = []
    for kind, field in (("Row", "fwd"), ("Table", "t")):
        k = max(i for i, l in enumerate(lines) if l.startswith('{"e":"%s"' % kind) and l.count(",") > 40)
        ev = json.loads(lines[k])
        j = len(ev[field]) // 3
        ev[field][j] += 1
        mutated = lines[:k] + [json.dumps(ev, separators=(",", ":")) + "\n"] + lines[k + 1:]
        _, fails = validate([(eid + "~corrupt", mutated)], ctx.work, 1)
        hit = [f for f in fails if not f[2].startswith("diag-")]
        if not hit or (kind == "Row" and not any(f[1] == k + 1 for f in hit)):
            raise tlc.ModelError("self-test: TLC accepted %s with %s[%d] of event %d changed by one" % (eid, field, j, k + 1))
        out.append("%s: %s[%d] of event %d (%s) +1 -> rejected, clauses %s" %
                   (eid, field, j, k + 1, kind, sorted({f[2] for f in hit})))
    return out


def strip_tla(text):
    text = re.sub(r"\(\*.*?\*\)", " ", text, flags=re.S)
    text = re.sub(r"\\\*[^\n]*", " ", text)
    return re.sub(r"\s+", " ", text).strip()


def tlaps_proofs(ctx):
    """specs/logmath/proofs/LogAddProofs.tla proves symmetry, identity, bounds and monotonicity of Add for
    ARBITRARY tables and integers.  Its definitions must be those of LogAdd.tla, and tlapm must prove every
    obligation (run on a copy in the scratch directory)."""
    src = open(os.path.join(SPEC, "proofs", "LogAddProofs.tla")).read()
    layer_a = strip_tla(open(os.path.join(SPEC, "LogAdd.tla")).read())
    block = src[src.index("EXTENDS"):src.index("THEOREM")]
    chunks = [strip_tla(ch) for ch in re.split(r"\n\s*\n", block)[1:]]
    for ch in chunks:
        if ch and ch not in layer_a:
            raise tlc.ModelError("LogAddProofs.tla defines something LogAdd.tla does not: " + ch[:120])
    if not any("Add(T, Z, x, y) ==" in ch for ch in chunks):
        raise tlc.ModelError("LogAddProofs.tla: definition of Add not found")
    if not shutil.which("tlapm"):
        return "tlapm not installed: proofs not re-checked in this run"
    d = os.path.join(ctx.work, "tlaps")
    os.makedirs(d, exist_ok=True)
    shutil.copy(os.path.join(SPEC, "proofs", "LogAddProofs.tla"), d)
    p = subprocess.run(["timeout", "900", "tlapm", "--threads", "4", "LogAddProofs.tla"], cwd=d, stdout=subprocess.PIPE,
                       stderr=subprocess.STDOUT, text=True)
    m = re.search(r"All (\d+) obligations? proved", p.stdout)
    if not m:
        raise tlc.ModelError("tlapm did not prove LogAddProofs.tla:\n" + p.stdout[-2000:])
    return "tlapm: all %s obligations proved (Symmetric, Identity, Bounded, MonotoneRight, MonotoneLeft; any table, any integers)" % m.group(1)


# ---------------------------------------------------------------------------------------------------
def model_runs(ctx, quick, workers):
    done = []      # (name, TlcResult, mode): added to the report by the caller (this runs in a thread)

    def must_hold(mod, cfg, acts, w=workers, heap="4g"):
        r = tlc.run(mod, cfg, SPEC, workers=w, timeout=1700, coverage=True, heap=heap, extra=NOTE)
        if r.violated:
            raise tlc.ModelError("%s/%s: %s is violated\n%s" % (mod, cfg, r.violated, r.out[-2000:]))
        for a in acts:
            if max(r.coverage.get(a, (0, 0))) == 0:
                raise tlc.ModelError("vacuous model run: action %s never taken in %s" % (a, cfg))
        done.append(("%s/%s" % (mod, cfg), r, "exhaustive"))
        return r

    def must_fail(mod, cfg, inv):
        r = tlc.run(mod, cfg, SPEC, workers=1, timeout=600, extra=NOTE)
        if r.violated != inv:
            raise tlc.ModelError("%s/%s: expected %s to be violated, got %s" % (mod, cfg, inv, r.violated))
        done.append(("%s/%s (expected violation of %s)" % (mod, cfg, inv), r, "negative-control"))

    big = "" if quick else "_big"
    table_acts = ["ChooseWidth", "SizeStep", "SizeDone", "FillStep"]
    jobs = [
        lambda: must_hold("MC_LogAdd.tla", "MC_LogAdd_small.cfg" if quick else "MC_LogAdd_big.cfg", ["Call"]),
        lambda: must_hold("MC_LogAddImpl.tla", "MC_LogAddImpl_small.cfg" if quick else "MC_LogAddImpl_big.cfg",
                          ["Enter", "RetZeroX", "PassZeroX", "RetZeroY", "PassZeroY", "DiffXY", "DiffYX", "RetOverflow",
                           "PassOverflow", "RetBeyond", "PassSize", "Read1", "Read2", "Read4", "Leave"], heap="8g"),
        lambda: must_hold("LogConvImpl.tla", "MC_LogConv_design.cfg", ["LogUp", "LogDown", "LogOne"], w=2),
        lambda: must_hold("LogConvImpl.tla", "MC_LogConv_aswritten_loss.cfg", ["LogUp", "LogDown", "LogOne"], w=2),
        lambda: must_hold("MC_LogTable.tla", "MC_LogTable_design%s.cfg" % big, table_acts, w=2 if quick else 4, heap="8g"),
        lambda: must_hold("MC_LogTable.tla", "MC_LogTable_aswritten_rest%s.cfg" % big, table_acts, w=2 if quick else 4,
                          heap="8g"),
        lambda: must_fail("MC_LogTable.tla", "MC_LogTable_aswritten%s.cfg" % big, "TableIsRounded"),
        lambda: must_fail("MC_LogAdd.tla", "MC_LogAdd_rising.cfg", "InvMonotone"),
        lambda: must_fail("MC_LogAdd.tla", "MC_LogAdd_steep.cfg", "InvMonotone"),
        lambda: must_fail("LogConvImpl.tla", "MC_LogConv_aswritten.cfg", "ConvNeverIncreases"),
    ]
    with concurrent.futures.ThreadPoolExecutor(max_workers=3) as ex:
        proofs = ex.submit(tlaps_proofs, ctx)
        for f in [ex.submit(j) for j in jobs]:
            f.result()
        done.append(("tlaps", proofs.result(), None))
    return done


def run(ctx):
    rep = ctx.report
    rng = random.Random(ctx.seed)
    quick = ctx.tier == "quick"
    libdir, _ = sut.build_lib("asan")
    # linked into the scratch directory: the shared build cache may be pruned by concurrent runs
    drv = sut.build_harness("logmath_drv", ["logmath/logmath_drv.c"], libdir, outdir=ctx.work)
    rep.assumptions += [
        "log-probabilities are integers >= logmath_get_zero() (the documented smallest value); arguments are kept "
        "below 2^30 so that neither the difference nor max + table entry leaves the 32-bit range",
        "accuracy against the real logarithm uses integer brackets computed by the harness in x87 long double "
        "(log1pl/expl/logl); the rounding allowance ('plus rounding') is 2^-20 unit; the brackets are cross-checked at "
        "sampled d and p against 60-digit decimal arithmetic in the check driver, otherwise trusted",
        "beyond the last bracket (d > table size + 16) accuracy follows from L(d) being decreasing (a fact about the real "
        "function, not checked by TLC)",
        "probabilities for the round trip lie in [1e-300, 1e30] (doubles that logmath_exp can represent)",
        "the table-driven add only (logmath_init(..., use_table=1)); logmath_add_exact is compared as a diagnostic",
    ]

    if ctx.replay:
        lines = [l for l in open(ctx.replay).read().split("\n") if l]
        eid = lines[0][7:].strip() if lines and lines[0].startswith("# exec ") else "replay#add"
        analyse(ctx, drv, [(eid, lines)], {}, 1, "replay", confirm=False)
        rep.rule = "replay of one stored script"
        return

    # 1 + 2: the models (in the background while the real code is exercised)
    pool = concurrent.futures.ThreadPoolExecutor(max_workers=1)
    models = pool.submit(model_runs, ctx, quick, 4 if quick else 8)

    # 3: the real code
    cfgs = configurations(quick)
    shapes, init_crashes = shape_of(drv, cfgs, ctx.work)
    for c, why in init_crashes[:MAX_KEYS_PER_CLAUSE]:
        p = write_replay(ctx, "crash_init_" + c.name, c.name + "#add", ["cfg %s %s %d" % (c.tag, c.base, c.shift), "end"])
        rep.violation("crash:%s" % c.name, "logmath_init(%s, %d, 1) crashed: %s" % (c.base, c.shift, why), p)
    scripts, tag_of, cfg_of = [], {}, {}
    widths = {}
    for c, h in zip(cfgs, shapes):
        if h is None:
            continue
        if h.get("refused"):
            rep.notes.setdefault("refused_configurations", []).append(c.name)
            continue
        widths.setdefault(h["width"], []).append(c.name)
        cfg_of[c.name] = c
        parts = add_scripts(c, h, rng, quick)
        if c.tag == "std":
            parts.append(("conv", conv_script(c, h, rng, quick)))
        for part, lines in parts:
            eid = "%s#%s" % (c.name, part)
            scripts.append((eid, lines))
            tag_of[eid] = c.tag
    rep.notes["entry_widths_covered"] = {str(w): len(v) for w, v in sorted(widths.items())}
    rep.notes["configurations"] = {c.name: {"base": c.base, "shift": c.shift, "size": h.get("size"), "width": h.get("width"),
                                            "zero": h.get("zero")} for c, h in zip(cfgs, shapes) if h is not None}

    # 4: validate
    chunks, fails = analyse(ctx, drv, scripts, tag_of, 6 if quick else 10, "all")
    bad = {f[0] for f in fails if not f[2].startswith("diag-")}
    rep.notes["selftest_one_field_corrupted"] = corruption_selftest(ctx, chunks, bad)
    nref = crosscheck_reference(chunks, cfg_of, rng, 20 if quick else 200)
    rep.notes["reference_brackets_crosschecked"] = nref

    # coverage accounting
    for eid, lines in chunks:
        name = eid.split("#")[0]
        table, covered = None, -1
        for ln in lines[1:]:
            kind = ln[6:10]
            if kind == "Tabl":
                ev = json.loads(ln)
                table = ev["t"]
                rep.evaluations += len(ev["lo"])
            elif kind == "Row\"":
                nres = ln.count(",") - 1
                rep.evaluations += nres
                covered = max(covered, nres // 2 - 1)
            elif kind in ("Pair", "Iden", "Conv", "Exac"):
                ev = json.loads(ln)
                rep.evaluations += 2 * len(ev[{"Pair": "x", "Iden": "v", "Conv": "v", "Exac": "d"}[kind]])
        if table is not None:
            for d in range(min(covered + 1, len(table))):
                if table[d] > 0:
                    rep.nontrivial.add((name, d))
    for eid, lines in chunks[:1] + chunks[-1:]:
        evs = [json.loads(l) for l in lines[:3]]
        for e in evs:
            for k, v in list(e.items()):
                if isinstance(v, list) and len(v) > 8:
                    e[k] = v[:6] + ["... %d more" % (len(v) - 6)]
        rep.sample({"execution": eid, "events": len(lines), "first_events": evs})
    for f in fails[:4]:
        rep.sample({"failed_clause": f[2], "execution": f[0], "event": f[1], "places": f[3], "first": f[4]})

    if sorted(widths) != [1, 2, 4] and not rep.violations:
        # (with violations present the widths may be wrong because the initialiser is: report those instead)
        raise tlc.ModelError("entry widths covered: %s (1, 2 and 4 expected)" % sorted(widths))
    for name, r, mode in models.result():
        if name == "tlaps":
            rep.notes["tlaps"] = r
        else:
            rep.add_tlc(name, r, mode=mode)
    pool.shutdown()
    rep.rule = ("executions = one per (base, shift) configuration and half (add / conversion): the real table and "
                "logmath_add for every difference d = 0..size+16 in both orders for several x, log-zero cases, seeded random "
                "pairs and probabilities; non-trivial = distinct (configuration, d) with a non-zero real table entry whose "
                "sum was observed in both argument orders and checked against every clause")
