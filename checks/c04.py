"""C04 - forced alignment is a consistent words > phones > states hierarchy.

  - StateAlignImpl.tla: the constrained second pass and its backtrace, model-checked;
  - alignment trees recorded through the public iterators (final and partial results, streaming, buffered
    search) are validated by TLC (AlignTrace.tla) against AlignPred.tla together with the first-pass
    segmentation of the same result and the frames the second pass rescored.
"""
import json, os, random
from vlib import sut, tlc, tracecheck, runner
from checks import decmatrix

SPEC = os.path.join(sut.VERIF, "specs", "align")
KEEP = {"Header", "Grammar", "Result", "Align"}


def model_check(ctx, quick):
    """StateAlignImpl: the transcribed backtrace + propagate on every best path of the constrained second pass;
    the pre-fix variant (first state without a score) must violate TotalIsPathScore (negative control)."""
    rep = ctx.report
    cfg = "StateAlign_small.cfg" if quick else "StateAlign_big.cfg"
    r = tlc.run("MC_StateAlign.tla", cfg, SPEC, workers=16, timeout=2400, coverage=True, heap="12g")
    if r.violated:
        raise tlc.ModelError("StateAlignImpl violates %s in %s:\n%s" % (r.violated, cfg, r.out[-2500:]))
    for act in ("Step", "Finish"):
        if r.coverage.get(act, (0, 0))[0] == 0:
            raise tlc.ModelError("vacuous: action %s never taken in %s" % (act, cfg))
    rep.add_tlc("MC_StateAlign.tla/" + cfg, r)
    r = tlc.run("MC_StateAlign.tla", "StateAlign_aswas.cfg", SPEC, workers=4, timeout=600)
    if r.violated != "TotalIsPathScore":
        raise tlc.ModelError("negative control failed: the pre-fix backtrace should violate TotalIsPathScore, got %s" % r.violated)
    rep.notes["negative_control"] = "StateAlign_aswas.cfg (first state keeps score 0) violates TotalIsPathScore as expected"


def two_utterance_case(rng, idx):
    """two utterances on one decoder; in the second (longer) one the FIRST alignment request comes exactly when as
    many frames have been searched as the first utterance's alignment covered (the decoder's "nothing has changed"
    test looks only at that count): the alignment of the earlier utterance must not resurface"""
    cfg = {"hmm": os.path.join(sut.REPO, "model", "en-us"),
           "dict": os.path.join(sut.REPO, "tests", "data", "turtle.dic"), "loglevel": "FATAL"}
    s = list(decmatrix.audio_defs()) + ["init " + decmatrix.hx(json.dumps(cfg)),
                                        "align " + decmatrix.hx("go forward ten meters")]
    n1 = decmatrix.AUDIO_LEN["gf"]
    frames1 = 1 + (n1 - 410) // 160 + 1
    s += ["start", "feed gf 0 -1 i16 0 %d" % rng.choice([0, 1]), "end", "result fin", "alignment fin"]
    lead = 410 + (frames1 - 12) * 160
    a2 = "silgf"
    s += ["start", "feed %s 0 %d i16 0 0" % (a2, lead)]
    off = lead
    for k in range(24):
        s.append("feed %s %d 160 i16 0 0" % (a2, off))
        off += 160
        s += ["if %d result hit" % frames1, "if %d alignment hit" % frames1]
    s += ["feed %s %d -1 i16 0 0" % (a2, off), "end", "result fin", "alignment fin", "free"]
    return "two-utterances#%d" % idx, s


def classify(f):
    clause = f.clause or "unknown-clause"
    return "align:" + clause


def run(ctx):
    rep = ctx.report
    quick = ctx.tier == "quick"
    rng = random.Random(ctx.seed * 32452843 + 4)
    drv = decmatrix.build_driver()
    if ctx.replay:
        cases = [("replay", [l for l in open(ctx.replay).read().split("\n") if l])]
    else:
        model_check(ctx, quick)
        n = 110 if quick else 1400
        cases = []
        for i in range(n):
            r = rng.random()
            opts = {}
            if r < 0.25:
                opts["config"] = {"compallsen": True}
            elif r < 0.45:
                opts["config"] = {"compallsen": True, "beam": 0, "pbeam": 0, "wbeam": 0}
                opts["audio"] = rng.choice(["gf", "head", "mid", "cut", "tail", "t4", "t5", "quiet"])
            cases.append(decmatrix.make_case(rng, ctx, i, {"result", "partial", "alignment", "json"}, opts))
        for j in range(2 if quick else 12):
            cases.append(two_utterance_case(rng, n + j))
    by_id = dict(cases)
    chunks, crashes = decmatrix.run_cases(ctx, drv, cases)
    for eid, why in crashes:
        p = decmatrix.write_replay(ctx, "crash_" + eid, by_id[eid])
        rep.violation(runner.crash_key(why), "decoder crashed while aligning (%s): %s" % (eid, why), p)
    fch = [(eid, decmatrix.filter_events(ch, KEEP)) for eid, ch in chunks]
    acc, fails, results = tracecheck.validate(SPEC, "AlignTrace.tla", "AlignTrace.cfg", fch, ctx.work, timeout=2400,
                                              max_fail=12, heap="8g")
    for r in results:
        rep.add_tlc("AlignTrace", r, mode="trace-validation")
    rep.traces += acc
    for eid, ch in fch:
        for ln in ch:
            if ln.startswith('{"e":"Align"'):
                rep.evaluations += 1
                ev = json.loads(ln)
                if not ev["null"] and len(ev["words"]) >= 3:
                    rep.nontrivial.add(json.dumps([[w["n"], w["s"], w["d"], w["a"]] for w in ev["words"]]))
                    rep.sample({"execution": eid, "tag": ev["tag"], "words": [[w["n"], w["s"], w["d"], w["a"],
                                [[p["n"], p["s"], p["d"], p["a"]] for p in w["c"]]] for w in ev["words"][:4]]}, cap=2)
    for f in fails:
        c2, cr2 = decmatrix.run_cases(ctx, drv, [(f.exec_id, by_id[f.exec_id])])
        f2 = []
        if c2:
            _, f2, _ = tracecheck.validate(SPEC, "AlignTrace.tla", "AlignTrace.cfg",
                                           [(e, decmatrix.filter_events(c, KEEP)) for e, c in c2], ctx.work)
        if not f2 and not cr2:
            continue
        p = decmatrix.write_replay(ctx, "reject_" + f.exec_id, by_id[f.exec_id])
        rep.violation(classify(f), "event %d of %s breaks clause %s: %s" % (f.local_line, f.exec_id, f.clause, f.event.strip()[:400]), p)
    # the alignment as decoder_result_json(d, start, 1|2) prints it (the property's third observation point): the JSON
    # lines of the same executions against the alignment the call used (JsonTrace); level 0 is C14's business
    from checks import c14
    jch = [(eid, decmatrix.filter_events(ch, c14.KEEP)) for eid, ch in chunks]
    jch = [(eid, ch) for eid, ch in jch if any(l.startswith('{"e":"Json"') for l in ch)]
    _, jfails, jres = tracecheck.validate(c14.SPEC, "JsonTrace.tla", "JsonTrace.cfg", jch, ctx.work, timeout=2400, max_fail=12,
                                          heap="8g")
    for r in jres:
        rep.add_tlc("JsonTrace(levels 1-2)", r, mode="trace-validation")
    for f in jfails:
        try:
            lvl = json.loads(f.event).get("level", 0)
        except Exception:
            lvl = 0
        if lvl < 1:
            continue
        c2, cr2 = decmatrix.run_cases(ctx, drv, [(f.exec_id, by_id[f.exec_id])])
        f2 = []
        if c2:
            _, f2, _ = tracecheck.validate(c14.SPEC, "JsonTrace.tla", "JsonTrace.cfg",
                                           [(e, decmatrix.filter_events(c, c14.KEEP)) for e, c in c2], ctx.work)
        if not f2 and not cr2:
            continue
        p = decmatrix.write_replay(ctx, "reject_json_" + f.exec_id, by_id[f.exec_id])
        rep.violation("align-json:%s" % (f.clause or "unknown-clause"),
                      "event %d of %s: the level-%d JSON does not say what the alignment says (clause %s): %s" %
                      (f.local_line, f.exec_id, lvl, f.clause, bytes(json.loads(f.event).get("bytes", [])).decode(errors="replace")[:300]), p)
    rep.rule = ("alignment trees from the decode matrix (final + partial, default/compallsen/open-beam configurations); "
                "non-trivial = distinct alignment with >= 3 words")
    rep.assumptions += ["dictionary pronunciations and the expected senone sequence of a phone are read through the public "
                        "dictionary / model-definition API",
                        "the word-score clause is evaluated only with compallsen=yes (both passes then see the same frame "
                        "scores): equality with beams opened, >= otherwise"]
