"""C11 - the word lattice is a well-formed, time-consistent graph of grammar paths.
C12 - N-best lists and lattice scores are ordered and probabilistically sane.

Real lattices (mid-utterance and final, best path, posteriors, N-best) are dumped through the public lattice
API over the decode matrix and validated by TLC with specs/lattice/LatticeTrace.tla against LatticePred.tla;
LatticeBuildImpl / AStarImpl are model-checked exhaustively (see model_check).
"""
import json, os, random, re
from vlib import sut, tlc, tracecheck, runner
from checks import decmatrix, synhist

SPEC = os.path.join(sut.VERIF, "specs", "lattice")
KEEP = {"Header", "Grammar", "Start", "Feed", "End", "Result", "Lattice", "NBest", "SynHist"}


def model_check(ctx, which, quick):
    """C11: LatticeBuildImpl (fsg_search_lattice transcribed over the abstract search of specs/result) -
    the lattice of every abstract search outcome satisfies LatticePred, up to the recorded known gap.
    C12: AStarImpl - the transcribed A* search on every small DAG."""
    rep = ctx.report
    res = os.path.join(sut.VERIF, "specs", "result")
    runs = {"C11": [("MC_LatticeBuild.tla", "LatticeBuild_small.cfg" if quick else "LatticeBuild_big.cfg",
                     ("DoWordExit", "DoNullStep", "DoEnter", "Finish"))],
            "C12": [("MC_AStar.tla", "AStar_small.cfg", ("Start", "Pop", "Extend"))] +
                   ([] if quick else [("MC_AStar.tla", "AStar_big.cfg", ("Start", "Pop", "Extend"))])}[which]
    for mod, cfg, acts in runs:
        # coverage statistics make the (expensive) lattice invariants several times slower; the actions of the
        # shared abstract search are already checked for vacuity by C01/C03, so only the A* model collects them
        cov = which == "C12"
        r = tlc.run(mod, cfg, SPEC, workers=16, timeout=3000, coverage=cov, heap="16g", lib=[res])
        if r.violated:
            raise tlc.ModelError("%s violates %s in %s:\n%s" % (mod, r.violated, cfg, r.out[-2500:]))
        for act in acts:
            if cov and r.coverage.get(act, (0, 0))[0] == 0:
                raise tlc.ModelError("vacuous: action %s never taken in %s" % (act, cfg))
        rep.add_tlc("%s/%s" % (mod, cfg), r)
    if which == "C11":
        # the end-node choice before fix d619062 must lose the first-best (negative control); the fixed rule holds on the
        # same family at three frames
        r = tlc.run("MC_LatticeBuild.tla", "LatticeBuild_tie.cfg", SPEC, workers=8, timeout=900, heap="8g", lib=[res])
        if r.violated != "PartialLatticeInv":
            raise tlc.ModelError("negative control failed: keeping one of several latest-exit nodes should violate "
                                 "PartialLatticeInv, got %s" % r.violated)
        rep.notes["negative_control"] = "LatticeBuild_tie.cfg (end node = first of several latest-exit nodes) violates PartialLatticeInv as expected"
        if not quick:
            r = tlc.run("MC_LatticeBuild.tla", "LatticeBuild_tiefixed.cfg", SPEC, workers=8, timeout=3000, heap="12g", lib=[res])
            if r.violated:
                raise tlc.ModelError("LatticeBuildImpl violates %s in LatticeBuild_tiefixed.cfg:\n%s" % (r.violated, r.out[-2500:]))
            rep.add_tlc("MC_LatticeBuild.tla/LatticeBuild_tiefixed.cfg", r)


def nontrivial_key(chunk, which):
    """distinct lattice shapes with >= 4 nodes (C11) / N-best lists with >= 2 different hypotheses (C12)"""
    keys = []
    for ln in chunk:
        if ln.startswith('{"e":"Lattice"'):
            ev = json.loads(ln)
            if which == "C11" and not ev["null"] and len(ev["nodes"]) >= 4:
                keys.append(("L", json.dumps([[n["w"], n["sf"]] for n in ev["nodes"]]), json.dumps(ev["links"])))
        elif ln.startswith('{"e":"NBest"') and which == "C12":
            ev = json.loads(ln)
            hyps = {" ".join(i["hyp"]) for i in ev["items"]}
            if len(hyps) >= 2:
                keys.append(("N", json.dumps([[i["score"], i["hyp"]] for i in ev["items"]])))
    return keys


LOOPS = ["public <s> = (go | forward | ten | meters | to | then)+ ;",
         "public <s> = (go | forward | ten | meters)* (one | two | ten) [ meters | meter ] ;",
         "public <s> = (a | the | to | two | ten | then | and)+ ;",
         "public <s> = go forward ten meters;"]


def deep_nbest_cases(rng, count, base):
    """word-loop grammars / very wide beams give lattices with thousands of paths: walk the N-best list deep
    enough for the A* agenda (MAX_PATHS = 500) to overflow and be pruned"""
    out = []
    for i in range(count):
        g = LOOPS[i % len(LOOPS)]
        cfg = {"hmm": os.path.join(sut.REPO, "model", "en-us"),
               "dict": os.path.join(sut.REPO, "tests", "data", "turtle.dic"), "loglevel": "FATAL"}
        if i % len(LOOPS) == 3 or rng.random() < 0.3:
            cfg.update(decmatrix.BEAMS["wide"])
        aud = rng.choice(["gf", "gf", "cut", "tail", "mid"])
        s = list(decmatrix.audio_defs()) + ["init " + decmatrix.hx(json.dumps(cfg)),
                                            "jsgf " + decmatrix.hx("#JSGF V1.0;\ngrammar g;\n" + g + "\n"), "start",
                                            "feed %s 0 -1 i16 0 0" % aud, "end", "result fin", "lattice fin 1",
                                            "nbest fin %d" % rng.choice([4000, 8000]), "free"]
        out.append(("deep-nbest-%d-%s#%d" % (i % len(LOOPS), aud, base + i), s))
    return out


def classify(f):
    """A stable key for a rejected event: the clause TLC named, refined (for the first-best clause) by the
    situation the lattice builder was in - decided from the recorded events only."""
    clause = f.clause or "unknown-clause"
    try:
        ev = json.loads(f.event)
        if clause == "best-seg-is-path" and f.prev_event.startswith('{"e":"Result"'):
            res = json.loads(f.prev_event)
            timed = [s for s in res["segs"] if s["k"] != 2]
            real = [n for n in ev["nodes"] if n["w"] not in ("<s>", "</s>")]
            if len(timed) == 1:
                clause += ":first-best-is-one-word-instance"
            elif real and max(n["lef"] for n in real) < ev["frames"] - 1:
                clause += ":no-word-exit-in-last-frame"
        return "%s:%s" % (ev.get("e", "?").lower(), clause)
    except Exception:
        return "event:" + clause


SYN_WORDS = ["go", "forward", "ten", "meters", "stop", "left", "right", "backward"]
SYN_SCORE = [{0: -1200, -1: -3100, -2: -7700}, {0: 0, -1: -1, -2: -2}, {0: -50000, -1: -50100, -2: -50250}, {0: -3, -1: -40000, -2: -90000}]


def synthetic_dag_cases(ctx, rng, quick, base):
    """Every DAG of the A* model (AStarImpl: nodes in topological order, any set of forward links with scores from a small
    set, every node on a start-to-end path) is built as a REAL lattice with the library's constructors and put where the
    search caches its lattice; best path, posteriors and N-best then run on it through the public calls."""
    rep = ctx.report
    dags = []
    for cfg in (("AStar_export4.cfg",) if quick else ("AStar_export4.cfg", "AStar_export5.cfg")):
        r = tlc.run("MC_AStar.tla", cfg, SPEC, workers=1, timeout=900, heap="4g")
        got = re.findall(r'^<<"DAG", "(.*)">>$', r.out, re.M)
        if len(got) < 1000:
            raise tlc.ModelError("DAG export %s gave only %d graphs:\n%s" % (cfg, len(got), r.out[-1500:]))
        rep.add_tlc("MC_AStar.tla/" + cfg, r, mode="graph-export")
        dags += [json.loads(g) for g in got]
    if quick:        # a seeded third of the 4-node graphs per run; thorough runs them all
        dags = [g for i, g in enumerate(dags) if (i + ctx.seed) % 3 == 0]
    rep.notes["synthetic_dags_executed"] = len(dags)
    cfg = {"hmm": os.path.join(sut.REPO, "model", "en-us"), "dict": os.path.join(sut.REPO, "tests", "data", "turtle.dic"),
           "loglevel": "FATAL"}
    cases, per = [], 80
    for c0 in range(0, len(dags), per):
        s = list(decmatrix.audio_defs()) + ["init " + decmatrix.hx(json.dumps(cfg)),
                                            "jsgf " + decmatrix.hx("#JSGF V1.0;\ngrammar g;\npublic <s> = go forward ten meters;\n"),
                                            "start", "feed head 0 -1 i16 0 1", "end"]
        for gi, links in enumerate(dags[c0:c0 + per]):
            n = max(l[1] for l in links)
            sc = SYN_SCORE[(c0 + gi) % len(SYN_SCORE)]
            sf = [0] + [7 * i + rng.randrange(0, 3) for i in range(1, n)]          # node i+1 starts at sf[i]
            words = [SYN_WORDS[(i + gi) % len(SYN_WORDS)] for i in range(n)]
            if gi % 5 == 4 and n >= 3:
                words[1] = "<sil>"
            toks = [str(-(gi % 3) * 37), str(n), str(len(links))]
            for i in range(n):
                efs = [sf[l[1] - 1] - 1 for l in links if l[0] == i + 1] or [73]
                toks += [words[i].encode().hex(), str(sf[i]), str(min(efs)), str(max(efs))]
            for a, b, v in links:
                toks += [str(a - 1), str(b - 1), str(sc[v]), str(sf[b - 1] - 1)]
            s += ["synlat " + " ".join(toks), "lattice syn 1", "nbest syn 60 1"]
        s.append("free")
        cases.append(("syn-dags#%d" % (base + c0 // per), s))
    return cases


def run_which(ctx, which):
    rep = ctx.report
    quick = ctx.tier == "quick"
    rng = random.Random(ctx.seed * 104729 + (11 if which == "C11" else 12))
    drv = decmatrix.build_driver()
    env = {"WHICH": which}
    want = {"result", "partial", "lattice"} | ({"latscores", "nbest"} if which == "C12" else set())

    if ctx.replay:
        cases = [("replay", [l for l in open(ctx.replay).read().split("\n") if l])]
    else:
        model_check(ctx, which, quick)
        n = 120 if quick else 1500
        cases = [decmatrix.make_case(rng, ctx, i, want) for i in range(n)]
        if which == "C12":
            # other log bases: finer ones need wider entries in the log-add table the posteriors are summed with
            for k, lb in enumerate([1.00001, 1.00002, 1.0003, 1.00001] if quick else [1.00001, 1.00002, 1.0003, 1.001] * 6):
                cases.append(decmatrix.make_case(rng, ctx, n + 300 + k, want, {"config": {"logbase": lb}, "english_only": True,
                                                                             "no_synth": True, "audio": rng.choice(["gf", "cut", "head"])}))
        # lattices built by the unchanged code from every history table the abstract search reaches
        q = (lambda tag: ["result " + tag, "lattice %s 0" % tag]) if which == "C11" else \
            (lambda tag: ["result " + tag, "lattice %s 1" % tag, "nbest %s 30 1" % tag])
        cases += synhist.cases(ctx, rng, quick, q, n + 500, count=1500 if quick else None)
        if which == "C12":
            cases += deep_nbest_cases(rng, 3 if quick else 20, n)
            cases += synthetic_dag_cases(ctx, rng, quick, n + 100)
    by_id = dict(cases)
    chunks, crashes = decmatrix.run_cases(ctx, drv, cases)
    for eid, why in crashes:
        p = decmatrix.write_replay(ctx, "crash_" + eid, by_id[eid])
        rep.violation(runner.crash_key(why), "decoder crashed while building/searching a lattice (%s): %s" % (eid, why), p)
    fch = [(eid, decmatrix.filter_events(ch, KEEP)) for eid, ch in chunks]
    acc, fails, results = tracecheck.validate(SPEC, "LatticeTrace.tla", "LatticeTrace.cfg", fch, ctx.work, timeout=2400,
                                              env=env, max_fail=8, heap="8g")
    for r in results:
        rep.add_tlc("LatticeTrace(%s)" % which, r, mode="trace-validation")
    rep.traces += acc
    sizes = []
    for eid, ch in fch:
        for ln in ch:
            if ln.startswith('{"e":"Lattice"') or ln.startswith('{"e":"NBest"'):
                rep.evaluations += 1
        for k in nontrivial_key(ch, which):
            rep.nontrivial.add(k)
    for f in fails:
        c2, cr2 = decmatrix.run_cases(ctx, drv, [(f.exec_id, by_id[f.exec_id])])
        f2 = []
        if c2:
            _, f2, _ = tracecheck.validate(SPEC, "LatticeTrace.tla", "LatticeTrace.cfg",
                                           [(e, decmatrix.filter_events(c, KEEP)) for e, c in c2], ctx.work, env=env)
        if not f2 and not cr2:
            continue
        p = decmatrix.write_replay(ctx, "reject_" + f.exec_id, by_id[f.exec_id])
        ev = json.loads(f.event) if f.event else {}
        rep.violation(classify(f),
                      "event %d of %s breaks the %s predicate: %s" % (f.local_line, f.exec_id, which, f.event.strip()[:500]), p)
    for eid, ch in fch[:40]:
        for ln in ch:
            if ln.startswith('{"e":"Lattice"'):
                ev = json.loads(ln)
                if not ev["null"] and 4 <= len(ev["nodes"]) <= 9:
                    rep.sample({"execution": eid, "frames": ev["frames"],
                                "nodes": [[n["w"], n["sf"], n["fef"], n["lef"]] for n in ev["nodes"]],
                                "links": ev["links"], "start": ev["start"], "end": ev["end"],
                                "best": ev.get("best", {}).get("score")}, cap=3)
                    break
    rep.rule = ("lattices dumped through ps_latnode_iter/ps_latnode_exits/latlink_times after partial results and after "
                "the end of the utterance over the seeded decode matrix (grammars x audio x beams x chunkings); non-trivial = "
                + ("distinct lattice (nodes, links) with >= 4 nodes" if which == "C11" else
                   "distinct N-best list containing >= 2 different word sequences"))
    rep.assumptions += ["the user's grammar G is the FSG before the search adds silence/alternate arcs",
                        "nodes spelled <s> / </s> are the builder's synthetic boundary nodes; their links are epsilon links",
                        "posterior tolerance: 4 log units per link (log-add rounding, C19, plus integer truncation of scaled scores)"]


def run(ctx):
    run_which(ctx, "C11")
