"""C06 - acoustic features do not depend on how the audio is chunked or encoded.

  1. TLC, exhaustive, small (Size, Shift): FeChunkImpl (fe_process / overflow_append / read_overflow_frame /
     create_overflow_frame / append_overflow_frame / fe_end / fe_start and the shifting frame buffer,
     transcribed on stream indices) refines FrameStream (the canonical frames of a stream of N samples);
     invariants: output is a prefix of the canonical frames, the overflow buffer is exactly the not yet
     framed suffix, the pre-emphasis memory is the sample before the next frame, no read outside the chunk.
     Two caller protocols: "drain" (end the stream only after a call that had room to spare) and "doc" (the
     loop documented in fe.h).
  2. tlc -simulate on the same module with the REAL constants of each front-end configuration
     (410/160, 205/80, 410/320, 320/160, 160/160, 276/105, ...) produces chunk schedules with the predicted
     outcome of every call; chunk lengths come from a boundary set relative to the state of the overflow
     buffer, output limits from around the number of frames available, some chunks are far longer than any
     internal buffer (32767 ... 70000 samples).
  3. harness/fe/fe_drv.c executes each schedule on a real fe_t for three signals (speech, white noise,
     index-coded ramp) x two encodings (int16, float32 = int16/32768) and compares all cepstra, fe_end's
     included, bit for bit with the one-call int16 reference of the same signal and configuration.
  4. Every recorded execution is validated by TLC against FrameStream (FeTrace.tla): conservation of samples,
     frame count = NF(N), bit-identity.  Comparisons with the transcribed mechanism are diagnostics.
"""
import os, random, json, re, concurrent.futures, collections, time
from vlib import sut, tlc, tracecheck, runner

SPEC = os.path.join(os.path.dirname(os.path.dirname(os.path.abspath(__file__))), "specs", "fe")
NOTE = ("-noGenerateSpecTE",)

# front-end configurations: (name, parameters, tier).  Several signal-processing variants share the default
# 410/160 framing; the others vary sample rate, frame rate, window length and FFT size.
CONFIGS = [
    ("default", "", "quick"),
    ("dct-lifter-noise", "transform=dct lifter=22 remove_noise=yes", "quick"),
    ("htk-dc", "transform=htk remove_dc=yes", "quick"),
    ("logspec", "logspec=yes", "quick"),
    ("smooth-noise-dc", "smoothspec=yes remove_noise=yes remove_dc=yes", "quick"),
    ("nfft1024-noalpha", "nfft=1024 alpha=0", "quick"),
    ("bigendian", "input_endian=big", "quick"),
    ("8k", "samprate=8000 upperf=3500 nfilt=31", "quick"),
    ("8k-dct-noise", "samprate=8000 upperf=4000 nfilt=25 transform=dct remove_noise=yes lifter=22", "quick"),
    ("frate50", "frate=50", "quick"),
    ("wlen20ms-htk", "wlen=0.02 transform=htk", "quick"),
    ("wlen10ms-nfft256", "wlen=0.01 nfft=256", "quick"),
    ("wlen10ms-logspec-dc", "wlen=0.01 logspec=yes remove_dc=yes", "quick"),
    ("11k-frate105", "samprate=11025 frate=105 wlen=0.025 nfft=1024 upperf=5000 transform=dct", "quick"),
    ("frate200-noise", "frate=200 remove_noise=yes", "thorough"),
    ("44k", "samprate=44100 frate=100 wlen=0.025 upperf=8000 nfilt=40", "thorough"),
    ("frate125-ncep20", "samprate=16000 frate=125 wlen=0.016 ncep=20 doublebw=yes", "thorough"),
    ("frate3-wlen340ms", "frate=3 wlen=0.34", "thorough"),
    ("frate8000", "frate=8000", "thorough"),
]
SIGNALS = ["speech", "noise", "clipped", "ramp"]
UNLIMITED = 1000          # FeSim's "room for everything" output limit
MC_QUICK = [(3, 2), (5, 2), (3, 3)]
MC_ALL = [(2, 2), (3, 2), (4, 2), (5, 2), (3, 3), (4, 3), (5, 3), (7, 3), (5, 4), (9, 4)]


def full(n, size, shift):
    return 0 if n < size else 1 + (n - size) // shift


def nf(n, size, shift):
    f = full(n, size, shift)
    return f + (1 if n > f * shift else 0)


# ---------------------------------------------------------------------------------------------- harness side

def harness_info(drv, params):
    r = runner.run(drv, ["/dev/null"], "cfg 0 %s\ninfo 0\n" % params, timeout=120, leaks=False)
    m = re.search(r"^info 0 (\d+) (\d+) (\d+) (\d+)", r.out, re.M)
    if r.rc != 0 or not m:
        raise tlc.ModelError("front-end configuration '%s' refused: %s" % (params, r.why()))
    return int(m.group(1)), int(m.group(2))


def sig_line(sid, kind, length, seed):
    if kind == "speech":
        return "sig %d speech %d %d %s" % (sid, length, seed, os.path.join(sut.REPO, "tests", "data", "goforward.raw"))
    return "sig %d %s %d %d" % (sid, kind, length, seed)


class Exec:
    """one execution = one schedule on one configuration, one signal, one encoding"""

    def __init__(self, eid, cfg, sched, sig, sigseed, enc, warm=0):
        self.eid, self.cfg, self.sched, self.sig, self.sigseed, self.enc, self.warm = eid, cfg, sched, sig, sigseed, enc, warm

    def run_line(self):
        s = self.sched
        calls = []
        for c in s["calls"]:
            if c["op"] == "proc":
                calls.append("%d %d" % (c["n"], c["m"]))
            elif c["op"] == "count":
                calls.append("%d -1" % c["n"])
        endm = [c["m"] for c in s["calls"] if c["op"] == "end"]
        return "run %s 0 0 %s %s %d %d %d %d %s" % (self.eid, self.enc, s["proto"], s["total"], endm[0] if endm else 1,
                                                     self.warm, len(calls), " ".join(calls))

    def script(self):
        """stand-alone script (also the replay file)"""
        return ["cfg 0 %s" % self.cfg[1], sig_line(0, self.sig, self.sched["total"], self.sigseed), self.run_line()]


def split_trace(path):
    chunks, cur = [], None
    with open(path) as f:
        for ln in f:
            if ln.startswith('{"e":"Header"'):
                cur = []
                chunks.append(cur)
            if cur is not None:
                cur.append(ln)
    return chunks


def run_batch(drv, execs, work, tag):
    """Execute a list of Exec in ONE harness process (each brings its own cfg/sig lines, ids renumbered).
    Returns (list of (Exec, [lines]), list of (Exec, why)) - on a crash every execution of the batch is
    re-run in a process of its own, so that one abort does not hide the others."""
    lines, cfg_ids, sig_ids = [], {}, {}
    for ex in execs:
        ck = ex.cfg[1]
        if ck not in cfg_ids:
            cfg_ids[ck] = len(cfg_ids)
            lines.append("cfg %d %s" % (cfg_ids[ck], ck))
        sk = (ex.sig, ex.sigseed)
        if sk not in sig_ids:
            sig_ids[sk] = len(sig_ids)
            need = max(max(e.sched["total"], 1) for e in execs if (e.sig, e.sigseed) == sk)
            lines.append(sig_line(sig_ids[sk], ex.sig, need, ex.sigseed))
        rl = ex.run_line().split(" ")
        rl[2], rl[3] = str(cfg_ids[ck]), str(sig_ids[sk])
        lines.append(" ".join(rl))
    path = os.path.join(work, "fe_%s.ndjson" % tag)
    r = runner.run(drv, [path], "\n".join(lines) + "\n", timeout=900, leaks=False)
    if r.rc == 0:
        chunks = split_trace(path)
        os.unlink(path)
        if len(chunks) != len(execs):
            raise tlc.ModelError("harness produced %d executions for %d runs" % (len(chunks), len(execs)))
        return list(zip(execs, chunks)), []
    if r.rc == 4:
        raise tlc.ModelError("harness refused its script: " + r.err[-400:])
    if len(execs) == 1:
        return [], [(execs[0], r.why())]
    done, crashes = [], []
    for i, ex in enumerate(execs):
        d, c = run_batch(drv, [ex], work, "%s_%d" % (tag, i))
        done += d
        crashes += c
    return done, crashes


def crash_key(why):
    m = re.search(r"(\w+)\(fe_t \*[^)]*\)[^:]*: Assertion `([^']*)'", why) or re.search(r"int (\w+)\(.*Assertion `([^']*)'", why)
    if m and "MAX_INT16" in m.group(2) and m.group(1) in ("create_overflow_frame", "append_overflow_frame"):
        return "abort:stale-assert-long-chunk-limited-output"     # the defect repaired by /repo c48a241, should it return
    if m:
        return "abort:assert-in-%s" % m.group(1)
    if "Assertion" in why:
        return "abort:assertion"
    m = re.search(r"AddressSanitizer: ([\w-]+)", why)
    if m:
        return "crash:asan-%s" % m.group(1)
    if why == "timeout":
        return "hang:call-does-not-return"
    return "crash:" + re.sub(r"[^a-z0-9]+", "-", why.lower())[:40]


# ------------------------------------------------------------------------------------------- trace validation

def validate_group(size, shift, handback, pairs, work):
    """pairs: [(Exec, [lines])] with the same Size/Shift.  One TLC run in continue mode: returns
    (accepted pairs, [(Exec, lines, local index of the rejected event)], TlcResult, diag count, diag lines)."""
    path = os.path.join(work, "trace_%d_%d_%d.ndjson" % (size, shift, random.getrandbits(30)))
    starts, n = [], 0
    with open(path, "w") as f:
        for ex, lines in pairs:
            starts.append(n)
            f.writelines(lines)
            n += len(lines)
    env = {"TRACE": path, "FE_SIZE": size, "FE_SHIFT": shift, "FE_HANDBACK": 1 if handback else 0, "FE_CONTINUE": 1}
    r = tlc.run("FeTrace.tla", "FeTrace.cfg", SPEC, workers=1, timeout=1500, env=env, heap="6g", extra=NOTE)
    os.unlink(path)
    if "REJECTED-AT" in r.out or r.rc != 0 or "No error has been found" not in r.out:
        raise tlc.ModelError("trace validation did not finish cleanly (Size %d, Shift %d):\n%s" % (size, shift, r.out[-2000:]))
    rej = sorted(int(x) for x in re.findall(r'<<"REJECT", (\d+)>>', r.out))
    bad = {}
    for ln in rej:
        idx = max(i for i, s in enumerate(starts) if s <= ln - 1)
        bad.setdefault(idx, ln - 1 - starts[idx])
    m = re.search(r'<<"B-DIAG-COUNT", (\d+)>>', r.out)
    diag = int(m.group(1)) if m else 0
    diag_lines = re.findall(r'<<"B-DIAG", \d+, "[^"]*">>', r.out)
    acc = [p for i, p in enumerate(pairs) if i not in bad]
    rejected = [(pairs[i][0], pairs[i][1], bad[i]) for i in sorted(bad)]
    return acc, rejected, r, diag, diag_lines


def classify(lines, local, size, shift):
    """violation key (stable: made of class names only) and a sentence, from the rejected event"""
    evs = [json.loads(x) for x in lines]
    hdr, e = evs[0], evs[local]
    enc, proto = hdr.get("enc", "?"), hdr.get("proto", "?")
    if e["e"] == "Cmp":
        n = e["consumed"]
        if e["consumed"] != e["nsig"]:
            return "stuck:samples-never-consumed", "only %d of %d samples were ever consumed" % (e["consumed"], e["nsig"])
        want = nf(n, size, shift)
        if e["nref"] != want:
            return "frame-count:one-call-reference", "one call on %d samples gives %d frames, NF(N) = %d" % (n, e["nref"], want)
        end = [x for x in evs if x["e"] == "End"]
        if e["frames"] < want:
            if end and end[-1]["novf_before"] >= size:
                return ("frame-lost:end-with-full-frame-pending",
                        "%d samples gave %d frames instead of NF(N) = %d: the last fe_process call (output-limited) left a "
                        "complete frame in the overflow buffer and no samples to hand back, fe_end wrote that frame and "
                        "dropped the trailing partial frame" % (n, e["frames"], want))
            return "frame-lost:%s" % proto, "%d samples gave %d frames instead of NF(N) = %d" % (n, e["frames"], want)
        if e["frames"] > want:
            return "frame-extra:%s" % proto, "%d samples gave %d frames instead of NF(N) = %d" % (n, e["frames"], want)
        if hdr.get("swap"):
            return ("frames-differ:byteswapped-input",
                    "frame %d of %d differs bitwise from the one-call reference (%s input, input_endian opposite to the host)"
                    % (e["first_diff"], e["frames"], enc))
        # same count, different bits: which kind of frame differs first?
        fd, cum, where = e["first_diff"], 0, "trailing-frame"
        novf_before = 0
        for x in evs:
            if x["e"] == "Proc":
                if cum <= fd < cum + x["ret"]:
                    where = ("shifted-frame" if fd > cum else
                             "frame-completed-from-overflow" if novf_before > 0 else "first-frame-from-chunk")
                    break
                cum += x["ret"]
                novf_before = x["novf"]
        return ("frames-differ:%s:%s" % (enc, where),
                "frame %d of %d differs bitwise from the one-call reference (%s input, %s)" % (fd, e["frames"], enc, where))
    if e["e"] == "Proc":
        if e["left"] < 0 or e["left"] > e["n"]:
            return "call-contract:left-exceeds-supplied", "call handed back %d of %d samples" % (e["left"], e["n"])
        if e["adv"] != e["n"] - e["left"]:
            return "call-contract:pointer-advance", "pointer moved by %d, %d samples consumed" % (e["adv"], e["n"] - e["left"])
        if e["ret"] < 0 or e["ret"] > max(e["max_out"], 0):
            return "call-contract:more-frames-than-room", "%d frames returned with room for %d" % (e["ret"], e["max_out"])
        return "call-contract:frame-before-its-samples", "call returned %d frames the consumed samples cannot make" % e["ret"]
    if e["e"] == "End":
        return "call-contract:fe_end", "fe_end returned %d with room for %d" % (e["ret"], e["max_out"])
    if e["e"] == "Ref":
        return "frame-count:one-call-reference", "one call on %d samples gives %d frames (left %d)" % (e["n"], e["frames"], e["left"])
    if e["e"] == "Start":
        return "call-contract:fe_start", "fe_start returned %d" % e["ret"]
    raise tlc.ModelError("trace header rejected (grouping error): %s" % lines[local])


def selftest(done, sizes, handback, work):
    """The validation must be able to say no: corrupt one recorded field in copies of an accepted execution
    (a frame count, a returned-sample count, the comparison verdict) and require TLC to reject each copy."""
    for ex, lines in done:
        evs = [json.loads(x) for x in lines]
        procs = [i for i, e in enumerate(evs) if e["e"] == "Proc" and e["ret"] > 0]
        cmp_i = [i for i, e in enumerate(evs) if e["e"] == "Cmp" and e["equal_to_ref"]]
        if procs and cmp_i:
            break
    else:
        raise tlc.ModelError("no accepted execution to self-test the trace validation with")
    size, shift = sizes[ex.cfg[0]]
    copies = []
    for field, idx, fn in (("ret", procs[0], lambda v: v - 1), ("left", procs[0], lambda v: v + 1),
                           ("frames", cmp_i[0], lambda v: v + 1), ("equal_to_ref", cmp_i[0], lambda v: False)):
        e2 = [dict(e) for e in evs]
        e2[idx][field] = fn(e2[idx][field])
        copies.append((ex, [json.dumps(e) + "\n" for e in e2]))
    acc, rejected, _, _, _ = validate_group(size, shift, handback, [(ex, lines)] + copies, work)
    if len(acc) != 1 or len(rejected) != len(copies):
        raise tlc.ModelError("trace validation self-test failed: %d of %d corrupted copies rejected, original %s" %
                             (len(rejected), len(copies), "accepted" if len(acc) >= 1 else "rejected"))


def write_replay(ctx, name, lines):
    p = os.path.join(ctx.replays, re.sub(r"[^A-Za-z0-9_.-]", "_", name) + ".script")
    with open(p, "w") as f:
        f.write("\n".join(lines) + "\n")
    return p


def judge(ctx, drv, execs, handback, sizes, batches=16):
    """execute + validate + report; returns list of (Exec, lines) of everything that ran"""
    rep = ctx.report
    # long streams first, round-robin over the batches
    order = sorted(execs, key=lambda e: -e.sched["total"])
    groups = [order[i::batches] for i in range(batches)]
    groups = [g for g in groups if g]
    done, crashes = [], []
    with concurrent.futures.ThreadPoolExecutor(max_workers=16) as pool:
        for d, c in pool.map(lambda ig: run_batch(drv, ig[1], ctx.work, "b%d" % ig[0]), list(enumerate(groups))):
            done += d
            crashes += c
    for ex, why in crashes:
        d2, c2 = run_batch(drv, [ex], ctx.work, "again")          # reproduce before reporting
        if not c2:
            done += d2
            continue
        p = write_replay(ctx, "crash_" + ex.eid, ex.script())
        rep.violation(crash_key(c2[0][1]), "the front end does not return from a call the model allows (schedule %s, %s, %s): %s"
                      % (ex.eid, ex.sig, ex.enc, c2[0][1][:300]), p)
    by_pair = collections.defaultdict(list)
    for ex, lines in done:
        by_pair[sizes[ex.cfg[0]]].append((ex, lines))
    items = sorted(by_pair.items())
    with concurrent.futures.ThreadPoolExecutor(max_workers=8) as pool:
        results = list(pool.map(lambda it: validate_group(it[0][0], it[0][1], handback, it[1], ctx.work), items))
    ndiag, diag_lines = 0, []
    for ((size, shift), _), (acc, rejected, r, diag, dl) in zip(items, results):
        rep.add_tlc("FeTrace(%d/%d)" % (size, shift), r, mode="trace-validation")
        rep.traces += len(acc)
        ndiag += diag
        diag_lines += dl[:3]
        seen_keys = set()
        for ex, lines, local in rejected:
            key, what = classify(lines, local, size, shift)
            if key in seen_keys:
                continue            # one reproduction per key and group is enough
            seen_keys.add(key)
            d2, c2 = run_batch(drv, [ex], ctx.work, "rej")         # reproduce alone before reporting
            if c2:
                continue
            a2, r2, _, _, _ = validate_group(size, shift, handback, d2, ctx.work)
            if not r2:
                continue
            key2, what2 = classify(r2[0][1], r2[0][2], size, shift)
            p = write_replay(ctx, "reject_" + ex.eid, ex.script())
            rep.violation(key2, "%s [configuration '%s' (%d/%d), %s, %s, protocol %s, schedule %s]" %
                          (what2, ex.cfg[0], size, shift, ex.sig, ex.enc, ex.sched["proto"], ex.eid), p)
    selftest(done, sizes, handback, ctx.work)
    rep.notes["mechanism_diagnostics"] = rep.notes.get("mechanism_diagnostics", 0) + ndiag
    if diag_lines:
        rep.notes["mechanism_diagnostic_samples"] = diag_lines[:6]
    return done


# ------------------------------------------------------------------------------------------------ model side

def mc_job(args):
    name, cfg, env, workers = args
    r = tlc.run("MC_fe.tla", cfg, SPEC, workers=workers, timeout=1700, env=env, heap="4g", extra=NOTE)
    return name, cfg, env, r


def sim_job(args):
    size, shift, proto, handback, maxn, steps, big, num, seed = args
    env = {"FE_SIZE": size, "FE_SHIFT": shift, "FE_DRAIN": 1 if proto == "drain" else 0, "FE_HANDBACK": 1 if handback else 0,
           "FE_MAXN": maxn, "FE_STEPS": steps, "FE_BIG": 1 if big else 0}
    r = tlc.run("FeSim.tla", "FeSim.cfg", SPEC, workers=1, timeout=1500, env=env, simulate=num, depth=200, seed=seed,
                heap="3g", extra=NOTE)
    if r.violated or r.rc != 0:
        raise tlc.ModelError("FeSim (%d/%d, %s) stopped: %s\n%s" % (size, shift, proto, r.violated, r.out[-1500:]))
    scheds = []
    for js in re.findall(r'^<<"SCHED", "(.*)">>$', r.out, re.M):
        d = json.loads(js.encode().decode("unicode_escape"))
        d["proto"], d["size"], d["shift"] = proto, size, shift
        scheds.append(d)
    if len(scheds) < num // 2:
        raise tlc.ModelError("FeSim (%d/%d, %s) finished only %d of %d walks" % (size, shift, proto, len(scheds), num))
    return (size, shift, proto, big), scheds, r


def detect_handback(drv, work):
    """Which code variant is under test: does a call that would leave a complete frame parked with nothing left
    hand one sample back (the proposed repair) or not (the code as of /repo c48a241)?  Only selects which
    transcription the DIAGNOSTICS compare with; the verdict never depends on it."""
    script = "cfg 0\nsig 0 ramp 570 0\nrun probe 0 0 i drain 570 1 0 1 570 1\n"
    path = os.path.join(work, "probe.ndjson")
    r = runner.run(drv, [path], script, timeout=120, leaks=False)
    try:
        evs = [json.loads(x) for x in open(path)]
    except OSError:
        evs = []
    finally:
        if os.path.exists(path):
            os.unlink(path)
    procs = [e for e in evs if e.get("e") == "Proc"]
    if r.rc != 0 or not procs:
        raise tlc.ModelError("variant probe failed: " + r.why())
    return procs[0]["left"] == 1


def build_driver(ctx):
    """The driver is linked into the scratch directory of this run: the shared build cache keeps only the few
    most recent library builds, and with several checks / mutation experiments running at once a cached
    directory can disappear while it is in use."""
    err = None
    for attempt in range(4):
        try:
            libdir, _ = sut.build_lib("asan")
            return sut.build_harness("fe_drv", ["fe/fe_drv.c"], libdir, outdir=ctx.work)
        except (sut.BuildError, OSError) as e:
            err = e
            time.sleep(1 + attempt)
    raise sut.BuildError("could not build the front-end driver: %s" % err)


def run(ctx):
    rep = ctx.report
    quick = ctx.tier == "quick"
    rng = random.Random(ctx.seed)
    drv = build_driver(ctx)
    handback = detect_handback(drv, ctx.work)
    rep.notes["code_variant"] = "hands-one-sample-back" if handback else "parks-complete-frame"
    rep.assumptions += [
        "the caller re-submits the samples a call hands back, in order, and gives fe_end room for one frame",
        "caller protocol 'doc' = the loop documented in fe.h (call fe_process while samples are left, then fe_end); "
        "'drain' = additionally keep calling while the last call filled its output buffer",
        "float32 input is int16/32768 exactly (fe.h: FLOAT32_SCALE); dither off (dither is random by design)",
        "bit-identity compares executions of the same build with each other: a change that alters every chunking "
        "identically is invisible (DESIGN.md section 6)",
        "one encoding per utterance (no mixing of int16 and float32 calls within a stream)",
    ]

    if ctx.replay:
        lines = [l for l in open(ctx.replay).read().split("\n") if l.strip()]
        cfgl = [l for l in lines if l.startswith("cfg ")][0]
        size, shift = harness_info(drv, cfgl.split(" ", 2)[2] if cfgl.count(" ") >= 2 else "")
        path = os.path.join(ctx.work, "replay.ndjson")
        r = runner.run(drv, [path], "\n".join(lines) + "\n", timeout=900, leaks=False)
        rep.rule = "replay of one stored harness script"
        if r.rc != 0:
            rep.violation(crash_key(r.why()), "the front end does not return from a call the model allows: " + r.why()[:300],
                          ctx.replay)
            return
        chunks = split_trace(path)
        fake = [(Exec("replay%d" % i, ("replay", ""), {"total": 0, "proto": "?", "calls": []}, "?", 0, "?"), ch)
                for i, ch in enumerate(chunks)]
        acc, rejected, tr, diag, _ = validate_group(size, shift, handback, fake, ctx.work)
        rep.add_tlc("FeTrace(replay)", tr, mode="trace-validation")
        rep.traces += len(acc)
        rep.evaluations += sum(len(ch) for _, ch in fake)
        for ex, ls, local in rejected:
            key, what = classify(ls, local, size, shift)
            rep.violation(key, what, ctx.replay)
        return

    t0 = time.time()
    phases = rep.notes.setdefault("phase_wall_s", {})
    # ---- 1. B refines A, exhaustively, small constants -------------------------------------------------
    jobs = []
    pairs = MC_QUICK if quick else MC_ALL
    w = 2 if quick else 4
    for (s, h) in pairs:
        base = {"FE_SIZE": s, "FE_SHIFT": h, "FE_HANDBACK": 1 if handback else 0}
        jobs.append(("drain %d/%d" % (s, h), "MC_strict.cfg", dict(base, FE_DRAIN=1), w))
        # the documented loop: with the code as it is the exact characterisation of the loss, with the repair strictly
        jobs.append(("doc %d/%d" % (s, h), "MC_strict.cfg" if handback else "MC_doc_parked.cfg", dict(base, FE_DRAIN=0), w))
        if not quick or (s, h) in ((3, 2), (3, 3)):
            jobs.append(("restart %d/%d" % (s, h), "MC_restart.cfg", dict(base, FE_DRAIN=1), w))
    if not quick and not handback:
        # the proposed repair, model-checked under the documented loop (informational: says the fix is sound)
        for (s, h) in ((3, 2), (5, 2), (3, 3), (7, 3)):
            jobs.append(("doc+repair %d/%d" % (s, h), "MC_strict.cfg",
                         {"FE_SIZE": s, "FE_SHIFT": h, "FE_HANDBACK": 1, "FE_DRAIN": 0}, w))
    want_always = {("proc", "keep"), ("proc", "noroom"), ("proc", "raw-create-all"), ("proc", "raw-create-limited"),
                   ("proc", "ovf-create-all"), ("proc", "ovf-create-limited"), ("count", ""), ("end", "")}
    with concurrent.futures.ThreadPoolExecutor(max_workers=max(1, 16 // w)) as pool:
        for name, cfg, env, r in pool.map(mc_job, jobs):
            if r.violated or r.rc != 0:
                raise tlc.ModelError("FeChunkImpl does not refine FrameStream in %s (%s): %s\n%s" %
                                     (name, cfg, r.violated, r.out[-2500:]))
            cov = set(re.findall(r'<<"COV", "(\w+)", "([\w-]*)">>', r.out))
            want = set(want_always)
            if env["FE_SIZE"] >= env["FE_SHIFT"] + 2 or (not env["FE_HANDBACK"] and env["FE_SIZE"] > env["FE_SHIFT"]):
                want |= {("proc", "ovf-append-all"), ("proc", "ovf-append-limited")}
            if "restart" in name:
                want.add(("start", ""))
            if not want <= cov:
                raise tlc.ModelError("vacuous model run %s: never reached %s" % (name, sorted(want - cov)))
            rep.add_tlc("MC_fe/%s [%s]" % (cfg, name), r)
    rep.notes["exhaustive_bounds"] = {"pairs": ["%d/%d" % p for p in pairs], "chunk_lengths": "0..2*Size+Shift+1", "max_out": "0..3",
                      "stream": "<= 4*Size samples", "protocols": ["drain", "doc"]}

    phases["model_checking"] = round(time.time() - t0, 1)
    t0 = time.time()
    # ---- 2. schedules from the model, real constants -------------------------------------------------
    cfgs = [c for c in CONFIGS if quick is False or c[2] == "quick"]
    sizes = {}
    for c in cfgs:
        sizes[c[0]] = harness_info(drv, c[1])
    by_pair = collections.defaultdict(list)
    for c in cfgs:
        by_pair[sizes[c[0]]].append(c)
    sims = []
    n_small, n_big = (10, 2) if quick else (60, 8)
    for pi, ((size, shift), cl) in enumerate(sorted(by_pair.items())):
        for qi, proto in enumerate(("drain", "doc")):
            seed = ctx.seed * 7919 + pi * 16 + qi * 4
            sims.append((size, shift, proto, handback, 14 * size + 5 * shift, 12, False, n_small * len(cl), seed))
            # chunks far longer than the internal buffers: on every framing in thorough, on three in quick
            if shift >= 80 and (not quick or (size, shift) in ((410, 160), (205, 80), (160, 160))):
                sims.append((size, shift, proto, handback, 150000, 7, True, n_big * (1 if quick else len(cl)), seed + 1))
    scheds = {}
    with concurrent.futures.ThreadPoolExecutor(max_workers=12) as pool:
        for key, sch, r in pool.map(sim_job, sims):
            scheds[key] = sch
            rep.add_tlc("FeSim(%d/%d,%s%s)" % (key[0], key[1], key[2], ",long" if key[3] else ""), r, mode="simulation")
    # the empty stream and the shortest streams, always
    for (size, shift), cl in by_pair.items():
        for proto in ("drain", "doc"):
            for n in (0, 1, size - 1, size, size + shift):
                calls = ([{"op": "proc", "n": n, "m": UNLIMITED, "ret": full(n, size, shift), "left": 0,
                           "novf": n - full(n, size, shift) * shift, "br": ""}] if n else [])
                calls.append({"op": "end", "n": 0, "m": 1, "ret": 1 if nf(n, size, shift) > full(n, size, shift) else 0,
                              "left": 0, "novf": 0, "br": ""})
                scheds[(size, shift, proto, False)].append({"calls": calls, "total": n, "frames": nf(n, size, shift),
                                                            "canon": True, "nf": nf(n, size, shift), "proto": proto,
                                                            "size": size, "shift": shift})

    phases["schedule_generation"] = round(time.time() - t0, 1)
    t0 = time.time()
    # ---- 3. executions: schedule x configuration (round robin within the framing) x signal x encoding ----
    execs = []
    predicted_loss = 0
    sigseeds = [rng.randrange(0, 40000) for _ in range(3)]
    for (size, shift, proto, big), sch in sorted(scheds.items()):
        cl = by_pair[(size, shift)]
        for k, s in enumerate(sch):
            cfg = cl[k % len(cl)]
            if not s["canon"]:
                predicted_loss += 1
            sigseed = sigseeds[k % len(sigseeds)]
            for sig in SIGNALS:
                for enc in ("i", "f"):
                    if big and quick and (sig, enc) not in (("speech", "i"), ("noise", "f"), ("clipped", "i"), ("ramp", "i"), ("ramp", "f")):
                        continue
                    eid = "%s-%s%s-%d#%s-%s" % (cfg[0], proto, "-long" if big else "", k, sig, enc)
                    # two out of three schedules run on a USED object: fe_start after another utterance that was completed (1) or
                    # abandoned with samples still buffered, no fe_end (2)
                    execs.append(Exec(eid, cfg, s, sig, sigseed, enc, warm=k % 3))
    rep.notes["schedules"] = sum(len(v) for v in scheds.values())
    rep.notes["schedules_model_predicts_frame_loss"] = predicted_loss
    done = judge(ctx, drv, execs, handback, sizes)
    phases["execution_and_trace_validation"] = round(time.time() - t0, 1)

    # ---- 4. spec -> code comparison (diagnostic) and coverage accounting --------------------------------
    mismatch, first_mm = 0, None
    branches = collections.Counter()
    for ex, lines in done:
        evs = [json.loads(x) for x in lines]
        rep.evaluations += len(evs) - 1
        pred = [c for c in ex.sched["calls"] if c["op"] == "proc"]
        act = [e for e in evs if e["e"] == "Proc" and e["by"] == "script"]
        for c in pred:
            branches[c["br"]] += 1
        cmp_ev = [e for e in evs if e["e"] == "Cmp"]
        end_ev = [e for e in evs if e["e"] == "End"]
        end_pred = [c for c in ex.sched["calls"] if c["op"] == "end"]
        differs = (len(pred) != len(act) or any(e["by"] != "script" for e in evs if e["e"] == "Proc")
                   or not cmp_ev or cmp_ev[0]["frames"] != ex.sched["frames"]
                   or not end_ev or not end_pred or end_ev[0]["ret"] != end_pred[0]["ret"])
        for c, e in zip(pred, act):
            if (c["n"], c["ret"], c["left"], c["novf"]) != (e["n"], e["ret"], e["left"], e["novf"]):
                differs = True
                if first_mm is None:
                    first_mm = {"execution": ex.eid, "predicted": {k: c[k] for k in ("n", "m", "ret", "left", "novf")},
                                "observed": {k: e[k] for k in ("n", "max_out", "ret", "left", "novf")}}
                break
        mismatch += 1 if differs else 0
        labels = {c["br"] for c in pred}
        if len(pred) >= 3 and len(labels & {"ovf-append-limited", "ovf-append-all", "ovf-create-limited", "raw-create-limited"}) >= 2:
            rep.nontrivial.add((ex.cfg[0], ex.sched["proto"], json.dumps(ex.sched["calls"], sort_keys=True)))
    rep.notes["executions_differing_from_model_prediction"] = mismatch
    if first_mm:
        rep.notes["first_prediction_mismatch"] = first_mm
    rep.notes["calls_by_mechanism_branch"] = dict(branches)
    rep.notes["configurations"] = {c[0]: "%s -> %d/%d" % (c[1] or "(defaults)", sizes[c[0]][0], sizes[c[0]][1]) for c in cfgs}
    need = {"keep", "noroom", "raw-create-all", "raw-create-limited", "ovf-create-all", "ovf-create-limited",
            "ovf-append-all", "ovf-append-limited"}
    # (executions that crashed are violations already and are not among the completed ones counted here: a branch that is
    # missing because every call taking it crashed is a finding, not a vacuous run)
    if not need <= set(branches) and not rep.violations:
        raise tlc.ModelError("schedules never reached mechanism branch(es) %s" % sorted(need - set(branches)))
    for ex, lines in done[:1] + done[len(done) // 2:len(done) // 2 + 1] + done[-1:]:
        evs = [json.loads(x) for x in lines]
        rep.sample({"execution": ex.eid, "calls": [[e["n"], e["max_out"], e["ret"], e["left"]] for e in evs if e["e"] == "Proc"][:8],
                    "cmp": [e for e in evs if e["e"] == "Cmp"][0] if any(e["e"] == "Cmp" for e in evs) else None})
    rep.rule = ("executions = chunk schedules generated by tlc -simulate on FeChunkImpl with the real (Size, Shift) of each "
                "front-end configuration, each run on 3 signals x 2 encodings and compared bitwise with the one-call "
                "reference; non-trivial = distinct (configuration, protocol, schedule) with >= 3 processing calls that "
                "reach >= 2 different output-limited / append branches of the overflow mechanism")
