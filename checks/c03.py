"""C03 - see checks/c01.py (shared machinery, clause selection WHICH=C03)."""
from checks import c01


def run(ctx):
    c01.run_which(ctx, "C03")
