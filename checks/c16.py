"""C16 - dictionary additions take effect and never disturb existing entries; rejected additions report
failure and leave the dictionary unchanged.

  1. TLC, exhaustive: DictImpl (decoder_add_word / dict_add_word / dict2pid_add_word transcribed in their
     order of operations: growth by reallocation, slot written before the decision, base lookup, alternate
     link, hash registration, lazy context tables, search re-initialisation) refines DictAbs with
     Deviations = {} (the intended design); each switch that makes the model behave like the code as
     written ("RelinkFirst", "EmptyWord", "EmptyPron", "PronBuf") must break the invariant it names.
  2. TLC exports the complete labelled state graph of small instances; tours covering every
     (dictionary state, addition) edge become scripts for harness/dict/dict_drv.c, instantiated with real
     spellings (fresh words, pre-existing words of tests/data/turtle.dic, case variants) and real phones.
  3. The scripts run through decoder_add_word on a REAL decoder (one process per execution, so a crash is
     attributed to the call that caused it); after every call the driver logs the return value and, for every
     spelling in play, decoder_lookup_word, id, pronunciation, stored spelling, base and the alternate links.
     Added to the tours: probes of every input class, seeded random histories, runs that grow the table past
     its preallocation (S3DICT_INC_SZ) and re-verify every entry, and runs that USE the new words: JSGF
     grammar, alignment text, decode of tests/data/goforward.raw (hypothesis must name base spellings).
  4. Every recorded execution is validated event by event by TLC against DictAbs (DictTrace.tla).

Three clauses go beyond "lookup returns it" (all evaluated by TLC on the recorded events):
  * the pronunciation of an addition is DictAbs!PhoneTokens of the BYTES handed over, so every layout of the same
    phones (leading/trailing/repeated blanks, tabs, CR, LF - probed one by one and mixed into all generated
    executions) is the same abstract addition; PhoneParse.tla (the tokeniser loop, iteration by iteration) refines it
    for every string of a small alphabet;
  * an accepted word is REALISED by its pronunciation (DictAbs!Realised): the word-boundary context tables the
    search will read for it hold, for every neighbouring phone, the model definition's triphone of ITS first/last
    phone in that context - the driver compares decoder_t.d2p with bin_mdef_phone_id_nearest after every addition
    and over the whole dictionary at every scan; DictImpl carries what each lazily filled table was filled from;
  * a dictionary is a value (DictAbs!SameValue/SameResult): a TWIN decoder whose dictionary FILE holds the loaded
    file plus the added words has the same entries and gives the same hypothesis, score and segmentation for the
    same grammar / alignment text and audio.

An input class that already fails in its probe (a finding, reported under its own key) is left out of the
tours and random histories of the same run - a rejected addition is a no-op of the model, so the remaining
path is still a path of the model - so that one open finding does not hide everything behind it.
"""
import os, random, json, re, concurrent.futures, collections
from vlib import sut, tlc, tours, tracecheck, runner

SPEC = os.path.join(os.path.dirname(os.path.dirname(os.path.abspath(__file__))), "specs", "dict")
EXEC_TIMEOUT = int(os.environ.get("C16_EXEC_TIMEOUT", "240"))
# processes / TLC runs at a time: the defaults are for a 16-core machine; C16_PAR=n (n < 12) scales them down when the
# machine is shared (results do not depend on it)
PAR = max(1, min(12, int(os.environ.get("C16_PAR", "12"))))


def scaled(n):
    return max(1, n * PAR // 12)
EMITTING = ("init", "add", "check", "scan", "jsgf", "align")
WS = b" \t\r\n"


# ---------------------------------------------------------------------------------------------------------
# planning / diagnosis replica of DictAbs (never decides a violation: TLC does; this names it and plans inputs)
def is_alt(s):
    n = len(s)
    return n >= 3 and s[-1] == 41 and any(s[j] == 40 for j in range(1, n - 1))


def base_str(s):
    return s[:max(j for j in range(1, len(s) - 1) if s[j] == 40)]


def canon(nocase, s):
    return bytes(c - 32 if 97 <= c <= 122 else c for c in s) if nocase else s


def tokens(raw):
    return [t.decode("latin-1") for t in re.split(rb"[ \t\r\n]+", raw) if t]


class PyDict:
    def __init__(self, nocase, phones, n, entries):
        """entries: iterable of (id, spelling bytes, pron tuple, base id)"""
        self.nocase, self.phones, self.n = nocase, set(phones), n
        self.ent = {}
        for i, sp, pron, base in entries:
            self.ent.setdefault(canon(nocase, sp), {"id": i, "sp": sp, "pron": tuple(pron), "base": base})

    def copy(self):
        d = PyDict(self.nocase, self.phones, self.n, [])
        d.ent = dict(self.ent)
        return d

    def has(self, s):
        return canon(self.nocase, s) in self.ent

    def get(self, s):
        return self.ent.get(canon(self.nocase, s))

    def classify(self, s, toks):
        """(accepted?, input class, every-phone-name-is-one-letter?)"""
        one = bool(toks) and all(len(t) == 1 for t in toks)
        if s == b"":
            cls = "empty-word"
        elif not toks:
            cls = "empty-pron"
        elif any(t not in self.phones for t in toks):
            cls = "unknown-phone"
        elif self.has(s):
            cls = "duplicate-alternate" if is_alt(s) else "duplicate"
        elif is_alt(s) and not self.has(base_str(s)):
            cls = "alternate-without-base"
        else:
            cls = "new-alternate" if is_alt(s) else "new-word"
        return cls in ("new-alternate", "new-word"), cls, one

    def excluded(self, s, toks, broken):
        ok, cls, one = self.classify(s, toks)
        return cls in broken or (one and "one-letter-phones" in broken)

    def add(self, s, toks):
        ok, cls, one = self.classify(s, toks)
        if not ok:
            return -1, cls
        i = self.n
        base = self.get(base_str(s))["id"] if is_alt(s) else i
        self.ent[canon(self.nocase, s)] = {"id": i, "sp": s, "pron": tuple(toks), "base": base}
        self.n += 1
        return i, cls

    def alts_of(self, b):
        return {e["id"] for e in self.ent.values() if e["base"] == b and e["id"] != b}

    def reported_as(self, s):
        b = self.get(s)["base"]
        for e in self.ent.values():
            if e["id"] == b:
                return e["sp"]
        return None


_DICT_CACHE = {}


def load_plan_dict(name):
    """spellings+pronunciations of the dictionary the decoder will load (planning only)"""
    if name in _DICT_CACHE:
        return _DICT_CACHE[name]
    paths = [os.path.join(sut.REPO, "tests/data/turtle.dic") if name == "turtle"
             else os.path.join(sut.REPO, "model/en-us/dict.txt"), os.path.join(sut.REPO, "model/en-us/noisedict.txt")]
    words = []
    for p in paths:
        with open(p, "rb") as f:
            for ln in f:
                if ln.startswith(b"##") or ln.startswith(b";;"):
                    continue
                parts = ln.split()
                if len(parts) >= 2:
                    words.append((parts[0], tuple(x.decode("latin-1") for x in parts[1:])))
    for w in (b"<s>", b"</s>", b"<sil>"):
        words.append((w, ("SIL",)))
    _DICT_CACHE[name] = words
    return words


def plan_dict(name, nocase, phones):
    d = PyDict(nocase, phones, 0, [])
    for sp, pron in load_plan_dict(name):
        if d.has(sp) or (is_alt(sp) and not d.has(base_str(sp))) or any(t not in d.phones for t in pron):
            continue
        i = d.n
        d.ent[canon(nocase, sp)] = {"id": i, "sp": sp, "pron": pron, "base": d.get(base_str(sp))["id"] if is_alt(sp) else i}
        d.n += 1
    return d


# ---------------------------------------------------------------------------------------------------------
# executions
class Exec:
    def __init__(self, eid, dictname, dcase, pool, cmds):
        self.id, self.dictname, self.dcase, self.pool, self.cmds = eid, dictname, dcase, list(pool), list(cmds)

    def nocase(self):
        return self.dcase == "1"

    def sid(self, s):
        return self.pool.index(s) + 1

    def render(self):
        out = ["# exec %s" % self.id, "nosp"]
        out += ["sp %d %s" % (i + 1, s.hex() if s else "-") for i, s in enumerate(self.pool)]
        out.append("init %s %s" % (self.dictname, self.dcase))
        for c in self.cmds:
            if c[0] == "add":
                out.append("add %d %d %s" % (c[1], c[2], c[3].hex() if c[3] else "-"))
            elif c[0] == "watch":
                out.append("watch " + " ".join(map(str, c[1])))
            elif c[0] in ("jsgf", "align"):
                out.append("%s %d %d %s" % (c[0], c[1], c[2], " ".join(map(str, c[3]))))
            else:
                out.append(c[0])
        out.append("end")
        return out

    def emitting(self):
        """indices into self.cmds of the commands that write an event (event 0 is the Header of init)"""
        return [i for i, c in enumerate(self.cmds) if c[0] in EMITTING]

    def without(self, cmd_index, tag):
        return Exec(self.id + tag, self.dictname, self.dcase, self.pool,
                    self.cmds[:cmd_index] + self.cmds[cmd_index + 1:])


def parse_script(text, eid="replay"):
    pool, cmds, dictname, dcase = [], [], "turtle", "-"
    for ln in text.splitlines():
        p = ln.split()
        if not p or p[0].startswith("#") or p[0] in ("nosp", "end"):
            continue
        if p[0] == "sp":
            pool.append(b"" if p[2] == "-" else bytes.fromhex(p[2]))
        elif p[0] == "init":
            dictname, dcase = p[1], p[2]
        elif p[0] == "add":
            cmds.append(("add", int(p[1]), int(p[2]), b"" if p[3] == "-" else bytes.fromhex(p[3])))
        elif p[0] == "watch":
            cmds.append(("watch", [int(x) for x in p[1:]]))
        elif p[0] in ("jsgf", "align"):
            cmds.append((p[0], int(p[1]), int(p[2]), [int(x) for x in p[3:]]))
        elif p[0] in ("check", "scan"):
            cmds.append((p[0],))
        else:
            raise tlc.ModelError("unknown script line: " + ln)
    return Exec(eid, dictname, dcase, pool, cmds)


class Result:
    def __init__(self, ex, lines, run, skipped=False):
        self.ex, self.lines, self.run, self.skipped = ex, lines, run, skipped
        self.crashed = run.rc != 0
        self.hung = run.rc == 124
        if self.hung:
            HANGS.append(ex.id)

    def crash_cmd(self):
        """index into ex.cmds of the command that did not finish (None: the crash was in init/teardown)"""
        em = self.ex.emitting()
        k = len(self.lines) - 1          # events written after the Header
        if len(self.lines) == 0:
            return None
        return em[k] if k < len(em) else None


HANGS = []          # executions that ran into the timeout; after three, nothing more is started


def run_one(drv, ex, work, force=False):
    if len(HANGS) >= 3 and not force:
        return Result(ex, [], runner.Run(0, "", ""), skipped=True)
    path = os.path.join(work, "t_%s_%d.ndjson" % (re.sub(r"[^A-Za-z0-9_.-]", "_", ex.id), os.getpid()))
    # once three executions have timed out, confirmation runs only get a short while (their verdict lies before the hang)
    r = runner.run(drv, [path, sut.REPO], "\n".join(ex.render()) + "\n",
                   timeout=EXEC_TIMEOUT if len(HANGS) < 3 else min(EXEC_TIMEOUT, 30), leaks=False)
    lines = []
    if os.path.exists(path):
        with open(path) as f:
            lines = [l for l in f.read().split("\n") if l]
        os.unlink(path)
    if r.rc in (3, 4):
        raise tlc.ModelError("harness failed on %s: %s" % (ex.id, r.why()))
    # a torn last line (crash in the middle of a write) is dropped
    while lines:
        try:
            json.loads(lines[-1])
            break
        except ValueError:
            lines.pop()
    return Result(ex, lines, r)


def run_many(drv, execs, work, par=12):
    with concurrent.futures.ThreadPoolExecutor(max_workers=scaled(par)) as pool:
        return list(pool.map(lambda e: run_one(drv, e, work), execs))


# ---------------------------------------------------------------------------------------------------------
# naming a failure (python replica of what DictTrace checks; used for the key and the message only)
def header_dict(h):
    return PyDict(h["nocase"] == 1, h["phones"], h["n0"],
                  [(e[0], bytes(e[1]), tuple(e[2]), e[3]) for e in h["init"]])


def obs_mismatch(d, sp, obs, focus=None):
    """first observation that is not what dictionary d says: (kind, sid) or None"""
    for o in obs:
        s = sp[o[0] - 1]
        e = d.get(s)
        mine = focus is not None and canon(d.nocase, s) == canon(d.nocase, focus)
        if e is None:
            if o[1] != -1 or o[2] != 0:
                return ("adds-entry" if not mine else "enters-word", o[0])
            continue
        if o[1] == -1 or o[2] == 0:
            return ("loses-entry" if not mine else "word-not-found", o[0])
        if o[1] != e["id"] or bytes(o[5]) != e["sp"]:
            return ("changes-identity" if not mine else "wrong-identity", o[0])
        if tuple(o[3]) != e["pron"] or tuple(o[4]) != e["pron"]:
            return ("changes-pronunciation" if not mine else "wrong-pronunciation", o[0])
        if o[6] != e["base"]:
            return ("changes-base" if not mine else "wrong-base", o[0])
    for o in obs:
        e = d.get(sp[o[0] - 1])
        if e is not None and (len(o[7]) != len(set(o[7])) or set(o[7]) != d.alts_of(e["base"])):
            return ("relinks-chain", o[0])
    return None


def classify_events(lines):
    """Replay the recorded events on the replica.  Returns (per-event info list, first mismatch (index, key, text))."""
    evs = [json.loads(l) for l in lines]
    if not evs or evs[0]["e"] != "Header":
        return [], None
    h = evs[0]
    d = header_dict(h)
    sp = [bytes(x) for x in h["sp"]]
    info, first = [None], None

    def note(i, key, text):
        nonlocal first
        if first is None:
            first = (i, key, text)

    for i, ev in enumerate(evs[1:], 1):
        if ev["e"] == "Add":
            s = sp[ev["s"] - 1]
            raw = bytes(ev["raw"])
            if tokens(raw) != ev["toks"]:
                raise tlc.ModelError("driver and checker cut the phone string %r differently: %r" % (raw, ev["toks"]))
            padded = raw != " ".join(ev["toks"]).encode()
            ok, cls, one = d.classify(s, ev["toks"])
            pre = ("add:" if ok else "reject:") + cls
            info.append({"kind": "add", "ok": ok, "cls": cls, "n_before": d.n, "padded": padded})
            exp, _ = d.add(s, ev["toks"])
            c = ev["d2p"]
            if (exp >= 0 and ev["ret"] != exp) or (exp < 0 and ev["ret"] >= 0):
                note(i, pre + "-wrong-return" + (":padded-phone-string" if padded and ok else ""),
                     "returned %d, the model says %d" % (ev["ret"], exp))
            elif exp >= 0 and not ((c[0] == 0 and c[1] == 0) if len(ev["toks"]) >= 2 else c[2] == 0):
                ph = evs[0]["phones"]
                tri = "%s(%s,%s)" % tuple(ph[x] if 0 <= x < len(ph) else "?" for x in c[3:6])
                note(i, "add:not-realised-by-its-pronunciation",
                     "the context tables the search reads for the new word differ from the model definition's triphones of its "
                     "pronunciation for %s left / %s right / %s single-phone contexts, first %s"
                     % (c[0], c[1], c[2], tri))
            elif ev["n"] != d.n:
                note(i, pre + "-changes-count", "dictionary size %d, the model says %d" % (ev["n"], d.n))
            else:
                m = obs_mismatch(d, sp, ev["obs"], focus=s if ok else None)
                if m:
                    note(i, pre + "-" + m[0], "spelling #%d %r observed differently from the model" % (m[1], sp[m[1] - 1][:40]))
        elif ev["e"] == "Check":
            info.append({"kind": "check"})
            m = obs_mismatch(d, sp, ev["obs"])
            pre = "load:initial-dictionary-" if i == 1 else "check:"     # nothing was added yet at event 1
            if ev["n"] != d.n:
                note(i, pre + "changes-count", "dictionary size %d, the model says %d" % (ev["n"], d.n))
            elif m:
                note(i, pre + m[0], "spelling #%d %r observed differently from the model" % (m[1], sp[m[1] - 1][:40]))
        elif ev["e"] == "Scan":
            info.append({"kind": "scan"})
            if ev["n"] != d.n or ev["selfmap"] != d.n:
                note(i, "scan:spelling-does-not-map-to-its-id", "n=%d selfmap=%d model n=%d" % (ev["n"], ev["selfmap"], d.n))
            elif ev["presum"] != h["presum"]:
                note(i, "scan:initial-entries-changed", "digest of the entries loaded at start changed")
            elif ev["d2pbad"] != 0:
                note(i, "scan:entry-not-realised-by-its-pronunciation",
                     "%d entries whose context tables differ from the model definition's triphones of their pronunciation" % ev["d2pbad"])
        elif ev["e"] == "Use":
            k = ev["kind"]
            info.append({"kind": k, "dec": ev["dec"]})
            ws = [sp[x - 1] for x in ev["words"]]
            absent = {x for x in ev["words"] if not d.has(sp[x - 1])}
            tw = ev["twin"]
            if set(ev["absent"]) != absent:
                note(i, "use:%s-word-presence" % k, "words absent %s, the model says %s" % (ev["absent"], sorted(absent)))
            elif not absent and (ev["called"] != 1 or ev["ret"] != 0):
                note(i, "use:%s-present-words-not-loadable" % k, "returned %d" % ev["ret"])
            elif absent and k == "align" and ev["ret"] == 0:
                note(i, "use:align-absent-word-accepted", "returned 0")
            elif tw and tw[0] == 1 and (tw[1] != d.n or tw[2] != d.n):
                note(i, "use:file-dictionary-differs-from-additions",
                     "a dictionary file holding the loaded file plus the added words gives %d entries, %d of the %d live "
                     "entries are in it unchanged" % (tw[1], tw[2], d.n))
            elif tw and tw[0] == 1 and tw[3] != tw[4]:
                def show(r):
                    return "ret %d hyp %r score %d seg %s" % (r[0], b" ".join(bytes(x) for x in r[1][2])[:60], r[1][1],
                                                            [(bytes(x[0]).decode("latin-1")[:12], x[1], x[2], x[3]) for x in r[1][3]][:8])
                note(i, "use:result-differs-from-file-dictionary",
                     "words added at run time: %s; the same words read from the dictionary file: %s" % (show(tw[3]), show(tw[4])))
            elif ev["called"] == 1 and ev["ret"] == 0 and ev["dec"] >= 1:
                if ev["hf"] == 0:
                    if ev["expect"] == 1:
                        note(i, "use:%s-decode-no-hypothesis" % k, "no hypothesis for audio that says these words")
                else:
                    hyp = [bytes(x) for x in ev["hyp"]]
                    seg = [bytes(x) for x in ev["seg"]]
                    if hyp != [d.reported_as(w) for w in ws]:
                        note(i, "use:%s-hypothesis-not-base-spelling" % k, "hypothesis %r" % (b" ".join(hyp)[:80],))
                    elif len(seg) != len(ws) or any(not d.has(x) or d.get(x)["base"] != d.get(w)["base"] for x, w in zip(seg, ws)):
                        note(i, "use:%s-segmentation-names-other-word" % k, "segmentation %r" % (b" ".join(seg)[:80],))
            if first is None or first[0] != i:
                m = obs_mismatch(d, sp, ev["obs"])
                if ev["n"] != d.n or m:
                    note(i, "use:%s-changes-dictionary" % k, "dictionary observed differently after the call")
        else:
            info.append(None)
    return info, first


def cmd_class(ex, res, cmd_index):
    """input class of command cmd_index of ex, given the events recorded before it"""
    c = ex.cmds[cmd_index]
    if c[0] != "add":
        return None, "use:%s-crash" % c[0] if c[0] in ("jsgf", "align") else "crash:" + c[0]
    evs = [json.loads(l) for l in res.lines]
    d = header_dict(evs[0])
    sp = [bytes(x) for x in evs[0]["sp"]]
    for ev in evs[1:]:
        if ev["e"] == "Add":
            d.add(sp[ev["s"] - 1], ev["toks"])
    ok, cls, one = d.classify(ex.pool[c[1] - 1], tokens(c[3]))
    if one:
        cls = "one-letter-phones"
    return cls, ("add:" if ok else "reject:") + cls + "-crash"


# ---------------------------------------------------------------------------------------------------------
# input material
GOFWD = [("go", ["G", "OW"]), ("forward", ["F", "AO", "R", "W", "ER", "D"]), ("ten", ["T", "EH", "N"]),
         ("meters", ["M", "IY", "T", "ER", "Z"])]
JSGF_RESERVED = {b"grammar", b"public", b"import", b"NULL", b"VOID"}


def jsgf_safe(s):
    return re.fullmatch(rb"[A-Za-z0-9_]+", s) is not None and s not in JSGF_RESERVED


def align_safe(s):
    return len(s) > 0 and not any(c in WS or c in b"\v\f" for c in s)


def fresh_word(rng, plan, taken, lo=3, hi=9):
    while True:
        w = bytes(rng.choice(b"bcdfghjklmnpqrstvwxz") if i % 2 == 0 else rng.choice(b"aeiou") for i in range(rng.randint(lo, hi)))
        w = b"q" + w   # no word of the bundled dictionaries starts with q + consonant
        if not plan.has(w) and not plan.has(w.upper()) and w not in taken:
            taken.add(w)
            return w


def rand_pron(rng, phones, n, avoid_one_letter):
    multi = [p for p in phones if len(p) > 1 and not p.startswith("+") and p != "SIL"]
    real = [p for p in phones if not p.startswith("+") and p != "SIL"]
    while True:
        t = [rng.choice(real) for _ in range(n)]
        if avoid_one_letter and all(len(x) == 1 for x in t):
            t[rng.randrange(n)] = rng.choice(multi)
        return t


# layouts of a phone string: (name, before the first phone, between phones, after the last one); each of them names
# the same pronunciation as the phones joined by single blanks (DictAbs!PhoneTokens)
LAYOUTS = [("plain", "", " ", ""), ("trail-blank", "", " ", " "), ("trail-newline", "", " ", "\n"),
           ("trail-two-blanks", "", " ", "  "), ("trail-crlf", "", " ", "\r\n"), ("trail-blank-newline", "", " ", " \n"),
           ("trail-tab-blank-tab", "", " ", "\t \t"), ("trail-many", "", " ", " \r\n\t  \n"), ("lead-blank", " ", " ", ""),
           ("lead-tab-blanks", "\t  ", " ", ""), ("lead-newline", "\r\n", " ", ""), ("wide", "", "   ", ""),
           ("tabs", "", "\t", ""), ("newlines", "\n", "\n", "\n\n"), ("crlf-between", "", "\r\n", "\r\n\r\n"),
           ("mixed", " ", " \t ", " \r\n"), ("both-ends", " ", " ", " \n")]
BROKEN = set()      # input classes that failed in the probes (shared with the Driver)


def lay_out(toks, lay):
    return (lay[1] + lay[2].join(toks) + lay[3]).encode()


def join_phones(rng, toks, fancy=False):
    if not fancy or "padded-phone-string" in BROKEN:
        return " ".join(toks).encode()
    if rng.random() < 0.5:
        return lay_out(toks, rng.choice(LAYOUTS[1:]))
    seps = [" ", "  ", "\t", " \t ", "\n", "\r\n", "\n \n"]
    ends = ["", " ", "\n", "  ", "\r\n", " \n", "\t\t", " \t\r\n "]
    s = rng.choice(["", " ", "\t", "  ", "\r\n "]) + toks[0] if toks else rng.choice([" ", "\t ", "  ", "\r\n"])
    for t in toks[1:]:
        s += rng.choice(seps) + t
    return (s + rng.choice(ends)).encode()


def bad_pron(rng, phones, avoid_one_letter):
    good = rand_pron(rng, phones, rng.randint(1, 3), True)
    bad = rng.choice(["XX", "ah", "SILL", "A_", "aa", "+nsn+", "Q9"])
    t = list(good)
    t.insert(rng.randint(0, len(t)), bad)
    return t


# ---- probes: one small execution per input class ------------------------------------------------------------
def probe_execs(rng, plan, phones):
    out = []
    taken = set()
    for u in (0, 1):
        for cls in ("new-word", "new-alternate", "duplicate", "duplicate-alternate", "alternate-without-base",
                    "unknown-phone", "empty-word", "empty-pron", "one-letter-phones"):
            if u and cls in ("duplicate-alternate", "empty-word", "empty-pron", "one-letter-phones"):
                continue           # (the update flag is looked at after dict_add_word; one verdict per class is enough)
            f, g = fresh_word(rng, plan, taken), fresh_word(rng, plan, taken)
            pool = [f, f + b"(2)", f + b"(3)", g, g + b"(2)", b"", b"go", b"ten", b"hundred", b"hundred(2)", b"hundred(3)", b"hundred(4)"]
            ex = Exec("probe-%s-u%d" % (cls, u), "turtle", "-", pool, [])
            S = ex.sid
            P = lambda n=3: join_phones(rng, rand_pron(rng, phones, n, True))
            c = ex.cmds
            c.append(("check",))
            if u:
                c.append(("jsgf", 0, 0, [S(b"go"), S(b"ten")]))
            c.append(("add", S(f), u, P(2)))
            c.append(("add", S(f + b"(2)"), u, P(4)))
            if cls == "new-word":
                c.append(("add", S(g), u, P(1)))
                c.append(("add", S(g + b"(2)"), u, P(7)))
            elif cls == "new-alternate":
                c.append(("add", S(f + b"(3)"), u, P(1)))
                c.append(("add", S(b"hundred(4)"), u, P(3)))      # a new alternate of a word loaded from the file
            elif cls == "duplicate":
                c.append(("add", S(f), u, P(3)))
                c.append(("add", S(b"go"), u, P(2)))
            elif cls == "duplicate-alternate":
                c.append(("add", S(f + b"(2)"), u, P(3)))
            elif cls == "alternate-without-base":
                c.append(("add", S(g + b"(2)"), u, P(3)))
            elif cls == "unknown-phone":
                c.append(("add", S(g), u, join_phones(rng, bad_pron(rng, phones, True))))
                c.append(("add", S(f + b"(3)"), u, b"AH xx"))
            elif cls == "empty-word":
                c.append(("add", S(b""), u, P(2)))
            elif cls == "empty-pron":
                c.append(("add", S(g), u, b""))
            elif cls == "one-letter-phones":
                c.append(("add", S(g), u, b"T"))
            # ... and life goes on after it
            if cls not in ("new-word", "duplicate-alternate"):
                c.append(("add", S(g), u, P(3)))
            if cls not in ("new-alternate", "duplicate-alternate"):
                c.append(("add", S(f + b"(3)"), u, P(2)))
            if cls == "duplicate-alternate":
                c.append(("add", S(g), u, P(3)))             # the next successful addition after the rejected one
            c.append(("check",))
            c.append(("align", 0, 0, [S(b"go"), S(f), S(g)]))
            c.append(("jsgf", 0, 0, [S(f), S(g), S(b"ten")]))
            c.append(("scan",))
            out.append(ex)
    # pronunciations far longer than any word of a dictionary file has (20 / 100 / 300 phones): the addition takes
    # effect and a lookup returns ALL of it
    for u in (0, 1):
        f, g, h = fresh_word(rng, plan, taken), fresh_word(rng, plan, taken), fresh_word(rng, plan, taken)
        ex = Exec("probe-long-pron-u%d" % u, "turtle", "-", [f, g, h, f + b"(2)", b"go", b"ten"], [])
        S = ex.sid
        P = lambda n=3: join_phones(rng, rand_pron(rng, phones, n, True))
        c = ex.cmds
        c.append(("check",))
        c.append(("add", S(f), u, P(20)))
        c.append(("add", S(g), u, P(100)))
        c.append(("add", S(h), u, P(300)))
        c.append(("add", S(f + b"(2)"), u, P(120)))
        c.append(("check",))
        c.append(("add", S(b"ten"), u, P(3)))
        c.append(("check",))
        c.append(("scan",))
        out.append(ex)
    # where the parenthesis convention begins and ends: "(2)", "w()", "(w)", "w)", "w(x", "x("
    for u in (0, 1):
        f = fresh_word(rng, plan, taken)
        shapes = [b"(2)", b"(" + f + b")", f + b")", f[:2] + b"(" + f[2:], b"x(", f + b"(a)", b"()", b"(", b")"]
        ex = Exec("probe-paren-shapes-u%d" % u, "turtle", "-", [f, f + b"()", f + b"(2)"] + shapes + [b"go", b"ten"], [])
        S = ex.sid
        P = lambda n=3: join_phones(rng, rand_pron(rng, phones, n, True))
        c = ex.cmds
        c.append(("check",))
        if u:
            c.append(("jsgf", 0, 0, [S(b"go"), S(b"ten")]))
        c.append(("add", S(f + b"()"), u, P()))            # alternate without base
        for w in shapes:
            c.append(("add", S(w), u, P(rng.randint(1, 4))))      # plain words, whatever they look like
        c.append(("add", S(f), u, P()))
        c.append(("add", S(f + b"()"), u, P()))            # now an alternate of f
        c.append(("add", S(f + b"(2)"), u, P()))
        c.append(("add", S(b"(2)"), u, P()))               # duplicate (not an alternate of anything)
        c.append(("check",))
        c.append(("align", 0, 0, [S(f), S(b"(2)"), S(b"(" + f + b")"), S(f + b"()")]))
        c.append(("scan",))
        out.append(ex)
    # the remaining shapes of the broken-by-design classes, so that each gets its own verdict
    for i, (w, ph) in enumerate([(b"", b"  "), (None, b" \t "), (None, b"B D"), (None, b"K L M"), (None, b"S")]):
        f = fresh_word(rng, plan, taken)
        ex = Exec("probe-variant-%d" % i, "turtle", "-", [f, b"", b"go"], [])
        ex.cmds += [("check",), ("add", ex.sid(f if w is None else w), 0, ph), ("check",), ("scan",)]
        out.append(ex)
    out += layout_probes(rng, plan, phones, taken)
    out += context_probes(rng, plan, phones, taken)
    return out


def collision_probes(rng, plan, phones, taken, libdir):
    """A new word that CONTINUES an existing one and falls into the same bucket of the dictionary's own hash table (the
    shorter word loaded from the file, or added a moment before): it is a different word and must be added as such.
    The buckets are asked of the real table code (the hash-table harness of C20, a table of the dictionary's size)."""
    from checks import c20
    hdrv = sut.build_harness("hash_drv", ["hash/hash_drv.c"], libdir)
    out = []
    nwords = sum(1 for _ in open(os.path.join(sut.REPO, "tests", "data", "turtle.dic")))
    for i, short in enumerate([fresh_word(rng, plan, taken, 3, 5), b"meters", b"go", fresh_word(rng, plan, taken, 4, 6)]):
        cands = []
        while len(cands) < 40000:
            w = short + bytes(rng.choice(b"abcdefghijklmnopqrstuvwxyz") for _ in range(4))
            if not plan.has(w) and w not in taken:
                cands.append(w)
        same = []
        for k in range(0, len(cands), 15000):       # (the harness holds 20000 keys at a time)
            part = cands[k:k + 15000]
            bks = c20.ask_buckets(hdrv, [short] + part, 0, nwords + 4096, 0)
            same += [c for c, b in zip(part, bks[1:]) if b == bks[0]]
        if not same:
            continue
        long_ = same[0]
        taken.add(long_)
        ex = Exec("probe-prefix-collision-%d" % i, "turtle", "-", [short, long_, b"go", b"ten", b"meters"], [])
        S = ex.sid
        P = lambda n=3: join_phones(rng, rand_pron(rng, phones, n, True))
        c = ex.cmds
        c.append(("check",))
        if not plan.has(short):
            c.append(("add", S(short), 0, P(2)))
        c.append(("add", S(long_), 0, P(3)))
        c.append(("check",))
        c.append(("jsgf", 0, 0, [S(b"go"), S(long_), S(b"ten")]))
        c.append(("align", 0, 0, [S(short), S(long_)]))
        c.append(("scan",))
        out.append(ex)
    if len(out) < 2:
        raise tlc.ModelError("could not construct colliding spellings for the dictionary's table")
    return out


def context_probes(rng, plan, phones, taken):
    """Words whose first two / last two phones begin / end no word of tests/data/turtle.dic, so that the word-initial and
    word-final context tables have to be filled on demand, for every length: 2, 3, 4, 6 phones, then three-phone and
    longer words that find the table of their ending already filled; one-phone words; as words and as alternates.
    The sentences are decoded on the live decoder and on a twin that reads the same words from its dictionary file."""
    out = []
    W = [(b"forwardd", "F AO R W ER D"), (b"fwd", "W ER D"), (b"tenn", "T EH N N"), (b"enn", "EH N N"), (b"mi", "M IY"),
         (b"ten(2)", "T EH N N"), (b"go(2)", "G OW OW"), (b"meters(2)", "M IY T ER ZH"), (b"zhz", "ZH Z"), (b"oyzh", "OY ZH"),
         (b"uhoy", "UH OY ZH"), (b"zh", "ZH"), (b"oy", "OY"), (b"oy(2)", "UH"), (b"thzhth", "TH ZH TH")]
    ends, begs, singles = known_pairs("turtle")
    for w, pr in W[:5] + W[8:10]:
        t = pr.split()
        if (t[-1], t[-2]) in ends or plan.has(w):
            raise tlc.ModelError("tests/data/turtle.dic changed: %r %s no longer has a new ending" % (w, pr))
    for u in (0, 1):
        ex = Exec("probe-context-tables-u%d" % u, "turtle", "-", [w for w, _ in W] + [b"go", b"forward", b"ten", b"meters"], [])
        S = ex.sid
        c = ex.cmds
        c.append(("check",))
        if u:
            c.append(("jsgf", 1, 1, [S(b"go"), S(b"forward"), S(b"ten"), S(b"meters")]))
        for w, pr in W:
            c.append(("add", S(w), u, pr.encode()))
        c.append(("scan",))
        c.append(("jsgf", 2, 1, [S(b"go"), S(b"forwardd"), S(b"tenn"), S(b"meters")]))
        c.append(("align", 2, 0, [S(b"go"), S(b"fwd"), S(b"ten(2)"), S(b"meters(2)")]))
        c.append(("jsgf", 2, 1, [S(b"go"), S(b"forward"), S(b"ten"), S(b"meters")]))      # (through the new alternates)
        c.append(("align", 2, 0, [S(b"zh"), S(b"oy"), S(b"uhoy"), S(b"thzhth"), S(b"oyzh")]))
        c.append(("check",))
        c.append(("scan",))
        out.append(ex)
    return out


def layout_probes(rng, plan, phones, taken):
    """Every layout of LAYOUTS once, on words of 1..6 phones, with and without an active search; a blank-only string
    of every kind is an empty pronunciation.  The sentence of the second execution is decoded on the live decoder and
    on a twin whose dictionary file holds the same words."""
    out = []
    for u in (0, 1):
        ws = [fresh_word(rng, plan, taken) for _ in LAYOUTS]
        e = fresh_word(rng, plan, taken)
        ex = Exec("probe-phone-string-layouts-u%d" % u, "turtle", "-", ws + [e, b"go", b"ten", b"meters", b"forward"], [])
        S = ex.sid
        c = ex.cmds
        c.append(("check",))
        if u:
            c.append(("jsgf", 0, 0, [S(b"go"), S(b"ten")]))
        order = list(range(len(LAYOUTS)))
        rng.shuffle(order)
        for k, li in enumerate(order):
            n = 1 + (k + u) % 6
            toks = rand_pron(rng, phones, n, True) if k != 3 else ["F", "AO", "R", "W", "ER", "D"]
            c.append(("add", S(ws[li]), u, lay_out(toks, LAYOUTS[li])))
            if k == 3:
                fw = ws[li]
        for lay in rng.sample(LAYOUTS[1:], 4):
            c.append(("add", S(e), u, lay_out([], lay) or b" "))          # blanks only: no pronunciation
        c.append(("check",))
        c.append(("align", 0, 0, [S(w) for w in rng.sample(ws, 4)]))
        c.append(("jsgf", 2, 1, [S(b"go"), S(fw), S(b"ten"), S(b"meters")]))
        c.append(("scan",))
        out.append(ex)
    return out


# ---- tours --------------------------------------------------------------------------------------------------
M = {"a": (97,), "a2": (97, 40, 50, 41), "a3": (97, 40, 51, 41), "b": (98,), "b2": (98, 40, 50, 41),
     "b3": (98, 40, 51, 41), "e": (), "xp": (120, 40), "A": (65,), "A2": (65, 40, 50, 41), "a0": (97, 40, 41),
     "p2": (40, 50, 41)}
ONE_ALT_BASES = [b"and", b"are", b"around", b"color", b"eleven", b"exit", b"hello", b"listening", b"one", b"quarter",
                 b"seventy", b"sixteen", b"twenty", b"what"]


def tour_mapping(rng, plan, pre, taken):
    x = fresh_word(rng, plan, taken)
    y = rng.choice(ONE_ALT_BASES) if pre else fresh_word(rng, plan, taken)
    z = fresh_word(rng, plan, taken, 1, 3)
    return {M["a"]: x, M["a2"]: x + b"(2)", M["a3"]: x + b"(3)", M["b"]: y, M["b2"]: y + b"(2)", M["b3"]: y + b"(3)",
            M["e"]: b"", M["xp"]: z + b"(", M["A"]: x.upper(), M["A2"]: x.upper() + b"(2)", M["a0"]: x + b"()",
            M["p2"]: b"(2)"}


def dag_tours(edges, init, max_len, rng):
    """Edge cover for a graph that is a DAG plus self-loops (an accepted addition moves on, a rejected one stays):
    every tour is the shortest path from `init` to a state that still has untaken edges, then, state after state,
    all untaken self-loops followed by one untaken forward edge.  Linear in edges + total tour length (the generic
    greedy cover of tools/vlib/tours.py searches the graph again for every tour)."""
    loops, fwd = collections.defaultdict(list), collections.defaultdict(list)
    for i, (f, a, t) in enumerate(edges):
        (loops if f == t else fwd)[f].append(i)
    for d in (loops, fwd):
        for k in d:
            rng.shuffle(d[k])
    parent, order = {init: None}, [init]
    for s in order:                                   # BFS
        for e in fwd.get(s, []):
            t = edges[e][2]
            if t not in parent:
                parent[t] = e
                order.append(t)

    def path_to(s):
        p = []
        while parent[s] is not None:
            p.append(parent[s])
            s = edges[parent[s]][0]
        return p[::-1]

    result = []
    for s in order:
        while loops.get(s) or fwd.get(s):
            tour, cur = path_to(s), s
            while len(tour) < max_len:
                while loops.get(cur) and len(tour) < max_len:
                    tour.append(loops[cur].pop())
                if not fwd.get(cur) or len(tour) >= max_len:
                    break
                e = fwd[cur].pop()
                tour.append(e)
                cur = edges[e][2]
            result.append(tour)
    left = sum(len(v) for v in loops.values()) + sum(len(v) for v in fwd.values())
    if left:
        raise tlc.ModelError("%d edges of the exported graph are not reachable from its initial state" % left)
    return result


def tour_execs(rng, plan_by_case, phones, cfgs, broken, max_len, variants):
    """cfgs: list of (tag, cfg file, dcase, pre).  Returns (execs, tlc results, n_edges)."""
    execs, results, n_edges = [], [], 0
    avoid1 = "one-letter-phones" in broken
    with concurrent.futures.ThreadPoolExecutor(max_workers=scaled(4)) as tp:
        exported = list(tp.map(lambda c: tlc.run("MC_dict.tla", c[1], SPEC, workers=3, timeout=1500, heap="6g"), cfgs))
    for (tag, cfg, dcase, pre), r in zip(cfgs, exported):
        if r.violated:
            raise tlc.ModelError("tour model %s violated %s" % (cfg, r.violated))
        results.append(("MC_dict.tla/" + cfg, r))
        edges = tours.parse_edges(r.out)
        if not edges:
            raise tlc.ModelError("no edges exported by " + cfg)
        n_edges += len(edges)
        plan0 = plan_by_case[dcase == "1"]
        for v in range(variants):
            roots = {f for f, a, t in edges} - {t for f, a, t in edges if f != t}
            if len(roots) != 1:
                raise tlc.ModelError("exported graph of %s has %d states without predecessor" % (cfg, len(roots)))
            ts = dag_tours(edges, roots.pop(), max_len, random.Random(rng.random()))
            for ti, t in enumerate(ts):
                mp = tour_mapping(rng, plan0, pre, set())       # (every tour has its own decoder: names may repeat)
                one = [p for p in phones if len(p) == 1]
                two = [p for p in phones if len(p) == 2 and not p.startswith("+")]
                # model phone P (one letter) / QQ (two letters) -> real phones; BAD -> a name the model lacks
                ph = {"P": rng.choice(two if avoid1 or rng.random() < 0.5 else one), "QQ": rng.choice(two),
                      "BAD": rng.choice(["XX", "ah", "SILL", "Q9"])}
                extra = rng.sample([w for w, _ in load_plan_dict("turtle")[:105]], 3)
                pool = list(dict.fromkeys(list(mp.values()) + extra + [b"go", b"ten"]))
                ex = Exec("tour-%s-v%d#%d" % (tag, v, ti), "turtle", dcase, pool, [])
                plan = plan0.copy()
                ex.cmds.append(("check",))
                if rng.random() < 0.5:
                    ex.cmds.append(("jsgf", 0, 0, [ex.sid(b"go"), ex.sid(b"ten")]))
                for e in t:
                    a = edges[e][1]
                    s = mp[tuple(a["s"])]
                    toks = [ph[x] for x in a["p"]]
                    raw = join_phones(rng, toks, fancy=rng.random() < 0.3)
                    if plan.excluded(s, toks, broken):
                        continue
                    plan.add(s, toks)
                    ex.cmds.append(("add", ex.sid(s), int(rng.random() < 0.4), raw))
                ex.cmds.append(("check",))
                present = [s for s in pool if plan.has(s)]
                al = [s for s in present if align_safe(s)]
                if al:
                    ex.cmds.append(("align", 0, 0, [ex.sid(s) for s in rng.sample(al, min(len(al), 4))]))
                ab = [s for s in pool if not plan.has(s) and align_safe(s)]
                if ab and al:
                    ex.cmds.append(("align", 0, 0, [ex.sid(rng.choice(al)), ex.sid(rng.choice(ab))]))
                js = [s for s in present if jsgf_safe(s)]
                if js:
                    ex.cmds.append(("jsgf", 0, 0, [ex.sid(s) for s in rng.sample(js, min(len(js), 3))]))
                ex.cmds.append(("scan",))
                execs.append(ex)
    return execs, results, n_edges


# ---- seeded random histories --------------------------------------------------------------------------------
def random_exec(rng, hi, plans, phones, broken, nops, dictname="turtle"):
    dcase = rng.choice(["-", "0", "1", "1"])
    plan = plans[(dictname, dcase == "1")].copy()
    taken = set()
    avoid1 = "one-letter-phones" in broken
    f1, f2 = fresh_word(rng, plan, taken), fresh_word(rng, plan, taken)
    words = [w for w, _ in load_plan_dict(dictname)] if dictname == "turtle" else \
        [b"hundred", b"hundred(2)", b"hundred(3)", b"go", b"forward", b"ten", b"meters", b"zebra", b"abandon", b"a", b"a(2)"]
    with_alt = [w for w in words if not is_alt(w) and plan.has(w + b"(2)")]
    no_alt = [w for w in words if not is_alt(w) and not plan.has(w + b"(2)") and jsgf_safe(w)]
    e1, e2 = rng.choice(with_alt), rng.choice(no_alt)
    k = 2
    while plan.has(e1 + b"(%d)" % k):
        k += 1
    pool = [f1, f1 + b"(2)", f1 + b"(3)", f1 + b"(10)", f2, f2 + b"(2)", f1.upper(), f1.upper() + b"(2)",
            e1, e1 + b"(2)", e1 + b"(%d)" % k, e1.upper(), e2, e2 + b"(2)", b"go", b"ten"]
    specials = [b"", b"x(", b"(2)", f2 + b"()", b"(" + f2 + b")", f2 + b")", f2[:2] + b"(" + f2[2:],
                "café".encode(), "café(2)".encode(), b'q"uo\\te', b"it's", b"<unk>", b"q" * rng.choice([64, 300, 1000]),
                f1 + b"(two)", b"[" + f1 + b"]"]
    pool += rng.sample(specials, rng.randint(3, 6))
    pool = [s for s in dict.fromkeys(pool) if not (is_alt(s) and is_alt(base_str(s)))]
    ex = Exec("rand-%s-c%s#%d" % (dictname, dcase, hi), dictname, dcase, pool, [])
    ex.cmds.append(("check",))
    if rng.random() < 0.6:
        ex.cmds.append(("jsgf", 0, 0, [ex.sid(b"go"), ex.sid(b"ten")]))
    for _ in range(nops):
        r = rng.random()
        if r < 0.68:
            s = rng.choice(pool)
            q = rng.random()
            if q < 0.66:
                toks = rand_pron(rng, phones, rng.choice([1, 1, 2, 2, 3, 4, 5, 6, 8]), avoid1 or rng.random() < 0.8)
            elif q < 0.70:
                toks = rand_pron(rng, phones, rng.randint(20, 45), True)
            elif q < 0.80:
                toks = bad_pron(rng, phones, True)
            elif q < 0.86:
                toks = []
            elif q < 0.93:
                toks = [rng.choice([p for p in phones if len(p) == 1]) for _ in range(rng.randint(1, 4))]
            else:
                toks = [rng.choice(["SIL", "+NSN+", "+SPN+"])] + rand_pron(rng, phones, 2, True)
            if plan.excluded(s, toks, broken):
                continue
            plan.add(s, toks)
            ex.cmds.append(("add", ex.sid(s), int(rng.random() < 0.4), join_phones(rng, toks, fancy=rng.random() < 0.4)))
        elif r < 0.82:
            ex.cmds.append(("check",))
        elif r < 0.86:
            ex.cmds.append(("scan",))
        elif r < 0.95:
            al = [s for s in pool if align_safe(s) and (plan.has(s) or rng.random() < 0.15)]
            if al:
                ex.cmds.append(("align", int(rng.random() < 0.3), 0, [ex.sid(s) for s in rng.sample(al, min(len(al), rng.randint(1, 4)))]))
        else:
            js = [s for s in pool if jsgf_safe(s) and (plan.has(s) or rng.random() < 0.1)]
            if js:
                ex.cmds.append(("jsgf", int(rng.random() < 0.3), 0, [ex.sid(s) for s in rng.sample(js, min(len(js), rng.randint(1, 3)))]))
    ex.cmds += [("check",), ("scan",)]
    return ex


# ---- growth past the preallocated table -----------------------------------------------------------------------
def growth_exec(rng, gi, plans, phones, broken, dictname, dcase, n0, max0):
    """n0, max0: size and allocation of the freshly loaded dictionary (read from a Header)"""
    plan = plans[(dictname, dcase == "1")].copy()
    room = max0 - n0                                   # successful additions until the table is full
    total = room + 3 + rng.randint(0, 40)
    taken = set()
    stem = fresh_word(rng, plan, taken, 2, 3)
    # spare names: an addition the plan excludes (a pronunciation shape a probe found broken on the tree under test) uses
    # up a name without filling a slot
    gw = [stem + b"%04d" % i for i in range(total * 3 + 64)]
    early = gw[:6]
    nobase = gw[-1] + b"(2)"                           # gw[-1] is never added
    pool = list(gw) + [w + b"(2)" for w in early] + [w + b"(3)" for w in early[:2]] + \
        [nobase, early[0].upper(), b"", b"go", b"ten", b"meters", b"forward", b"hundred", b"hundred(2)", b"hundred(3)",
         b"hundred(4)", b"_forward", b"onward", b"onward(2)"]
    ex = Exec("growth-%s-c%s#%d" % (dictname, dcase, gi), dictname, dcase, pool, [])
    S = ex.sid
    fixed = [S(b"go"), S(b"hundred"), S(b"hundred(3)"), S(early[0]), S(early[0] + b"(2)"), S(early[1])]
    c = ex.cmds
    c.append(("watch", fixed))
    c.append(("check",))
    c.append(("jsgf", 0, 0, [S(b"go"), S(b"ten")]))
    done = []

    def add(s, toks, u=0):
        if plan.excluded(s, toks, broken):
            return
        w = [S(s)] + ([S(base_str(s))] if is_alt(s) else []) + fixed + [S(x) for x in rng.sample(done, min(len(done), 3))]
        c.append(("watch", list(dict.fromkeys(w))))
        c.append(("add", S(s), u, join_phones(rng, toks, fancy=rng.random() < 0.15)))
        if plan.add(s, toks)[0] >= 0:
            done.append(s)

    P = lambda: rand_pron(rng, phones, rng.choice([1, 2, 3, 5]), True)
    i = 0
    while len(done) < total and i < len(gw) - 1:
        left = room - len(done)
        if (left in (2, 1, 0, -1) and i > 8) or rng.random() < 0.004:
            # at the boundary (the table is exactly full when left = 0) and now and then elsewhere:
            # every kind of rejected and of linked addition
            add(early[0], P())                                   # duplicate
            add(early[rng.randrange(6)] + b"(2)", P(), u=1)      # new alternate of an early word, later a duplicate alternate
            add(nobase, P())                                     # alternate without base
            add(early[2], bad_pron(rng, phones, True))           # unknown phone
            add(b"hundred(4)", P())                              # alternate of a loaded word / duplicate alternate
            add(b"", P())
            add(early[1], [])
            c.append(("check",))
        add(gw[i], P(), u=1 if -2 <= left <= 2 else 0)
        i += 1
    if len(done) <= room:
        return None      # the probes found plain additions broken on this tree (reported there): no growth family
    add(early[0] + b"(3)", P(), u=1)                             # base from before the growth, alternate after it
    add(b"_forward", ["F", "AO", "R", "W", "ER", "D"])
    add(b"onward", ["AA", "N", "W", "ER", "D"])
    add(b"onward(2)", ["F", "AO", "R", "W", "ER", "D"], u=1)
    # every entry added is looked at again, in slices
    allw = [S(s) for s in done] + fixed
    for k in range(0, len(allw), 150):
        c.append(("watch", allw[k:k + 150]))
        c.append(("check",))
    c.append(("watch", fixed + [S(b"_forward"), S(b"onward"), S(b"onward(2)"), S(done[0]), S(done[room - 1]), S(done[room])]))
    c.append(("scan",))
    if plan.has(b"_forward") and plan.has(b"meters"):
        c.append(("jsgf", 1, 1, [S(b"go"), S(b"_forward"), S(b"ten"), S(b"meters")]))
    if plan.has(b"onward(2)") and plan.has(b"meters"):
        c.append(("align", 1, 1, [S(b"go"), S(b"onward(2)"), S(b"ten"), S(b"meters")]))
    c.append(("align", 0, 0, [S(b"go"), S(done[room]), S(done[0]), S(done[-1])]))
    c.append(("scan",))
    return ex


_HDR = {}


def initial_header(drv, work, dictname, dcase):
    """Header of a freshly created decoder: phone set, size and allocation of the loaded dictionary"""
    if (dictname, dcase) not in _HDR:
        r = run_one(drv, Exec("size-%s-%s" % (dictname, dcase), dictname, dcase, [], []), work)
        if r.crashed or not r.lines:
            raise tlc.ModelError("cannot create a decoder with dictionary %s: %s" % (dictname, r.run.why()))
        _HDR[(dictname, dcase)] = json.loads(r.lines[0])
    return _HDR[(dictname, dcase)]


def initial_size(drv, work, dictname, dcase):
    h = initial_header(drv, work, dictname, dcase)
    return h["n0"], h["max0"]


# ---- the new words are used: grammar, alignment text, decode --------------------------------------------------
SEQ = [p for _, ps in GOFWD for p in ps]          # the 16 phones of "go forward ten meters"
WORD_ENDS = [2, 8, 11, 16]


def use_exec(rng, ui, plans, phones, broken):
    dcase = rng.choice(["-", "-", "1"])
    plan = plans[("turtle", dcase == "1")].copy()
    taken = set()
    # cut the phone sequence into words: the four real word boundaries, sometimes one more cut inside a word
    # at a place that leaves no one-phone piece spelled with a one-letter phone
    cuts = list(WORD_ENDS)
    if rng.random() < 0.6:
        cuts.append(rng.choice([5, 13] if "one-letter-phones" in broken else [1, 5, 13]))   # g|ow  for|ward  me|ters
    cuts = sorted(set(cuts))
    pieces, a = [], 0
    for b in cuts:
        pieces.append(SEQ[a:b])
        a = b
    pool, cmds, sent_j, sent_a = [b"go", b"ten", b"meters", b"forward"], [], [], []
    adds = []
    for pc in pieces:
        existing = {("G", "OW"): b"go", ("T", "EH", "N"): b"ten", ("M", "IY", "T", "ER", "Z"): b"meters"}.get(tuple(pc))
        mode = rng.choice(["existing", "new", "alt-right", "alt-wrong", "alt-of-existing"]) if existing else \
            rng.choice(["new", "new", "alt-right", "alt-wrong"])
        if mode == "existing":
            sent_j.append(existing)
            sent_a.append(existing)
            continue
        w = fresh_word(rng, plan, taken) if rng.random() < 0.7 else b"_" + fresh_word(rng, plan, taken)
        wrong = rand_pron(rng, phones, rng.randint(2, 5), True)
        if mode == "new":
            adds.append((w, pc))
            sent_j.append(w)
            sent_a.append(w)
        elif mode == "alt-right":          # the base is pronounced differently, alternate (2) says what is in the audio
            adds += [(w, wrong), (w + b"(2)", pc)]
            if rng.random() < 0.5:
                adds.append((w + b"(3)", rand_pron(rng, phones, 3, True)))
            sent_j.append(w)
            sent_a.append(rng.choice([w, w + b"(2)"]))
        elif mode == "alt-wrong":
            adds += [(w, pc), (w + b"(2)", wrong)]
            sent_j.append(w)
            sent_a.append(w)
        else:                              # a new alternate of a word the dictionary already has
            k = 2
            while plan.has(existing + b"(%d)" % k) or any(x[0] == existing + b"(%d)" % k for x in adds):
                k += 1
            adds.append((existing + b"(%d)" % k, pc))
            sent_j.append(existing)
            sent_a.append(rng.choice([existing, existing + b"(%d)" % k]))
    for w, _ in adds:
        pool.append(w)
    pool = list(dict.fromkeys(pool + sent_j + sent_a + [b"hundred", b"hundred(2)"]))
    ex = Exec("use-c%s#%d" % (dcase, ui), "turtle", dcase, pool, [])
    S = ex.sid
    ex.cmds.append(("check",))
    if rng.random() < 0.5:
        ex.cmds.append(("jsgf", 1, 1, [S(b"go"), S(b"forward"), S(b"ten"), S(b"meters")]))   # a search exists before the additions
    rng.shuffle(adds)
    adds.sort(key=lambda x: is_alt(x[0]))                 # bases first
    for j, (w, pc) in enumerate(adds):
        if plan.excluded(w, pc, broken):
            continue
        plan.add(w, pc)
        ex.cmds.append(("add", S(w), int(rng.random() < 0.5 or j == len(adds) - 1), join_phones(rng, pc, fancy=rng.random() < 0.5)))
    ok = all(plan.has(w) for w in sent_j + sent_a)
    order = [("jsgf", sent_j), ("align", sent_a)]
    rng.shuffle(order)
    for kind, sent in order:
        ex.cmds.append((kind, 2, 1 if ok else 0, [S(w) for w in sent]))       # (2: also on a twin decoder)
    # new words the audio does not contain: a one-phone word, a long one; loaded and decoded (no hypothesis is expected,
    # but building and running the search reads the context tables filled for them)
    w1, w2 = fresh_word(rng, plan, taken), fresh_word(rng, plan, taken)
    p1 = [rng.choice([p for p in phones if len(p) == 2 and not p.startswith("+")])]
    p2 = rand_pron(rng, phones, rng.randint(9, 16), True)
    ex.pool += [w1, w2]
    for w, pr in ((w1, p1), (w2, p2)):
        plan.add(w, pr)
        ex.cmds.append(("add", S(w), int(rng.random() < 0.5), join_phones(rng, pr)))
    ex.cmds.append((rng.choice(["jsgf", "align"]), rng.choice([1, 2]), 0, [S(w1), S(b"go"), S(w2)] if rng.random() < 0.5 else [S(w2), S(w1)]))
    ex.cmds += [("check",), ("scan",)]
    return ex


# ---- a dictionary is a value: words added at run time against the same words read from the dictionary file ---------
_ENDS = {}


def known_pairs(dictname):
    """(final pairs (last, second-last), initial pairs (first, second), single phones) of the words of a bundled dictionary"""
    if dictname not in _ENDS:
        prons = [pr for _, pr in load_plan_dict(dictname)]
        _ENDS[dictname] = ({(pr[-1], pr[-2]) for pr in prons if len(pr) >= 2}, {(pr[0], pr[1]) for pr in prons if len(pr) >= 2},
                           {pr[0] for pr in prons if len(pr) == 1})
    return _ENDS[dictname]


def twin_exec(rng, ti, plans, phones, broken):
    """"go forward ten meters" with some words replaced by NEW words whose last two phones end no word known so far
    (so that the word-final context table is filled on demand): last phone doubled / replaced / one phone appended /
    last phone dropped, as a new word, as a new alternate of the word of the file, or as alternate (2) of a new word
    that itself is pronounced differently; then, for a changed word of four phones or more, a three-phone word with
    the same ending (it finds the table already filled).  Each sentence is decoded on the live decoder and on a twin
    whose dictionary FILE holds the same words."""
    dcase = rng.choice(["-", "-", "0", "1"])
    plan = plans[("turtle", dcase == "1")].copy()
    taken = set()
    real = [p for p in phones if not p.startswith("+") and p != "SIL"]
    ends = set(known_pairs("turtle")[0])
    avoid1 = "one-letter-phones" in broken
    forced = rng.randrange(len(GOFWD))
    adds, sent_base, sent_any, sent_tail, have_tail = [], [], [], [], False
    for wi, (name, pr) in enumerate(GOFWD):
        w0 = name.encode()
        mode = rng.choice(["keep", "double", "replace", "append", "drop"])
        if mode == "keep" and wi == forced:
            mode = "double"
        p = list(pr)
        if mode == "drop" and (len(p) < 3 or (p[-2], p[-3]) in ends):
            mode = "append"
        if mode == "keep":
            for snt in (sent_base, sent_any, sent_tail):
                snt.append(w0)
            continue
        if mode == "double":
            p.append(p[-1])
        elif mode == "drop":
            p.pop()
        else:
            left = p[-1] if mode == "append" else p[-2]
            cand = [x for x in real if (x, left) not in ends and x != pr[-1]]
            x = rng.choice(cand or real)
            if mode == "append":
                p.append(x)
            else:
                p[-1] = x
        if avoid1 and all(len(x) == 1 for x in p):
            p.append("AH")
        ends.add((p[-1], p[-2]))
        how = rng.choice(["new", "new", "alt-of-file-word", "alt-of-new-word"])
        if how == "new":
            w = fresh_word(rng, plan, taken)
            adds.append((w, p))
            sent_base.append(w)
            sent_any.append(w)
        elif how == "alt-of-file-word":
            k = 2
            while plan.has(w0 + b"(%d)" % k):
                k += 1
            w = w0 + b"(%d)" % k
            adds.append((w, p))
            sent_base.append(w0)
            sent_any.append(rng.choice([w0, w]))
        else:
            b = fresh_word(rng, plan, taken)
            w = b + b"(2)"
            adds += [(b, rand_pron(rng, phones, rng.randint(2, 5), True)), (w, p)]
            sent_base.append(b)
            sent_any.append(rng.choice([b, w]))
        if len(p) >= 4 and rng.random() < 0.7:
            t = fresh_word(rng, plan, taken, 2, 4)
            adds.append((t, p[-3:]))               # after the long word: the table of its ending exists by then
            sent_tail.append(t)
            have_tail = True
        else:
            sent_tail.append(sent_base[-1])
    pool = list(dict.fromkeys([b"go", b"forward", b"ten", b"meters"] + [w for w, _ in adds] + sent_base + sent_any))
    ex = Exec("twin-c%s#%d" % (dcase, ti), "turtle", dcase, pool, [])
    S = ex.sid
    ex.cmds.append(("check",))
    if rng.random() < 0.5:
        ex.cmds.append(("jsgf", 1, 1, [S(b"go"), S(b"forward"), S(b"ten"), S(b"meters")]))
    for j, (w, pr) in enumerate(adds):
        if plan.excluded(w, pr, broken):
            continue
        plan.add(w, pr)
        ex.cmds.append(("add", S(w), int(rng.random() < 0.5), join_phones(rng, pr, fancy=rng.random() < 0.4)))
    uses = [("jsgf", sent_base), ("align", sent_any)]
    if have_tail:
        uses.append((rng.choice(["jsgf", "align"]), sent_tail))
    rng.shuffle(uses)
    for kind, sent in uses:
        if all(plan.has(w) for w in sent):
            ex.cmds.append((kind, 2, 0, [S(w) for w in sent]))
    ex.cmds += [("check",), ("scan",)]
    return ex


# ---------------------------------------------------------------------------------------------------------
_REPLAYS = {}
# clause names printed by DictTrace!Clause -> the part of the violation key that names them
CLAUSE_KEYS = {"realised": "not-realised-by-its-pronunciation", "all-realised": "entry-not-realised-by-its-pronunciation",
               "twin-same-dictionary": "file-dictionary-differs-from-additions",
               "twin-same-result": "result-differs-from-file-dictionary"}


def write_replay(ctx, name, ex):
    """one replay file per violation key (the first execution that showed it); in --replay mode the file given"""
    key = name.split("__")[0]
    if ctx.replay:
        return ctx.replay
    if key not in _REPLAYS:
        p = os.path.join(ctx.replays, re.sub(r"[^A-Za-z0-9_.-]", "_", name) + ".script")
        with open(p, "w") as f:
            f.write("\n".join(ex.render()) + "\n")
        _REPLAYS[key] = p
    return _REPLAYS[key]


class Driver:
    def __init__(self, ctx, drv):
        self.ctx, self.drv, self.rep = ctx, drv, ctx.report
        self.hangs = []
        BROKEN.clear()
        self.broken = BROKEN         # input classes that failed (left out of later generated executions)
        self.confirmed = set()       # violation keys already reproduced by a second run
        self.accepted_chunks = []
        self.stats = collections.Counter()
        self.nontrivial_kinds = collections.Counter()

    def validate(self, results, tag, max_fail=6, par=4):
        """TLC trace validation, the executions split into `par` groups of similar size validated concurrently"""
        chunks = [(r.ex.id, r.lines) for r in results if r.lines]
        total = sum(len(c[1]) for c in chunks)
        big = [c for c in chunks if len(c[1]) > 2000]          # (a growth run: a group of its own)
        rest = [c for c in chunks if len(c[1]) <= 2000]
        total = sum(len(c[1]) for c in rest)
        groups, cur, n = [], [], 0
        for c in rest:
            cur.append(c)
            n += len(c[1])
            if n >= total / par and len(groups) < par - 1:
                groups.append(cur)
                cur, n = [], 0
        if cur:
            groups.append(cur)
        if total < 4000:
            groups = [rest] if rest else []
        groups += [[c] for c in big]

        def one(g):
            return tracecheck.validate(SPEC, "DictTrace.tla", "DictTrace.cfg", g, self.ctx.work, timeout=2400,
                                       max_fail=max_fail, heap="6g")
        with concurrent.futures.ThreadPoolExecutor(max_workers=max(1, min(len(groups), scaled(12)))) as pool:
            res = list(pool.map(one, groups))
        acc, fails, unexamined = 0, [], set()
        for g, (a, f, tl) in zip(groups, res):
            acc += a
            fails += f
            for t in tl:
                self.rep.add_tlc("DictTrace(%s)" % tag, t, mode="trace-validation")
            if len(f) >= max_fail:      # this group stopped early: what follows its last failure was not looked at
                ids = [c[0] for c in g]
                unexamined |= set(ids[ids.index(f[-1].exec_id) + 1:])
        self.unexamined = unexamined
        return acc, fails

    def process(self, execs, tag, rounds=3, max_fail=6, learn=False):
        """run, validate, report; failing steps are confirmed by a second run, reported, removed and the rest
        of the execution is run again (so one failure does not hide what comes after it)"""
        todo = list(execs)
        for rnd in range(rounds):
            if not todo:
                break
            import time
            t0 = time.time()
            results = run_many(self.drv, todo, self.ctx.work)
            t1 = time.time()
            nskip = sum(1 for r in results if r.skipped)
            if nskip:
                self.hangs.append("%d executions of %s not started after three timeouts" % (nskip, tag))
            nxt = []
            by_id = {r.ex.id: r for r in results}
            acc, fails = self.validate(results, "%s.%d" % (tag, rnd), max_fail=max_fail)
            self.rep.notes.setdefault("execute_validate_wall_s", {})["%s.%d" % (tag, rnd)] = \
                [len(todo), round(t1 - t0, 1), round(time.time() - t1, 1)]
            failed_ids = set()
            for f in fails:
                failed_ids.add(f.exec_id)
                r = by_id[f.exec_id]
                ev_index = f.local_line - 1           # 0 = Header
                if ev_index == 0:
                    raise tlc.ModelError("Header of %s rejected: %s" % (f.exec_id, f.event[:300]))
                info, first = classify_events(r.lines)
                em = r.ex.emitting()
                ci = em[ev_index - 1]
                if first and first[0] == ev_index:
                    key, text = first[1], first[2]
                    if f.clause and CLAUSE_KEYS[f.clause] not in key:
                        raise tlc.ModelError("TLC names clause %s for event %d of %s, the diagnosis says %s"
                                             % (f.clause, ev_index, f.exec_id, key))
                elif f.clause:
                    key, text = "clause:" + CLAUSE_KEYS[f.clause], "clause %s of DictTrace is false" % f.clause
                else:
                    key, text = "mismatch:" + r.ex.cmds[ci][0], "event not explained by the dictionary model"
                if key not in self.confirmed:
                    # (one confirmation per key: a change that breaks every execution the same way would otherwise cost
                    # a second run and a TLC start for each of them)
                    r2 = run_one(self.drv, r.ex, self.ctx.work, force=True)
                    keep = self.unexamined
                    a2, f2 = self.validate([r2], tag + ".confirm", max_fail=1)
                    self.unexamined = keep
                    if not f2 or f2[0].local_line != f.local_line:
                        raise tlc.ModelError("rejection of %s at event %d did not reproduce" % (f.exec_id, ev_index))
                    self.confirmed.add(key)
                what = "after %s: %s (event %d of %s)" % (self.describe(r.ex, r.ex.cmds[ci]), text, ev_index, f.exec_id)
                self.rep.violation(key, what, write_replay(self.ctx, key + "__" + r.ex.id, r.ex))
                if learn and info[ev_index] and info[ev_index].get("cls"):
                    if key.endswith(":padded-phone-string"):
                        self.broken.add("padded-phone-string")      # later phone strings are joined by single blanks
                    elif "not-realised" not in key:                 # (a silent failure: there is no input class to leave out)
                        self.broken.add(info[ev_index]["cls"])
                if not key.startswith("load:"):          # (nothing to learn from a dictionary that starts out wrong)
                    nxt.append(r.ex.without(ci, "~"))
            # crashes
            for r in results:
                if not r.crashed or r.ex.id in failed_ids:
                    continue      # (a crash after a rejected event is looked at again once that step is removed)
                ci = r.crash_cmd()
                if r.hung:
                    # no verdict from a timeout: remembered, and the run ends as a machinery failure unless a
                    # genuine violation explains it
                    self.hangs.append("%s did not finish %s within %d s" % (r.ex.id, self.describe(r.ex, r.ex.cmds[ci]) if ci is not None else "", EXEC_TIMEOUT))
                    continue
                if ci is None:
                    if len(r.lines) == 0:
                        raise tlc.ModelError("decoder could not be created for %s: %s" % (r.ex.id, r.run.why()))
                    cls, key = None, "crash:teardown"
                else:
                    cls, key = cmd_class(r.ex, r, ci)
                r2 = run_one(self.drv, r.ex, self.ctx.work, force=True)      # reproduce before reporting
                if not (r2.crashed and r2.crash_cmd() == ci):
                    raise tlc.ModelError("crash of %s did not reproduce: %s" % (r.ex.id, r.run.why()))
                c = r.ex.cmds[ci] if ci is not None else ("end",)
                what = "the library crashed in %s: %s" % (self.describe(r.ex, c), r.run.why())
                self.rep.violation(key, what, write_replay(self.ctx, key + "__" + r.ex.id, r.ex))
                if learn and cls:
                    self.broken.add(cls)
                if ci is not None:
                    nxt.append(r.ex.without(ci, "~"))
            unexamined = self.unexamined
            for r in results:
                if r.ex.id in failed_ids or not r.lines:
                    continue
                if r.ex.id in unexamined:
                    if not r.crashed:
                        nxt.append(r.ex)
                    continue
                self.account(r)
            todo = nxt

    def describe(self, ex, c):
        if c[0] == "add":
            return "decoder_add_word(%r, %r, update=%d)" % (ex.pool[c[1] - 1][:40], c[3][:60], c[2])
        if c[0] in ("jsgf", "align"):
            return "%s over %r" % ("decoder_set_jsgf_string" if c[0] == "jsgf" else "decoder_set_align_text",
                                   [ex.pool[i - 1][:20] for i in c[3]])
        return c[0]

    def account(self, r):
        """coverage bookkeeping for an execution TLC accepted (or accepted up to a crash)"""
        self._acc = getattr(self, "_acc", {})
        evs = [json.loads(l) for l in r.lines]
        h = evs[0]
        rec = {"events": len(evs) - 1, "kinds": set()}
        maxchain, grew, dec, twins, lazy = 0, False, 0, 0, 0
        kp = known_pairs(h["dict"])
        ends, begs, singles = set(kp[0]), set(kp[1]), set(kp[2])
        for ev in evs[1:]:
            if ev["e"] == "Add":
                self.stats["add_accepted" if ev["ret"] >= 0 else "add_rejected"] += 1
                if ev["ret"] >= h["max0"]:
                    grew = True
                t = ev["toks"]
                if bytes(ev["raw"]) != " ".join(t).encode():
                    self.stats["add_padded_phone_string_" + ("accepted" if ev["ret"] >= 0 else "rejected")] += 1
                    if ev["ret"] >= 0 and len(ev["raw"]) >= 2 and ev["raw"][-1] in WS and ev["raw"][-2] in WS:
                        self.stats["add_accepted_with_2+_trailing_blanks"] += 1
                if ev["ret"] >= 0:
                    # which context tables this addition had to fill on demand (no earlier word has the pair)
                    if len(t) >= 2:
                        if (t[-1], t[-2]) not in ends:
                            self.stats["add_fills_final_table"] += 1
                            if len(t) != 3:
                                self.stats["add_fills_final_table_second_differs_from_second_last"] += 1
                                lazy += 1
                        elif (t[-1], t[-2]) not in kp[0]:
                            self.stats["add_reuses_final_table_filled_on_demand"] += 1
                        if (t[0], t[1]) not in begs:
                            self.stats["add_fills_initial_table"] += 1
                        ends.add((t[-1], t[-2]))
                        begs.add((t[0], t[1]))
                    elif t[0] not in singles:
                        self.stats["add_fills_single_phone_table"] += 1
                        singles.add(t[0])
            if ev["e"] == "Use" and ev["dec"] >= 1 and ev["hf"] == 1:
                dec += 1
            if ev["e"] == "Use" and ev["twin"] and ev["twin"][0] == 1:
                self.stats["twin_decodes"] += 1
                if ev["hf"] == 1:
                    self.stats["twin_decodes_with_hypothesis"] += 1
                    twins += 1
            for o in ev.get("obs", []):
                if o[1] >= h["n0"] or (o[6] >= 0 and any(x >= h["n0"] for x in o[7])):
                    maxchain = max(maxchain, len(o[7]))
        if maxchain >= 2:
            rec["kinds"].add("chain>=2")
        if grew:
            rec["kinds"].add("grown")
        if dec:
            rec["kinds"].add("decoded")
        if twins:
            rec["kinds"].add("twin")
        if lazy:
            rec["kinds"].add("context-table-filled")
        if not r.crashed:
            self._acc[r.ex.id] = rec
            self.accepted_chunks.append((r.ex.id, r.lines))

    def finish(self):
        if self.hangs:
            self.rep.notes["timeouts"] = self.hangs[:5]
            if not self.rep.violations:
                raise tlc.ModelError("harness timeout: " + self.hangs[0])
        acc = getattr(self, "_acc", {})
        self.rep.traces += len(acc)
        self.rep.evaluations += sum(v["events"] for v in acc.values())
        for eid, v in acc.items():
            if v["kinds"]:
                self.rep.nontrivial.add(eid)
            for k in v["kinds"]:
                self.nontrivial_kinds[k] += 1


def run_tlc_models(rep, cfgs, workers_each, par):
    """exhaustive runs, several at a time"""
    def module(c):
        return "MC_abs.tla" if c[1] == "abs" else "MC_parse.tla" if "parse" in c[0] else "MC_dict.tla"

    def one(c):
        return c, tlc.run(module(c), c[0], SPEC, workers=workers_each, timeout=2400,
                          coverage=c[1] in ("ref", "abs", "parse"), heap="6g")
    with concurrent.futures.ThreadPoolExecutor(max_workers=scaled(par)) as pool:
        res = list(pool.map(one, cfgs))
    for c, r in res:
        cfg, kind, expect = c
        if kind == "abs":
            if r.violated or r.coverage.get("AAdd", (0, 0))[0] == 0:
                raise tlc.ModelError("DictAbs on its own: %s violated / vacuous in %s\n%s" % (r.violated, cfg, r.out[-2000:]))
            rep.add_tlc("MC_abs.tla/" + cfg, r)
        elif kind == "parse":
            if r.violated:
                raise tlc.ModelError("PhoneParse (the tokeniser loop) does not refine DictAbs!PhoneTokens in %s: %s\n%s"
                                     % (cfg, r.violated, r.out[-2500:]))
            if r.coverage.get("Iterate", (0, 0))[0] == 0:
                raise tlc.ModelError("vacuous model run: the tokeniser loop never ran in %s" % cfg)
            rep.add_tlc("MC_parse.tla/" + cfg, r)
        elif kind == "ref":
            if r.violated:
                raise tlc.ModelError("DictImpl (intended design) does not refine DictAbs in %s: %s\n%s" % (cfg, r.violated, r.out[-2500:]))
            if r.coverage.get("AddWord", (0, 0))[0] == 0 or ("WithUse = TRUE" in open(os.path.join(SPEC, cfg)).read()
                                                             and r.coverage.get("SetGrammar", (0, 0))[0] == 0):
                raise tlc.ModelError("vacuous model run: an action was never taken in %s (%s)" % (cfg, r.coverage))
            rep.add_tlc("MC_dict.tla/" + cfg, r)
        else:
            # "dev": the code as written, behind its switch, must break exactly what the finding says it breaks;
            # "neg": a negative control - a mechanism that is NOT the code's - must break the invariant that guards it
            hit = re.search(r"Error: (Invariant|Action property) (.*?) is violated", r.out)
            if not hit or expect not in hit.group(0):
                raise tlc.ModelError("%s config %s should violate %s but TLC says: %s"
                                     % ("deviation" if kind == "dev" else "negative-control", cfg, expect, hit and hit.group(0)))
            if kind == "dev":
                rep.add_tlc("MC_dict.tla/" + cfg + " (as written: violates %s, expected)" % expect, r, mode="deviation")
                rep.notes.setdefault("as_written_model", {})[cfg] = "violates %s after %d states" % (expect, r.generated)
            else:
                rep.add_tlc(module(c) + "/" + cfg + " (negative control: violates %s, expected)" % expect, r, mode="negative-control")
                rep.notes.setdefault("negative_controls", {})[cfg] = "violates %s after %d states" % (expect, r.generated)


def run(ctx):
    rep = ctx.report
    rng = random.Random(ctx.seed)
    quick = ctx.tier == "quick"
    libdir, _ = sut.build_lib("asan")
    drv = sut.build_harness("dict_drv", ["dict/dict_drv.c"], libdir)
    D = Driver(ctx, drv)
    import time
    t0 = [time.time()]
    rep.notes["phase_wall_s"] = {}

    def lap(name):
        rep.notes["phase_wall_s"][name] = round(time.time() - t0[0], 1)
        t0[0] = time.time()
    rep.assumptions += [
        "spellings used have at most one trailing parenthesised suffix (an alternate of an alternate is outside the property)",
        "phone strings are separated by blank, tab, CR or LF (vertical tab and form feed are not used); the case mode is read from dict_t.nocase of the real dictionary "
        "(dictcase=yes gives a case-INsensitive dictionary although the option's help text says the opposite)",
        "a JSGF grammar naming an absent word is not loaded (its failure path belongs to C09); the alignment call is always made",
        "the driver logs public API results and public struct fields only; the FNV digest of the initially loaded entries is computed by the driver",
        "the driver counts, per added word and per scan, the neighbouring phones for which decoder_t.d2p (ldiph_lc, rssid through cimap, "
        "lrdiph_rc) differs from bin_mdef_pid2ssid(bin_mdef_phone_id_nearest(...)) - the formula dict2pid_build() uses for the words of "
        "the file; TLC requires the counts to be zero.  No generated pronunciation has SIL as second or second-last phone (there a "
        "single-phone fill of the same table is legitimate)",
        "the twin decoder gets the same options, turtle.dic plus one line per added word in id order; results are compared as "
        "(return value, hypothesis, score, every segment with frames and scores); only for spellings a dictionary line can hold",
    ]

    if ctx.replay:
        ex = parse_script(open(ctx.replay).read())
        D.process([ex], "replay", rounds=1)
        D.finish()
        rep.rule = "replay of one stored script"
        return

    # 1. exhaustive models: intended design refines DictAbs; every as-written switch breaks its invariant
    ref = ["MC_ref_q_srch.cfg", "MC_ref_q_case.cfg", "MC_ref_q_nocase.cfg", "MC_ref_q_pre.cfg"] if quick else \
          ["MC_ref_t_srch.cfg", "MC_ref_t_case.cfg", "MC_ref_t_nocase.cfg", "MC_ref_t_deep.cfg", "MC_ref_t_pre.cfg"]
    dev = [("MC_dev_relink.cfg", "dev", "ChainExact"), ("MC_dev_relink_use.cfg", "dev", "NoCrash"),
           ("MC_dev_emptyword.cfg", "dev", "NoCrash"), ("MC_dev_emptypron.cfg", "dev", "NoCrash"),
           ("MC_dev_pronbuf.cfg", "dev", "NoCrash"), ("MC_dev_all.cfg", "dev", "Action property")]
    small = dev + [("MC_abs_case.cfg", "abs", None), ("MC_abs_nocase.cfg", "abs", None),
                   ("MC_parse.cfg", "parse", None), ("MC_neg_parse.cfg", "neg", "ParseAccepts"),
                   ("MC_neg_rctx.cfg", "neg", "D2pComplete")]
    ref.append("MC_ref_q_d2p.cfg" if quick else "MC_ref_t_d2p.cfg")
    if quick:
        run_tlc_models(rep, [(c, "ref", None) for c in ref] + small, 3, 12)
    else:
        run_tlc_models(rep, small, 2, 8)
        run_tlc_models(rep, [(c, "ref", None) for c in ref], 5, 3)
    lap("tlc_exhaustive")

    phones = initial_header(drv, ctx.work, "turtle", "-")["phones"]
    if len(phones) < 10:
        raise tlc.ModelError("implausible phone set: %s" % phones)
    plans = {("turtle", False): plan_dict("turtle", False, phones), ("turtle", True): plan_dict("turtle", True, phones)}

    # 2. probes of every input class (decide which classes are broken on this tree)
    D.process(probe_execs(rng, plans[("turtle", False)], phones), "probes", rounds=1, max_fail=24, learn=True)
    D.process(collision_probes(rng, plans[("turtle", False)], phones, set(), libdir), "collisions", rounds=1, max_fail=8)
    rep.notes["input_classes_failing_in_probes"] = sorted(D.broken)
    lap("probes")

    # non-vacuity of the trace specification: one corrupted field of an accepted trace must be rejected -
    # what decoder_lookup_word said; the context-table comparison of an accepted word; the score of the twin decoder
    def falsify(what):
        for eid, lines in D.accepted_chunks:
            bad = list(lines)
            for i, l in enumerate(bad):
                ev = json.loads(l)
                if what == "lookup":
                    mine = [x for x in ev.get("obs", []) if ev["e"] == "Add" and ev["ret"] >= 0 and x[1] == ev["ret"] and x[3]]
                    if not mine:
                        continue
                    mine[0][3][0] = "AA" if mine[0][3][0] != "AA" else "AE"
                elif what == "context-tables":
                    if not (ev["e"] == "Add" and ev["ret"] >= 0 and len(ev["toks"]) >= 2):
                        continue
                    ev["d2p"][1] = 1
                else:
                    if not (ev["e"] == "Use" and ev["twin"] and ev["twin"][0] == 1 and ev["twin"][4][1][0] == 1):
                        continue
                    ev["twin"][4][1][1] += 1
                bad[i] = json.dumps(ev, separators=(",", ":"))
                return i, bad
        return None, None

    def reject(what):
        i, bad = falsify(what)
        if bad is None:
            return what, None
        a, f, _ = tracecheck.validate(SPEC, "DictTrace.tla", "DictTrace.cfg", [("corrupt-" + what, bad)], ctx.work)
        if not f or f[0].local_line - 1 != i:
            raise tlc.ModelError("DictTrace accepted a trace with a falsified %s (event %d)" % (what, i))
        return what, i
    with concurrent.futures.ThreadPoolExecutor(max_workers=3) as tp:
        for what, i in tp.map(reject, ["lookup", "context-tables", "twin-score"]):
            if i is not None:
                rep.notes.setdefault("corrupted_trace_rejected_at_event", {})[what] = i
            elif not rep.violations:
                raise tlc.ModelError("no accepted probe execution in which a %s could be falsified: nothing was exercised" % what)
    lap("corrupted_traces")

    # 3. tours
    tcfg = [("case", "MC_tour_q_case.cfg", "0", False), ("nocase", "MC_tour_q_nocase.cfg", "1", False),
            ("pre", "MC_tour_q_pre.cfg", "-", True)] if quick else \
           [("case", "MC_tour_t_case.cfg", "0", False), ("nocase", "MC_tour_t_nocase.cfg", "1", False),
            ("pre", "MC_tour_t_pre.cfg", "-", True), ("deep", "MC_tour_t_deep.cfg", "-", False)]
    plan_by_case = {False: plans[("turtle", False)], True: plans[("turtle", True)]}
    execs, tres, n_edges = tour_execs(rng, plan_by_case, phones, tcfg, D.broken, 300, 1)
    for name, r in tres:
        rep.add_tlc(name, r, mode="graph-export")
    rep.notes["graph_edges"] = n_edges
    rep.notes["tour_executions"] = len(execs)
    lap("tour_export")

    # 4. random histories, growth, use
    for hi in range(40 if quick else 400):
        execs.append(random_exec(rng, hi, plans, phones, D.broken, rng.choice([40, 80, 160])))
    for ui in range(16 if quick else 150):
        execs.append(use_exec(rng, ui, plans, phones, D.broken))
    for ti in range(16 if quick else 150):
        execs.append(twin_exec(rng, ti, plans, phones, D.broken))
    execs += [x for x in [growth_exec(rng, 0, plans, phones, D.broken, "turtle", "-", *initial_size(drv, ctx.work, "turtle", "-"))] if x]
    if not quick:
        execs += [x for x in [growth_exec(rng, 1, plans, phones, D.broken, "turtle", "1", *initial_size(drv, ctx.work, "turtle", "1"))] if x]
        plans[("model", False)] = plan_dict("model", False, phones)
        plans[("model", True)] = plan_dict("model", True, phones)
        execs += [x for x in [growth_exec(rng, 2, plans, phones, D.broken, "model", "-", *initial_size(drv, ctx.work, "model", "-"))] if x]
        for hi in range(6):
            execs.append(random_exec(rng, 1000 + hi, plans, phones, D.broken, 60, dictname="model"))
    lap("generate")
    # in slices, so that the recorded traces of a thorough run do not all sit in memory at once
    rng.shuffle(execs)
    execs.sort(key=lambda e: not e.id.startswith("growth"))      # the long ones first
    for k in range(0, len(execs), 4000):
        D.process(execs[k:k + 4000], "main%d" % (k // 4000), rounds=3)
        D.accepted_chunks = D.accepted_chunks[:40]
    D.finish()
    lap("main_execute_validate")
    if not rep.violations:
        for k in ("add_fills_final_table_second_differs_from_second_last", "add_fills_initial_table", "add_fills_single_phone_table",
                  "add_reuses_final_table_filled_on_demand", "add_accepted_with_2+_trailing_blanks", "twin_decodes_with_hypothesis"):
            if D.stats[k] == 0:
                raise tlc.ModelError("vacuous run: no accepted execution counts for %s" % k)

    rep.notes["calls"] = dict(D.stats)
    rep.notes["nontrivial_kinds"] = dict(D.nontrivial_kinds)
    for eid, lines in D.accepted_chunks[:1] + [c for c in D.accepted_chunks if c[0].startswith("use-")][:2]:
        evs = [json.loads(l) for l in lines]
        sp = [bytes(x).decode("latin-1") for x in evs[0]["sp"]]
        rep.sample({"execution": eid, "events": len(evs) - 1,
                    "calls": [({"add": sp[e["s"] - 1], "phones": " ".join(e["toks"]), "ret": e["ret"]} if e["e"] == "Add" else
                               {"use": e["kind"], "words": [sp[w - 1] for w in e["words"]], "ret": e["ret"],
                                "hyp": " ".join(bytes(x).decode("latin-1") for x in e["hyp"]),
                                "seg": " ".join(bytes(x).decode("latin-1") for x in e["seg"])} if e["e"] == "Use" else e["e"])
                              for e in evs[1:] if e["e"] in ("Add", "Use")][:8]})
    rep.rule = ("executions = probes of every input class + edge tours of DictImpl's complete state graph (every (dictionary state, "
                "addition) edge, real spellings/phones) + seeded random histories + runs growing the table past its preallocation + "
                "runs that use the new words (JSGF, alignment text, decode of goforward.raw); each on a real decoder in its own "
                "process, validated event by event by TLC; non-trivial = distinct accepted execution in which an added word "
                "ended in an alternate chain of length >= 2, or the table was reallocated, or a decode with new words gave a hypothesis, "
                "or a word-final context table was filled on demand for a word whose second phone is not its second-last, or a twin "
                "decoder (same words in the dictionary file) decoded the same sentence with a hypothesis")
