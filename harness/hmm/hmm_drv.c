/* Driver for one HMM object of the search network (src/hmm.c): hmm_init / hmm_enter / hmm_vit_eval / hmm_clear /
 * hmm_normalize on a model built from a script: number of emitting states, multiplexed or not, number of senone
 * sequences, the transition matrix (as the uint8 negated scores tmat.c stores, 255 = no transition).  After every
 * call the whole public state of the object is recorded.  Which evaluation routine runs is the library's choice
 * (3 / 5 states: the unrolled left-to-right routines; anything else: the general one).
 * Usage: hmm_drv <trace.ndjson> < script
 *   new <n> <mpx> <nssid> <n*(n+1) matrix entries 0..255, row by row>
 *   enter <score> <id> <ssid 1..nssid>
 *   eval <nssid*n senone scores 0..32767, sequence by sequence>
 *   clear | norm */
#include <soundswallower/ckd_alloc.h>
#include <soundswallower/err.h>
#include <soundswallower/hmm.h>
#include "vtrace.h"

static hmm_context_t *ctx;
static hmm_t hmm;
static int have, n, mpx, nssid, frame;
static uint8 ***tp;
static int16 *senscore;
static uint16 **sseq;

static void
drop(void)
{
    if (!have)
        return;
    hmm_deinit(&hmm);
    hmm_context_free(ctx);
    ckd_free_3d((void ***)tp);
    ckd_free_2d((void **)sseq);
    ckd_free(senscore);
    have = 0;
}

static void
emit_state(void)
{
    int i;
    fprintf(vt_out, "\"sc\":[");
    for (i = 0; i < n; ++i)
        fprintf(vt_out, "%s%d", i ? "," : "", hmm_score(&hmm, i));
    fprintf(vt_out, "],\"hi\":[");
    for (i = 0; i < n; ++i)
        fprintf(vt_out, "%s%d", i ? "," : "", hmm_history(&hmm, i));
    fprintf(vt_out, "],\"out\":%d,\"outh\":%d,\"bs\":%d,\"ss\":[", hmm_out_score(&hmm), hmm_out_history(&hmm), hmm_bestscore(&hmm));
    for (i = 0; i < n; ++i) /* model numbering: sequences 1..nssid, 0 = none */
        fprintf(vt_out, "%s%d", i ? "," : "", !mpx ? 1 : hmm.senid[i] == BAD_SSID ? 0 : hmm.senid[i] + 1);
    fprintf(vt_out, "]}\n");
}

int
main(int argc, char *argv[])
{
    static char line[65536];
    char cmd[32];
    err_set_loglevel(ERR_FATAL);
    if (argc < 2)
        return 3;
    vt_open(argv[1]);
    while (fgets(line, sizeof(line), stdin)) {
        char *p = line, *q;
        int i, j, k;
        if (sscanf(line, "%31s", cmd) != 1 || cmd[0] == '#')
            continue;
        p = strstr(line, cmd) + strlen(cmd);
        if (!strcmp(cmd, "new")) {
            drop();
            n = (int)strtol(p, &q, 10), p = q;
            mpx = (int)strtol(p, &q, 10), p = q;
            nssid = (int)strtol(p, &q, 10), p = q;
            if (n < 1 || n > HMM_MAX_NSTATE || nssid < 1 || nssid > 8)
                return 3;
            tp = (uint8 ***)ckd_calloc_3d(1, n, n + 1, sizeof(uint8));
            fprintf(vt_out, "{\"e\":\"New\",\"n\":%d,\"mpx\":%s,\"k\":%d,\"tp\":[", n, mpx ? "true" : "false", nssid);
            for (i = 0; i < n; ++i) {
                fprintf(vt_out, "%s[", i ? "," : "");
                for (j = 0; j <= n; ++j) {
                    tp[0][i][j] = (uint8)strtol(p, &q, 10), p = q;
                    fprintf(vt_out, "%s%d", j ? "," : "", -(int)tp[0][i][j]);
                }
                fprintf(vt_out, "]");
            }
            senscore = (int16 *)ckd_calloc(nssid * n, sizeof(int16));
            sseq = (uint16 **)ckd_calloc_2d(nssid, n, sizeof(uint16));
            for (k = 0; k < nssid; ++k)
                for (i = 0; i < n; ++i)
                    sseq[k][i] = (uint16)(k * n + i);
            ctx = hmm_context_init(n, (uint8 **const *)tp, senscore, sseq);
            if (ctx == NULL)
                return 3;
            hmm_init(ctx, &hmm, mpx, 0, 0);
            have = 1;
            frame = 0;
            fprintf(vt_out, "],\"worst\":%d,\"notr\":%d,", WORST_SCORE, TMAT_WORST_SCORE);
            emit_state();
        } else if (!have) {
            return 3;
        } else if (!strcmp(cmd, "enter")) {
            int sc = (int)strtol(p, &q, 10), id, ss;
            p = q;
            id = (int)strtol(p, &q, 10), p = q;
            ss = (int)strtol(p, &q, 10);
            if (ss < 1 || ss > nssid)
                return 3;
            hmm_enter(&hmm, sc, id, frame);
            if (mpx)
                hmm_mpx_ssid(&hmm, 0) = (uint16)(ss - 1); /* what the caller of a multiplexed model does */
            fprintf(vt_out, "{\"e\":\"Enter\",\"s\":%d,\"id\":%d,\"k\":%d,", sc, id, mpx ? ss : 1);
            emit_state();
        } else if (!strcmp(cmd, "eval")) {
            int ret;
            fprintf(vt_out, "{\"e\":\"Eval\",\"sen\":[");
            for (k = 0; k < nssid; ++k) {
                fprintf(vt_out, "%s[", k ? "," : "");
                for (i = 0; i < n; ++i) {
                    senscore[k * n + i] = (int16)strtol(p, &q, 10), p = q;
                    fprintf(vt_out, "%s%d", i ? "," : "", -(int)senscore[k * n + i]);
                }
                fprintf(vt_out, "]");
            }
            ret = hmm_vit_eval(&hmm);
            ++frame;
            fprintf(vt_out, "],\"ret\":%d,", ret);
            emit_state();
        } else if (!strcmp(cmd, "clear")) {
            hmm_clear(&hmm);
            fprintf(vt_out, "{\"e\":\"Clear\",");
            emit_state();
        } else if (!strcmp(cmd, "norm")) {
            int b = hmm_bestscore(&hmm);
            hmm_normalize(&hmm, b);
            fprintf(vt_out, "{\"e\":\"Norm\",\"b\":%d,", b);
            emit_state();
        } else {
            fprintf(stderr, "hmm_drv: bad command: %s", line);
            return 3;
        }
    }
    drop();
    vt_close();
    return 0;
}
