/* Driver for logmath.c (property C19).  Executes a script against real logmath_t objects and records,
 * as ndjson, the real add table (read through the public logadd_t struct), what logmath_add returns for
 * EVERY difference d over the table and beyond it in both argument orders, the log-zero cases, and the
 * log/exp round trip - each together with integer brackets of the exact real-valued answer computed here
 * in long double (the trusted reference: TLC has no reals).
 *
 * script (stdin), one command per line:
 *   cfg <tag> <base> <shift>   fresh logmath_init(base, shift, 1); Header event
 *   table                      Table event: t[d] for d < size, lo[d]/hi[d] for d <= size+16 where
 *                              lo = ceil(L(d) - 1/2 - TOL), hi = floor(L(d) + 1/2 + TOL),
 *                              L(d) = log_B(1 + B^-d), B = base^(2^shift)
 *   row <x>                    Row event: fwd[d] = add(x, x-d), rev[d] = add(x-d, x)
 *                              for d = 0 .. min(size+16, x-zero)   (both arguments stay >= zero)
 *   ident <v> ...              Ident event: add(zero, v), add(v, zero)
 *   pairs <x> <y> ...          Pairs event: add(x, y), add(y, x)
 *   conv <p> ...               Conv event: v = logmath_log(p), brackets of log_B(p) and of
 *                              log_B(logmath_exp(v))
 *   exact <x> <d> ...          Exact event (diagnostic): logmath_add_exact(x, x-d) next to logmath_add
 *   end                        free the object
 */
#include <math.h>
#include <soundswallower/err.h>
#include <soundswallower/logmath.h>
#include "vtrace.h"

#define TOL (1.0L / 1048576.0L) /* the "plus rounding" allowance, in log units */
#define BEYOND 16

static logmath_t *lm;
static int execno;
static uint32 tsize, twidth, tshift;
static int zero;
static long double lnB; /* natural log of base^(2^shift) */

static long
entry(uint32 d)
{
    logadd_t *t = LOGMATH_TABLE(lm);
    switch (t->width) {
    case 1:
        return ((uint8 *)t->table)[d];
    case 2:
        return ((uint16 *)t->table)[d];
    case 4:
        return (long)((uint32 *)t->table)[d];
    }
    return -1;
}

/* exact log_B(1 + B^-d) */
static long double
ref(long d)
{
    return log1pl(expl(-(long double)d * lnB)) / lnB;
}

static char *
next_tok(char **p)
{
    char *s = *p, *e;
    while (*s == ' ' || *s == '\t' || *s == '\n' || *s == '\r')
        ++s;
    if (!*s)
        return NULL;
    e = s;
    while (*e && *e != ' ' && *e != '\t' && *e != '\n' && *e != '\r')
        ++e;
    if (*e)
        *e++ = 0;
    *p = e;
    return s;
}

static void
put_arr(const char *name, const long *v, long n, int last)
{
    long i;
    fprintf(vt_out, "\"%s\":[", name);
    for (i = 0; i < n; ++i)
        fprintf(vt_out, i ? ",%ld" : "%ld", v[i]);
    fprintf(vt_out, last ? "]" : "],");
}

int
main(int argc, char *argv[])
{
    char *line = NULL, *p, *cmd, *tok;
    size_t cap = 0;
    static char big[1 << 20];

    err_set_loglevel(ERR_FATAL);
    vt_open(argc > 1 ? argv[1] : NULL);
    setvbuf(vt_out, big, _IOFBF, sizeof(big));
    while (getline(&line, &cap, stdin) > 0) {
        p = line;
        cmd = next_tok(&p);
        if (!cmd || cmd[0] == '#')
            continue;
        if (!strcmp(cmd, "cfg")) {
            char *tag = next_tok(&p), *bs = next_tok(&p), *ss = next_tok(&p);
            double base;
            int shift;
            if (!tag || !bs || !ss)
                return 3;
            base = strtod(bs, NULL);
            shift = atoi(ss);
            if (lm)
                logmath_free(lm);
            lm = logmath_init(base, shift, 1);
            ++execno;
            if (!lm) {
                fprintf(vt_out, "{\"e\":\"Header\",\"id\":%d,\"tag\":\"%s\",\"base\":\"%s\",\"shift\":%d,\"refused\":true}\n",
                        execno, tag, bs, shift);
                continue;
            }
            logmath_get_table_shape(lm, &tsize, &twidth, &tshift);
            zero = logmath_get_zero(lm);
            lnB = logl((long double)logmath_get_base(lm)) * (long double)(1L << shift);
            fprintf(vt_out,
                    "{\"e\":\"Header\",\"id\":%d,\"tag\":\"%s\",\"base\":\"%s\",\"shift\":%d,\"refused\":false,"
                    "\"size\":%u,\"width\":%u,\"gshift\":%u,\"gwidth\":%d,\"gshift2\":%d,\"zero\":%d,\"hastable\":%s}\n",
                    execno, tag, bs, shift, tsize, twidth, tshift, logmath_get_width(lm), logmath_get_shift(lm), zero,
                    LOGMATH_TABLE(lm)->table ? "true" : "false");
        } else if (!lm) {
            return 3;
        } else if (!strcmp(cmd, "table")) {
            long d, n = (long)tsize + BEYOND + 1;
            fprintf(vt_out, "{\"e\":\"Table\",\"t\":[");
            for (d = 0; d < (long)tsize; ++d)
                fprintf(vt_out, d ? ",%ld" : "%ld", entry((uint32)d));
            fprintf(vt_out, "],\"lo\":[");
            for (d = 0; d < n; ++d)
                fprintf(vt_out, d ? ",%ld" : "%ld", (long)ceill(ref(d) - 0.5L - TOL));
            fprintf(vt_out, "],\"hi\":[");
            for (d = 0; d < n; ++d)
                fprintf(vt_out, d ? ",%ld" : "%ld", (long)floorl(ref(d) + 0.5L + TOL));
            fprintf(vt_out, "]}\n");
        } else if (!strcmp(cmd, "row")) {
            long x, d, n;
            if (!(tok = next_tok(&p)))
                return 3;
            x = atol(tok);
            if (x < zero)
                return 3;
            n = (long)tsize + BEYOND;
            if (x - zero < n)
                n = x - zero;
            fprintf(vt_out, "{\"e\":\"Row\",\"x\":%ld,\"fwd\":[", x);
            for (d = 0; d <= n; ++d)
                fprintf(vt_out, d ? ",%d" : "%d", logmath_add(lm, (int)x, (int)(x - d)));
            fprintf(vt_out, "],\"rev\":[");
            for (d = 0; d <= n; ++d)
                fprintf(vt_out, d ? ",%d" : "%d", logmath_add(lm, (int)(x - d), (int)x));
            fprintf(vt_out, "]}\n");
        } else if (!strcmp(cmd, "ident")) {
            long v[4096], l[4096], r[4096], n = 0;
            while ((tok = next_tok(&p)) && n < 4096) {
                v[n] = atol(tok);
                l[n] = logmath_add(lm, zero, (int)v[n]);
                r[n] = logmath_add(lm, (int)v[n], zero);
                ++n;
            }
            fprintf(vt_out, "{\"e\":\"Ident\",");
            put_arr("v", v, n, 0);
            put_arr("l", l, n, 0);
            put_arr("r", r, n, 1);
            fprintf(vt_out, "}\n");
        } else if (!strcmp(cmd, "pairs")) {
            static long x[65536], y[65536], r[65536], q[65536];
            long n = 0;
            char *t2;
            while ((tok = next_tok(&p)) && (t2 = next_tok(&p)) && n < 65536) {
                x[n] = atol(tok);
                y[n] = atol(t2);
                r[n] = logmath_add(lm, (int)x[n], (int)y[n]);
                q[n] = logmath_add(lm, (int)y[n], (int)x[n]);
                ++n;
            }
            fprintf(vt_out, "{\"e\":\"Pairs\",");
            put_arr("x", x, n, 0);
            put_arr("y", y, n, 0);
            put_arr("r", r, n, 0);
            put_arr("q", q, n, 1);
            fprintf(vt_out, "}\n");
        } else if (!strcmp(cmd, "convzero")) {
            /* probability 0: its log is log-zero, and going back must not give more than went in */
            int v = logmath_log(lm, 0.0);
            /* log-zero is the smallest log value there is, not minus infinity: going back gives the smallest
             * probability the configuration can express (0 when the double underflows) - never more than what any
             * positive probability comes back as */
            static const double probes[] = { 1e-300, 1e-150, 1e-48, 1e-10, 0.5, 1.0 };
            double back = logmath_exp(lm, v), backz = logmath_exp(lm, logmath_get_zero(lm));
            int k, le_all = 1;
            for (k = 0; k < 6; ++k) {
                int lv = logmath_log(lm, probes[k]);
                double b = logmath_exp(lm, lv);
                /* (with a base very close to 1 the log of a tiny probability lies below log-zero: such values count
                 * as zero in every operation and are not compared) */
                if (lv >= logmath_get_zero(lm) && (!(back <= b) || !(backz <= b)))
                    le_all = 0;
            }
            fprintf(vt_out, "{\"e\":\"ZeroConv\",\"v\":%d,\"zero\":%d,\"back_is_zero\":%s,\"expzero_is_zero\":%s,\"le_all\":%s}\n", v,
                    logmath_get_zero(lm), back == 0.0 ? "true" : "false", backz == 0.0 ? "true" : "false", le_all ? "true" : "false");
        } else if (!strcmp(cmd, "conv")) {
            static long v[8192], flo[8192], cei[8192], elo[8192], ehi[8192], cls[8192];
            static char *ps[8192];
            long n = 0, i;
            while ((tok = next_tok(&p)) && n < 8192) {
                double pr = strtod(tok, NULL), back;
                long double L, E;
                if (!(pr > 0))
                    return 3;
                ps[n] = tok;
                v[n] = logmath_log(lm, pr);
                back = logmath_exp(lm, (int)v[n]);
                L = logl((long double)pr) / lnB;
                E = logl((long double)back) / lnB;
                cls[n] = pr < 1.0 ? 0 : 1;
                flo[n] = (long)floorl(L + TOL); /* v <= flo  <=> the round trip does not increase p */
                cei[n] = (long)ceill(L - TOL);  /* v >= cei - 1 <=> it loses at most one unit */
                if (back > 0 && back < HUGE_VAL) {
                    elo[n] = (long)ceill(E - TOL); /* logmath_exp(v) is B^v up to rounding */
                    ehi[n] = (long)floorl(E + TOL);
                } else if ((long double)v[n] * lnB > -700.0L && (long double)v[n] * lnB < 700.0L) {
                    /* B^v is an ordinary double (e^-700 .. e^700) and the library returned 0 or infinity for it */
                    elo[n] = v[n] + 1;
                    ehi[n] = v[n] - 1;
                } else { /* under/overflow of the double: no statement */
                    elo[n] = v[n];
                    ehi[n] = v[n];
                }
                ++n;
            }
            fprintf(vt_out, "{\"e\":\"Conv\",\"p\":[");
            for (i = 0; i < n; ++i) {
                fprintf(vt_out, i ? "," : "");
                vt_str(vt_out, ps[i]);
            }
            fprintf(vt_out, "],");
            put_arr("cls", cls, n, 0);
            put_arr("v", v, n, 0);
            put_arr("flo", flo, n, 0);
            put_arr("cei", cei, n, 0);
            put_arr("elo", elo, n, 0);
            put_arr("ehi", ehi, n, 1);
            fprintf(vt_out, "}\n");
        } else if (!strcmp(cmd, "exact")) {
            static long d[4096], a[4096], ex[4096], slo[4096], shi[4096];
            long x, n = 0;
            if (!(tok = next_tok(&p)))
                return 3;
            x = atol(tok);
            while ((tok = next_tok(&p)) && n < 4096) {
                long double S;
                d[n] = atol(tok);
                if (d[n] < 0 || x - d[n] < zero)
                    return 3;
                a[n] = logmath_add(lm, (int)x, (int)(x - d[n]));
                ex[n] = logmath_add_exact(lm, (int)x, (int)(x - d[n]));
                S = (long double)x + ref(d[n]);
                slo[n] = (long)floorl(S - TOL);
                shi[n] = (long)ceill(S + TOL);
                ++n;
            }
            fprintf(vt_out, "{\"e\":\"Exact\",\"x\":%ld,", x);
            put_arr("d", d, n, 0);
            put_arr("a", a, n, 0);
            put_arr("ex", ex, n, 0);
            put_arr("slo", slo, n, 0);
            put_arr("shi", shi, n, 1);
            fprintf(vt_out, "}\n");
        } else if (!strcmp(cmd, "end")) {
            logmath_free(lm);
            lm = NULL;
        } else
            return 3;
    }
    if (lm)
        logmath_free(lm);
    free(line);
    vt_close();
    return 0;
}
