/* Driver for ps_endpointer.c (property C15).
 *
 * Linked with -Wl,--wrap=vad_classify: in scripted mode the per-frame speech decision is read from
 * the frame's first sample (so any decision sequence can be produced), in real mode the real WebRTC
 * classifier runs and its decision is recorded.  Every frame fed is kept; whatever the endpointer
 * hands back is compared byte by byte (memcmp) with the frames fed so far and logged as the id of
 * the identical frame (-1: identical to none).
 *
 * usage: ep_drv <trace.ndjson> <repo root>      script on stdin:
 *   exec <id> <s|r> <win_ms> <ratio_pm> <vadmode> <rate> <flen_ms> <defbits> <seed>
 *        fresh endpointer + Header event.  defbits: 1 pass window 0.0 (default), 2 ratio 0.0,
 *        4 sample rate 0, 8 frame length 0.0 (the caller still states the effective values).
 *   p <0/1 string>      scripted: feed one frame per character with that decision
 *   e <t>               endpointer_end_stream with a trailing frame of t samples (scripted content)
 *   a file <path rel. to repo> <skip> <nsamp|-1> <gain_pct> <decim> <rep>    real: append audio
 *   a noise <nsamp> <amp> <seed>                                             real: append noise
 *   run <nframes|-1> <trail|-1>   real: feed nframes frames of the audio, then end the stream with the
 *                                 next <trail> samples (-1: all full frames / whatever remains)
 *   end
 * Exec blocks run in forked children (GROUP blocks per child; a shared counter says which block is
 * running) so that a sanitizer abort ends that execution only: the parent then appends a Crash event
 * naming the sanitizer's summary (kind + function) and starts a new child at the next block.
 *
 * Times: the API reports seconds as double; they are logged as the sample position
 * llround(t * sample_rate) plus a flag terr = 1 iff |t - position / sample_rate| >= 1e-9 s.
 */
#include <soundswallower/endpointer.h>
#include <soundswallower/err.h>
#include <math.h>
#include <unistd.h>
#include <fcntl.h>
#include <sys/wait.h>
#include <sys/mman.h>
#define GROUP 64
#include "vtrace.h"

static int scripted = 1;
static int vad_calls, vad_last;

vad_class_t __real_vad_classify(vad_t *vad, const int16 *frame);
vad_class_t
__wrap_vad_classify(vad_t *vad, const int16 *frame)
{
    ++vad_calls;
    if (scripted)
        vad_last = frame[0] ? 1 : 0;
    else
        vad_last = (int)__real_vad_classify(vad, frame);
    return (vad_class_t)vad_last;
}

/* ---- frames fed so far ---- */
static int16 **fed;
static uint64_t *fedh;
static int nfed, capfed;
static size_t fsize;
static int rate;
static endpointer_t *ep;
static const char *repo;

static uint64_t
hash_frame(const int16 *f, size_t n)
{
    uint64_t h = 1469598103934665603ULL;
    size_t i;
    for (i = 0; i < n; ++i) {
        h ^= (uint16_t)f[i];
        h *= 1099511628211ULL;
    }
    return h;
}

/* id (1-based) of the most recent fed frame whose bytes equal f[0..fsize), or -1 */
static int
match_frame_from(const int16 *f, int lowest)
{
    uint64_t h = hash_frame(f, fsize);
    int i;
    for (i = nfed - 1; i >= lowest && i >= 0; --i)
        if (fedh[i] == h && memcmp(fed[i], f, fsize * sizeof(int16)) == 0)
            return i + 1;
    return -1;
}

static int
match_frame(const int16 *f)
{
    return match_frame_from(f, 0);
}

/* keep a private copy (exactly fsize samples, so over-reads are seen by ASan).  Returns the id of an
 * identical frame among the previous DUPWIN frames (identification by content would be ambiguous inside
 * the endpointer's window, which is far shorter) or 0.  Older twins do not matter: the search above
 * prefers the most recent frame. */
#define DUPWIN 96
static int
remember(int16 *f)
{
    int dup = match_frame_from(f, nfed - DUPWIN);
    if (nfed == capfed) {
        capfed = capfed ? 2 * capfed : 256;
        fed = realloc(fed, capfed * sizeof(*fed));
        fedh = realloc(fedh, capfed * sizeof(*fedh));
    }
    fed[nfed] = f;
    fedh[nfed] = hash_frame(f, fsize);
    ++nfed;
    return dup < 0 ? 0 : dup;
}

static uint32_t lcg;
static int16
next_rand(void)
{
    lcg = lcg * 1664525u + 1013904223u;
    return (int16)(lcg >> 16);
}

/* scripted frame: sample 0 = decision, samples 1,2 = id, rest pseudo-random from (seed, id) */
static int16 *
make_frame(int id, int d, size_t n, uint32_t seed)
{
    int16 *f = malloc((n ? n : 1) * sizeof(int16));
    size_t i;
    lcg = seed * 2654435761u + (uint32_t)id * 40503u + 12345u;
    for (i = 0; i < n; ++i)
        f[i] = next_rand();
    if (n > 0)
        f[0] = (int16)d;
    if (n > 1)
        f[1] = (int16)(id & 0x7fff);
    if (n > 2)
        f[2] = (int16)(id >> 15);
    return f;
}

static void
log_times(void)
{
    double s = endpointer_speech_start(ep), e = endpointer_speech_end(ep);
    long long ss = llround(s * rate), se = llround(e * rate);
    int terr = fabs(s - (double)ss / rate) >= 1e-9 || fabs(e - (double)se / rate) >= 1e-9;
    fprintf(vt_out, "\"insp\":%d,\"ss\":%lld,\"se\":%lld,\"terr\":%d", endpointer_in_speech(ep) ? 1 : 0, ss, se, terr);
}

static void
do_process(int16 *frame)
{
    const int16 *out;
    int dup = remember(frame), ret;
    vad_calls = 0;
    out = endpointer_process(ep, frame);
    ret = out ? match_frame(out) : 0;
    fprintf(vt_out, "{\"e\":\"P\",\"k\":%d,\"d\":%d,\"vc\":%d,\"dup\":%d,\"ret\":%d,", nfed, vad_last, vad_calls, dup, ret);
    log_times();
    fprintf(vt_out, "}\n");
}

static void
do_end(const int16 *tail, size_t t)
{
    size_t on = (size_t)-1, off;
    const int16 *out = endpointer_end_stream(ep, tail, t, &on);
    int first = 1;
    fprintf(vt_out, "{\"e\":\"E\",\"t\":%d,\"null\":%d,\"on\":%lld,\"ids\":[", (int)t, out == NULL, (long long)on);
    if (out != NULL && on != (size_t)-1) {
        /* walk the returned samples frame by frame; a last chunk that is not a fed frame is
         * compared with the trailing frame that was passed in (logged as 0) */
        for (off = 0; off < on; off += fsize) {
            size_t len = on - off < fsize ? on - off : fsize;
            int id = -1;
            if (len == fsize)
                id = match_frame(out + off);
            if (id < 0 && off + len == on && len == t && memcmp(out + off, tail, t * sizeof(int16)) == 0)
                id = 0;
            fprintf(vt_out, "%s%d", first ? "" : ",", id);
            first = 0;
        }
    }
    fprintf(vt_out, "],");
    log_times();
    fprintf(vt_out, "}\n");
}

/* ---- real-mode audio ---- */
static int16 *audio;
static size_t naudio, capaudio;

static void
audio_push(int16 v)
{
    if (naudio == capaudio) {
        capaudio = capaudio ? 2 * capaudio : 65536;
        audio = realloc(audio, capaudio * sizeof(int16));
    }
    audio[naudio++] = v;
}

static void
audio_file(const char *rel, long skip, long want, int gain_pct, int decim, int rep)
{
    char path[4096];
    FILE *f;
    int16 v;
    long i = 0, taken = 0;
    int r;
    snprintf(path, sizeof(path), "%s/%s", repo, rel);
    if ((f = fopen(path, "rb")) == NULL) {
        perror(path);
        exit(3);
    }
    fseek(f, skip * 2, SEEK_SET);
    while (fread(&v, 2, 1, f) == 1 && (want < 0 || taken < want)) {
        if (i++ % decim)
            continue;
        for (r = 0; r < rep; ++r) {
            long x = (long)v * gain_pct / 100;
            audio_push((int16)(x > 32767 ? 32767 : x < -32768 ? -32768 : x));
        }
        ++taken;
    }
    fclose(f);
}

static void
run_exec(char **lines, int nlines)
{
    int id, vadmode, flen_ms, defbits, win_ms, ratio_pm, req_rate, i;
    unsigned seed;
    char mode;
    if (sscanf(lines[0], "exec %d %c %d %d %d %d %d %d %u", &id, &mode, &win_ms, &ratio_pm, &vadmode, &req_rate,
               &flen_ms, &defbits, &seed) != 9) {
        fprintf(stderr, "bad exec line: %s\n", lines[0]);
        exit(3);
    }
    scripted = mode == 's';
    /* executions share a child process: forget the previous one's frames and audio */
    for (i = 0; i < nfed; ++i)
        free(fed[i]);
    nfed = 0;
    naudio = 0;
    ep = endpointer_init((defbits & 1) ? 0.0 : win_ms / 1000.0, (defbits & 2) ? 0.0 : ratio_pm / 1000.0,
                         (vad_mode_t)vadmode, (defbits & 4) ? 0 : req_rate, (defbits & 8) ? 0.0 : flen_ms / 1000.0);
    if (ep == NULL) {
        fprintf(vt_out, "{\"e\":\"Header\",\"id\":%d,\"init\":0,\"win_ms\":%d,\"ratio_pm\":%d,\"rate\":%d,\"fsize\":0}\n",
                id, win_ms, ratio_pm, req_rate);
        return;
    }
    fsize = endpointer_frame_size(ep);
    rate = endpointer_sample_rate(ep);
    fprintf(vt_out,
            "{\"e\":\"Header\",\"id\":%d,\"init\":1,\"mode\":\"%c\",\"win_ms\":%d,\"ratio_pm\":%d,\"rate\":%d,\"fsize\":%d,"
            "\"flen_ok\":%d}\n",
            id, mode, win_ms, ratio_pm, rate, (int)fsize,
            fabs(endpointer_frame_length(ep) - (double)fsize / rate) < 1e-12);
    for (i = 1; i < nlines; ++i) {
        char *ln = lines[i];
        if (ln[0] == 'p' && ln[1] == ' ') {
            const char *c;
            for (c = ln + 2; *c == '0' || *c == '1'; ++c)
                do_process(make_frame(nfed + 1, *c - '0', fsize, seed));
        } else if (ln[0] == 'e' && ln[1] == ' ') {
            size_t t = (size_t)atol(ln + 2);
            int16 *tail = make_frame(nfed + 1, 0, t, seed);
            do_end(tail, t);
            free(tail);
        } else if (strncmp(ln, "a file ", 7) == 0) {
            char rel[2048];
            long skip, want;
            int gain, decim, rep;
            if (sscanf(ln + 7, "%2047s %ld %ld %d %d %d", rel, &skip, &want, &gain, &decim, &rep) != 6)
                exit(3);
            audio_file(rel, skip, want, gain, decim < 1 ? 1 : decim, rep < 1 ? 1 : rep);
        } else if (strncmp(ln, "a noise ", 8) == 0) {
            long ns, k;
            int amp;
            unsigned s2;
            if (sscanf(ln + 8, "%ld %d %u", &ns, &amp, &s2) != 3)
                exit(3);
            lcg = s2 * 2654435761u + 99u;
            for (k = 0; k < ns; ++k)
                audio_push((int16)(amp ? next_rand() % (amp + 1) : 0));
        } else if (strncmp(ln, "run ", 4) == 0) {
            long nfr, trail, k;
            size_t off = 0, t;
            int16 *tail;
            if (sscanf(ln + 4, "%ld %ld", &nfr, &trail) != 2)
                exit(3);
            if (nfr < 0 || (size_t)nfr > naudio / fsize)
                nfr = (long)(naudio / fsize);
            for (k = 0; k < nfr; ++k, off += fsize) {
                int16 *f = malloc(fsize * sizeof(int16));
                memcpy(f, audio + off, fsize * sizeof(int16));
                do_process(f);
            }
            t = naudio - off;
            if (t > fsize)
                t = fsize;
            if (trail >= 0 && (size_t)trail < t)
                t = (size_t)trail;
            tail = malloc((t ? t : 1) * sizeof(int16));
            memcpy(tail, audio + off, t * sizeof(int16));
            do_end(tail, t);
            free(tail);
        } else if (strncmp(ln, "end", 3) == 0) {
            break;
        } else {
            fprintf(stderr, "bad script line: %s\n", ln);
            exit(3);
        }
    }
    endpointer_free(ep);
}

/* After an abnormal child exit: find the sanitizer summary in its stderr. */
static void
emit_crash(const char *errpath, int status)
{
    char buf[8192], kind[128] = "", fn[128] = "", pc[64] = "";
    FILE *f = fopen(errpath, "r");
    size_t nr = f ? fread(buf, 1, sizeof(buf) - 1, f) : 0;
    char *p;
    if (f) {
        /* the SUMMARY line is near the end of the report */
        fseek(f, 0, SEEK_END);
        long sz = ftell(f);
        if (sz > (long)sizeof(buf) - 1) {
            fseek(f, sz - ((long)sizeof(buf) - 1), SEEK_SET);
            nr = fread(buf, 1, sizeof(buf) - 1, f);
        }
        fclose(f);
    }
    buf[nr] = 0;
    if ((p = strstr(buf, "SUMMARY: AddressSanitizer: ")) != NULL) {
        char *q;
        sscanf(p + 27, "%127s", kind);
        char *eol = strchr(p, '\n');
        if (eol)
            *eol = 0;
        if ((q = strstr(p, " in ")) != NULL)
            sscanf(q + 4, "%127[A-Za-z0-9_]", fn);
        if ((q = strstr(p, "+0x")) != NULL) /* not symbolized: offset in the binary */
            sscanf(q + 1, "%63[0-9a-fx]", pc);
    } else if ((p = strstr(buf, "runtime error:")) != NULL) {
        strcpy(kind, "ubsan");
    } else if ((p = strstr(buf, "Assertion")) != NULL) {
        strcpy(kind, "assertion");
    }
    fprintf(vt_out, "{\"e\":\"Crash\",\"rc\":%d,\"sig\":%d,\"kind\":", WIFEXITED(status) ? WEXITSTATUS(status) : -1,
            WIFSIGNALED(status) ? WTERMSIG(status) : 0);
    vt_str(vt_out, kind[0] ? kind : "unknown");
    fprintf(vt_out, ",\"fn\":");
    vt_str(vt_out, fn);
    fprintf(vt_out, ",\"pc\":");
    vt_str(vt_out, pc);
    fprintf(vt_out, "}\n");
}

int
main(int argc, char *argv[])
{
    char **lines = NULL, line[8192], errpath[4096];
    int nlines = 0, cap = 0, i, j, *bstart = NULL, nblocks = 0, capb = 0;
    volatile int *progress;
    if (argc < 3) {
        fprintf(stderr, "usage: ep_drv <trace> <repo>\n");
        return 3;
    }
    repo = argv[2];
    err_set_loglevel(ERR_FATAL);
    vt_open(argv[1]);
    snprintf(errpath, sizeof(errpath), "%s.err", argv[1]);
    while (fgets(line, sizeof(line), stdin)) {
        line[strcspn(line, "\r\n")] = 0;
        if (!line[0])
            continue;
        if (nlines == cap) {
            cap = cap ? 2 * cap : 1024;
            lines = realloc(lines, cap * sizeof(*lines));
        }
        lines[nlines++] = strdup(line);
    }
    /* index the exec blocks */
    for (i = 0; i < nlines; ++i)
        if (strncmp(lines[i], "exec ", 5) == 0) {
            if (nblocks == capb) {
                capb = capb ? 2 * capb : 1024;
                bstart = realloc(bstart, (capb + 1) * sizeof(*bstart));
            }
            bstart[nblocks++] = i;
        }
    if (nblocks == 0)
        return 0;
    bstart[nblocks] = nlines;
    progress = mmap(NULL, sizeof(int), PROT_READ | PROT_WRITE, MAP_SHARED | MAP_ANONYMOUS, -1, 0);
    if (progress == MAP_FAILED) {
        perror("mmap");
        return 3;
    }
    for (i = 0; i < nblocks;) {
        pid_t pid;
        int status = 0, last = i + GROUP < nblocks ? i + GROUP : nblocks;
        fflush(vt_out);
        *progress = i;
        if ((pid = fork()) < 0) {
            perror("fork");
            return 3;
        }
        if (pid == 0) {
            int fd = open(errpath, O_WRONLY | O_CREAT | O_TRUNC, 0600);
            if (fd >= 0) {
                dup2(fd, 2);
                close(fd);
            }
            for (j = i; j < last; ++j) {
                *progress = j;
                run_exec(lines + bstart[j], bstart[j + 1] - bstart[j]);
                fflush(vt_out);
            }
            _exit(0);
        }
        if (waitpid(pid, &status, 0) < 0) {
            perror("waitpid");
            return 3;
        }
        if (WIFEXITED(status) && WEXITSTATUS(status) == 0) {
            i = last;
            continue;
        }
        if (WIFEXITED(status) && WEXITSTATUS(status) == 3)
            return 3; /* the script itself was wrong */
        emit_crash(errpath, status);
        i = *progress + 1;
    }
    unlink(errpath);
    vt_close();
    return 0;
}
