/* Driver for the dynamic-feature computation (feat.c): integer-valued cepstra of an utterance are handed to
 * feat_s2mfc2feat_live in pieces (the first call begins the utterance, the last ends it; empty pieces allowed) and
 * every feature frame that comes out is recorded, streams concatenated.  No channel normalisation, no
 * transforms, so every number is an exact small integer.
 * Usage: feat_drv <trace.ndjson> < script     script lines:  utt <feat type> <ceplen> <seed> <piece sizes ...> */
#include <soundswallower/configuration.h>
#include <soundswallower/err.h>
#include <soundswallower/feat.h>
#include <soundswallower/ckd_alloc.h>
#include "../common/vtrace.h"

static int
val(unsigned long seed, int t, int i)
{
    unsigned long x = seed * 0x9E3779B97F4A7C15UL + (unsigned long)t * 0xC2B2AE3D27D4EB4FUL + (unsigned long)i * 0x165667B19E3779F9UL;
    x ^= x >> 29;
    x *= 0xBF58476D1CE4E5B9UL;
    x ^= x >> 32;
    return (int)(x % 41) - 20;
}

int
main(int argc, char *argv[])
{
    static char line[1 << 16];
    err_set_loglevel(ERR_FATAL);
    vt_open(argc > 1 ? argv[1] : NULL);
    while (fgets(line, sizeof(line), stdin)) {
        char type[64], *p, *tok, *save = NULL;
        int ceplen, n = 0, pieces[4096], np = 0, t, i, k, s, total_out = 0, first, begin = 1;
        unsigned long seed;
        config_t *config;
        feat_t *fcb;
        mfcc_t **cep, ***out;
        if (line[0] == '#' || line[0] == '\n')
            continue;
        p = strtok_r(line, " \n", &save);
        if (!p || strcmp(p, "utt"))
            return 3;
        tok = strtok_r(NULL, " \n", &save);
        if (!tok) return 3;
        snprintf(type, sizeof(type), "%s", tok);
        tok = strtok_r(NULL, " \n", &save);
        if (!tok) return 3;
        ceplen = atoi(tok);
        tok = strtok_r(NULL, " \n", &save);
        if (!tok) return 3;
        seed = strtoul(tok, NULL, 10);
        while ((tok = strtok_r(NULL, " \n", &save)) && np < 4096) {
            pieces[np] = atoi(tok);
            n += pieces[np++];
        }
        config = config_init(NULL);
        config_set_str(config, "feat", type);
        config_set_int(config, "ceplen", ceplen);
        config_set_str(config, "cmn", "none");
        config_set_str(config, "loglevel", "FATAL");
        fcb = feat_init(config);
        if (fcb == NULL) {
            fprintf(stderr, "feat_init failed for %s / %d\n", type, ceplen);
            return 3;
        }
        cep = (mfcc_t **)ckd_calloc_2d(n + 1, ceplen, sizeof(mfcc_t));
        for (t = 0; t < n; ++t)
            for (i = 0; i < ceplen; ++i)
                cep[t][i] = (mfcc_t)val(seed, t, i);
        out = feat_array_alloc(fcb, n + 16);
        fprintf(vt_out, "{\"e\":\"Feat\",\"type\":\"%s\",\"ceplen\":%d,\"win\":%d,\"cep\":[", type, ceplen, (int)feat_window_size(fcb));
        for (t = 0; t < n; ++t) {
            fprintf(vt_out, "%s[", t ? "," : "");
            for (i = 0; i < ceplen; ++i)
                fprintf(vt_out, "%s%d", i ? "," : "", (int)cep[t][i]);
            fputc(']', vt_out);
        }
        fprintf(vt_out, "],\"out\":[");
        first = 1;
        t = 0;
        for (k = 0; k < np; ++k) {
            /* a piece may be taken in several goes: the call says how much it consumed */
            int left = pieces[k], guard = 0;
            do {
                int32 ncep = left, nfr;
                /* the utterance begins with the first call that brings a frame (this is what acmod.c does: it stays in
                 * its STARTED state until cepstra were consumed) */
                nfr = feat_s2mfc2feat_live(fcb, cep + t, &ncep, begin, (k == np - 1), out);
                if (ncep > 0)
                    begin = 0;
                for (i = 0; i < nfr; ++i) {
                    fprintf(vt_out, "%s[", first ? "" : ",");
                    first = 1;
                    for (s = 0; s < feat_n_stream(fcb); ++s) {
                        int j;
                        for (j = 0; j < (int)feat_stream_len(fcb, s); ++j) {
                            fprintf(vt_out, "%s%d", first ? "" : ",", (int)out[i][s][j]);
                            first = 0;
                        }
                    }
                    fputc(']', vt_out);
                    first = 0;
                    ++total_out;
                }
                t += ncep;
                left -= ncep;
            } while (left > 0 && ++guard < 64);
        }
        fprintf(vt_out, "],\"nout\":%d}\n", total_out);
        feat_array_free(out);
        ckd_free_2d(cep);
        feat_free(fcb);
        config_free(config);
    }
    vt_close();
    return 0;
}
