/* Minimal ndjson trace writer shared by all harness drivers.  One event per line on a FILE*. */
#ifndef VTRACE_H
#define VTRACE_H
#include <stdio.h>
#include <stdlib.h>
#include <string.h>
#include <stdint.h>

static FILE *vt_out;

static void
vt_open(const char *path)
{
    vt_out = path ? fopen(path, "w") : stdout;
    if (!vt_out) {
        perror(path);
        exit(3);
    }
    setvbuf(vt_out, NULL, _IOLBF, 0);
}

static void
vt_close(void)
{
    if (vt_out && vt_out != stdout)
        fclose(vt_out);
    vt_out = NULL;
}

/* JSON string escaping for arbitrary bytes (bytes >= 0x80 are written as \u00XX so that the file
 * stays ASCII; consumers that care about bytes get them as arrays instead). */
static void
vt_str(FILE *f, const char *s)
{
    fputc('"', f);
    for (; *s; ++s) {
        unsigned char c = (unsigned char)*s;
        if (c == '"' || c == '\\')
            fprintf(f, "\\%c", c);
        else if (c < 0x20 || c >= 0x7f)
            fprintf(f, "\\u%04x", c);
        else
            fputc(c, f);
    }
    fputc('"', f);
}

static int
vt_hexval(int c)
{
    if (c >= '0' && c <= '9')
        return c - '0';
    if (c >= 'a' && c <= 'f')
        return c - 'a' + 10;
    if (c >= 'A' && c <= 'F')
        return c - 'A' + 10;
    return -1;
}

/* Decode hex into a freshly allocated, zero-terminated buffer; "-" means empty. */
static char *
vt_unhex(const char *hex, size_t *len)
{
    size_t n = strcmp(hex, "-") == 0 ? 0 : strlen(hex) / 2, i;
    char *b = (char *)calloc(n + 1, 1);
    for (i = 0; i < n; ++i)
        b[i] = (char)(vt_hexval(hex[2 * i]) * 16 + vt_hexval(hex[2 * i + 1]));
    if (len)
        *len = n;
    return b;
}
#endif
