/* Calling fsg_history_entry_add() from a driver whatever way the tree under test passes the right-context set
 * (by value, as in the pinned sources, or through a pointer): an internal signature is not part of any property, and
 * a driver that stops compiling after such a refactoring would leave the checks without a verdict.  The drivers pass
 * the set in an object of their own, which they do not read afterwards. */
#ifndef VERIF_HISTADD_H
#define VERIF_HISTADD_H
#include <soundswallower/fsg_history.h>
typedef void (*vt_hist_add_val_t)(fsg_history_t *, fsg_link_t *, int32, int32, int32, int32, fsg_pnode_ctxt_t);
typedef void (*vt_hist_add_ptr_t)(fsg_history_t *, fsg_link_t *, int32, int32, int32, int32, fsg_pnode_ctxt_t *);
#define VT_HIST_ADD(h, l, fr, sc, pr, lc, rcobj)                                                                    \
    _Generic(&fsg_history_entry_add,                                                                                 \
             vt_hist_add_ptr_t: ((vt_hist_add_ptr_t)fsg_history_entry_add)((h), (l), (fr), (sc), (pr), (lc), &(rcobj)), \
             default: ((vt_hist_add_val_t)fsg_history_entry_add)((h), (l), (fr), (sc), (pr), (lc), (rcobj)))
#endif
