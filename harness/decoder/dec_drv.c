/* Driver for the decoder-level properties (C01 C03 C04 C07 C11 C12 C14, reused by C02 C08 C09).
 *
 * Reads a line-oriented script on stdin, drives the public decoder API of the real library and writes
 * one JSON event per call with everything the properties talk about.  Text arguments are hex encoded.
 * Nothing is read from private state except through public headers; the acoustic scorer is observed
 * through a linker wrap of acmod_score (frame indices per pass, optionally senone scores).
 *
 *   init <hex json config>          decoder_init(config_parse_json(NULL, json))   -> Header
 *   free                            decoder_free
 *   audio <name> file <path> <skip bytes> <i16|f32>
 *   audio <name> reverse|clip|trunc|gain|silence|noise|cat|slice ...   (see load_audio_op)
 *   jsgf <hex> | fsgfile <path> | align <hex>     set the grammar (dumping the user's grammar first)
 *   cmn <hex>                       decoder_set_cmn
 *   start | end
 *   feed <name> <off> <n> <i16|f32> <no_search> <full_utt>
 *   result <tag>                    hypothesis + segmentation + frame accounting
 *   lattice <tag>                   dump of decoder_lattice() (+ best path, posteriors)
 *   nbest <tag> <max>
 *   alignment <tag>
 *   json <tag> <start in ms> <level>
 *   senscr <0|1>                    log per-frame senone scores of listed senones (see `senset`)
 */
#include <assert.h>
#include <math.h>
#include <soundswallower/acmod.h>
#include <soundswallower/alignment.h>
#include <soundswallower/bin_mdef.h>
#include <soundswallower/ckd_alloc.h>
#include <soundswallower/configuration.h>
#include <soundswallower/decoder.h>
#include <soundswallower/dict2pid.h>
#include <soundswallower/tmat.h>
#include <soundswallower/dict.h>
#include <soundswallower/err.h>
#include <soundswallower/fsg_model.h>
#include <soundswallower/fsg_search.h>
#include <soundswallower/jsgf.h>
#include <soundswallower/lattice.h>
#include <soundswallower/s3file.h>
#include <soundswallower/search_module.h>
#include <soundswallower/state_align_search.h>
#include "histadd.h"
#include "vtrace.h"

static lattice_t *kept_dag; /* "call latkeep": the caller's own reference to a lattice */

#define MAXAUDIO 64
typedef struct {
    char name[32];
    int16 *i16;
    float32 *f32;
    long n;
} audio_t;
static audio_t audio[MAXAUDIO];
static int naudio;

static decoder_t *d; /* the current decoder (slot `cur') */
static int execno;
/* several decoder instances can be alive at once (use <k>); the per-utterance counters travel with them */
#define NSLOT 4
static struct slot_s {
    decoder_t *d;
    int scored[3], last_scored_frame[3], order_ok[3];
    long fed_samples;
    int ret_sum;
} slots[NSLOT];
static int cur;
static int pass;          /* 1 = first-pass search, 2 = alignment pass */
static int scored[3];     /* acmod_score calls per pass in this utterance */
static int last_scored_frame[3];
static int order_ok[3];   /* frames were scored in order 0,1,2,... in this pass */
static int log_senscr;
static int sen_mode, sen_seed, sen_range; /* synthetic acoustics (senmode): 0 off, 1 hash, 2 flat, 3 sparse */
static unsigned char *senset; /* senones to log when log_senscr */
static int n_senset_alloc;
static long fed_samples;
static int ret_sum;
static long calloc_last; /* last size passed to __ckd_calloc__ from decoder_result_json (wrap) */
static int in_json;

/* ---- linker wraps ------------------------------------------------------------------------ */
int16 const *__real_acmod_score(acmod_t *acmod, int *inout_frame_idx);
int16 const *
__wrap_acmod_score(acmod_t *acmod, int *inout_frame_idx)
{
    int16 const *s = __real_acmod_score(acmod, inout_frame_idx);
    int p = pass;
    if (s && inout_frame_idx && sen_mode) {
        /* synthetic acoustics: the scorer's output for this frame is replaced by a pure function of (seed, frame,
         * senone), the same whenever the frame is asked again (second pass, repeated calls); costs in [0, range] */
        int f = *inout_frame_idx, i, n = bin_mdef_n_sen(acmod->mdef);
        int16 *w = (int16 *)s;
        for (i = 0; i < n; ++i) {
            unsigned long x = (unsigned long)sen_seed * 0x9E3779B97F4A7C15UL + (unsigned long)f * 0xC2B2AE3D27D4EB4FUL
                + (unsigned long)i * 0x165667B19E3779F9UL;
            x ^= x >> 29;
            x *= 0xBF58476D1CE4E5B9UL;
            x ^= x >> 32;
            if (sen_mode == 1)
                w[i] = (int16)(x % (unsigned long)(sen_range + 1));
            else if (sen_mode == 2)
                w[i] = 0;
            else /* a few cheap senones per frame, the rest dear; a handful of distinct values, so ties are common */
                w[i] = (int16)((x % 7 == 0) ? (long)((x >> 8) % 3) * (sen_range / 8) : sen_range - (long)((x >> 8) % 2) * (sen_range / 4));
        }
    }
    if (s && inout_frame_idx) {
        int f = *inout_frame_idx;
        if (f != last_scored_frame[p]) { /* the same frame may be asked twice */
            if (f != last_scored_frame[p] + 1)
                order_ok[p] = 0;
            last_scored_frame[p] = f;
            ++scored[p];
            if (log_senscr && vt_out) {
                int i, first = 1, n = bin_mdef_n_sen(acmod->mdef);
                fprintf(vt_out, "{\"e\":\"Frame\",\"pass\":%d,\"t\":%d,\"sen\":{", p, f);
                for (i = 0; i < n && i < n_senset_alloc; ++i)
                    if (senset[i]) {
                        fprintf(vt_out, "%s\"%d\":%d", first ? "" : ",", i, (int)s[i]);
                        first = 0;
                    }
                fprintf(vt_out, "}}\n");
            }
        }
    }
    return s;
}

void *__real___ckd_calloc__(size_t n_elem, size_t elem_size, const char *f, int l);
void *
__wrap___ckd_calloc__(size_t n_elem, size_t elem_size, const char *f, int l)
{
    if (in_json && elem_size == 1 && f && strstr(f, "decoder.c"))
        calloc_last = (long)n_elem;
    return __real___ckd_calloc__(n_elem, elem_size, f, l);
}

/* ---- helpers ------------------------------------------------------------------------------ */
static audio_t *
find_audio(const char *name)
{
    int i;
    for (i = 0; i < naudio; ++i)
        if (!strcmp(audio[i].name, name))
            return &audio[i];
    return NULL;
}

static audio_t *
new_audio(const char *name, long n)
{
    audio_t *a = find_audio(name);
    if (a) {
        free(a->i16);
        free(a->f32);
    } else {
        if (naudio == MAXAUDIO)
            exit(3);
        a = &audio[naudio++];
        snprintf(a->name, sizeof(a->name), "%s", name);
    }
    a->n = n;
    a->i16 = (int16 *)calloc(n + 1, sizeof(int16));
    a->f32 = (float32 *)calloc(n + 1, sizeof(float32));
    return a;
}

static void
sync_f32(audio_t *a)
{
    long i;
    for (i = 0; i < a->n; ++i)
        a->f32[i] = (float32)a->i16[i] / 32768.0f;
}

/* textual base form: strip a trailing "(n)" */
static void
base_of(const char *w, char *out, size_t outsz)
{
    size_t n = strlen(w);
    snprintf(out, outsz, "%s", w);
    if (n > 3 && w[n - 1] == ')') {
        size_t i = n - 2;
        while (i > 0 && w[i] >= '0' && w[i] <= '9')
            --i;
        if (w[i] == '(' && i < n - 2 && i > 0)
            out[i] = '\0';
    }
}

static void
emit_word(const char *w)
{
    char b[512];
    if (w == NULL) {
        fprintf(vt_out, "null");
        return;
    }
    base_of(w, b, sizeof(b));
    vt_str(vt_out, b);
}

/* split a hypothesis string on spaces into a JSON array of words */
static void
emit_hyp_words(const char *hyp)
{
    char *copy, *tok, *save = NULL;
    int first = 1;
    if (hyp == NULL) {
        fprintf(vt_out, "[]");
        return;
    }
    copy = strdup(hyp);
    fputc('[', vt_out);
    for (tok = strtok_r(copy, " ", &save); tok; tok = strtok_r(NULL, " ", &save)) {
        if (!first)
            fputc(',', vt_out);
        vt_str(vt_out, tok);
        first = 0;
    }
    fputc(']', vt_out);
    free(copy);
}

/* classification of a segment word: 0 real word, 1 filler (from the dictionary's filler flag),
 * 2 grammar null transition */
static int
word_kind(const char *w)
{
    int32 wid;
    if (w == NULL || !strcmp(w, "(NULL)"))
        return 2;
    wid = dict_wordid(d->dict, w);
    if (wid == BAD_S3WID)
        return 3; /* not in the dictionary at all: e.g. a tag; reported as such */
    return dict_filler_word(d->dict, wid) ? 1 : 0;
}

static void
emit_segs(seg_iter_t *seg)
{
    int first = 1;
    fputc('[', vt_out);
    for (; seg; seg = seg_iter_next(seg)) {
        int sf, ef;
        int32 ascr, lscr, prob;
        const char *w = seg_iter_word(seg);
        seg_iter_frames(seg, &sf, &ef);
        prob = seg_iter_prob(seg, &ascr, &lscr);
        fprintf(vt_out, "%s{\"w\":", first ? "" : ",");
        vt_str(vt_out, w ? w : "");
        fprintf(vt_out, ",\"b\":");
        emit_word(w ? w : "");
        fprintf(vt_out, ",\"k\":%d,\"sf\":%d,\"ef\":%d,\"ascr\":%d,\"lscr\":%d,\"prob\":%d}", word_kind(w), sf, ef,
                (int)ascr, (int)lscr, (int)prob);
        first = 0;
    }
    fputc(']', vt_out);
}

/* what the USER wrote, when the script says so (fsgtext <text> <n,start,final,arcs as JSON members>): the grammar of
 * record is then the text's, not what the reader made of it */
static const char *grammar_annot;

static void
dump_fsg(fsg_model_t *fsg, const char *kind, int ret)
{
    int i, first = 1;
    fprintf(vt_out, "{\"e\":\"Grammar\",\"kind\":\"%s\",\"ret\":%d", kind, ret);
    if (grammar_annot && fsg) {
        if (d && d->search && ret == 0) {
            fsg_search_t *fs = (fsg_search_t *)d->search;
            fprintf(vt_out, ",\"beam\":%d,\"pbeam\":%d,\"wbeam\":%d", (int)fs->beam_orig, (int)fs->pbeam_orig, (int)fs->wbeam_orig);
        }
        fprintf(vt_out, ",\"lw_milli\":%d,\"annotated\":true,%s}\n", (int)(fsg_model_lw(fsg) * 1000 + 0.5), grammar_annot);
        return;
    }
    if (d && d->search && ret == 0) { /* the beams the search actually uses (scaled log domain) */
        fsg_search_t *fs = (fsg_search_t *)d->search;
        fprintf(vt_out, ",\"beam\":%d,\"pbeam\":%d,\"wbeam\":%d", (int)fs->beam_orig, (int)fs->pbeam_orig, (int)fs->wbeam_orig);
    }
    if (fsg) {
        fprintf(vt_out, ",\"n\":%d,\"start\":%d,\"final\":%d,\"lw_milli\":%d,\"arcs\":[", fsg_model_n_state(fsg),
                fsg_model_start_state(fsg), fsg_model_final_state(fsg), (int)(fsg_model_lw(fsg) * 1000 + 0.5));
        for (i = 0; i < fsg_model_n_state(fsg); ++i) {
            fsg_arciter_t *it;
            for (it = fsg_model_arcs(fsg, i); it; it = fsg_arciter_next(it)) {
                fsg_link_t *l = fsg_arciter_get(it);
                fprintf(vt_out, "%s[%d,%d,", first ? "" : ",", fsg_link_from_state(l), fsg_link_to_state(l));
                if (fsg_link_wid(l) < 0)
                    fprintf(vt_out, "\"\"");
                else
                    emit_word(fsg_model_word_str(fsg, fsg_link_wid(l)));
                fprintf(vt_out, ",%d]", (int)fsg_link_logs2prob(l));
                first = 0;
            }
        }
        fputc(']', vt_out);
    }
    fprintf(vt_out, "}\n");
}

static void
emit_header(const char *json)
{
    int i, n, first = 1;
    fprintf(vt_out, "{\"e\":\"Header\",\"id\":%d,\"ok\":%s", ++execno, d ? "true" : "false");
    if (d) {
        int shift = 0, size = 0;
        fe_get_input_size(d->fe, &shift, &size);
        fprintf(vt_out, ",\"frate\":%ld,\"samprate\":%ld,\"nsen\":%d,\"size\":%d,\"shift\":%d,\"fillers\":[",
                config_int(d->config, "frate"), config_int(d->config, "samprate"), bin_mdef_n_sen(d->acmod->mdef), size,
                shift);
        n = dict_size(d->dict);
        for (i = 0; i < n; ++i)
            if (dict_filler_word(d->dict, i)) {
                fprintf(vt_out, "%s", first ? "" : ",");
                vt_str(vt_out, dict_wordstr(d->dict, i));
                first = 0;
            }
        fprintf(vt_out, "],\"config\":%s", json);
    }
    fprintf(vt_out, "}\n");
}

static void
reset_utt_counters(void)
{
    int p;
    for (p = 0; p < 3; ++p) {
        scored[p] = 0;
        last_scored_frame[p] = -1;
        order_ok[p] = 1;
    }
    fed_samples = 0;
    ret_sum = 0;
}

/* ---- result dumps ------------------------------------------------------------------------- */
static void
cmd_result(const char *tag)
{
    int32 score = 0;
    const char *hyp;
    seg_iter_t *seg;
    int st = d->acmod->state;

    hyp = decoder_hyp(d, &score);
    fprintf(vt_out, "{\"e\":\"Result\",\"tag\":\"%s\",\"final\":%s,\"hyp\":", tag,
            (st == ACMOD_ENDED || st == ACMOD_IDLE) ? "true" : "false");
    emit_hyp_words(hyp);
    fprintf(vt_out, ",\"hypnull\":%s,\"score\":%d,\"segs\":", hyp ? "false" : "true", hyp ? (int)score : 0);
    seg = decoder_seg_iter(d);
    fprintf(vt_out, seg ? "" : "[],\"segsnull\":true");
    if (seg) {
        emit_segs(seg);
        fprintf(vt_out, ",\"segsnull\":false");
    }
    fprintf(vt_out, ",\"nfr\":%d,\"scored\":%d,\"in_order\":%s,\"ret_sum\":%d,\"fed\":%ld,\"prob\":%d}\n",
            decoder_n_frames(d), scored[1], order_ok[1] ? "true" : "false", ret_sum, fed_samples,
            (int)decoder_prob(d));
}

static int
node_index(latnode_t **nodes, int n, latnode_t *x)
{
    int i;
    for (i = 0; i < n; ++i)
        if (nodes[i] == x)
            return i;
    return -1;
}

static void emit_lattice_fields(lattice_t *dag, lattice_t *dag2, int with_scores);
static lattice_t *bestpath_done_on; /* the lattice lattice_bestpath() last ran on: pointer, and (a freed lattice's address */
static int bestpath_done_frames;    /* can be reused) the frame count it covered; forgotten at every decoder_start_utt  */

static void
cmd_lattice(const char *tag, int with_scores)
{
    lattice_t *dag = decoder_lattice(d), *dag2;

    fprintf(vt_out, "{\"e\":\"Lattice\",\"tag\":\"%s\",\"scored\":%d", tag, scored[1]);
    if (dag == NULL) {
        fprintf(vt_out, ",\"null\":true}\n");
        return;
    }
    dag2 = decoder_lattice(d);
    /* ... and once more while the caller holds a reference of its own (the documented way of keeping a lattice) */
    lattice_retain(dag);
    if (dag2 == dag)
        dag2 = decoder_lattice(d);
    emit_lattice_fields(dag, dag2, with_scores);
    lattice_free(dag);
    fprintf(vt_out, "}\n");
}

/* ,"null":false,... of a lattice: nodes and links through the public iterators and, with_scores, best path and
 * posteriors as the N-best / confidence code computes them */
static void
emit_lattice_fields(lattice_t *dag, lattice_t *dag2, int with_scores)
{
    latnode_iter_t *ni;
    latnode_t **nodes;
    int n = 0, i, first;

    for (ni = ps_latnode_iter(dag); ni; ni = ps_latnode_iter_next(ni))
        ++n;
    nodes = (latnode_t **)calloc(n + 1, sizeof(*nodes));
    i = 0;
    for (ni = ps_latnode_iter(dag); ni; ni = ps_latnode_iter_next(ni))
        nodes[i++] = ps_latnode_iter_node(ni);
    fprintf(vt_out, ",\"null\":false,\"again_same\":%s,\"frames\":%d,\"start\":%d,\"end\":%d,\"final_ascr\":%d,\"nodes\":[",
            dag == dag2 ? "true" : "false", lattice_n_frames(dag), node_index(nodes, n, dag->start),
            node_index(nodes, n, dag->end), (int)dag->final_node_ascr);
    for (i = 0; i < n; ++i) {
        int16 fef, lef;
        int sf = latnode_times(nodes[i], &fef, &lef);
        const char *w = ps_latnode_word(dag, nodes[i]);
        fprintf(vt_out, "%s{\"w\":", i ? "," : "");
        vt_str(vt_out, w ? w : "");
        fprintf(vt_out, ",\"b\":");
        emit_word(ps_latnode_baseword(dag, nodes[i]));
        fprintf(vt_out, ",\"k\":%d,\"sf\":%d,\"fef\":%d,\"lef\":%d,\"st\":%d}", word_kind(w), sf, (int)fef, (int)lef,
                (int)nodes[i]->node_id);
    }
    fprintf(vt_out, "],\"links\":[");
    first = 1;
    for (i = 0; i < n; ++i) {
        latlink_iter_t *li;
        for (li = ps_latnode_exits(nodes[i]); li; li = ps_latlink_iter_next(li)) {
            latlink_t *l = ps_latlink_iter_link(li);
            latnode_t *src = NULL, *dst;
            int16 sf;
            int ef = latlink_times(l, &sf);
            dst = ps_latlink_nodes(l, &src);
            fprintf(vt_out, "%s[%d,%d,%d,%d]", first ? "" : ",", node_index(nodes, n, src), node_index(nodes, n, dst),
                    (int)l->ascr, ef);
            first = 0;
        }
    }
    fprintf(vt_out, "]");
    if (with_scores) {
        /* best path and posteriors, as the N-best / confidence code computes them */
        float32 ascale = (float32)(1.0 / config_float(d->config, "ascale"));
        latlink_t *last = lattice_bestpath(dag, ascale), *l;
        bestpath_done_on = last ? dag : NULL;
        bestpath_done_frames = lattice_n_frames(dag);
        int32 post;
        fprintf(vt_out, ",\"hasbest\":%s,\"best\":", last ? "true" : "false");
        if (last == NULL)
            fprintf(vt_out, "{}");
        else {
            fprintf(vt_out, "{\"score\":%d,\"hyp\":", (int)(last->path_scr + dag->final_node_ascr));
            emit_hyp_words(lattice_hyp(dag, last));
            fprintf(vt_out, ",\"path\":[");
            first = 1;
            for (l = last; l; l = ps_latlink_pred(l)) {
                fprintf(vt_out, "%s[%d,%d,%d]", first ? "" : ",", node_index(nodes, n, l->from),
                        node_index(nodes, n, l->to), (int)l->ascr);
                first = 0;
            }
            fprintf(vt_out, "]}");
            post = lattice_posterior(dag, ascale);
            {
                /* backward total: log-sum over the links leaving the start node of beta + scaled link score */
                latlink_iter_t *li;
                int32 bwd = logmath_get_zero(dag->lmath);
                for (li = ps_latnode_exits(dag->start); li; li = ps_latlink_iter_next(li)) {
                    latlink_t *lk = ps_latlink_iter_link(li);
                    bwd = logmath_add(dag->lmath, bwd, lk->beta + (int32)((lk->ascr << 10) * ascale));
                }
                fprintf(vt_out, ",\"post\":{\"best\":%d,\"norm\":%d,\"bwd\":%d,\"links\":[", (int)post, (int)dag->norm,
                        (int)bwd);
            }
            first = 1;
            for (i = 0; i < n; ++i) {
                latlink_iter_t *li;
                for (li = ps_latnode_exits(nodes[i]); li; li = ps_latlink_iter_next(li)) {
                    latlink_t *lk = ps_latlink_iter_link(li);
                    int32 ascr2;
                    int32 p = ps_latlink_prob(dag, lk, &ascr2);
                    fprintf(vt_out, "%s[%d,%d,%d,%d,%d]", first ? "" : ",", node_index(nodes, n, lk->from),
                            node_index(nodes, n, lk->to), (int)lk->alpha, (int)lk->beta, (int)p);
                    first = 0;
                }
            }
            fprintf(vt_out, "]}");
            {
                /* asking for the posteriors again must give sane numbers again */
                int32 post2 = lattice_posterior(dag, ascale), maxp = -2000000000;
                for (i = 0; i < n; ++i) {
                    latlink_iter_t *li;
                    for (li = ps_latnode_exits(nodes[i]); li; li = ps_latlink_iter_next(li)) {
                        int32 p = ps_latlink_prob(dag, ps_latlink_iter_link(li), NULL);
                        if (p > maxp)
                            maxp = p;
                    }
                }
                fprintf(vt_out, ",\"post2\":{\"best\":%d,\"maxlink\":%d}", (int)post2, (int)maxp);
            }
        }
    }
    free(nodes);
}

static void
cmd_nbest(const char *tag, int max, int with_after)
{
    hyp_iter_t *nb = decoder_nbest(d);
    int n = 0, nmore = 0;
    int32 *more = (int32 *)calloc(max > 0 ? max : 1, sizeof(int32));
    fprintf(vt_out, "{\"e\":\"NBest\",\"tag\":\"%s\",\"items\":[", tag);
    while (nb) {
        int32 score = 0;
        const char *hyp = hyp_iter_hyp(nb, &score);
        if (n < 40) {
            seg_iter_t *seg;
            fprintf(vt_out, "%s{\"score\":%d,\"hyp\":", n ? "," : "", (int)score);
            emit_hyp_words(hyp);
            fprintf(vt_out, ",\"segs\":");
            seg = hyp_iter_seg(nb);
            if (seg)
                emit_segs(seg);
            else
                fprintf(vt_out, "[]");
            fputc('}', vt_out);
        } else
            more[nmore++] = score; /* a deep walk: only the scores of the later hypotheses are kept */
        if (++n >= max) {
            hyp_iter_free(nb);
            break;
        }
        nb = hyp_iter_next(nb);
    }
    fprintf(vt_out, "],\"more\":[");
    for (n = 0; n < nmore; ++n)
        fprintf(vt_out, "%s%d", n ? "," : "", (int)more[n]);
    fprintf(vt_out, "],\"exhausted\":%s", nb ? "false" : "true");
    if (with_after) {
        /* the lattice as decoder_lattice() gives it NOW (after the N-best walk), with best path and posteriors
         * computed again: the list must be a list of paths of this lattice, and the walk must not have upset it */
        lattice_t *dag = decoder_lattice(d);
        fprintf(vt_out, ",\"after\":{\"scored\":%d", scored[1]);
        if (dag == NULL)
            fprintf(vt_out, ",\"null\":true");
        else {
            /* where the best path of this very lattice was computed before the walk, the posteriors are asked for
             * first, with nothing in between (best path -> N-best -> posteriors) */
            if (dag == bestpath_done_on && lattice_n_frames(dag) == bestpath_done_frames) {
                float32 ascale = (float32)(1.0 / config_float(d->config, "ascale"));
                int32 post = lattice_posterior(dag, ascale), bwd = logmath_get_zero(dag->lmath), maxp = -2000000000;
                latlink_iter_t *li;
                latnode_iter_t *ni;
                for (li = ps_latnode_exits(dag->start); li; li = ps_latlink_iter_next(li)) {
                    latlink_t *lk = ps_latlink_iter_link(li);
                    bwd = logmath_add(dag->lmath, bwd, lk->beta + (int32)((lk->ascr << 10) * ascale));
                }
                for (ni = ps_latnode_iter(dag); ni; ni = ps_latnode_iter_next(ni))
                    for (li = ps_latnode_exits(ps_latnode_iter_node(ni)); li; li = ps_latlink_iter_next(li)) {
                        int32 p = ps_latlink_prob(dag, ps_latlink_iter_link(li), NULL);
                        if (p > maxp)
                            maxp = p;
                    }
                fprintf(vt_out, ",\"postfirst\":{\"best\":%d,\"norm\":%d,\"bwd\":%d,\"maxlink\":%d}", (int)post, (int)dag->norm,
                        (int)bwd, (int)maxp);
            }
            emit_lattice_fields(dag, decoder_lattice(d), 1);
            {
                /* a walk over the edges with the public traversal calls, abandoned half-way (a search loop that found
                 * what it looked for), then the posteriors once more */
                float32 ascale = (float32)(1.0 / config_float(d->config, "ascale"));
                latlink_t *lk = lattice_traverse_edges(dag, NULL, NULL);
                int32 post, bwd = logmath_get_zero(dag->lmath), maxp = -2000000000, steps = 0, stop = 1 + (scored[1] % 5);
                latlink_iter_t *li;
                latnode_iter_t *ni;
                while (lk && ++steps < stop)
                    lk = lattice_traverse_next(dag, NULL);
                post = lattice_posterior(dag, ascale);
                for (li = ps_latnode_exits(dag->start); li; li = ps_latlink_iter_next(li)) {
                    latlink_t *l2 = ps_latlink_iter_link(li);
                    bwd = logmath_add(dag->lmath, bwd, l2->beta + (int32)((l2->ascr << 10) * ascale));
                }
                for (ni = ps_latnode_iter(dag); ni; ni = ps_latnode_iter_next(ni))
                    for (li = ps_latnode_exits(ps_latnode_iter_node(ni)); li; li = ps_latlink_iter_next(li)) {
                        int32 pp = ps_latlink_prob(dag, ps_latlink_iter_link(li), NULL);
                        if (pp > maxp)
                            maxp = pp;
                    }
                fprintf(vt_out, ",\"postwalk\":{\"best\":%d,\"norm\":%d,\"bwd\":%d,\"maxlink\":%d,\"steps\":%d}", (int)post, (int)dag->norm,
                        (int)bwd, (int)maxp, (int)steps);
            }
        }
        fprintf(vt_out, "}");
    }
    fprintf(vt_out, "}\n");
    free(more);
}

static void
emit_align_level(alignment_iter_t *it, int level)
{
    int first = 1;
    fputc('[', vt_out);
    while (it) {
        int start, dur, score;
        alignment_entry_t *ent = alignment_iter_get(it);
        const char *name = alignment_iter_name(it);
        score = alignment_iter_seg(it, &start, &dur);
        fprintf(vt_out, "%s{\"n\":", first ? "" : ",");
        vt_str(vt_out, name ? name : "");
        fprintf(vt_out, ",\"s\":%d,\"d\":%d,\"a\":%d", start, dur, score);
        if (level == 1) {
            /* expected senone sequence of this phone, from the model definition */
            bin_mdef_t *m = d->acmod->mdef;
            int k, ne = bin_mdef_n_emit_state(m);
            fprintf(vt_out, ",\"ci\":%d,\"sseq\":[", (int)ent->id.pid.cipid);
            for (k = 0; k < ne; ++k)
                fprintf(vt_out, "%s%d", k ? "," : "", (int)bin_mdef_sseq2sen(m, ent->id.pid.ssid, k));
            fputc(']', vt_out);
        }
        if (level < 2) {
            fprintf(vt_out, ",\"c\":");
            emit_align_level(alignment_iter_children(it), level + 1);
        }
        fputc('}', vt_out);
        first = 0;
        it = alignment_iter_next(it);
    }
    fputc(']', vt_out);
}

static void
emit_flat(alignment_iter_t *it)
{
    int first = 1;
    fputc('[', vt_out);
    for (; it; it = alignment_iter_next(it)) {
        int start, dur, score;
        score = alignment_iter_seg(it, &start, &dur);
        fprintf(vt_out, "%s[%d,%d,%d]", first ? "" : ",", start, dur, score);
        first = 0;
    }
    fputc(']', vt_out);
}

/* The children of every word / phone once more, this time through a child iterator of the FIRST word / phone moved to
 * them with alignment_iter_goto(): 1 iff it delivers exactly the entries alignment_iter_children() of that parent does. */
static int
goto_children_same(alignment_t *al)
{
    int level, ok = 1;
    for (level = 0; level < 2; ++level) {
        alignment_iter_t *pit = level == 0 ? alignment_words(al) : alignment_phones(al);
        int pos = 0;
        for (; pit; pit = alignment_iter_next(pit)) {
            alignment_iter_t *want = alignment_iter_children(pit);
            alignment_iter_t *p0 = level == 0 ? alignment_words(al) : alignment_phones(al);
            alignment_iter_t *got = p0 ? alignment_iter_children(p0) : NULL;
            if (p0)
                alignment_iter_free(p0);
            if (got && want)
                got = alignment_iter_goto(got, pos);
            while (want && got) {
                if (alignment_iter_get(want) != alignment_iter_get(got))
                    ok = 0;
                want = alignment_iter_next(want);
                got = alignment_iter_next(got);
                ++pos;
            }
            if (want || got)
                ok = 0;
            for (; want; want = alignment_iter_next(want))
                ++pos;
            if (got)
                alignment_iter_free(got);
        }
    }
    return ok;
}

static void
cmd_alignment(const char *tag)
{
    alignment_t *al, *al2;
    int p, reused;
    pass = 2;
    scored[2] = 0;
    last_scored_frame[2] = -1;
    order_ok[2] = 1;
    /* the decoder documents that it reuses the previous alignment when no frame was searched since */
    reused = d->align != NULL && ((state_align_search_t *)d->align)->frame == d->acmod->output_frame;
    al = decoder_alignment(d);
    p = scored[2];
    /* ask again only when the decoder says it will reuse (otherwise the first object is freed) */
    al2 = (al && d->align && ((state_align_search_t *)d->align)->frame == d->acmod->output_frame) ? decoder_alignment(d) : al;
    pass = 1;
    fprintf(vt_out, "{\"e\":\"Align\",\"tag\":\"%s\",\"null\":%s", tag, al ? "false" : "true");
    if (al) {
        int w;
        fprintf(vt_out, ",\"again_same\":%s,\"goto_same\":%s,\"reused\":%s,\"rescored\":%d,\"in_order\":%s,\"words\":",
                al == al2 ? "true" : "false", goto_children_same(al) ? "true" : "false", reused ? "true" : "false", p,
                order_ok[2] ? "true" : "false");
        emit_align_level(alignment_words(al), 0);
        fprintf(vt_out, ",\"flat_phones\":");
        emit_flat(alignment_phones(al));
        fprintf(vt_out, ",\"flat_states\":");
        emit_flat(alignment_states(al));
        /* dictionary pronunciation of each word, straight from the dictionary */
        fprintf(vt_out, ",\"prons\":[");
        for (w = 0; w < alignment_n_words(al); ++w) {
            int32 wid = al->word.seq[w].id.wid;
            int k;
            fprintf(vt_out, "%s[", w ? "," : "");
            for (k = 0; k < dict_pronlen(d->dict, wid); ++k) {
                fprintf(vt_out, "%s", k ? "," : "");
                vt_str(vt_out, dict_ciphone_str(d->dict, wid, k));
            }
            fputc(']', vt_out);
        }
        fprintf(vt_out, "]");
        {
            /* The model each phone stands for, looked up in the model definition for the phone's neighbours: the
             * phone before and after it in the alignment (across word boundaries, fillers included), silence
             * before the first and after the last word; position begin / internal / end / single within its word.
             * flat_sseq is what the alignment holds, ctx_sseq what that rule gives. */
            bin_mdef_t *m = d->acmod->mdef;
            int sil = bin_mdef_silphone(m), ne = bin_mdef_n_emit_state(m), k, e, np = 0, lc = sil;
            fprintf(vt_out, ",\"flat_sseq\":[");
            for (k = 0; k < (int)al->sseq.n_ent; ++k) {
                fprintf(vt_out, "%s[", k ? "," : "");
                for (e = 0; e < ne; ++e)
                    fprintf(vt_out, "%s%d", e ? "," : "", (int)bin_mdef_sseq2sen(m, al->sseq.seq[k].id.pid.ssid, e));
                fputc(']', vt_out);
            }
            fprintf(vt_out, "],\"ctx_sseq\":[");
            for (w = 0; w < alignment_n_words(al); ++w) {
                int32 wid = al->word.seq[w].id.wid;
                int len = dict_pronlen(d->dict, wid);
                int nextfirst = w + 1 < alignment_n_words(al) ? dict_first_phone(d->dict, al->word.seq[w + 1].id.wid) : sil;
                for (k = 0; k < len; ++k) {
                    int b = dict_pron(d->dict, wid, k);
                    int l = k == 0 ? lc : dict_pron(d->dict, wid, k - 1);
                    int r = k == len - 1 ? nextfirst : dict_pron(d->dict, wid, k + 1);
                    word_posn_t pos = len == 1 ? WORD_POSN_SINGLE : k == 0 ? WORD_POSN_BEGIN : k == len - 1 ? WORD_POSN_END : WORD_POSN_INTERNAL;
                    int ss = bin_mdef_pid2ssid(m, bin_mdef_phone_id_nearest(m, b, l, r, pos));
                    fprintf(vt_out, "%s[", np++ ? "," : "");
                    for (e = 0; e < ne; ++e)
                        fprintf(vt_out, "%s%d", e ? "," : "", (int)bin_mdef_sseq2sen(m, ss, e));
                    fputc(']', vt_out);
                }
                lc = dict_last_phone(d->dict, wid);
            }
            fprintf(vt_out, "]");
        }
        fprintf(vt_out, ",\"nstate\":%d,\"wip\":%d,\"pip\":%d", bin_mdef_n_emit_state(d->acmod->mdef),
                d->search ? (int)((fsg_search_t *)d->search)->wip : 0, d->search ? (int)((fsg_search_t *)d->search)->pip : 0);
    }
    fprintf(vt_out, "}\n");
}

static void
emit_bytes(const char *s)
{
    size_t i, n = s ? strlen(s) : 0;
    fputc('[', vt_out);
    for (i = 0; i < n; ++i)
        fprintf(vt_out, "%s%d", i ? "," : "", (unsigned char)s[i]);
    fputc(']', vt_out);
}

/* probability as the JSON prints it: thousandths of exp(log score) */
static int
prob_milli(int32 logscore)
{
    return (int)floor(logmath_exp(d->lmath, logscore) * 1000.0 + 0.5);
}

static void
emit_view_align(alignment_iter_t *it, int level, int maxlevel)
{
    int first = 1;
    fputc('[', vt_out);
    while (it) {
        int start, dur, score;
        score = alignment_iter_seg(it, &start, &dur);
        fprintf(vt_out, "%s{\"t\":", first ? "" : ",");
        emit_bytes(alignment_iter_name(it));
        fprintf(vt_out, ",\"s\":%d,\"d\":%d,\"pm\":%d,\"w\":", start, dur, prob_milli(score));
        if (level < maxlevel)
            emit_view_align(alignment_iter_children(it), level + 1, maxlevel);
        else
            fprintf(vt_out, "[]");
        fputc('}', vt_out);
        first = 0;
        it = alignment_iter_next(it);
    }
    fputc(']', vt_out);
}

/* decoder_result_json plus, in the same event, what the hypothesis / segmentation / alignment
 * interfaces say about the same result (the "view" the JSON must agree with) */
static void
cmd_json(const char *tag, int start_ms, int level)
{
    const char *js;
    char *copy = NULL;
    size_t i, n;
    calloc_last = -1;
    pass = 2;
    in_json = 1;
    js = decoder_result_json(d, start_ms / 1000.0, level);
    in_json = 0;
    if (js)
        copy = strdup(js); /* the returned buffer is only valid until the next result call */
    fprintf(vt_out, "{\"e\":\"Json\",\"tag\":\"%s\",\"start_ms\":%d,\"level\":%d,\"null\":%s", tag, start_ms, level,
            js ? "false" : "true");
    if (js) {
        const char *hyp = decoder_hyp(d, NULL);
        n = strlen(copy);
        fprintf(vt_out, ",\"alloc\":%ld,\"len\":%ld,\"frate\":%ld,\"nfr\":%d,\"pm\":%d,\"hyp\":", calloc_last, (long)n,
                config_int(d->config, "frate"), decoder_n_frames(d), prob_milli(decoder_prob(d)));
        emit_bytes(hyp ? hyp : "");
        {
            /* dictionary-word segments of the same result (the alignment lists exactly these) */
            seg_iter_t *sg = decoder_seg_iter(d);
            int first = 1;
            fprintf(vt_out, ",\"dsegs\":[");
            for (; sg; sg = seg_iter_next(sg)) {
                int sf, ef, k = word_kind(seg_iter_word(sg));
                if (k != 0 && k != 1)
                    continue;
                seg_iter_frames(sg, &sf, &ef);
                fprintf(vt_out, "%s{\"t\":", first ? "" : ",");
                emit_bytes(seg_iter_word(sg));
                fprintf(vt_out, ",\"s\":%d,\"d\":%d}", sf, ef + 1 - sf);
                first = 0;
            }
            fputc(']', vt_out);
        }
        fprintf(vt_out, ",\"view\":");
        if (level == 0) {
            seg_iter_t *seg = decoder_seg_iter(d);
            int first = 1;
            fputc('[', vt_out);
            for (; seg; seg = seg_iter_next(seg)) {
                int sf, ef;
                int32 prob = seg_iter_prob(seg, NULL, NULL);
                seg_iter_frames(seg, &sf, &ef);
                fprintf(vt_out, "%s{\"t\":", first ? "" : ",");
                emit_bytes(seg_iter_word(seg));
                fprintf(vt_out, ",\"s\":%d,\"d\":%d,\"pm\":%d,\"w\":[]}", sf, ef + 1 - sf, prob_milli(prob));
                first = 0;
            }
            fputc(']', vt_out);
        } else {
            /* the alignment the JSON call just used (asking decoder_alignment() again may run the second
             * pass again), read through the public aligner struct */
            alignment_t *al = d->align ? ((state_align_search_t *)d->align)->al : NULL;
            if (al)
                emit_view_align(alignment_words(al), 0, level >= 2 ? 2 : 1);
            else
                fprintf(vt_out, "[]");
        }
        fprintf(vt_out, ",\"bytes\":[");
        for (i = 0; i < n; ++i)
            fprintf(vt_out, "%s%d", i ? "," : "", (unsigned char)copy[i]);
        fputc(']', vt_out);
    }
    fprintf(vt_out, "}\n");
    pass = 1;
    free(copy);
}

/* ---- C12: a synthetic lattice in place of the one the search would build -------------------------------------
 * synlat <final_ascr> <n nodes> <n links> then per node  <word hex> <sf> <fef> <lef>  and per link  <from> <to> <ascr> <ef>.
 * Node 0 is the start, the last node the end.  The lattice is built with the library's own constructors
 * (lattice_init_search, its node allocator, lattice_link) and put where the search caches its lattice, so that
 * decoder_lattice(), lattice_bestpath(), lattice_posterior() and decoder_nbest() run on it unchanged. */
static int
cmd_synlat(char *line)
{
    fsg_search_t *fs = d ? (fsg_search_t *)d->search : NULL;
    lattice_t *dag;
    latnode_t **nodes;
    char *tok, *save = NULL;
    long fa, nn, nl, i;
    if (fs == NULL)
        return -1;
#define NEXT() ((tok = strtok_r(NULL, " \t\r\n", &save)) != NULL)
    strtok_r(line, " \t\r\n", &save);
    if (!NEXT()) return -1;
    fa = atol(tok);
    if (!NEXT()) return -1;
    nn = atol(tok);
    if (!NEXT()) return -1;
    nl = atol(tok);
    if (nn < 1 || nn > 64)
        return -1;
    lattice_free(d->search->dag);
    d->search->dag = NULL;
    dag = lattice_init_search(d->search, fs->frame);
    nodes = (latnode_t **)calloc(nn, sizeof(*nodes));
    for (i = 0; i < nn; ++i) {
        latnode_t *node = (latnode_t *)listelem_malloc(dag->latnode_alloc);
        char *w;
        memset(node, 0, sizeof(*node));
        if (!NEXT()) return -1;
        w = vt_unhex(tok, NULL);
        node->wid = dict_wordid(dag->dict, w);
        free(w);
        if (node->wid == BAD_S3WID)
            return -1;
        node->basewid = dict_basewid(dag->dict, node->wid);
        if (!NEXT()) return -1;
        node->sf = (frame_idx_t)atol(tok);
        if (!NEXT()) return -1;
        node->fef = (int32)atol(tok);
        if (!NEXT()) return -1;
        node->lef = (int32)atol(tok);
        node->id = (int32)i;
        node->node_id = (int32)i;
        node->reachable = TRUE;
        node->next = dag->nodes;
        dag->nodes = node;
        ++dag->n_nodes;
        nodes[i] = node;
    }
    for (i = 0; i < nl; ++i) {
        long a, b, sc, ef;
        if (!NEXT()) return -1;
        a = atol(tok);
        if (!NEXT()) return -1;
        b = atol(tok);
        if (!NEXT()) return -1;
        sc = atol(tok);
        if (!NEXT()) return -1;
        ef = atol(tok);
        if (a < 0 || a >= nn || b < 0 || b >= nn)
            return -1;
        lattice_link(dag, nodes[a], nodes[b], (int32)sc, (int32)ef);
    }
#undef NEXT
    dag->start = nodes[0];
    dag->end = nodes[nn - 1];
    dag->final_node_ascr = (int32)fa;
    d->search->dag = dag;
    fprintf(vt_out, "{\"e\":\"SynLat\",\"nodes\":%ld,\"links\":%ld,\"cached\":%s}\n", nn, nl,
            decoder_lattice(d) == dag ? "true" : "false");
    free(nodes);
    return 0;
}

/* ---- C01 / C03 / C11: a synthetic word-exit history in place of the one the search would write ----------------
 * synhist <frames searched> <n> then per entry  <from> <to> <word hex | - for a null arc> <frame> <score> <pred>
 * (entries in the order the search appends them: per frame the word exits, then the one-step null propagations;
 * pred = 1-based position in this list + 1, 1 = the dummy root entry, as in FsgSearchAbs).
 * Between decoder_start_utt and the queries the table is written with the library's own fsg_history_entry_add /
 * fsg_history_end_frame (each entry with its own left context and every right context, so that none dominates
 * another) and the search's frame counter is set; hypothesis, segmentation and lattice are then extracted by the
 * unchanged code from a history the specification generated. */
#include <soundswallower/fsg_history.h>
static int
cmd_synhist(char *line)
{
    fsg_search_t *fs = d ? (fsg_search_t *)d->search : NULL;
    fsg_history_t *h;
    fsg_pnode_ctxt_t all;
    char *tok, *save = NULL;
    long t, n, i, k;
    int *real; /* model index (1-based, 1 = root) -> index in the real table */
    int nci, silci;
    if (fs == NULL || d->acmod->state == ACMOD_IDLE)
        return -1;
    h = fs->history;
    nci = bin_mdef_n_ciphone(d->acmod->mdef);
    silci = bin_mdef_ciphone_id(d->acmod->mdef, "SIL");
#define NEXT() ((tok = strtok_r(NULL, " \t\r\n", &save)) != NULL)
    strtok_r(line, " \t\r\n", &save);
    if (!NEXT()) return -1;
    t = atol(tok);
    if (!NEXT()) return -1;
    n = atol(tok);
    if (n < 0 || n > 4000)
        return -1;
    fsg_pnode_add_all_ctxt(&all);
    /* back to the state right after the root entry was written */
    fsg_history_end_frame(h);
    fsg_history_reset(h);
    {
        fsg_pnode_ctxt_t rc0 = all;
        VT_HIST_ADD(h, NULL, -1, 0, -1, silci, rc0);
    }
    real = (int *)calloc(n + 2, sizeof(int));
    real[1] = 0;
    {
        long *from = calloc(n + 1, sizeof(long)), *to = calloc(n + 1, sizeof(long)), *fr = calloc(n + 1, sizeof(long)),
             *sc = calloc(n + 1, sizeof(long)), *pr = calloc(n + 1, sizeof(long));
        int *wid = calloc(n + 1, sizeof(int));
        for (i = 0; i < n; ++i) {
            if (!NEXT()) return -1;
            from[i] = atol(tok);
            if (!NEXT()) return -1;
            to[i] = atol(tok);
            if (!NEXT()) return -1;
            if (!strcmp(tok, "-"))
                wid[i] = -1;
            else {
                char *w = vt_unhex(tok, NULL);
                wid[i] = fsg_model_word_id(fs->fsg, w);
                free(w);
                if (wid[i] < 0) { /* a word of the grammar just set is unknown to the search's grammar: see below */
                    fprintf(vt_out, "{\"e\":\"SynHist\",\"t\":%ld,\"entries\":-1,\"missing\":[%ld,%ld,-2]}\n", t, from[i], to[i]);
                    free(from), free(to), free(fr), free(sc), free(pr), free(wid), free(real);
                    return 0;
                }
            }
            if (!NEXT()) return -1;
            fr[i] = atol(tok);
            if (!NEXT()) return -1;
            sc[i] = atol(tok);
            if (!NEXT()) return -1;
            pr[i] = atol(tok);
            if (pr[i] < 1 || pr[i] > i + 1)
                return -1;
        }
        /* batches: maximal runs with the same frame and the same kind (word exit / null propagation) */
        for (i = 0; i < n;) {
            long j = i, before = fsg_history_n_entries(h);
            while (j < n && fr[j] == fr[i] && (wid[j] < 0) == (wid[i] < 0))
                ++j;
            if (j - i > nci)
                return -1; /* one left context per entry of a batch */
            for (k = i; k < j; ++k) {
                fsg_arciter_t *it;
                fsg_link_t *link = NULL;
                for (it = fsg_model_arcs(fs->fsg, (int32)from[k]); it; it = fsg_arciter_next(it)) {
                    fsg_link_t *l = fsg_arciter_get(it);
                    if (link == NULL && fsg_link_to_state(l) == to[k] && fsg_link_wid(l) == wid[k])
                        link = l;
                }
                if (link == NULL) {
                    /* the grammar was set with success just before: the search must hold it.  Recorded, not a script
                     * error: a search that kept an earlier grammar is what C01 forbids ("the active grammar"). */
                    fprintf(vt_out, "{\"e\":\"SynHist\",\"t\":%ld,\"entries\":-1,\"missing\":[%ld,%ld,%d]}\n", t, from[k], to[k], wid[k]);
                    fsg_history_end_frame(h); /* leave the table as the library expects it at the end of a frame */
                    free(from), free(to), free(fr), free(sc), free(pr), free(wid), free(real);
                    return 0;
                }
                { fsg_pnode_ctxt_t rc1 = all; VT_HIST_ADD(h, link, (int32)fr[k], (int32)sc[k], real[pr[k]], (int32)(k - i), rc1); }
            }
            fsg_history_end_frame(h);
            /* where did they go?  (frame < 0: appended at once, in order; otherwise by state, then left context) */
            for (k = i; k < j; ++k) {
                long x;
                real[k + 2] = -1;
                for (x = before; x < fsg_history_n_entries(h); ++x) {
                    fsg_hist_entry_t *e = fsg_history_entry_get(h, (int32)x);
                    if (fr[i] < 0 ? (x - before == k - i) : (e->lc == k - i && e->frame == fr[k]))
                        real[k + 2] = (int)x;
                }
                if (real[k + 2] < 0) {
                    fprintf(stderr, "synhist: entry %ld was not kept by the table\n", k);
                    return -1;
                }
            }
            i = j;
        }
        free(from), free(to), free(fr), free(sc), free(pr), free(wid);
    }
#undef NEXT
    fs->frame = (frame_idx_t)t;
    fs->bpidx_start = fsg_history_n_entries(h);
    scored[1] = (int)t; /* the frames this history stands for */
    fprintf(vt_out, "{\"e\":\"SynHist\",\"t\":%ld,\"entries\":%d}\n", t, fsg_history_n_entries(h));
    free(real);
    return 0;
}

/* ---- C02: everything a declarative Viterbi network needs, as plain tables ----------------------------
 * The search's own grammar (silence/alternate arcs added, nulls closed) through the public arc iterator, the
 * dictionary pronunciations, and - for the phones that occur - the context-dependent model of every (phone,
 * left, right, word position) looked up in the MODEL DEFINITION itself (bin_mdef_phone_id_nearest), NOT read
 * from the lextree nor from the dict2pid tables the lextree is built from, which are what is being checked:
 *   ldiph[w][lc]   model of the first phone of multi-phone word w after left context lc
 *   rssid[w][rc]   model of its last phone before right context rc
 *   lrdiph[w][lc]  model of one-phone word w after lc (right context silence, the decoder's documented choice)
 *   internal[w]    models of the phones in between;  ci[p] context-independent model (fillers)
 * plus senone sequences, transition matrices, penalties.  Also marks the senones involved for `senscr'. */
static void
cmd_net(void)
{
    fsg_search_t *fs = d ? (fsg_search_t *)d->search : NULL;
    fsg_model_t *fsg;
    bin_mdef_t *m;
    int nci, sil, i, w, k, first = 1, ne;
    unsigned char *ssused, *tmused;

    if (fs == NULL) /* no grammar was accepted: nothing to describe; the execution has no Net event and is not judged */
        return;
    fsg = fs->fsg;
    m = d->acmod->mdef;
    nci = bin_mdef_n_ciphone(m);
    sil = bin_mdef_ciphone_id(m, "SIL");
    ne = bin_mdef_n_emit_state(m);
    ssused = (unsigned char *)calloc(bin_mdef_n_sseq(m) + 1, 1);
    tmused = (unsigned char *)calloc(d->acmod->tmat->n_tmat + 1, 1);

    fprintf(vt_out, "{\"e\":\"Net\",\"n\":%d,\"start\":%d,\"final\":%d,\"sil\":%d,\"nci\":%d,\"pip\":%d,\"wip\":%d,\"arcs\":[",
            fsg_model_n_state(fsg), fsg_model_start_state(fsg), fsg_model_final_state(fsg), sil, nci, (int)fs->pip, (int)fs->wip);
    for (i = 0; i < fsg_model_n_state(fsg); ++i) {
        fsg_arciter_t *it;
        for (it = fsg_model_arcs(fsg, i); it; it = fsg_arciter_next(it)) {
            fsg_link_t *l = fsg_arciter_get(it);
            fprintf(vt_out, "%s[%d,%d,%d,%d]", first ? "" : ",", fsg_link_from_state(l), fsg_link_to_state(l),
                    fsg_link_wid(l) < 0 ? 0 : fsg_link_wid(l) + 1, (int)(fsg_link_logs2prob(l) >> 10));
            first = 0;
        }
    }
    fprintf(vt_out, "],\"words\":[");
    for (w = 0; w < fsg_model_n_word(fsg); ++w) {
        const char *ws = fsg_model_word_str(fsg, w);
        int32 wid = dict_wordid(d->dict, ws);
        int np = wid == BAD_S3WID ? 0 : dict_pronlen(d->dict, wid);
        int filler = wid != BAD_S3WID && fsg_model_is_filler(fsg, w);
        fprintf(vt_out, "%s{\"w\":", w ? "," : "");
        vt_str(vt_out, ws);
        fprintf(vt_out, ",\"filler\":%s,\"ph\":[", filler ? "true" : "false");
        for (k = 0; k < np; ++k)
            fprintf(vt_out, "%s%d", k ? "," : "", (int)dict_pron(d->dict, wid, k));
        fprintf(vt_out, "],\"tm\":[");
        for (k = 0; k < np; ++k) {
            int t = bin_mdef_pid2tmatid(m, dict_pron(d->dict, wid, k));
            tmused[t] = 1;
            fprintf(vt_out, "%s%d", k ? "," : "", t);
        }
        fprintf(vt_out, "]");
        if (np == 0) {
            fprintf(vt_out, "}");
            continue;
        }
        if (filler) {
            int ss = bin_mdef_pid2ssid(m, dict_pron(d->dict, wid, 0));
            ssused[ss] = 1;
            fprintf(vt_out, ",\"ci\":%d}", ss);
            continue;
        }
        if (np == 1) {
            fprintf(vt_out, ",\"lrdiph\":[");
            for (k = 0; k < nci; ++k) {
                int ss = bin_mdef_pid2ssid(m, bin_mdef_phone_id_nearest(m, dict_pron(d->dict, wid, 0), k, sil, WORD_POSN_SINGLE));
                ssused[ss] = 1;
                fprintf(vt_out, "%s%d", k ? "," : "", ss);
            }
            fprintf(vt_out, "]}");
            continue;
        }
        fprintf(vt_out, ",\"ldiph\":[");
        for (k = 0; k < nci; ++k) {
            int ss = bin_mdef_pid2ssid(m, bin_mdef_phone_id_nearest(m, dict_pron(d->dict, wid, 0), k, dict_pron(d->dict, wid, 1),
                                                                    WORD_POSN_BEGIN));
            ssused[ss] = 1;
            fprintf(vt_out, "%s%d", k ? "," : "", ss);
        }
        fprintf(vt_out, "],\"rssid\":[");
        for (k = 0; k < nci; ++k) {
            int ss = bin_mdef_pid2ssid(m, bin_mdef_phone_id_nearest(m, dict_pron(d->dict, wid, np - 1), dict_pron(d->dict, wid, np - 2), k,
                                                                    WORD_POSN_END));
            ssused[ss] = 1;
            fprintf(vt_out, "%s%d", k ? "," : "", ss);
        }
        fprintf(vt_out, "],\"internal\":[");
        for (k = 1; k < np - 1; ++k) {
            int ss = bin_mdef_pid2ssid(m, bin_mdef_phone_id_nearest(m, dict_pron(d->dict, wid, k), dict_pron(d->dict, wid, k - 1),
                                                                    dict_pron(d->dict, wid, k + 1), WORD_POSN_INTERNAL));
            ssused[ss] = 1;
            fprintf(vt_out, "%s%d", k > 1 ? "," : "", ss);
        }
        fprintf(vt_out, "]}");
    }
    fprintf(vt_out, "],\"sseq\":{");
    first = 1;
    for (i = 0; i < bin_mdef_n_sseq(m); ++i)
        if (ssused[i]) {
            fprintf(vt_out, "%s\"%d\":[", first ? "" : ",", i);
            for (k = 0; k < ne; ++k) {
                int sen = bin_mdef_sseq2sen(m, i, k);
                if (sen >= 0 && sen < n_senset_alloc)
                    senset[sen] = 1;
                fprintf(vt_out, "%s%d", k ? "," : "", sen);
            }
            fputc(']', vt_out);
            first = 0;
        }
    fprintf(vt_out, "},\"tp\":{");
    first = 1;
    for (i = 0; i < d->acmod->tmat->n_tmat; ++i)
        if (tmused[i]) {
            int a, b;
            fprintf(vt_out, "%s\"%d\":[", first ? "" : ",", i);
            for (a = 0; a < ne; ++a) {
                fprintf(vt_out, "%s[", a ? "," : "");
                for (b = 0; b <= ne; ++b)
                    fprintf(vt_out, "%s%d", b ? "," : "", (int)d->acmod->tmat->tp[i][a][b]);
                fputc(']', vt_out);
            }
            fputc(']', vt_out);
            first = 0;
        }
    /* the dictionary's other pronunciations of every base word the network names - found by scanning the dictionary,
     * not by the chain the search follows: [word, [alternate as a word of the network, or 0 when it has none]] */
    fprintf(vt_out, "},\"usealt\":%s,\"alts\":[", config_bool(d->config, "fsgusealtpron") ? "true" : "false");
    first = 1;
    if (dict_size(d->dict) <= 20000)
        for (w = 0; w < fsg_model_n_word(fsg); ++w) {
            int32 wid = dict_wordid(d->dict, fsg_model_word_str(fsg, w)), v;
            int na = 0;
            if (wid == BAD_S3WID || dict_basewid(d->dict, wid) != wid || fsg_model_is_filler(fsg, w))
                continue;
            for (v = 0; v < dict_size(d->dict); ++v)
                if (v != wid && dict_basewid(d->dict, v) == wid) {
                    int a = fsg_model_word_id(fsg, dict_wordstr(d->dict, v));
                    if (na++ == 0)
                        fprintf(vt_out, "%s[%d,[", first ? "" : ",", w + 1);
                    fprintf(vt_out, "%s%d", na > 1 ? "," : "", a < 0 ? 0 : a + 1);
                    first = 0;
                }
            if (na)
                fprintf(vt_out, "]]");
        }
    fprintf(vt_out, "],\"beam\":%d,\"pbeam\":%d,\"wbeam\":%d}\n", (int)fs->beam_orig, (int)fs->pbeam_orig, (int)fs->wbeam_orig);
    free(ssused);
    free(tmused);
}

/* ---- audio operations ------------------------------------------------------------------- */
static unsigned long lcg;
static int
lcg_next(void)
{
    lcg = lcg * 6364136223846793005UL + 1442695040888963407UL;
    return (int)((lcg >> 33) & 0x7fffffff);
}

static int
load_audio(char *line)
{
    char name[32], op[32], a1[1024], a2[64];
    long x = 0, y = 0, z = 0;
    audio_t *a, *s, *s2;
    long i;
    if (sscanf(line, "%*s %31s %31s", name, op) != 2)
        return -1;
    if (!strcmp(op, "file")) {
        FILE *fh;
        long sz;
        if (sscanf(line, "%*s %*s %*s %1023s %ld %63s", a1, &x, a2) != 3)
            return -1;
        fh = fopen(a1, "rb");
        if (!fh)
            return -1;
        fseek(fh, 0, SEEK_END);
        sz = ftell(fh) - x;
        fseek(fh, x, SEEK_SET);
        if (!strcmp(a2, "f32")) {
            a = new_audio(name, sz / 4);
            if (fread(a->f32, 4, a->n, fh) != (size_t)a->n)
                return -1;
            for (i = 0; i < a->n; ++i) {
                float v = a->f32[i] * 32768.0f;
                a->i16[i] = (int16)(v > 32767 ? 32767 : v < -32768 ? -32768 : v);
            }
        } else {
            a = new_audio(name, sz / 2);
            if (fread(a->i16, 2, a->n, fh) != (size_t)a->n)
                return -1;
            sync_f32(a);
        }
        fclose(fh);
        return 0;
    }
    if (!strcmp(op, "silence") || !strcmp(op, "noise")) {
        if (sscanf(line, "%*s %*s %*s %ld %ld %ld", &x, &y, &z) < 1)
            return -1;
        a = new_audio(name, x);
        if (!strcmp(op, "noise")) {
            lcg = (unsigned long)y * 2654435761UL + 12345;
            for (i = 0; i < a->n; ++i)
                a->i16[i] = (int16)((lcg_next() % (2 * z + 1)) - z);
        }
        sync_f32(a);
        return 0;
    }
    if (sscanf(line, "%*s %*s %*s %63s %ld %ld", a2, &x, &y) < 1)
        return -1;
    s = find_audio(a2);
    if (!s)
        return -1;
    if (!strcmp(op, "reverse")) {
        a = new_audio(name, s->n);
        for (i = 0; i < s->n; ++i)
            a->i16[i] = s->i16[s->n - 1 - i];
    } else if (!strcmp(op, "clip")) { /* amplify x/100 then saturate */
        a = new_audio(name, s->n);
        for (i = 0; i < s->n; ++i) {
            long v = (long)s->i16[i] * x / 100;
            a->i16[i] = (int16)(v > 32767 ? 32767 : v < -32768 ? -32768 : v);
        }
    } else if (!strcmp(op, "slice")) {
        if (x < 0 || x > s->n)
            x = s->n;
        if (y < 0 || x + y > s->n)
            y = s->n - x;
        a = new_audio(name, y);
        memcpy(a->i16, s->i16 + x, y * sizeof(int16));
    } else if (!strcmp(op, "cat")) {
        char b2[64];
        if (sscanf(line, "%*s %*s %*s %*s %63s", b2) != 1 || !(s2 = find_audio(b2)))
            return -1;
        a = new_audio(name, s->n + s2->n);
        s = find_audio(a2);
        s2 = find_audio(b2);
        memcpy(a->i16, s->i16, s->n * sizeof(int16));
        memcpy(a->i16 + s->n, s2->i16, s2->n * sizeof(int16));
    } else
        return -1;
    sync_f32(a);
    return 0;
}

/* ---- main loop ---------------------------------------------------------------------------- */
int
main(int argc, char *argv[])
{
    static char line[1 << 20], arg[1 << 20];
    char cmd[64], tag[64];
    long a, b, c, e;

    err_set_loglevel(ERR_FATAL);
    vt_open(argc > 1 ? argv[1] : NULL);
    pass = 1;
    while (fgets(line, sizeof(line), stdin)) {
        if (sscanf(line, "%63s", cmd) != 1 || cmd[0] == '#')
            continue;
        if (!strcmp(cmd, "if")) { /* if <n> <command...>: only when exactly n frames have been searched so far */
            int skip = 0;
            if (sscanf(line, "%*s %ld %n", &a, &skip) < 1 || skip == 0)
                return 3;
            if (scored[1] != a)
                continue;
            memmove(line, line + skip, strlen(line + skip) + 1);
            if (sscanf(line, "%63s", cmd) != 1)
                continue;
        }
        if (!strcmp(cmd, "init")) {
            char *json;
            config_t *cfg;
            if (sscanf(line, "%*s %s", arg) != 1)
                return 3;
            json = vt_unhex(arg, NULL);
            if (d)
                decoder_free(d);
            sen_mode = 0; /* a new decoder starts with the real scorer */
            cfg = config_parse_json(NULL, json);
            d = cfg ? decoder_init(cfg) : NULL;
            err_set_loglevel(ERR_FATAL);
            if (d) {
                n_senset_alloc = bin_mdef_n_sen(d->acmod->mdef);
                free(senset);
                senset = (unsigned char *)calloc(n_senset_alloc + 1, 1);
            }
            emit_header(json);
            free(json);
            reset_utt_counters();
        } else if (!strcmp(cmd, "use")) { /* use <k>: switch to decoder slot k */
            if (sscanf(line, "%*s %ld", &a) != 1 || a < 0 || a >= NSLOT)
                return 3;
            slots[cur].d = d;
            memcpy(slots[cur].scored, scored, sizeof(scored));
            memcpy(slots[cur].last_scored_frame, last_scored_frame, sizeof(last_scored_frame));
            memcpy(slots[cur].order_ok, order_ok, sizeof(order_ok));
            slots[cur].fed_samples = fed_samples;
            slots[cur].ret_sum = ret_sum;
            cur = (int)a;
            d = slots[cur].d;
            memcpy(scored, slots[cur].scored, sizeof(scored));
            memcpy(last_scored_frame, slots[cur].last_scored_frame, sizeof(last_scored_frame));
            memcpy(order_ok, slots[cur].order_ok, sizeof(order_ok));
            fed_samples = slots[cur].fed_samples;
            ret_sum = slots[cur].ret_sum;
            fprintf(vt_out, "{\"e\":\"Use\",\"inst\":%d,\"alive\":%s}\n", cur, d ? "true" : "false");
        } else if (!strcmp(cmd, "free")) {
            if (d)
                decoder_free(d);
            d = NULL;
        } else if (!strcmp(cmd, "audio")) {
            if (load_audio(line) < 0) {
                fprintf(stderr, "bad audio command: %s", line);
                return 3;
            }
        } else if (!strcmp(cmd, "jsgf")) {
            char *text;
            jsgf_t *j;
            int ret;
            if (sscanf(line, "%*s %s", arg) != 1)
                return 3;
            text = vt_unhex(arg, NULL);
            /* the user's grammar, compiled but not yet touched by the search (no silences/alternates) */
            j = jsgf_parse_string(text, NULL);
            if (j) {
                /* the rule whose language counts: the configured start rule if there is one, else the public rule */
                const char *top = config_str(d->config, "toprule");
                jsgf_rule_t *rule = top ? jsgf_get_rule(j, top) : jsgf_get_public_rule(j);
                fsg_model_t *g = rule ? jsgf_build_fsg(j, rule, d->lmath, (float32)config_float(d->config, "lw")) : NULL;
                ret = decoder_set_jsgf_string(d, text);
                dump_fsg(g, "jsgf", ret);
                if (g)
                    fsg_model_free(g);
                jsgf_grammar_free(j);
            } else {
                ret = decoder_set_jsgf_string(d, text);
                dump_fsg(NULL, "jsgf", ret);
            }
            free(text);
        } else if (!strcmp(cmd, "toprule")) { /* toprule <hex name> | toprule - : the configured start rule */
            if (sscanf(line, "%*s %s", arg) != 1)
                return 3;
            if (!strcmp(arg, "-"))
                config_set_str(d->config, "toprule", NULL);
            else {
                char *nm = vt_unhex(arg, NULL);
                config_set_str(d->config, "toprule", nm);
                free(nm);
            }
        } else if (!strcmp(cmd, "jsgffile")) { /* jsgffile <path>: decoder_set_jsgf_file */
            jsgf_t *j;
            int ret;
            if (sscanf(line, "%*s %s", arg) != 1)
                return 3;
            j = jsgf_parse_file(arg, NULL);
            if (j) {
                jsgf_rule_t *rule = jsgf_get_public_rule(j);
                fsg_model_t *g = rule ? jsgf_build_fsg(j, rule, d->lmath, (float32)config_float(d->config, "lw")) : NULL;
                ret = decoder_set_jsgf_file(d, arg);
                dump_fsg(g, "jsgf", ret);
                if (g)
                    fsg_model_free(g);
                jsgf_grammar_free(j);
            } else {
                ret = decoder_set_jsgf_file(d, arg);
                dump_fsg(NULL, "jsgf", ret);
            }
        } else if (!strcmp(cmd, "fsgfile") || !strcmp(cmd, "fsgtext")) {
            /* fsgfile <path> reads through fsg_model_readfile, fsgtext <hex> through the in-memory reader */
            fsg_model_t *g = NULL, *g2 = NULL;
            float32 lw = (float32)config_float(d->config, "lw");
            int ret = -1;
            if (sscanf(line, "%*s %s", arg) != 1)
                return 3;
            if (!strcmp(cmd, "fsgfile")) {
                g = fsg_model_readfile(arg, d->lmath, lw);
                g2 = g ? fsg_model_readfile(arg, d->lmath, lw) : NULL;
            } else {
                size_t len;
                char *text = vt_unhex(arg, &len);
                s3file_t *f1 = s3file_init(text, len), *f2 = s3file_init(text, len);
                static char annot[1 << 20];
                if (sscanf(line, "%*s %*s %1048575s", annot) == 1)
                    grammar_annot = vt_unhex(annot, NULL);
                g = fsg_model_read_s3file(f1, d->lmath, lw);
                g2 = g ? fsg_model_read_s3file(f2, d->lmath, lw) : NULL;
                s3file_free(f1);
                s3file_free(f2);
                free(text);
            }
            if (g2)
                ret = decoder_set_fsg(d, g2); /* consumes g2, whether it succeeds or not (decoder.h) */
            dump_fsg(g, "fsg", ret);
            if (grammar_annot) {
                free((void *)grammar_annot);
                grammar_annot = NULL;
            }
            if (g)
                fsg_model_free(g);
        } else if (!strcmp(cmd, "align")) {
            char *text, *copy, *tok, *save = NULL;
            int ret, n = 0;
            if (sscanf(line, "%*s %s", arg) != 1)
                return 3;
            text = vt_unhex(arg, NULL);
            ret = decoder_set_align_text(d, text);
            /* the user's grammar is the word sequence itself */
            fprintf(vt_out, "{\"e\":\"Grammar\",\"kind\":\"text\",\"ret\":%d,\"start\":0,\"arcs\":[", ret);
            copy = strdup(text);
            for (tok = strtok_r(copy, " \t\n\r", &save); tok; tok = strtok_r(NULL, " \t\n\r", &save)) {
                size_t tl = strlen(tok);
                fprintf(vt_out, "%s[%d,%d,", n ? "," : "", n, n + 1);
                /* results carry base forms: a numbered pronunciation variant named by the text labels its arc with
                 * the base spelling */
                if (tl > 3 && tok[tl - 1] == ')') {
                    char *op = strrchr(tok, '(');
                    if (op && op > tok && strspn(op + 1, "0123456789") == (size_t)(tok + tl - 1 - (op + 1)))
                        *op = '\0';
                }
                emit_word(tok);
                fprintf(vt_out, ",0]");
                ++n;
            }
            fprintf(vt_out, "],\"n\":%d,\"final\":%d,\"lw_milli\":0}\n", n + 1, n);
            free(copy);
            free(text);
        } else if (!strcmp(cmd, "addword")) { /* addword <hex word> <hex phones> <update> */
            static char arg2[1 << 16];
            char *w, *ph;
            int r;
            if (sscanf(line, "%*s %s %65535s %ld", arg, arg2, &a) != 3)
                return 3;
            w = vt_unhex(arg, NULL);
            ph = vt_unhex(arg2, NULL);
            r = decoder_add_word(d, w, ph, (int)a);
            fprintf(vt_out, "{\"e\":\"AddWord\",\"ret\":%d,\"word\":", r);
            emit_bytes(w);
            fprintf(vt_out, "}\n");
            free(w);
            free(ph);
        } else if (!strcmp(cmd, "call")) {
            /* call <fn> [args]: one public API call whose only observation is its return class; used by the
             * API-history tours (C09).  Classes: ok (0), err (<0), null, obj, n (a non-negative count) */
            char fn[64], cls[16] = "ok";
            long x = 0, y = 0;
            int n = sscanf(line, "%*s %63s %ld %ld", fn, &x, &y);
            if (n < 1)
                return 3;
            if (!strcmp(fn, "segiter")) { /* x: 0 walk to the end, 1 read first then free, 2 advance once then free */
                seg_iter_t *it = decoder_seg_iter(d);
                strcpy(cls, it ? "obj" : "null");
                if (it && x == 0)
                    while (it) {
                        int sf, ef;
                        (void)seg_iter_word(it);
                        seg_iter_frames(it, &sf, &ef);
                        (void)seg_iter_prob(it, NULL, NULL);
                        it = seg_iter_next(it);
                    }
                else if (it && x == 1) {
                    (void)seg_iter_word(it);
                    seg_iter_free(it);
                } else if (it) {
                    it = seg_iter_next(it);
                    if (it)
                        seg_iter_free(it);
                }
            } else if (!strcmp(fn, "hyp")) {
                int32 sc;
                const char *h = decoder_hyp(d, &sc);
                const char *h2 = decoder_hyp(d, NULL);
                strcpy(cls, h ? "obj" : "null");
                if ((h == NULL) != (h2 == NULL))
                    strcpy(cls, "flip");
                (void)decoder_prob(d);
            } else if (!strcmp(fn, "nbestiter")) { /* x: how many to read, y: 1 = also take and abandon a seg iterator */
                hyp_iter_t *nb = decoder_nbest(d);
                int k = 0;
                strcpy(cls, nb ? "obj" : "null");
                while (nb) {
                    int32 sc;
                    (void)hyp_iter_hyp(nb, &sc);
                    if (y) {
                        seg_iter_t *sg = hyp_iter_seg(nb);
                        if (sg)
                            seg_iter_free(sg);
                    }
                    if (++k >= x) {
                        hyp_iter_free(nb);
                        break;
                    }
                    nb = hyp_iter_next(nb);
                }
            } else if (!strcmp(fn, "lattice")) {
                lattice_t *dag = decoder_lattice(d);
                strcpy(cls, dag ? "obj" : "null");
                if (dag && x) { /* keep it beyond the decoder's own reference, use it, release it */
                    latnode_iter_t *ni;
                    lattice_retain(dag);
                    for (ni = ps_latnode_iter(dag); ni; ni = ps_latnode_iter_next(ni)) {
                        latlink_iter_t *li = ps_latnode_exits(ps_latnode_iter_node(ni));
                        if (li && y)
                            ps_latlink_iter_free(li); /* abandon */
                        else
                            for (; li; li = ps_latlink_iter_next(li))
                                (void)ps_latlink_iter_link(li);
                        (void)ps_latnode_word(dag, ps_latnode_iter_node(ni));
                    }
                    { /* a public traversal in each direction taken a few links far and abandoned, before anything else walks */
                        latlink_t *tl = lattice_traverse_edges(dag, NULL, NULL);
                        int k;
                        for (k = 0; tl && k < 1 + (int)y; ++k)
                            tl = lattice_traverse_next(dag, NULL);
                    }
                    if (lattice_bestpath(dag, 0.05f))
                        (void)lattice_posterior(dag, 0.05f);
                    {
                        latlink_t *tl = lattice_reverse_edges(dag, NULL, NULL);
                        int k;
                        for (k = 0; tl && k < 2; ++k)
                            tl = lattice_reverse_next(dag, NULL);
                        if (lattice_bestpath(dag, 0.05f))
                            (void)lattice_posterior(dag, 0.05f);
                    }
                    if (x >= 2) { /* 2, 3: prune by posterior (mildly, harshly), use what is left, prune again */
                        int round;
                        for (round = 0; round < 2; ++round) {
                            latlink_t *bp = lattice_bestpath(dag, 0.05f);
                            latlink_t *l2;
                            if (bp == NULL)
                                break;
                            (void)lattice_posterior(dag, 0.05f);
                            (void)lattice_posterior_prune(dag, logmath_log(lattice_get_logmath(dag),
                                                                           x == 2 ? (round ? 1e-2 : 1e-6) : (round ? 0.9 : 0.3)));
                            for (ni = ps_latnode_iter(dag); ni; ni = ps_latnode_iter_next(ni)) {
                                latnode_t *nd = ps_latnode_iter_node(ni);
                                latlink_iter_t *li;
                                int16 fef, lef;
                                (void)latnode_times(nd, &fef, &lef);
                                (void)ps_latnode_baseword(dag, nd);
                                for (li = ps_latnode_entries(nd); li; li = ps_latlink_iter_next(li)) {
                                    latnode_t *src;
                                    int16 sf;
                                    (void)ps_latlink_nodes(ps_latlink_iter_link(li), &src);
                                    (void)latlink_times(ps_latlink_iter_link(li), &sf);
                                    (void)ps_latlink_word(dag, ps_latlink_iter_link(li));
                                }
                                for (li = ps_latnode_exits(nd); li; li = ps_latlink_iter_next(li))
                                    (void)ps_latlink_baseword(dag, ps_latlink_iter_link(li));
                            }
                            for (l2 = lattice_reverse_edges(dag, NULL, NULL); l2; l2 = lattice_reverse_next(dag, NULL))
                                ;
                        }
                    }
                    lattice_free(dag);
                }
            } else if (!strcmp(fn, "latkeep")) { /* keep a reference of the caller's own to the decoder's lattice */
                lattice_t *dag = d ? decoder_lattice(d) : NULL;
                if (kept_dag)
                    lattice_free(kept_dag);
                kept_dag = lattice_retain(dag);
                strcpy(cls, dag ? "obj" : "null");
            } else if (!strcmp(fn, "latuse")) { /* use the kept lattice, whatever became of the decoder meanwhile */
                strcpy(cls, kept_dag ? "obj" : "null");
                if (kept_dag) {
                    latnode_iter_t *ni;
                    latlink_t *bp;
                    (void)lattice_n_frames(kept_dag);
                    (void)lattice_get_logmath(kept_dag);
                    for (ni = ps_latnode_iter(kept_dag); ni; ni = ps_latnode_iter_next(ni)) {
                        latnode_t *nd = ps_latnode_iter_node(ni);
                        latlink_iter_t *li;
                        (void)ps_latnode_word(kept_dag, nd);
                        (void)ps_latnode_baseword(kept_dag, nd);
                        for (li = ps_latnode_exits(nd); li; li = ps_latlink_iter_next(li))
                            (void)ps_latlink_word(kept_dag, ps_latlink_iter_link(li));
                    }
                    bp = lattice_bestpath(kept_dag, 0.05f);
                    if (bp) {
                        int32 as;
                        (void)lattice_posterior(kept_dag, 0.05f);
                        (void)ps_latlink_prob(kept_dag, bp, &as);
                        for (; bp; bp = ps_latlink_pred(bp))
                            (void)ps_latlink_baseword(kept_dag, bp);
                    }
                }
            } else if (!strcmp(fn, "latdrop")) {
                strcpy(cls, kept_dag ? "obj" : "null");
                if (kept_dag)
                    lattice_free(kept_dag);
                kept_dag = NULL;
            } else if (!strcmp(fn, "alignwalk")) { /* x: 0 full walk, 1 abandon iterators half way */
                alignment_t *al = decoder_alignment(d);
                strcpy(cls, al ? "obj" : "null");
                if (al) {
                    alignment_iter_t *w = alignment_words(al);
                    while (w) {
                        alignment_iter_t *p = alignment_iter_children(w);
                        (void)alignment_iter_name(w);
                        while (p) {
                            alignment_iter_t *st = alignment_iter_children(p);
                            (void)alignment_iter_name(p);
                            if (st && x) {
                                alignment_iter_free(st);
                                st = NULL;
                            }
                            while (st) {
                                (void)alignment_iter_name(st);
                                st = alignment_iter_next(st);
                            }
                            if (x) {
                                alignment_iter_free(p);
                                break;
                            }
                            p = alignment_iter_next(p);
                        }
                        if (x) {
                            alignment_iter_free(w);
                            break;
                        }
                        w = alignment_iter_next(w);
                    }
                    if (!x) { /* each level once more as ONE flat sequence, naming every entry through the same iterator */
                        int lv;
                        for (lv = 0; lv < 3; ++lv) {
                            alignment_iter_t *it = lv == 0 ? alignment_words(al) : lv == 1 ? alignment_phones(al) : alignment_states(al);
                            for (; it; it = alignment_iter_next(it)) {
                                int st0, du;
                                (void)alignment_iter_name(it);
                                (void)alignment_iter_seg(it, &st0, &du);
                                (void)alignment_iter_name(it);
                            }
                        }
                    }
                }
            } else if (!strcmp(fn, "json")) {
                const char *js = decoder_result_json(d, 0.5, (int)x);
                strcpy(cls, js ? "obj" : "null");
                if (js && (js[0] != '{' || js[strlen(js) - 1] != '\n'))
                    strcpy(cls, "bad");
            } else if (!strcmp(fn, "nframes")) {
                int nfr = decoder_n_frames(d);
                double a1, a2, a3;
                decoder_utt_time(d, &a1, &a2, &a3);
                decoder_all_time(d, &a1, &a2, &a3);
                strcpy(cls, nfr >= 0 ? "n" : "err");
            } else if (!strcmp(fn, "getcmn")) {
                strcpy(cls, decoder_get_cmn(d, (int)x) ? "obj" : "null");
            } else if (!strcmp(fn, "retain")) {
                strcpy(cls, decoder_retain(d) ? "obj" : "null");
            } else if (!strcmp(fn, "release")) { /* drop the extra reference taken by retain */
                int rc = decoder_free(d);
                snprintf(cls, sizeof(cls), "%s", rc >= 1 ? "n" : "zero");
            } else if (!strcmp(fn, "reinit")) {
                int rc = decoder_reinit(d, NULL);
                strcpy(cls, rc == 0 ? "ok" : "err");
            } else if (!strcmp(fn, "reinitfeat")) { /* front end and feature computation rebuilt from the configuration */
                int rc = decoder_reinit_feat(d, NULL);
                strcpy(cls, rc == 0 ? "ok" : "err");
            } else if (!strcmp(fn, "setlogfile")) { /* x: 0 NULL (standard output), 1 a writable file, 2 a path that cannot be opened */
                int rc = decoder_set_logfile(d, x == 0 ? NULL : x == 1 ? "/dev/null" : "/nonexistent-directory/log.txt");
                strcpy(cls, rc == 0 ? "ok" : "err");
            } else if (!strcmp(fn, "prob")) {
                int32 pr = decoder_prob(d);
                strcpy(cls, pr <= 0 ? "ok" : "err");
            } else if (!strcmp(fn, "lookup")) { /* x: 0 known word, 1 unknown, 2 empty */
                char *pr = decoder_lookup_word(d, x == 0 ? "forward" : x == 1 ? "nosuchword" : "");
                strcpy(cls, pr ? "obj" : "null");
                ckd_free(pr);
            } else if (!strcmp(fn, "config")) {
                config_t *c = decoder_config(d);
                (void)decoder_logmath(d);
                (void)decoder_fe(d);
                (void)decoder_feat(d);
                strcpy(cls, c && config_str(c, "hmm") ? "obj" : "null");
            } else
                return 3;
            fprintf(vt_out, "{\"e\":\"Call\",\"fn\":\"%s\",\"x\":%ld,\"y\":%ld,\"cls\":\"%s\"}\n", fn, x, y, cls);
        } else if (!strcmp(cmd, "cmn")) {
            char *s;
            if (sscanf(line, "%*s %s", arg) != 1)
                return 3;
            s = vt_unhex(arg, NULL);
            fprintf(vt_out, "{\"e\":\"SetCmn\",\"v\":");
            vt_str(vt_out, s);
            fprintf(vt_out, ",\"ret\":%d}\n", decoder_set_cmn(d, s));
            free(s);
        } else if (!strcmp(cmd, "getcmn")) {
            fprintf(vt_out, "{\"e\":\"Cmn\",\"v\":");
            vt_str(vt_out, decoder_get_cmn(d, 0));
            fprintf(vt_out, "}\n");
        } else if (!strcmp(cmd, "start")) {
            int r;
            reset_utt_counters();
            bestpath_done_on = NULL;
            fprintf(vt_out, "{\"e\":\"Start\",\"inst\":%d,\"cmn\":", cur);
            vt_str(vt_out, d ? decoder_get_cmn(d, 0) : "");
            r = decoder_start_utt(d);
            fprintf(vt_out, ",\"ret\":%d}\n", r);
        } else if (!strcmp(cmd, "end")) {
            int before = scored[1];
            int r = decoder_end_utt(d);
            fprintf(vt_out, "{\"e\":\"End\",\"ret\":%d,\"searched\":%d}\n", r, scored[1] - before);
        } else if (!strcmp(cmd, "feed")) {
            char name[32], enc[8];
            audio_t *au;
            int r, before = scored[1];
            if (sscanf(line, "%*s %31s %ld %ld %7s %ld %ld", name, &a, &b, enc, &c, &e) != 6 || !(au = find_audio(name)))
                return 3;
            if (a < 0 || a > au->n)
                a = au->n;
            if (b < 0 || a + b > au->n)
                b = au->n - a;
            if (d && d->fe && d->fe->swap) {
                /* the configuration announces samples in the other byte order (input_endian): hand them over that way */
                size_t w = !strcmp(enc, "f32") ? sizeof(float32) : sizeof(int16), i, j;
                unsigned char *tmp = (unsigned char *)malloc(b * w + 1);
                const unsigned char *src = !strcmp(enc, "f32") ? (const unsigned char *)(au->f32 + a) : (const unsigned char *)(au->i16 + a);
                for (i = 0; i < (size_t)b; ++i)
                    for (j = 0; j < w; ++j)
                        tmp[i * w + j] = src[i * w + (w - 1 - j)];
                if (!strcmp(enc, "f32"))
                    r = decoder_process_float32(d, (float32 *)tmp, (size_t)b, (int)c, (int)e);
                else
                    r = decoder_process_int16(d, (int16 *)tmp, (size_t)b, (int)c, (int)e);
                free(tmp);
            } else if (!strcmp(enc, "f32"))
                r = decoder_process_float32(d, au->f32 + a, (size_t)b, (int)c, (int)e);
            else
                r = decoder_process_int16(d, au->i16 + a, (size_t)b, (int)c, (int)e);
            if (r > 0)
                ret_sum += r;
            fed_samples += b;
            fprintf(vt_out, "{\"e\":\"Feed\",\"n\":%ld,\"enc\":\"%s\",\"no_search\":%ld,\"full\":%ld,\"ret\":%d,\"searched\":%d}\n", b,
                    enc, c, e, r, scored[1] - before);
        } else if (!strcmp(cmd, "result")) {
            if (sscanf(line, "%*s %63s", tag) != 1)
                return 3;
            cmd_result(tag);
        } else if (!strcmp(cmd, "lattice")) {
            if (sscanf(line, "%*s %63s %ld", tag, &a) != 2)
                return 3;
            cmd_lattice(tag, (int)a);
        } else if (!strcmp(cmd, "nbest")) {
            b = 0;
            if (sscanf(line, "%*s %63s %ld %ld", tag, &a, &b) < 2)
                return 3;
            cmd_nbest(tag, (int)a, (int)b); /* nbest <tag> <max> [1 = also dump the lattice afterwards] */
        } else if (!strcmp(cmd, "alignment")) {
            if (sscanf(line, "%*s %63s", tag) != 1)
                return 3;
            cmd_alignment(tag);
        } else if (!strcmp(cmd, "json")) {
            if (sscanf(line, "%*s %63s %ld %ld", tag, &a, &b) != 3)
                return 3;
            cmd_json(tag, (int)a, (int)b);
        } else if (!strcmp(cmd, "synlat")) {
            if (cmd_synlat(line) < 0) {
                fprintf(stderr, "bad synlat command\n");
                return 3;
            }
        } else if (!strcmp(cmd, "senmode")) { /* senmode off | hash|flat|sparse <seed> <range> */
            char m[32] = "";
            long sd = 0, rg = 0;
            sscanf(line, "%*s %31s %ld %ld", m, &sd, &rg);
            sen_mode = !strcmp(m, "hash") ? 1 : !strcmp(m, "flat") ? 2 : !strcmp(m, "sparse") ? 3 : 0;
            sen_seed = (int)sd;
            sen_range = rg > 0 && rg < 32000 ? (int)rg : 1000;
            fprintf(vt_out, "{\"e\":\"SenMode\",\"mode\":%d,\"seed\":%d,\"range\":%d}\n", sen_mode, sen_seed, sen_range);
        } else if (!strcmp(cmd, "synhist")) {
            if (cmd_synhist(line) < 0) {
                fprintf(stderr, "bad synhist command\n");
                return 3;
            }
        } else if (!strcmp(cmd, "net")) {
            cmd_net();
        } else if (!strcmp(cmd, "senscr")) {
            if (sscanf(line, "%*s %ld", &a) != 1)
                return 3;
            log_senscr = (int)a;
        } else if (!strcmp(cmd, "senset")) { /* senset all | senset <id> <id> ... */
            char *p = line + 6, *endp;
            if (strstr(line, "all"))
                memset(senset, 1, n_senset_alloc);
            else
                for (;;) {
                    long v = strtol(p, &endp, 10);
                    if (endp == p)
                        break;
                    if (v >= 0 && v < n_senset_alloc)
                        senset[v] = 1;
                    p = endp;
                }
        } else if (!strcmp(cmd, "histsize")) { /* how many word exits the search's history table holds */
            fsg_search_t *fs = d ? (fsg_search_t *)d->search : NULL;
            fprintf(vt_out, "{\"e\":\"HistSize\",\"n\":%d}\n", fs && fs->history ? fsg_history_n_entries(fs->history) : -1);
        } else if (!strcmp(cmd, "mark")) { /* free-form marker copied to the trace */
            if (sscanf(line, "%*s %s", arg) != 1)
                return 3;
            fprintf(vt_out, "{\"e\":\"Mark\",\"v\":\"%s\",\"batch\":%s}\n", arg, arg[0] == 'B' && arg[1] == ':' ? "true" : "false");
        } else {
            fprintf(stderr, "unknown command %s\n", cmd);
            return 3;
        }
    }
    slots[cur].d = d;
    for (cur = 0; cur < NSLOT; ++cur)
        if (slots[cur].d)
            decoder_free(slots[cur].d);
    free(senset);
    while (naudio > 0) {
        --naudio;
        free(audio[naudio].i16);
        free(audio[naudio].f32);
    }
    vt_close();
    return 0;
}
