/* Driver for the word-exit history table (fsg_history.c), the mechanism C02 names "history entry insertion keeps,
 * per (state, left ctx), only entries not dominated on score and right-context set".  A script of
 * fsg_history_entry_add / fsg_history_end_frame calls is executed on a real table over a real model definition and
 * a three-state grammar; after every call the per-frame lists of the buckets in play and, at the end of a frame,
 * the permanent table are recorded.  Model contexts 1..4 are mapped to real phone ids by the script (`map`), so the
 * same abstract history runs with context bits in the same machine word, in neighbouring words, 32 apart, ...
 * Usage: hist_drv <trace.ndjson> <mdef> < script */
#include <soundswallower/bin_mdef.h>
#include <soundswallower/dict.h>
#include <soundswallower/err.h>
#include <soundswallower/fsg_history.h>
#include <soundswallower/fsg_model.h>
#include <soundswallower/logmath.h>
#include "../common/histadd.h"
#include "../common/vtrace.h"

#define NCTX 4
#define NB 3
static int cmap[NCTX + 1]; /* model context -> real phone id */
static int lcs[2];
static fsg_history_t *h;
static fsg_model_t *fsg;
static fsg_link_t *links[3]; /* link into state 1, into state 2 */
static int frame;

static void
emit_rc(const fsg_pnode_ctxt_t *rc)
{
    int c, first = 1, stray = 0, w, bit;
    fprintf(vt_out, "\"rc\":[");
    for (c = 1; c <= NCTX; ++c)
        if (cmap[c] >= 0 && (rc->bv[cmap[c] >> 5] & (1u << (cmap[c] & 31)))) {
            fprintf(vt_out, "%s%d", first ? "" : ",", c);
            first = 0;
        }
    for (w = 0; w < FSG_PNODE_CTXT_BVSZ; ++w)
        for (bit = 0; bit < 32; ++bit)
            if (rc->bv[w] & (1u << bit)) {
                int id = w * 32 + bit, known = 0;
                for (c = 1; c <= NCTX; ++c)
                    known |= cmap[c] == id;
                stray |= !known;
            }
    fprintf(vt_out, "],\"stray\":%s", stray ? "true" : "false");
}

static void
bucket_of(int b, int *s, int *lc)
{
    *s = b == 3 ? 2 : 1;
    *lc = b == 2 ? lcs[1] : lcs[0];
}

static void
emit_lists(void)
{
    int b;
    fprintf(vt_out, "\"lists\":[");
    for (b = 1; b <= NB; ++b) {
        int s, lc, first = 1;
        gnode_t *gn;
        bucket_of(b, &s, &lc);
        fprintf(vt_out, "%s[", b > 1 ? "," : "");
        for (gn = h->frame_entries[s][lc]; gn; gn = gnode_next(gn)) {
            fsg_hist_entry_t *e = (fsg_hist_entry_t *)gnode_ptr(gn);
            fprintf(vt_out, "%s{\"score\":%d,\"frame\":%d,\"pred\":%d,\"lcok\":%s,\"to\":%d,", first ? "" : ",", e->score, e->frame,
                    e->pred, e->lc == lc ? "true" : "false", fsg_link_to_state(e->fsglink));
            emit_rc(&e->rc);
            fprintf(vt_out, "}");
            first = 0;
        }
        fprintf(vt_out, "]");
    }
    fprintf(vt_out, "]");
}

static void
emit_table(void)
{
    int i, n = fsg_history_n_entries(h);
    fprintf(vt_out, "\"n\":%d,\"table\":[", n);
    for (i = 0; i < n; ++i) {
        fsg_hist_entry_t *e = fsg_history_entry_get(h, i);
        int b = 0, k;
        for (k = 1; k <= NB; ++k) {
            int s, lc;
            bucket_of(k, &s, &lc);
            if (fsg_link_to_state(e->fsglink) == s && e->lc == lc)
                b = k;
        }
        fprintf(vt_out, "%s{\"score\":%d,\"frame\":%d,\"pred\":%d,\"b\":%d,", i ? "," : "", e->score, e->frame, e->pred, b);
        emit_rc(&e->rc);
        fprintf(vt_out, "}");
    }
    fprintf(vt_out, "]");
}

int
main(int argc, char *argv[])
{
    char line[4096], cmd[32];
    bin_mdef_t *mdef;
    dict_t fake;
    logmath_t *lmath;
    int a, b, c, e, wid;
    fsg_arciter_t *it;

    err_set_loglevel(ERR_FATAL);
    if (argc < 3)
        return 3;
    vt_open(argv[1]);
    if ((mdef = bin_mdef_read(NULL, argv[2])) == NULL)
        return 3;
    memset(&fake, 0, sizeof(fake));
    fake.mdef = mdef; /* fsg_history_init only asks the dictionary for the phone inventory */
    lmath = logmath_init(1.0001, 0, 0);
    fsg = fsg_model_init("h", lmath, 1.0f, 3);
    wid = fsg_model_word_add(fsg, "w");
    fsg_model_trans_add(fsg, 0, 1, 0, wid);
    fsg_model_trans_add(fsg, 0, 2, 0, wid);
    for (it = fsg_model_arcs(fsg, 0); it; it = fsg_arciter_next(it)) {
        fsg_link_t *l = fsg_arciter_get(it);
        links[fsg_link_to_state(l)] = l;
    }
    cmap[1] = 2, cmap[2] = 3, cmap[3] = 4, cmap[4] = 5;
    lcs[0] = 7, lcs[1] = 9;
    while (fgets(line, sizeof(line), stdin)) {
        if (sscanf(line, "%31s", cmd) != 1 || cmd[0] == '#')
            continue;
        if (!strcmp(cmd, "map")) {
            if (sscanf(line, "%*s %d %d %d %d %d %d", &cmap[1], &cmap[2], &cmap[3], &cmap[4], &lcs[0], &lcs[1]) != 6)
                return 3;
            if (lcs[0] >= lcs[1] || lcs[1] >= bin_mdef_n_ciphone(mdef))
                return 3; /* end_frame visits buckets by state, then left context: keep the model's order */
        } else if (!strcmp(cmd, "new")) {
            if (h)
                fsg_history_free(h);
            h = fsg_history_init(fsg, &fake);
            fsg_history_utt_start(h);
            frame = 0;
            fprintf(vt_out, "{\"e\":\"New\",\"map\":[%d,%d,%d,%d],\"nci\":%d,", cmap[1], cmap[2], cmap[3], cmap[4], bin_mdef_n_ciphone(mdef));
            emit_lists();
            fprintf(vt_out, ",");
            emit_table();
            fprintf(vt_out, "}\n");
        } else if (!strcmp(cmd, "add")) { /* add <bucket> <score> <rc bitmask over model contexts> <pred> */
            fsg_pnode_ctxt_t rc;
            int s, lc;
            if (!h || sscanf(line, "%*s %d %d %d %d", &a, &b, &c, &e) != 4 || a < 1 || a > NB)
                return 3;
            memset(&rc, 0, sizeof(rc));
            for (wid = 1; wid <= NCTX; ++wid)
                if ((c & (1 << (wid - 1))) && cmap[wid] >= 0)
                    rc.bv[cmap[wid] >> 5] |= 1u << (cmap[wid] & 31);
            bucket_of(a, &s, &lc);
            VT_HIST_ADD(h, links[s], frame, b, e, lc, rc);
            fprintf(vt_out, "{\"e\":\"Add\",\"b\":%d,\"score\":%d,\"mask\":%d,\"pred\":%d,\"frame\":%d,", a, b, c, e, frame);
            emit_lists();
            fprintf(vt_out, ",");
            emit_table();
            fprintf(vt_out, "}\n");
        } else if (!strcmp(cmd, "endframe")) {
            if (!h)
                return 3;
            fsg_history_end_frame(h);
            ++frame;
            fprintf(vt_out, "{\"e\":\"EndFrame\",");
            emit_lists();
            fprintf(vt_out, ",");
            emit_table();
            fprintf(vt_out, "}\n");
        } else {
            fprintf(stderr, "hist_drv: bad command: %s", line);
            return 3;
        }
    }
    if (h) {
        fsg_history_end_frame(h);
        fsg_history_reset(h); /* releases the entries of the table */
        fsg_history_free(h);
    }
    fsg_model_free(fsg);
    logmath_free(lmath);
    bin_mdef_free(mdef);
    vt_close();
    return 0;
}
