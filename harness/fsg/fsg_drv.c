/* Driver for fsg_model.c (property C13).  Executes a script of fsg_model_* calls against the real
 * library and records, after every call, everything the property talks about: the call's result and
 * the complete grammar as the PUBLIC interface shows it (n_state/start/final fields, the vocabulary with
 * fsg_model_is_filler / fsg_model_is_alt, every arc returned by fsg_model_arcs / fsg_arciter_*).
 *
 * Every arc is logged as [from, to, "word" ("" = null arc), logs2prob, pn] where
 *    pn = round(1e9 * base^(logs2prob / lw))
 * is the probability the integer weight denotes (fsg_model.h: logs2prob = log(prob)*lw), computed here
 * in double precision with libm, independently of logmath.c and of the writer.
 *
 * script (stdin), one command per line, words/names are plain tokens:
 *   new <name|-|NULL> <lw> <n> <start> <final>    fresh grammar + Header event ("-" = "", NULL = no name)
 *   word <w>                                      fsg_model_word_add
 *   trans <f> <t> L <int>|P <prob> <w>            fsg_model_word_add + fsg_model_trans_add
 *   null <f> <t> L <int>|P <prob>                 fsg_model_null_trans_add
 *   closure                                       fsg_model_null_trans_closure(fsg, NULL)
 *   sil <w> <state|-1> <prob>                     fsg_model_add_silence
 *   alt <base> <alt>                              fsg_model_add_alt
 *   write <fid>                                   fsg_model_write into <dir>/f<fid>.fsg; the text is parsed
 *                                                 back by an independent reader of the documented format
 *   text <fid> <hex>                              create <dir>/f<fid>.fsg with literal content
 *   read <fid> <lw>                               fsg_model_readfile -> second grammar, dumped, written
 *                                                 again (f<fid>.2.fsg, parsed), freed
 *   file <name> <hex>                             create <dir>/<name> with literal content (dictionaries)
 *   search <dict> <fdict> <silprob> <fillprob> <fillers,|-> <base=alt,|->      (<dict>, <fdict>: names in <dir>)
 *                                                 hand the grammar to a decoder (decoder_set_fsg, which runs
 *                                                 fsg_search.c's add_silences / add_altpron with the given
 *                                                 dictionaries); the two lists say what the script put in
 *                                                 the dictionaries and are echoed into the event
 *   end                                           free the grammar
 * Every command runs under alarm(20): exit code 99 = a library call did not return.
 * usage: fsg_drv <trace.ndjson> <scratch dir> [<acoustic model dir, for search>]
 */
#include <math.h>
#include <signal.h>
#include <unistd.h>
#include <soundswallower/decoder.h>
#include <soundswallower/err.h>
#include <soundswallower/fsg_model.h>
#include <soundswallower/glist.h>
#include <soundswallower/logmath.h>
#include "vtrace.h"

static logmath_t *lmath;
static fsg_model_t *fsg;
static decoder_t *dec;
static char dec_key[8192];
static const char *hmmdir;
static int execno;
static const char *dir = ".";

#define MAXARCS 100000

static long
nano_prob(int32 lp, double lw)
{
    double p = pow(logmath_get_base(lmath), (double)lp / lw);
    return (long)llround(p * 1e9);
}

static int32
conv(const char *kind, const char *val, float32 lw)
{
    if (kind[0] == 'L')
        return (int32)atoi(val);
    /* the conversion the reader and jsgf.c use for a probability */
    return (int32)(logmath_log(lmath, atof(val)) * lw);
}

static void
dump_model(fsg_model_t *m)
{
    int i, n = 0;
    fprintf(vt_out, "{\"n\":%d,\"s\":%d,\"f\":%d,\"hassil\":%s,\"hasalt\":%s,\"vocab\":[", fsg_model_n_state(m),
            fsg_model_start_state(m), fsg_model_final_state(m), fsg_model_has_sil(m) ? "true" : "false",
            fsg_model_has_alt(m) ? "true" : "false");
    for (i = 0; i < fsg_model_n_word(m); ++i) {
        fprintf(vt_out, "%s[", i ? "," : "");
        vt_str(vt_out, fsg_model_word_str(m, i));
        fprintf(vt_out, ",%d,%d]", fsg_model_is_filler(m, i) ? 1 : 0, fsg_model_is_alt(m, i) ? 1 : 0);
    }
    fprintf(vt_out, "],\"arcs\":[");
    for (i = 0; i < fsg_model_n_state(m); ++i) {
        fsg_arciter_t *it;
        for (it = fsg_model_arcs(m, i); it; it = fsg_arciter_next(it)) {
            fsg_link_t *l = fsg_arciter_get(it);
            int wid = fsg_link_wid(l);
            fprintf(vt_out, "%s[%d,%d,", n++ ? "," : "", fsg_link_from_state(l), fsg_link_to_state(l));
            if (wid < 0)
                fprintf(vt_out, "\"\"");
            else if (wid < fsg_model_n_word(m))
                vt_str(vt_out, fsg_model_word_str(m, wid));
            else
                fprintf(vt_out, "\"?bad-wid-%d\"", wid);
            fprintf(vt_out, ",%d,%ld]", (int)fsg_link_logs2prob(l), nano_prob(fsg_link_logs2prob(l), fsg_model_lw(m)));
            if (n > MAXARCS) { /* a corrupted list must not hang the harness */
                fsg_arciter_free(it);
                break;
            }
        }
    }
    fprintf(vt_out, "]}");
}

/* Independent reader of the documented text format (fsg_model.h): used to say what a file contains. */
static void
dump_file(const char *path)
{
    FILE *fp = fopen(path, "r");
    char line[8192];
    char name[4096] = "";
    int begin = 0, endseen = 0, bad = 0, n = -1, s = -1, f = -1, narc = 0;
    if (fp == NULL) {
        fprintf(vt_out, "{\"ok\":false,\"begin\":false,\"end\":false,\"name\":\"\",\"n\":-1,\"s\":-1,\"f\":-1,\"arcs\":[]}");
        return;
    }
    /* first pass: header */
    fprintf(vt_out, "{\"arcs\":[");
    while (fgets(line, sizeof(line), fp)) {
        char *tok[8];
        int nt = 0;
        char *p;
        if (line[0] == '#')
            continue;
        for (p = strtok(line, " \t\r\n"); p && nt < 8; p = strtok(NULL, " \t\r\n"))
            tok[nt++] = p;
        if (nt == 0)
            continue;
        if (!begin) {
            if (!strcmp(tok[0], "FSG_BEGIN")) {
                begin = 1;
                if (nt > 1)
                    snprintf(name, sizeof(name), "%s", tok[1]);
            }
            continue;
        }
        if (!strcmp(tok[0], "FSG_END")) {
            endseen = 1;
            break;
        } else if (!strcmp(tok[0], "N") || !strcmp(tok[0], "NUM_STATES")) {
            if (nt < 2) bad = 1; else n = atoi(tok[1]);
        } else if (!strcmp(tok[0], "S") || !strcmp(tok[0], "START_STATE")) {
            if (nt < 2) bad = 1; else s = atoi(tok[1]);
        } else if (!strcmp(tok[0], "F") || !strcmp(tok[0], "FINAL_STATE")) {
            if (nt < 2) bad = 1; else f = atoi(tok[1]);
        } else if (!strcmp(tok[0], "T") || !strcmp(tok[0], "TRANSITION")) {
            if (nt < 4) {
                bad = 1;
                continue;
            }
            fprintf(vt_out, "%s[%d,%d,", narc++ ? "," : "", atoi(tok[1]), atoi(tok[2]));
            if (nt > 4)
                vt_str(vt_out, tok[4]);
            else
                fprintf(vt_out, "\"\"");
            /* weight slot unused for a file (0); the printed probability in nano units */
            fprintf(vt_out, ",0,%ld]", (long)llround(atof(tok[3]) * 1e9));
        }
    }
    fclose(fp);
    fprintf(vt_out, "],\"ok\":%s,\"begin\":%s,\"end\":%s,\"name\":", (!bad && begin && endseen) ? "true" : "false",
            begin ? "true" : "false", endseen ? "true" : "false");
    vt_str(vt_out, name);
    fprintf(vt_out, ",\"n\":%d,\"s\":%d,\"f\":%d}", n, s, f);
}

static void
ev_begin(const char *e)
{
    fprintf(vt_out, "{\"e\":\"%s\"", e);
}

static void
ev_end(void)
{
    fprintf(vt_out, ",\"st\":");
    dump_model(fsg);
    fprintf(vt_out, "}\n");
}

static void
fpath(char *buf, size_t n, int fid, const char *suffix)
{
    snprintf(buf, n, "%s/f%d%s.fsg", dir, fid, suffix);
}

/* a call that does not return (a closure that never reaches its fixed point) must not hang the check */
#define CALL_TIMEOUT_S 20
static void
on_alarm(int sig)
{
    static const char msg[] = "fsg_drv: HANG: a library call did not return within 20 s\n";
    (void)sig;
    if (write(2, msg, sizeof(msg) - 1) < 0)
        _exit(98);
    _exit(99);
}

int
main(int argc, char *argv[])
{
    static char line[1 << 16];
    char cmd[32], a1[4096], a2[4096], a3[4096], a4[4096];
    int f, t, x, y;
    double d;

    err_set_loglevel(ERR_FATAL);
    vt_open(argc > 1 ? argv[1] : NULL);
    if (argc > 2)
        dir = argv[2];
    if (argc > 3)
        hmmdir = argv[3];
    lmath = logmath_init(1.0001, 0, 0);
    signal(SIGALRM, on_alarm);
    while (fgets(line, sizeof(line), stdin)) {
        alarm(CALL_TIMEOUT_S);
        if (sscanf(line, "%31s", cmd) != 1 || cmd[0] == '#')
            continue;
        if (!strcmp(cmd, "new")) {
            if (sscanf(line, "%*s %4095s %lf %d %d %d", a1, &d, &f, &t, &x) != 5)
                return 3;
            if (fsg)
                fsg_model_free(fsg);
            fsg = fsg_model_init(!strcmp(a1, "NULL") ? NULL : !strcmp(a1, "-") ? "" : a1, lmath, (float32)d, f);
            fsg->start_state = t;
            fsg->final_state = x;
            ev_begin("Header");
            fprintf(vt_out, ",\"id\":%d,\"lwm\":%d,\"named\":%s,\"name\":", ++execno, (int)llround(d * 1000),
                    fsg_model_name(fsg) && fsg_model_name(fsg)[0] ? "true" : "false");
            vt_str(vt_out, fsg_model_name(fsg) ? fsg_model_name(fsg) : "");
            ev_end();
        } else if (!fsg && strcmp(cmd, "text") && strcmp(cmd, "read") && strcmp(cmd, "end") && strcmp(cmd, "file")) {
            return 3;
        } else if (!strcmp(cmd, "word")) {
            if (sscanf(line, "%*s %4095s", a1) != 1)
                return 3;
            x = fsg_model_word_add(fsg, a1);
            ev_begin("Word");
            fprintf(vt_out, ",\"w\":");
            vt_str(vt_out, a1);
            fprintf(vt_out, ",\"ret\":%d", x);
            ev_end();
        } else if (!strcmp(cmd, "trans")) {
            int32 lp;
            if (sscanf(line, "%*s %d %d %4095s %4095s %4095s", &f, &t, a1, a2, a3) != 5)
                return 3;
            lp = conv(a1, a2, fsg_model_lw(fsg));
            x = fsg_model_word_add(fsg, a3);
            fsg_model_trans_add(fsg, f, t, lp, x);
            ev_begin("Trans");
            fprintf(vt_out, ",\"f\":%d,\"t\":%d,\"lp\":%d,\"w\":", f, t, (int)lp);
            vt_str(vt_out, a3);
            ev_end();
        } else if (!strcmp(cmd, "null")) {
            int32 lp;
            if (sscanf(line, "%*s %d %d %4095s %4095s", &f, &t, a1, a2) != 4)
                return 3;
            lp = conv(a1, a2, fsg_model_lw(fsg));
            x = fsg_model_null_trans_add(fsg, f, t, lp);
            ev_begin("Null");
            fprintf(vt_out, ",\"f\":%d,\"t\":%d,\"lp\":%d,\"ret\":%d", f, t, (int)lp, x);
            ev_end();
        } else if (!strcmp(cmd, "closure")) {
            glist_t nulls = fsg_model_null_trans_closure(fsg, NULL);
            ev_begin("Closure");
            fprintf(vt_out, ",\"nnull\":%d", (int)glist_count(nulls));
            glist_free(nulls);
            ev_end();
        } else if (!strcmp(cmd, "sil")) {
            if (sscanf(line, "%*s %4095s %d %lf", a1, &t, &d) != 3)
                return 3;
            x = fsg_model_add_silence(fsg, a1, t, (float32)d);
            ev_begin("Sil");
            fprintf(vt_out, ",\"w\":");
            vt_str(vt_out, a1);
            /* the configured penalty as an integer weight: log(silprob) * lw (fsg_model.h) */
            fprintf(vt_out, ",\"state\":%d,\"lp\":%d,\"ret\":%d", t,
                    (int)(int32)(logmath_log(lmath, (float32)d) * fsg_model_lw(fsg)), x);
            ev_end();
        } else if (!strcmp(cmd, "alt")) {
            if (sscanf(line, "%*s %4095s %4095s", a1, a2) != 2)
                return 3;
            x = fsg_model_add_alt(fsg, a1, a2);
            ev_begin("Alt");
            fprintf(vt_out, ",\"base\":");
            vt_str(vt_out, a1);
            fprintf(vt_out, ",\"alt\":");
            vt_str(vt_out, a2);
            fprintf(vt_out, ",\"ret\":%d", x);
            ev_end();
        } else if (!strcmp(cmd, "search")) {
            char sp[64], fp[64];
            char *tok;
            int n = 0;
            if (sscanf(line, "%*s %4095s %4095s %63s %63s %4095s %4095s", a1, a2, sp, fp, a3, a4) != 6 || !hmmdir)
                return 3;
            alarm(120); /* loading the acoustic model under ASan takes a while */
            {
                static char p1[8192], p2[8192];
                snprintf(p1, sizeof(p1), "%s/%s", dir, a1);
                snprintf(p2, sizeof(p2), "%s/%s", dir, a2);
                snprintf(a1, sizeof(a1), "%s", p1);
                snprintf(a2, sizeof(a2), "%s", p2);
            }
            snprintf(line, sizeof(line), "%s|%s|%s|%s|%f", a1, a2, sp, fp, (double)fsg_model_lw(fsg));
            if (dec == NULL || strcmp(line, dec_key) != 0) {
                config_t *cfg = config_init(NULL);
                if (dec)
                    decoder_free(dec);
                snprintf(dec_key, sizeof(dec_key), "%s", line);
                config_set_str(cfg, "loglevel", "FATAL");
                config_set_str(cfg, "hmm", hmmdir);
                config_set_str(cfg, "dict", a1);
                config_set_str(cfg, "fdict", a2);
                config_set_str(cfg, "silprob", sp);
                config_set_str(cfg, "fillprob", fp);
                dec = decoder_init(cfg);
                if (dec == NULL)
                    return 5;
            }
            /* the decoder consumes one reference; ours keeps the grammar inspectable (fsg_model_retain) */
            x = decoder_set_fsg(dec, fsg_model_retain(fsg));
            ev_begin("Search");
            fprintf(vt_out, ",\"ret\":%d,\"silp\":%d,\"fillp\":%d,\"fillers\":[", x,
                    (int)(int32)(logmath_log(lmath, (float32)atof(sp)) * fsg_model_lw(fsg)),
                    (int)(int32)(logmath_log(lmath, (float32)atof(fp)) * fsg_model_lw(fsg)));
            if (strcmp(a3, "-"))
                for (tok = strtok(a3, ","); tok; tok = strtok(NULL, ",")) {
                    fprintf(vt_out, "%s", n++ ? "," : "");
                    vt_str(vt_out, tok);
                }
            fprintf(vt_out, "],\"alts\":[");
            n = 0;
            if (strcmp(a4, "-"))
                for (tok = strtok(a4, ","); tok; tok = strtok(NULL, ",")) {
                    char *eq = strchr(tok, '=');
                    if (!eq)
                        return 3;
                    *eq = 0;
                    fprintf(vt_out, "%s[", n++ ? "," : "");
                    vt_str(vt_out, tok);
                    fputc(',', vt_out);
                    vt_str(vt_out, eq + 1);
                    fputc(']', vt_out);
                }
            fprintf(vt_out, "]");
            ev_end();
        } else if (!strcmp(cmd, "file")) {
            FILE *fp;
            char *txt;
            size_t len;
            static char hex[1 << 16];
            static char pth[8192];
            if (sscanf(line, "%*s %255s %65535s", a1, hex) != 2 || strchr(a1, '/'))
                return 3;
            snprintf(pth, sizeof(pth), "%s/%s", dir, a1);
            if ((fp = fopen(pth, "w")) == NULL)
                return 4;
            txt = vt_unhex(hex, &len);
            fwrite(txt, 1, len, fp);
            free(txt);
            fclose(fp);
            if (dec) { /* a dictionary may have changed under the cached decoder */
                decoder_free(dec);
                dec = NULL;
            }
        } else if (!strcmp(cmd, "write")) {
            FILE *fp;
            if (sscanf(line, "%*s %d", &x) != 1)
                return 3;
            fpath(a4, sizeof(a4), x, "");
            if ((fp = fopen(a4, "w")) == NULL)
                return 4;
            fsg_model_write(fsg, fp);
            fclose(fp);
            ev_begin("Write");
            fprintf(vt_out, ",\"fid\":%d,\"file\":", x);
            dump_file(a4);
            ev_end();
        } else if (!strcmp(cmd, "text")) {
            FILE *fp;
            char *txt;
            size_t len;
            static char hex[1 << 16];
            if (sscanf(line, "%*s %d %65535s", &x, hex) != 2)
                return 3;
            fpath(a4, sizeof(a4), x, "");
            if ((fp = fopen(a4, "w")) == NULL)
                return 4;
            txt = vt_unhex(hex, &len);
            fwrite(txt, 1, len, fp);
            free(txt);
            fclose(fp);
            fprintf(vt_out, "{\"e\":\"Text\",\"id\":%d,\"fid\":%d,\"file\":", ++execno, x);
            dump_file(a4);
            fprintf(vt_out, "}\n");
        } else if (!strcmp(cmd, "read")) {
            fsg_model_t *m;
            if (sscanf(line, "%*s %d %lf", &x, &d) != 2)
                return 3;
            fpath(a4, sizeof(a4), x, "");
            m = fsg_model_readfile(a4, lmath, (float32)d);
            fprintf(vt_out, "{\"e\":\"Read\",\"fid\":%d,\"lwm\":%d,\"ok\":%s", x, (int)llround(d * 1000),
                    m ? "true" : "false");
            if (m) {
                FILE *fp;
                fprintf(vt_out, ",\"name\":");
                vt_str(vt_out, fsg_model_name(m) ? fsg_model_name(m) : "");
                fprintf(vt_out, ",\"st2\":");
                dump_model(m);
                fpath(a4, sizeof(a4), x, ".2");
                if ((fp = fopen(a4, "w")) == NULL)
                    return 4;
                fsg_model_write(m, fp);
                fclose(fp);
                fprintf(vt_out, ",\"file2\":");
                dump_file(a4);
                fsg_model_free(m);
            }
            fprintf(vt_out, "}\n");
        } else if (!strcmp(cmd, "end")) {
            if (fsg)
                fsg_model_free(fsg);
            fsg = NULL;
        } else
            return 3;
    }
    alarm(0);
    if (dec)
        decoder_free(dec);
    if (fsg)
        fsg_model_free(fsg);
    logmath_free(lmath);
    vt_close();
    return 0;
}
