/* C10 driver: untrusted text inputs given to the real library, one child process per case.
 *
 *   txt_drv <trace.ndjson> <model dir> <dictionary> <audio.raw> <scratch dir> [timeout seconds]
 *
 * stdin: lines  "case <id> <format> <hex bytes | ->"  with format one of fsg dict config align addword cmn jsgf.
 * The parent initialises a decoder once (bundled model, a small dictionary, a small grammar), then for every case
 * writes {"e":"case",...}, forks, and the child calls the public entry point of the format on the bytes, dumps what
 * came back through public accessors ("parsed"), uses it ("used"), frees it ("freed") and exits 0.  The parent waits
 * (with a time limit), and writes {"e":"end","how":...}: ok | exit | abort | signal | sanitizer | leak | timeout.
 * The child's stderr goes to <scratch>/err.<id> (removed when the child ended normally).
 */
#include <errno.h>
#include <fcntl.h>
#include <math.h>
#include <signal.h>
#include <stdio.h>
#include <stdlib.h>
#include <string.h>
#include <sys/stat.h>
#include <sys/types.h>
#include <sys/resource.h>
#include <sys/wait.h>
#include <time.h>
#include <unistd.h>

#include <soundswallower/configuration.h>
#include <soundswallower/ckd_alloc.h>
#include <soundswallower/decoder.h>
#include <soundswallower/dict.h>
#include <soundswallower/err.h>
#include <soundswallower/fsg_model.h>
#include <soundswallower/jsgf.h>
#include <soundswallower/acmod.h>
#include <soundswallower/bin_mdef.h>

#include <soundswallower/mmio.h>

#include "vtrace.h"

/* ---- files the child reads are held in a heap block of exactly the file's length instead of a mapping, so that a
 * read past the last byte of the file is seen by the sanitizer (a mapping is readable up to the end of its page).
 * Objects made by the parent (the model's files) keep the library's own mapping. ---- */
#define MY_MAGIC 0x43313021u
static int read_mode;
struct my_mmio {
    unsigned magic;
    void *ptr;
    size_t size;
};
mmio_file_t *__real_mmio_file_read(const char *filename);
void __real_mmio_file_unmap(mmio_file_t *mf);
void *__real_mmio_file_ptr(mmio_file_t *mf);
uint64 __real_mmio_file_size(mmio_file_t *mf);
#define MINE(mf) ((mf) != NULL && ((struct my_mmio *)(mf))->magic == MY_MAGIC)

mmio_file_t *
__wrap_mmio_file_read(const char *filename)
{
    struct my_mmio *m;
    struct stat st;
    int fd;
    size_t got = 0;
    if (!read_mode)
        return __real_mmio_file_read(filename);
    if (filename == NULL || (fd = open(filename, O_RDONLY)) == -1)
        return NULL;
    if (fstat(fd, &st) == -1 || !S_ISREG(st.st_mode) || st.st_size == 0) { /* like mmap of an empty file: refused */
        close(fd);
        return NULL;
    }
    m = (struct my_mmio *)malloc(sizeof(*m));
    m->magic = MY_MAGIC;
    m->size = (size_t)st.st_size;
    m->ptr = malloc(m->size);
    while (got < m->size) {
        ssize_t n = read(fd, (char *)m->ptr + got, m->size - got);
        if (n <= 0)
            break;
        got += (size_t)n;
    }
    close(fd);
    if (got != m->size) {
        free(m->ptr);
        free(m);
        return NULL;
    }
    return (mmio_file_t *)m;
}

void
__wrap_mmio_file_unmap(mmio_file_t *mf)
{
    if (!MINE(mf)) {
        __real_mmio_file_unmap(mf);
        return;
    }
    free(((struct my_mmio *)mf)->ptr);
    ((struct my_mmio *)mf)->magic = 0;
    free(mf);
}

void *
__wrap_mmio_file_ptr(mmio_file_t *mf)
{
    return MINE(mf) ? ((struct my_mmio *)mf)->ptr : __real_mmio_file_ptr(mf);
}

uint64
__wrap_mmio_file_size(mmio_file_t *mf)
{
    return MINE(mf) ? (uint64)((struct my_mmio *)mf)->size : __real_mmio_file_size(mf);
}

#define MAXSHOW 700 /* inputs longer than this are described by their length only */
#define MAXARCS 5000
#define NSAMP 8000

static decoder_t *dec;
static int16 audio[NSAMP];
static size_t naudio;
static const char *scratch;

static void
put_bytes(const unsigned char *b, size_t n)
{
    size_t i;
    fputc('[', vt_out);
    for (i = 0; i < n; ++i)
        fprintf(vt_out, "%s%d", i ? "," : "", b[i]);
    fputc(']', vt_out);
}

static void
put_cstr(const char *s)
{
    put_bytes((const unsigned char *)s, s ? strlen(s) : 0);
}

static void
write_tmp(char *path, size_t plen, const char *suffix, const unsigned char *b, size_t n)
{
    FILE *fp;
    snprintf(path, plen, "%s/in.%d.%s", scratch, (int)getpid(), suffix);
    if ((fp = fopen(path, "wb")) == NULL || fwrite(b, 1, n, fp) != n || fclose(fp) != 0) {
        perror(path);
        _exit(3);
    }
}

/* decode the audio with whatever search is set; writes the "used" event */
static void
decode_and_report(int setret)
{
    int s = -9, p = -9, e = -9;
    const char *hyp = NULL;
    if (setret == 0) {
        s = decoder_start_utt(dec);
        if (s == 0) {
            p = decoder_process_int16(dec, audio, naudio, FALSE, FALSE);
            e = decoder_end_utt(dec);
            hyp = decoder_hyp(dec, NULL);
        }
    }
    fprintf(vt_out, "{\"e\":\"used\",\"set\":%d,\"start\":%d,\"frames\":%d,\"end\":%d,\"hyp\":", setret, s, p < 0 ? p : 1, e);
    vt_str(vt_out, hyp ? hyp : "");
    fprintf(vt_out, "}\n");
}

static void
case_fsg(const unsigned char *b, size_t n)
{
    char path[1024];
    fsg_model_t *fsg;
    int i, narc = 0, set;
    FILE *nul;

    write_tmp(path, sizeof(path), "fsg", b, n);
    fsg = fsg_model_readfile(path, decoder_logmath(dec), 1.0f);
    unlink(path);
    if (fsg == NULL) {
        fprintf(vt_out, "{\"e\":\"parsed\",\"ret\":0,\"val\":{\"none\":true}}\n");
        fprintf(vt_out, "{\"e\":\"freed\"}\n");
        return;
    }
    fprintf(vt_out, "{\"e\":\"parsed\",\"ret\":1,\"val\":{\"n\":%d,\"s\":%d,\"f\":%d,\"arcs\":[", fsg_model_n_state(fsg),
            fsg_model_start_state(fsg), fsg_model_final_state(fsg));
    for (i = 0; i < fsg_model_n_state(fsg) && narc <= MAXARCS; ++i) {
        fsg_arciter_t *it;
        for (it = fsg_model_arcs(fsg, i); it; it = fsg_arciter_next(it)) {
            fsg_link_t *l = fsg_arciter_get(it);
            int wid = fsg_link_wid(l);
            int widok = wid >= -1 && wid < fsg_model_n_word(fsg);
            fprintf(vt_out, "%s[%d,%d,", narc++ ? "," : "", fsg_link_from_state(l), fsg_link_to_state(l));
            put_cstr(widok && wid >= 0 ? fsg_model_word_str(fsg, wid) : "");
            fprintf(vt_out, ",%d,%d]", (int)fsg_link_logs2prob(l), widok);
            if (narc > MAXARCS) {
                fsg_arciter_free(it);
                break;
            }
        }
    }
    fprintf(vt_out, "]}}\n");
    /* use: write it, search with it */
    if ((nul = fopen("/dev/null", "w")) != NULL) {
        fsg_model_write(fsg, nul);
        fclose(nul);
    }
    fsg_model_retain(fsg); /* the search takes over one reference, also when it refuses the grammar */
    set = decoder_set_fsg(dec, fsg);
    decode_and_report(set);
    fsg_model_free(fsg);
    fprintf(vt_out, "{\"e\":\"freed\"}\n");
}

static void
case_dict(const unsigned char *b, size_t n)
{
    char path[1024];
    config_t *cfg;
    dict_t *dict;
    int w, j, first = 1, nfound = 0;

    write_tmp(path, sizeof(path), "dict", b, n);
    cfg = config_init(NULL);
    config_set_str(cfg, "dict", path);
    dict = dict_init(cfg, dec->acmod->mdef);
    unlink(path);
    if (dict == NULL) {
        fprintf(vt_out, "{\"e\":\"parsed\",\"ret\":0,\"val\":{\"none\":true}}\n");
        config_free(cfg);
        fprintf(vt_out, "{\"e\":\"freed\"}\n");
        return;
    }
    fprintf(vt_out, "{\"e\":\"parsed\",\"ret\":1,\"val\":{\"size\":%d,\"entries\":[", dict_size(dict));
    for (w = 0; w < dict_size(dict) && w < dict_filler_start(dict) && w < 3000; ++w) {
        const char *ws = dict_wordstr(dict, w);
        fprintf(vt_out, "%s{\"w\":", first ? "" : ",");
        first = 0;
        put_cstr(ws);
        fprintf(vt_out, ",\"p\":[");
        for (j = 0; j < dict_pronlen(dict, w); ++j) {
            int ci = dict_pron(dict, w, j);
            fprintf(vt_out, "%s", j ? "," : "");
            if (ci >= 0 && ci < bin_mdef_n_ciphone(dec->acmod->mdef))
                put_cstr(bin_mdef_ciphone_str(dec->acmod->mdef, ci));
            else
                fprintf(vt_out, "[63,%d]", ci & 0xff);
        }
        fprintf(vt_out, "],\"found\":%d,\"base\":%d}", dict_wordid(dict, ws) == w, dict_basewid(dict, w));
    }
    fprintf(vt_out, "]}}\n");
    /* use: look every word up again, walk the alternatives */
    for (w = 0; w < dict_size(dict); ++w) {
        int a, guard = 0;
        if (dict_wordid(dict, dict_wordstr(dict, w)) >= 0)
            ++nfound;
        for (a = dict_basewid(dict, w); a >= 0 && guard < 100000; a = dict_nextalt(dict, a))
            ++guard;
    }
    fprintf(vt_out, "{\"e\":\"used\",\"set\":0,\"start\":0,\"frames\":1,\"end\":0,\"hyp\":\"\",\"found\":%d}\n", nfound);
    dict_free(dict);
    config_free(cfg);
    fprintf(vt_out, "{\"e\":\"freed\"}\n");
}

static const char *CFG_KEYS[] = { "nfft", "frate", "samprate", "hmm", "dict", "remove_noise", "dither", "lw", NULL };

static void
case_config(const char *s)
{
    config_t *cfg = config_parse_json(NULL, s);
    int i;
    char *js;
    if (cfg == NULL) {
        fprintf(vt_out, "{\"e\":\"parsed\",\"ret\":0,\"val\":{\"none\":true}}\n{\"e\":\"freed\"}\n");
        return;
    }
    fprintf(vt_out, "{\"e\":\"parsed\",\"ret\":1,\"val\":{\"members\":[");
    for (i = 0; CFG_KEYS[i]; ++i) {
        const char *k = CFG_KEYS[i];
        int t = config_typeof(cfg, k);
        fprintf(vt_out, "%s{\"k\":", i ? "," : "");
        put_cstr(k);
        if (t & ARG_INTEGER)
            fprintf(vt_out, ",\"t\":\"i\",\"i\":%ld,\"s\":[]}", config_int(cfg, k));
        else if (t & ARG_BOOLEAN)
            fprintf(vt_out, ",\"t\":\"b\",\"i\":%ld,\"s\":[]}", config_int(cfg, k));
        else if (t & ARG_FLOATING) {
            double v = config_float(cfg, k) * 100.0;
            fprintf(vt_out, ",\"t\":\"f\",\"i\":%ld,\"s\":[]}", (v != v || v - v != 0.0) ? 2000000000L : v > 1.9e9 ? 1900000000L : v < -1.9e9 ? -1900000000L : lround(v));
        } else if (t & ARG_STRING) {
            fprintf(vt_out, ",\"t\":\"s\",\"i\":0,\"s\":");
            put_cstr(config_str(cfg, k));
            fprintf(vt_out, "}");
        } else
            fprintf(vt_out, ",\"t\":\"?\",\"i\":%d,\"s\":[]}", t);
    }
    fprintf(vt_out, "]}}\n");
    js = (char *)config_serialize_json(cfg);
    fprintf(vt_out, "{\"e\":\"used\",\"set\":0,\"start\":0,\"frames\":1,\"end\":0,\"hyp\":\"\",\"found\":%d}\n", js ? (int)strlen(js) : -1);
    config_free(cfg);
    fprintf(vt_out, "{\"e\":\"freed\"}\n");
}

static void
case_align(const char *s)
{
    int r = decoder_set_align_text(dec, s);
    fprintf(vt_out, "{\"e\":\"parsed\",\"ret\":%d,\"val\":{\"none\":true}}\n", r == 0);
    decode_and_report(r);
    fprintf(vt_out, "{\"e\":\"freed\"}\n");
}

static void
case_addword(char *s)
{
    char *tab = strchr(s, '\t');
    const char *phones = "";
    int wid;
    if (tab) {
        *tab = '\0';
        phones = tab + 1;
    }
    wid = decoder_add_word(dec, s, phones, TRUE);
    if (wid < 0) {
        fprintf(vt_out, "{\"e\":\"parsed\",\"ret\":0,\"val\":{\"none\":true}}\n");
    } else {
        char *pr = decoder_lookup_word(dec, s);
        fprintf(vt_out, "{\"e\":\"parsed\",\"ret\":1,\"val\":{\"w\":");
        put_cstr(s);
        fprintf(vt_out, ",\"p\":[");
        if (pr) {
            char *tok, *save = NULL;
            int k = 0;
            for (tok = strtok_r(pr, " ", &save); tok; tok = strtok_r(NULL, " ", &save)) {
                fprintf(vt_out, "%s", k++ ? "," : "");
                put_cstr(tok);
            }
            ckd_free(pr);
        }
        fprintf(vt_out, "],\"found\":%d}}\n", pr != NULL);
    }
    /* use: align to the new word */
    decode_and_report(wid < 0 ? -1 : decoder_set_align_text(dec, s));
    fprintf(vt_out, "{\"e\":\"freed\"}\n");
}

static void
case_cmn(const char *s)
{
    int r = decoder_set_cmn(dec, s);
    const char *repr = decoder_get_cmn(dec, FALSE);
    fprintf(vt_out, "{\"e\":\"parsed\",\"ret\":%d,\"val\":{\"vals\":[", r == 0);
    if (repr) {
        char *copy = strdup(repr), *tok, *save = NULL;
        int k = 0;
        for (tok = strtok_r(copy, ",", &save); tok; tok = strtok_r(NULL, ",", &save)) {
            double v = atof(tok) * 100.0;
            fprintf(vt_out, "%s%ld", k++ ? "," : "", (v != v || v - v != 0.0) ? 2000000000L : v > 1.9e9 ? 1900000000L : v < -1.9e9 ? -1900000000L : lround(v));
        }
        free(copy);
    }
    fprintf(vt_out, "]}}\n");
    decode_and_report(0);
    fprintf(vt_out, "{\"e\":\"freed\"}\n");
}

static void
case_jsgf(const char *s)
{
    int r = decoder_set_jsgf_string(dec, s);
    fprintf(vt_out, "{\"e\":\"parsed\",\"ret\":%d,\"val\":{\"none\":true}}\n", r == 0);
    decode_and_report(r);
    fprintf(vt_out, "{\"e\":\"freed\"}\n");
}

static void
child(const char *fmt, unsigned char *b, size_t n)
{
    /* b is zero-terminated beyond n */
    read_mode = 1;
    if (!strcmp(fmt, "fsg"))
        case_fsg(b, n);
    else if (!strcmp(fmt, "dict"))
        case_dict(b, n);
    else if (!strcmp(fmt, "config"))
        case_config((char *)b);
    else if (!strcmp(fmt, "align"))
        case_align((char *)b);
    else if (!strcmp(fmt, "addword"))
        case_addword((char *)b);
    else if (!strcmp(fmt, "cmn"))
        case_cmn((char *)b);
    else if (!strcmp(fmt, "jsgf"))
        case_jsgf((char *)b);
    else
        _exit(3);
    fflush(vt_out);
    decoder_free(dec);
    exit(0);
}

static double
now(void)
{
    struct timespec ts;
    clock_gettime(CLOCK_MONOTONIC, &ts);
    return ts.tv_sec + ts.tv_nsec * 1e-9;
}

int
main(int argc, char *argv[])
{
    char *line = NULL;
    size_t cap = 0;
    ssize_t len;
    config_t *cfg;
    FILE *fp;
    double limit;

    if (argc < 6) {
        fprintf(stderr, "usage: txt_drv trace model dict audio scratch [timeout]\n");
        return 3;
    }
    err_set_loglevel(ERR_FATAL);
    vt_open(argv[1]);
    scratch = argv[5];
    limit = argc > 6 ? atof(argv[6]) : 10.0;
    if ((fp = fopen(argv[4], "rb")) == NULL) {
        perror(argv[4]);
        return 3;
    }
    naudio = fread(audio, sizeof(int16), NSAMP, fp);
    fclose(fp);
    cfg = config_init(NULL);
    config_set_str(cfg, "hmm", argv[2]);
    config_set_str(cfg, "dict", argv[3]);
    config_set_str(cfg, "loglevel", "FATAL");
    if ((dec = decoder_init(cfg)) == NULL
        || decoder_set_jsgf_string(dec, "#JSGF V1.0;\ngrammar g;\npublic <g> = go (forward | backward) ten meters;\n") < 0) {
        fprintf(stderr, "txt_drv: cannot initialise the decoder\n");
        return 3;
    }
    err_set_loglevel(ERR_FATAL);
    fprintf(vt_out, "{\"e\":\"Header\",\"ncep\":%d}\n", 13);

    while ((len = getline(&line, &cap, stdin)) > 0) {
        char fmt[32], idbuf[256];
        int off = 0;
        unsigned char *b;
        size_t n, i;
        pid_t pid;
        int status = 0, timed_out = 0;
        char errpath[1024];
        double t0;
        const char *how;
        int code = 0;

        if (sscanf(line, "case %255s %31s %n", idbuf, fmt, &off) < 2 || off == 0)
            continue;
        {
            char *hex = line + off;
            size_t hl = strlen(hex);
            while (hl > 0 && (hex[hl - 1] == '\n' || hex[hl - 1] == ' '))
                hex[--hl] = '\0';
            if (!strcmp(hex, "-"))
                hl = 0;
            n = hl / 2;
            b = malloc(n + 8);
            for (i = 0; i < n; ++i)
                b[i] = (unsigned char)(vt_hexval(hex[2 * i]) * 16 + vt_hexval(hex[2 * i + 1]));
            memset(b + n, 0, 8);
        }
        fprintf(vt_out, "{\"e\":\"case\",\"id\":\"%s\",\"fmt\":\"%s\",\"n\":%d,\"shown\":%s,\"bytes\":", idbuf, fmt, (int)n,
                n <= MAXSHOW ? "true" : "false");
        put_bytes(b, n <= MAXSHOW ? n : 0);
        fprintf(vt_out, "}\n");
        fflush(vt_out);
        snprintf(errpath, sizeof(errpath), "%s/err.%s", scratch, idbuf);
        pid = fork();
        if (pid < 0) {
            perror("fork");
            return 3;
        }
        if (pid == 0) {
            int fd = open(errpath, O_WRONLY | O_CREAT | O_TRUNC, 0644);
            if (fd >= 0) {
                dup2(fd, 2);
                close(fd);
            }
            { /* the limit is PROCESSOR time of the child (SIGXCPU), so that a loaded machine cannot make a slow parse
               * look like an endless one; the parent's wall-clock guard below is twenty times as long */
                struct rlimit rl;
                rl.rlim_cur = (rlim_t)(limit + 0.999);
                rl.rlim_max = (rlim_t)(limit + 0.999) + 2;
                setrlimit(RLIMIT_CPU, &rl);
            }
            child(fmt, b, n);
            _exit(3);
        }
        t0 = now();
        for (;;) {
            pid_t r = waitpid(pid, &status, WNOHANG);
            if (r == pid)
                break;
            if (r < 0 && errno != EINTR) {
                perror("waitpid");
                return 3;
            }
            if (now() - t0 > 20 * limit) {
                kill(pid, SIGKILL);
                waitpid(pid, &status, 0);
                timed_out = 1;
                break;
            }
            usleep(now() - t0 < 0.05 ? 500 : 5000);
        }
        if (timed_out || (WIFSIGNALED(status) && (WTERMSIG(status) == SIGXCPU || WTERMSIG(status) == SIGKILL)))
            how = "timeout";
        else if (WIFSIGNALED(status)) {
            code = WTERMSIG(status);
            how = code == SIGABRT ? "abort" : "signal";
        } else {
            code = WEXITSTATUS(status);
            if (code == 0)
                how = "ok";
            else if (code == 3) {
                fprintf(stderr, "txt_drv: driver error in case %s\n", idbuf);
                return 3;
            } else if (code == 77 || code == 78) {
                /* leak report only, or a memory / undefined-behaviour error? */
                char buf[8192];
                size_t got = 0;
                FILE *ef = fopen(errpath, "r");
                how = "sanitizer";
                if (ef) {
                    got = fread(buf, 1, sizeof(buf) - 1, ef);
                    buf[got] = '\0';
                    fclose(ef);
                    if (strstr(buf, "ERROR: LeakSanitizer") && !strstr(buf, "ERROR: AddressSanitizer") && !strstr(buf, "runtime error:"))
                        how = "leak";
                }
            } else
                how = "exit";
        }
        if (!strcmp(how, "ok"))
            unlink(errpath);
        fprintf(vt_out, "\n{\"e\":\"end\",\"how\":\"%s\",\"code\":%d,\"ms\":%d}\n", how, code, (int)((now() - t0) * 1000));
        fflush(vt_out);
        free(b);
    }
    free(line);
    decoder_free(dec);
    vt_close();
    return 0;
}
