/* Driver for hash_table.c (property C20).  Executes an operation script against the real table and
 * records, after every operation, everything the property talks about: the call's result, the entry
 * count, a lookup of every key of the pool, and what hash_table_iter and hash_table_tolist visit.
 *
 * script (stdin):
 *   new <nocase> <size> <binary>     fresh table + Header event (keys defined so far)
 *   key <id> <hex|->                 define pool key <id> (ids 1..n, in order)
 *   enter|replace <kid> <v> | delete|lookup <kid> | empty
 *   bucket <kid>                     print "bucket <kid> <index>": where the real table puts the key
 *   end                              free the table
 */
#include <soundswallower/hash_table.h>
#include <soundswallower/glist.h>
#include <soundswallower/err.h>
#include "vtrace.h"

#define MAXK 20000
static char *keys[MAXK];
static size_t klen[MAXK];
static int nkeys;
static hash_table_t *h;
static int binary, nocase, tsize, execno;

static int
kid_of(const char *p)
{
    int i;
    for (i = 1; i <= nkeys; ++i)
        if (keys[i] == p)
            return i;
    return 0;
}

static void
emit_header(void)
{
    int i;
    size_t j;
    fprintf(vt_out, "{\"e\":\"Header\",\"id\":%d,\"nocase\":%s,\"binary\":%s,\"size\":%d,\"keys\":[", ++execno,
            nocase ? "true" : "false", binary ? "true" : "false", tsize);
    for (i = 1; i <= nkeys; ++i) {
        fprintf(vt_out, "%s[", i > 1 ? "," : "");
        for (j = 0; j < klen[i]; ++j)
            fprintf(vt_out, "%s%d", j ? "," : "", (unsigned char)keys[i][j]);
        fputc(']', vt_out);
    }
    fprintf(vt_out, "]}\n");
}

static void
emit_state(const char *op, int kid, int v, long ret)
{
    int i, n = 0;
    hash_iter_t *it;
    glist_t g;
    gnode_t *gn;
    int32 count = -1;

    fprintf(vt_out, "{\"e\":\"Op\",\"op\":\"%s\",\"k\":%d,\"v\":%d,\"ret\":%ld,\"inuse\":%d,\"look\":[", op, kid, v,
            ret, (int)hash_table_inuse(h));
    for (i = 1; i <= nkeys; ++i) {
        void *val = NULL;
        int32 rv, ival = 0, rv2;
        if (binary) {
            rv = hash_table_lookup_bkey(h, keys[i], klen[i], &val);
            rv2 = hash_table_lookup_bkey_int32(h, keys[i], klen[i], &ival);
        } else {
            rv = hash_table_lookup(h, keys[i], &val);
            rv2 = hash_table_lookup_int32(h, keys[i], &ival);
        }
        /* found flag, value through the pointer interface, value through the int32 interface */
        fprintf(vt_out, "%s[%d,%ld,%d]", i > 1 ? "," : "", (rv == 0) + 2 * (rv2 == 0), rv == 0 ? (long)(size_t)val : 0L,
                rv2 == 0 ? ival : 0);
    }
    fprintf(vt_out, "],\"iter\":[");
    for (it = hash_table_iter(h); it; it = hash_table_iter_next(it)) {
        fprintf(vt_out, "%s[%d,%ld,%d]", n++ ? "," : "", kid_of(hash_entry_key(it->ent)),
                (long)(size_t)hash_entry_val(it->ent), (int)hash_entry_len(it->ent));
        if (n > 4 * nkeys + 16) { /* a corrupted chain must not hang the harness */
            hash_table_iter_free(it);
            break;
        }
    }
    fprintf(vt_out, "],\"list\":[");
    g = hash_table_tolist(h, &count);
    n = 0;
    for (gn = g; gn; gn = gnode_next(gn)) {
        hash_entry_t *e = (hash_entry_t *)gnode_ptr(gn);
        fprintf(vt_out, "%s[%d,%ld,%d]", n++ ? "," : "", kid_of(hash_entry_key(e)), (long)(size_t)hash_entry_val(e),
                (int)hash_entry_len(e));
    }
    glist_free(g);
    {
        /* longest collision chain right now (diagnostic / coverage only, from the public struct) */
        int maxchain = 0;
        for (i = 0; i < hash_table_size(h); ++i) {
            hash_entry_t *e = &h->table[i];
            int c = 0;
            if (e->key == NULL)
                continue;
            for (; e && c < 4 * MAXK; e = e->next)
                ++c;
            if (c > maxchain)
                maxchain = c;
        }
        fprintf(vt_out, "],\"count\":%d,\"chain\":%d}\n", (int)count, maxchain);
    }
}

int
main(int argc, char *argv[])
{
    char line[4096], cmd[32], arg[4000];
    int a, b, c;

    err_set_loglevel(ERR_FATAL);
    vt_open(argc > 1 ? argv[1] : NULL);
    while (fgets(line, sizeof(line), stdin)) {
        if (sscanf(line, "%31s", cmd) != 1 || cmd[0] == '#')
            continue;
        if (!strcmp(cmd, "key")) {
            if (sscanf(line, "%*s %d %3999s", &a, arg) != 2 || a != nkeys + 1 || a >= MAXK)
                return 3;
            keys[a] = vt_unhex(arg, &klen[a]);
            nkeys = a;
        } else if (!strcmp(cmd, "nokeys")) {
            while (nkeys > 0)
                free(keys[nkeys--]);
        } else if (!strcmp(cmd, "new")) {
            if (sscanf(line, "%*s %d %d %d", &a, &b, &c) != 3)
                return 3;
            if (h)
                hash_table_free(h);
            nocase = a, tsize = b, binary = c;
            h = hash_table_new(tsize, nocase ? HASH_CASE_NO : HASH_CASE_YES);
            emit_header();
        } else if (!strcmp(cmd, "bucket")) {
            hash_table_t *t;
            int i, where = -1;
            if (sscanf(line, "%*s %d", &a) != 1)
                return 3;
            t = hash_table_new(tsize, nocase ? HASH_CASE_NO : HASH_CASE_YES);
            if (binary)
                hash_table_enter_bkey(t, keys[a], klen[a], (void *)1);
            else
                hash_table_enter(t, keys[a], (void *)1);
            for (i = 0; i < hash_table_size(t); ++i)
                if (t->table[i].key != NULL)
                    where = i;
            hash_table_free(t);
            printf("bucket %d %d\n", a, where);
        } else if (!strcmp(cmd, "enter") || !strcmp(cmd, "replace")) {
            void *r;
            if (sscanf(line, "%*s %d %d", &a, &b) != 2)
                return 3;
            if (binary)
                r = cmd[0] == 'e' ? hash_table_enter_bkey(h, keys[a], klen[a], (void *)(size_t)b)
                                  : hash_table_replace_bkey(h, keys[a], klen[a], (void *)(size_t)b);
            else
                r = cmd[0] == 'e' ? hash_table_enter(h, keys[a], (void *)(size_t)b)
                                  : hash_table_replace(h, keys[a], (void *)(size_t)b);
            emit_state(cmd, a, b, (long)(size_t)r);
        } else if (!strcmp(cmd, "delete")) {
            void *r;
            if (sscanf(line, "%*s %d", &a) != 1)
                return 3;
            r = binary ? hash_table_delete_bkey(h, keys[a], klen[a]) : hash_table_delete(h, keys[a]);
            emit_state(cmd, a, 0, (long)(size_t)r);
        } else if (!strcmp(cmd, "lookup")) {
            void *r = NULL;
            int32 rv;
            if (sscanf(line, "%*s %d", &a) != 1)
                return 3;
            rv = binary ? hash_table_lookup_bkey(h, keys[a], klen[a], &r) : hash_table_lookup(h, keys[a], &r);
            emit_state(cmd, a, 0, rv == 0 ? (long)(size_t)r : 0L);
        } else if (!strcmp(cmd, "empty")) {
            hash_table_empty(h);
            emit_state(cmd, 0, 0, 0);
        } else if (!strcmp(cmd, "end")) {
            if (h)
                hash_table_free(h);
            h = NULL;
        } else
            return 3;
    }
    if (h)
        hash_table_free(h);
    while (nkeys > 0)
        free(keys[nkeys--]);
    vt_close();
    return 0;
}
