/* Driver for property C17: initialisation from a (damaged) acoustic-model directory.
 *
 * One process = one execution.  The script (stdin) is
 *   mode mmap|read <model> <kind> <tag>
 *                           starts the execution (Header event; model number, damaged kind and tag are echoed).
 *                           How model files reach the library: "mmap" = the library's own mmio.c (mmap);
 *                           "read" = the file's bytes are read into a heap block of exactly the file's length
 *                           (s3file.h: "memory-mapping (or reading) a file"), so that AddressSanitizer sees every
 *                           access outside the file's bytes.  Done by wrapping the four mmio_* functions at link time.
 *   set <key> <value>       extra configuration for every decoder_init below (e.g. dict)
 *   jsgf <path> / audio <path> / expect <words>   grammar and raw audio used after "reload", expected hypothesis
 *   view <kind> <path> <a> <b> <swap> <off:len,off:len,...|->
 *                           record length and the listed byte ranges of the file the next load will see, plus the s3
 *                           checksum of the 32-bit words in [a,b) (a < 0: none)
 *   load <dir>              decoder_init(hmm=<dir>): the damaged attempt; records return class and what was built
 *   reload <dir>            decoder_init(hmm=<dir>) on the intact model, then (if jsgf+audio) one decoded utterance
 *   end
 * Every event is one JSON line, written and flushed before the next library call, so that a crash leaves the
 * events before it.  Exit status, sanitizer report and "process ended inside load" are observed by the caller. */
#include <fcntl.h>
#include <sys/stat.h>
#include <unistd.h>
#include <soundswallower/acmod.h>
#include <soundswallower/bin_mdef.h>
#include <soundswallower/ckd_alloc.h>
#include <soundswallower/configuration.h>
#include <soundswallower/decoder.h>
#include <soundswallower/err.h>
#include <soundswallower/feat.h>
#include <soundswallower/mmio.h>
#include <soundswallower/ms_mgau.h>
#include <soundswallower/ptm_mgau.h>
#include <soundswallower/s2_semi_mgau.h>
#include <soundswallower/tmat.h>
#include "vtrace.h"

/* ---- the "read" backend for mmio ---- */
static int read_mode;
struct my_mmio {
    void *ptr;
    size_t size;
};
mmio_file_t *__real_mmio_file_read(const char *filename);
void __real_mmio_file_unmap(mmio_file_t *mf);
void *__real_mmio_file_ptr(mmio_file_t *mf);
uint64 __real_mmio_file_size(mmio_file_t *mf);

mmio_file_t *
__wrap_mmio_file_read(const char *filename)
{
    struct my_mmio *m;
    struct stat st;
    int fd;
    size_t got = 0;
    if (!read_mode)
        return __real_mmio_file_read(filename);
    if (filename == NULL || (fd = open(filename, O_RDONLY)) == -1)
        return NULL;
    if (fstat(fd, &st) == -1 || !S_ISREG(st.st_mode)) {
        close(fd);
        return NULL;
    }
    m = (struct my_mmio *)malloc(sizeof(*m));
    m->size = (size_t)st.st_size;
    m->ptr = malloc(m->size ? m->size : 1); /* exact length: the redzone starts at the first byte after the file */
    if (m->size == 0) {
        /* like mmap of an empty file: refused */
        free(m->ptr);
        free(m);
        close(fd);
        return NULL;
    }
    while (got < m->size) {
        ssize_t n = read(fd, (char *)m->ptr + got, m->size - got);
        if (n <= 0)
            break;
        got += (size_t)n;
    }
    close(fd);
    if (got != m->size) {
        free(m->ptr);
        free(m);
        return NULL;
    }
    return (mmio_file_t *)m;
}

void
__wrap_mmio_file_unmap(mmio_file_t *mf)
{
    if (!read_mode) {
        __real_mmio_file_unmap(mf);
        return;
    }
    if (mf == NULL)
        return;
    free(((struct my_mmio *)mf)->ptr);
    free(mf);
}

void *
__wrap_mmio_file_ptr(mmio_file_t *mf)
{
    return read_mode ? ((struct my_mmio *)mf)->ptr : __real_mmio_file_ptr(mf);
}

uint64
__wrap_mmio_file_size(mmio_file_t *mf)
{
    return read_mode ? (uint64)((struct my_mmio *)mf)->size : __real_mmio_file_size(mf);
}

/* ---- script state ---- */
#define MAXSET 16
static char *set_k[MAXSET], *set_v[MAXSET];
static int nset;
static char *jsgf_path, *audio_path, *expect;

static void
emit_dims(decoder_t *d)
{
    acmod_t *a = d->acmod;
    bin_mdef_t *m = a ? a->mdef : NULL;
    feat_t *f = d->fcb;
    fprintf(vt_out, ",\"mdef\":[");
    if (m)
        fprintf(vt_out, "%d,%d,%d,%d,%d,%d,%d,%d,%d,%d", m->n_ciphone, m->n_phone, m->n_emit_state, m->n_ci_sen,
                m->n_sen, m->n_tmat, m->n_sseq, m->n_ctx, m->n_cd_tree, m->sil);
    fprintf(vt_out, "],\"tmat\":[");
    if (a && a->tmat)
        fprintf(vt_out, "%d,%d", (int)a->tmat->n_tmat, (int)a->tmat->n_state);
    fprintf(vt_out, "],\"feat\":[");
    if (f)
        fprintf(vt_out, "%d,%d,%d,%d", (int)feat_dimension1(f), (int)feat_dimension2(f, 0), (int)f->out_dim,
                f->lda ? 1 : 0);
    fprintf(vt_out, "],\"mgau\":");
    if (a && a->mgau) {
        const char *name = a->mgau->vt->name;
        gauden_t *g = NULL;
        int n_sen = -1;
        if (!strcmp(name, "ptm")) {
            g = ((ptm_mgau_t *)a->mgau)->g;
            n_sen = ((ptm_mgau_t *)a->mgau)->n_sen;
        } else if (!strcmp(name, "s2_semi")) {
            g = ((s2_semi_mgau_t *)a->mgau)->g;
            n_sen = ((s2_semi_mgau_t *)a->mgau)->n_sen;
        } else if (!strcmp(name, "ms")) {
            g = ((ms_mgau_model_t *)a->mgau)->g;
            n_sen = ((ms_mgau_model_t *)a->mgau)->s ? (int)((ms_mgau_model_t *)a->mgau)->s->n_sen : -1;
        }
        fprintf(vt_out, "\"%s\",\"g\":[", name);
        if (g)
            fprintf(vt_out, "%d,%d,%d,%d,%d", (int)g->n_mgau, (int)g->n_feat, (int)g->n_density,
                    g->featlen ? (int)g->featlen[0] : -1, n_sen);
        fprintf(vt_out, "]");
    } else
        fprintf(vt_out, "\"none\",\"g\":[]");
}

static decoder_t *
do_init(const char *dir)
{
    config_t *c = config_init(NULL);
    int i;
    config_set_str(c, "hmm", dir);
    config_set_str(c, "loglevel", "FATAL");
    config_set_bool(c, "mmap", !read_mode);
    for (i = 0; i < nset; ++i)
        config_set_str(c, set_k[i], set_v[i]);
    return decoder_init(c); /* consumes c, also when it fails */
}

static void
do_view(char *args)
{
    char kind[64], path[2048], ranges[4096];
    long a, b;
    int swap, fd, first = 1;
    struct stat st;
    unsigned char *buf = NULL;
    size_t len = 0;
    char *r;
    if (sscanf(args, "%63s %2047s %ld %ld %d %4095s", kind, path, &a, &b, &swap, ranges) != 6) {
        fprintf(stderr, "bad view line\n");
        exit(3);
    }
    fd = open(path, O_RDONLY);
    if (fd >= 0 && fstat(fd, &st) == 0 && S_ISREG(st.st_mode)) {
        size_t got = 0;
        len = (size_t)st.st_size;
        buf = (unsigned char *)malloc(len ? len : 1);
        while (got < len) {
            ssize_t n = read(fd, buf + got, len - got);
            if (n <= 0)
                break;
            got += (size_t)n;
        }
    }
    if (fd >= 0)
        close(fd);
    fprintf(vt_out, "{\"e\":\"view\",\"kind\":\"%s\",\"present\":%s,\"len\":%ld,\"chunks\":[", kind,
            buf ? "true" : "false", (long)len);
    for (r = strtok(ranges, ","); buf && r; r = strtok(NULL, ",")) {
        long off, n, i;
        if (!strcmp(r, "-") || sscanf(r, "%ld:%ld", &off, &n) != 2)
            continue;
        if (off < 0 || off >= (long)len)
            continue;
        if (off + n > (long)len)
            n = (long)len - off;
        fprintf(vt_out, "%s{\"off\":%ld,\"b\":[", first ? "" : ",", off);
        first = 0;
        for (i = 0; i < n; ++i)
            fprintf(vt_out, "%s%d", i ? "," : "", buf[off + i]);
        fprintf(vt_out, "]}");
    }
    fprintf(vt_out, "],\"swap\":%s,\"sum\":[", swap ? "true" : "false");
    if (buf && a >= 0 && b <= (long)len && a <= b && (b - a) % 4 == 0) {
        /* the s3 checksum of s3file.c over the words of [a,b), as two 16-bit halves */
        uint32 sum = 0;
        long p;
        for (p = a; p < b; p += 4) {
            uint32 w = swap ? ((uint32)buf[p] << 24 | (uint32)buf[p + 1] << 16 | (uint32)buf[p + 2] << 8 | buf[p + 3])
                            : ((uint32)buf[p + 3] << 24 | (uint32)buf[p + 2] << 16 | (uint32)buf[p + 1] << 8 | buf[p]);
            sum = (sum << 20 | sum >> 12) + w;
        }
        fprintf(vt_out, "%ld,%ld,%u,%u", a, b, sum >> 16, sum & 0xffff);
    }
    fprintf(vt_out, "]}\n");
    free(buf);
}

static void
do_decode(decoder_t *d)
{
    FILE *fh;
    short buf[2048];
    size_t n;
    const char *hyp;
    int rv;
    if (jsgf_path == NULL || audio_path == NULL)
        return;
    fprintf(vt_out, "{\"e\":\"begin\",\"what\":\"decode\"}\n");
    fflush(vt_out);
    rv = decoder_set_jsgf_file(d, jsgf_path);
    if (rv != 0) {
        fprintf(vt_out, "{\"e\":\"decode\",\"jsgf\":%d,\"utt\":-9,\"hyp\":\"\",\"expect\":\"\"}\n", rv);
        return;
    }
    if ((fh = fopen(audio_path, "rb")) == NULL) {
        fprintf(stderr, "cannot open audio\n");
        exit(3);
    }
    rv = decoder_start_utt(d);
    while (rv == 0 && (n = fread(buf, 2, 2048, fh)) > 0)
        if (decoder_process_int16(d, buf, n, FALSE, FALSE) < 0)
            rv = -2;
    fclose(fh);
    if (rv == 0)
        rv = decoder_end_utt(d);
    hyp = decoder_hyp(d, NULL);
    fprintf(vt_out, "{\"e\":\"decode\",\"jsgf\":0,\"utt\":%d,\"hyp\":", rv);
    vt_str(vt_out, hyp ? hyp : "");
    fprintf(vt_out, ",\"expect\":");
    vt_str(vt_out, expect ? expect : "");
    fprintf(vt_out, "}\n");
}

int
main(int argc, char **argv)
{
    char line[8192];
    if (argc < 2) {
        fprintf(stderr, "usage: mf_drv <trace.ndjson> < script\n");
        return 3;
    }
    vt_open(argv[1]);
    err_set_loglevel(ERR_FATAL);
    while (fgets(line, sizeof line, stdin)) {
        char *nl = strchr(line, '\n');
        if (nl)
            *nl = 0;
        if (!strncmp(line, "mode ", 5)) {
            char mode[16] = "", kind[64] = "-", tag[256] = "-";
            int model = 0;
            sscanf(line + 5, "%15s %d %63s %255s", mode, &model, kind, tag);
            read_mode = !strcmp(mode, "read");
            fprintf(vt_out, "{\"e\":\"Header\",\"mode\":\"%s\",\"model\":%d,\"kind\":\"%s\",\"tag\":", read_mode ? "read" : "mmap",
                    model, kind);
            vt_str(vt_out, tag);
            fprintf(vt_out, "}\n");
        } else if (!strncmp(line, "set ", 4)) {
            char *sp = strchr(line + 4, ' ');
            if (sp && nset < MAXSET) {
                *sp = 0;
                set_k[nset] = strdup(line + 4);
                set_v[nset++] = strdup(sp + 1);
            }
        } else if (!strncmp(line, "jsgf ", 5)) {
            jsgf_path = strdup(line + 5);
        } else if (!strncmp(line, "audio ", 6)) {
            audio_path = strdup(line + 6);
        } else if (!strncmp(line, "expect ", 7)) {
            expect = strdup(line + 7);
        } else if (!strncmp(line, "view ", 5)) {
            do_view(line + 5);
        } else if (!strncmp(line, "load ", 5) || !strncmp(line, "reload ", 7)) {
            int re = line[0] == 'r';
            decoder_t *d;
            fprintf(vt_out, "{\"e\":\"begin\",\"what\":\"%s\"}\n", re ? "reload" : "load");
            fflush(vt_out);
            d = do_init(line + (re ? 7 : 5));
            fprintf(vt_out, "{\"e\":\"%s\",\"ret\":%d", re ? "reload" : "load", d ? 1 : 0);
            if (d)
                emit_dims(d);
            fprintf(vt_out, "}\n");
            fflush(vt_out);
            if (d && re)
                do_decode(d);
            fflush(vt_out);
            if (d)
                decoder_free(d);
            fprintf(vt_out, "{\"e\":\"freed\"}\n");
            fflush(vt_out);
        } else if (!strcmp(line, "end")) {
            break;
        }
    }
    {
        int i;
        for (i = 0; i < nset; ++i) {
            free(set_k[i]);
            free(set_v[i]);
        }
        free(jsgf_path);
        free(audio_path);
        free(expect);
    }
    vt_close();
    return 0;
}
