/* Driver for the JSGF compiler (property C05).  For every grammar of the script the JSGF text is
 * compiled by the real library through up to four public routes and the resulting finite-state grammar
 * (or the refusal) is recorded:
 *
 *   b  jsgf_parse_string -> jsgf_get_public_rule -> jsgf_build_fsg          (null closure done)
 *   r  jsgf_parse_string -> jsgf_get_public_rule -> jsgf_build_fsg_raw      (links as generated)
 *   2  as b, but on the grammar object that was already compiled once by r  (re-compilation)
 *   s  jsgf_read_string                                                    (convenience wrapper)
 *   d  decoder_set_jsgf_string on a live decoder; the FSG is read back from the search module
 *      (public struct fields), filler and alternate-pronunciation arcs left out
 *
 * script (stdin), one execution per line:
 *   exec <id> <k> <routes> <hex of the JSGF text> <one-line JSON object {"ast":..,"alias":..}, copied
 *        into the Header as field g>
 *   decoder <hmm dir> <dict>       where to find the models for route d (decoder created lazily)
 *
 * events: {"e":"Header","id":..,"k":..,"g":{"ast":..,"alias":..}}
 *         {"e":"Fsg","via":"build|raw|rebuild|read|decoder","parsed":b,"pub":b,"refused":b,
 *          "n":..,"start":..,"final":..,"arcs":[[from,to,"word" ("" = null),logp,millionths],..]}
 *         {"e":"Norm","n":..,"arcs":[[from,millionths,"word"],..]}   after a successful route r: the linear
 *          weight (logmath_exp of the arc's log-probability) of every arc of the raw grammar
 */
#include <soundswallower/configuration.h>
#include <soundswallower/decoder.h>
#include <soundswallower/err.h>
#include <soundswallower/fsg_model.h>
#include <soundswallower/fsg_search.h>
#include <soundswallower/jsgf.h>
#include <soundswallower/logmath.h>
#include "vtrace.h"

#define MAXARCS 20000

static logmath_t *lmath;
static decoder_t *dec;
static char hmmdir[2048], dictpath[2048];

static void
emit_refused(const char *via, int parsed, int pub)
{
    fprintf(vt_out,
            "{\"e\":\"Fsg\",\"via\":\"%s\",\"parsed\":%s,\"pub\":%s,\"refused\":true,"
            "\"n\":0,\"start\":0,\"final\":0,\"arcs\":[]}\n",
            via, parsed ? "true" : "false", pub ? "true" : "false");
}

static void
emit_fsg(const char *via, fsg_model_t *fsg, logmath_t *lm, int skip_fillers)
{
    int i, n = 0;
    fprintf(vt_out,
            "{\"e\":\"Fsg\",\"via\":\"%s\",\"parsed\":true,\"pub\":true,\"refused\":false,"
            "\"n\":%d,\"start\":%d,\"final\":%d,\"arcs\":[",
            via, (int)fsg_model_n_state(fsg), (int)fsg_model_start_state(fsg),
            (int)fsg_model_final_state(fsg));
    for (i = 0; i < fsg_model_n_state(fsg); ++i) {
        fsg_arciter_t *it;
        for (it = fsg_model_arcs(fsg, i); it; it = fsg_arciter_next(it)) {
            fsg_link_t *l = fsg_arciter_get(it);
            int wid = fsg_link_wid(l);
            int lp = fsg_link_logs2prob(l);
            if (skip_fillers && wid >= 0
                && (fsg_model_is_filler(fsg, wid) || fsg_model_is_alt(fsg, wid)))
                continue;
            fprintf(vt_out, "%s[%d,%d,", n ? "," : "", (int)fsg_link_from_state(l),
                    (int)fsg_link_to_state(l));
            vt_str(vt_out, wid < 0 ? "" : fsg_model_word_str(fsg, wid));
            fprintf(vt_out, ",%d,%d]", lp, (int)(logmath_exp(lm, lp) * 1e6 + 0.5));
            if (++n > MAXARCS) {
                fsg_arciter_free(it);
                i = fsg_model_n_state(fsg);
                break;
            }
        }
    }
    fprintf(vt_out, "]}\n");
}

static void
emit_norm(fsg_model_t *fsg, logmath_t *lm)
{
    int i, n = 0;
    fprintf(vt_out, "{\"e\":\"Norm\",\"n\":%d,\"arcs\":[", (int)fsg_model_n_state(fsg));
    for (i = 0; i < fsg_model_n_state(fsg); ++i) {
        fsg_arciter_t *it;
        for (it = fsg_model_arcs(fsg, i); it; it = fsg_arciter_next(it)) {
            fsg_link_t *l = fsg_arciter_get(it);
            fprintf(vt_out, "%s[%d,%d,", n ? "," : "", (int)fsg_link_from_state(l),
                    (int)(logmath_exp(lm, fsg_link_logs2prob(l)) * 1e6 + 0.5));
            vt_str(vt_out, fsg_link_wid(l) < 0 ? "" : fsg_model_word_str(fsg, fsg_link_wid(l)));
            fputc(']', vt_out);
            if (++n > MAXARCS) {
                fsg_arciter_free(it);
                i = fsg_model_n_state(fsg);
                break;
            }
        }
    }
    fprintf(vt_out, "]}\n");
}

static void
route_build(const char *text, int raw, int again)
{
    jsgf_t *jsgf = jsgf_parse_string(text, NULL);
    jsgf_rule_t *rule;
    fsg_model_t *fsg;
    const char *via = raw ? "raw" : "build";

    if (jsgf == NULL) {
        emit_refused(via, 0, 0);
        if (again)
            emit_refused("rebuild", 0, 0);
        return;
    }
    rule = jsgf_get_public_rule(jsgf);
    if (rule == NULL) {
        emit_refused(via, 1, 0);
        if (again)
            emit_refused("rebuild", 1, 0);
        jsgf_grammar_free(jsgf);
        return;
    }
    fsg = raw ? jsgf_build_fsg_raw(jsgf, rule, lmath, 1.0) : jsgf_build_fsg(jsgf, rule, lmath, 1.0);
    if (fsg == NULL)
        emit_refused(via, 1, 1);
    else {
        emit_fsg(via, fsg, lmath, 0);
        if (raw)
            emit_norm(fsg, lmath);
        fsg_model_free(fsg);
    }
    if (again) {
        fsg = jsgf_build_fsg(jsgf, rule, lmath, 1.0);
        if (fsg == NULL)
            emit_refused("rebuild", 1, 1);
        else {
            emit_fsg("rebuild", fsg, lmath, 0);
            fsg_model_free(fsg);
        }
    }
    jsgf_grammar_free(jsgf);
}

/* route m: ONE parsed grammar object, every other rule compiled first (generated group rules, unused rules, rules
 * the compiler refuses), then the public rule: what an earlier compilation left behind in the jsgf_t must not
 * reach a later one.  The result is recorded like a second compilation (via "rebuild"). */
static void
route_multi(const char *text)
{
    jsgf_t *jsgf = jsgf_parse_string(text, NULL);
    jsgf_rule_t *pub;
    jsgf_rule_iter_t *it;
    fsg_model_t *fsg;

    if (jsgf == NULL) {
        emit_refused("rebuild", 0, 0);
        return;
    }
    pub = jsgf_get_public_rule(jsgf);
    for (it = jsgf_rule_iter(jsgf); it; it = jsgf_rule_iter_next(it)) {
        jsgf_rule_t *r = jsgf_rule_iter_rule(it);
        if (r == pub)
            continue;
        fsg = jsgf_build_fsg(jsgf, r, lmath, 1.0);
        if (fsg)
            fsg_model_free(fsg);
    }
    if (pub == NULL)
        emit_refused("rebuild", 1, 0);
    else if ((fsg = jsgf_build_fsg(jsgf, pub, lmath, 1.0)) == NULL)
        emit_refused("rebuild", 1, 1);
    else {
        emit_fsg("rebuild", fsg, lmath, 0);
        fsg_model_free(fsg);
    }
    jsgf_grammar_free(jsgf);
}

static void
route_read(const char *text)
{
    fsg_model_t *fsg = jsgf_read_string(text, lmath, 1.0);
    if (fsg == NULL)
        emit_refused("read", 1, 1); /* the wrapper does not say why */
    else {
        emit_fsg("read", fsg, lmath, 0);
        fsg_model_free(fsg);
    }
}

static void
route_decoder(const char *text)
{
    if (dec == NULL) {
        config_t *config = config_init(NULL);
        config_set_str(config, "hmm", hmmdir);
        config_set_str(config, "dict", dictpath);
        config_set_str(config, "loglevel", "FATAL");
        dec = decoder_init(config);
        if (dec == NULL) {
            fprintf(stderr, "jsgf_drv: decoder_init failed\n");
            exit(4);
        }
    }
    if (decoder_set_jsgf_string(dec, text) != 0)
        emit_refused("decoder", 1, 1);
    else
        emit_fsg("decoder", ((fsg_search_t *)dec->search)->fsg, decoder_logmath(dec), 1);
}

/* route t: the decoder with a configured start rule (toprule).  First a name no grammar defines: the grammar must
 * be refused, not compiled from some other rule.  Then the public rule named explicitly (grammar.rule): the same
 * language as without the parameter. */
static void
route_toprule(const char *text)
{
    jsgf_t *j;
    int r;
    if (dec == NULL) {
        config_t *config = config_init(NULL);
        config_set_str(config, "hmm", hmmdir);
        config_set_str(config, "dict", dictpath);
        config_set_str(config, "loglevel", "FATAL");
        dec = decoder_init(config);
        if (dec == NULL) {
            fprintf(stderr, "jsgf_drv: decoder_init failed\n");
            exit(4);
        }
    }
    config_set_str(decoder_config(dec), "toprule", "zz_no_such_grammar.zz_no_such_rule");
    r = decoder_set_jsgf_string(dec, text);
    fprintf(vt_out, "{\"e\":\"TopRule\",\"defined\":false,\"refused\":%s}\n", r != 0 ? "true" : "false");
    j = jsgf_parse_string(text, NULL);
    if (j) {
        jsgf_rule_t *rule = jsgf_get_public_rule(j);
        if (rule) {
            char name[512];
            const char *rn = jsgf_rule_name(rule); /* "<grammar.rule>" */
            size_t n = strlen(rn);
            if (n > 2 && n < sizeof(name) && rn[0] == '<') {
                memcpy(name, rn + 1, n - 2);
                name[n - 2] = 0;
                config_set_str(decoder_config(dec), "toprule", name);
                if (decoder_set_jsgf_string(dec, text) != 0)
                    emit_refused("toprule", 1, 1);
                else
                    emit_fsg("toprule", ((fsg_search_t *)dec->search)->fsg, decoder_logmath(dec), 1);
            }
        }
        jsgf_grammar_free(j);
    }
    config_set_str(decoder_config(dec), "toprule", NULL);
}

int
main(int argc, char *argv[])
{
    static char line[1 << 20];
    err_set_loglevel(ERR_FATAL);
    vt_open(argc > 1 ? argv[1] : NULL);
    lmath = logmath_init(1.0001, 0, 0);
    while (fgets(line, sizeof(line), stdin)) {
        char *cmd = strtok(line, " \n");
        if (cmd == NULL)
            continue;
        if (strcmp(cmd, "decoder") == 0) {
            char *a = strtok(NULL, " \n"), *b = strtok(NULL, " \n");
            if (a && b) {
                snprintf(hmmdir, sizeof(hmmdir), "%s", a);
                snprintf(dictpath, sizeof(dictpath), "%s", b);
            }
        } else if (strcmp(cmd, "exec") == 0) {
            char *id = strtok(NULL, " \n"), *k = strtok(NULL, " \n");
            char *routes = strtok(NULL, " \n"), *hex = strtok(NULL, " \n");
            char *ast = strtok(NULL, "\n");
            char *text, *r;
            if (!id || !k || !routes || !hex || !ast) {
                fprintf(stderr, "jsgf_drv: malformed exec line\n");
                return 5;
            }
            text = vt_unhex(hex, NULL);
            fprintf(vt_out, "{\"e\":\"Header\",\"id\":%d,\"k\":%d,\"g\":%s}\n", atoi(id), atoi(k), ast);
            for (r = routes; *r; ++r) {
                switch (*r) {
                case 'b':
                    route_build(text, 0, 0);
                    break;
                case 'r':
                    route_build(text, 1, 0);
                    break;
                case '2':
                    route_build(text, 1, 1);
                    break;
                case 's':
                    route_read(text);
                    break;
                case 'd':
                    route_decoder(text);
                    break;
                case 't':
                    route_toprule(text);
                    break;
                case 'm':
                    route_multi(text);
                    break;
                default:
                    break;
                }
            }
            free(text);
        }
    }
    if (dec)
        decoder_free(dec);
    logmath_free(lmath);
    vt_close();
    return 0;
}
