/* Driver for the acoustic front end (property C06: cepstra do not depend on chunking or encoding).
 *
 * Executes chunk schedules (produced by the TLA+ model specs/fe/FeSim.tla) on a real fe_t, once per
 * signal and per sample encoding, and records for every public call its arguments and everything a
 * caller can observe afterwards; at the end of the stream the collected cepstra (fe_end's included)
 * are compared bit for bit with the one-call reference of the same signal and configuration.
 *
 * Memory discipline that makes out-of-chunk accesses visible to ASan: every chunk is handed over in
 * a freshly malloc'ed buffer of exactly n samples, and every output buffer has exactly as many rows
 * as the call could legitimately fill (min(max_out, frames the samples seen so far allow + 1)).
 *
 * script (stdin), one command per line:
 *   cfg <cid> key=value ...            define front-end configuration <cid> (FE_OPTIONS parameters)
 *   info <cid>                         print "info <cid> <size> <shift> <dim> <swap>" on stdout
 *   sig <sid> speech <len> <seed> <path> | sig <sid> noise <len> <seed> | sig <sid> clipped <len> <seed> | sig <sid> ramp <len> <seed>
 *   run <eid> <cid> <sid> <i|f> <doc|drain> <N> <endmax> <warm> <k> n1 m1 ... nk mk
 *                                      m = -1: call with a NULL output buffer (count only)
 *                                      warm = 1 (2: without the fe_end): the (fresh) front end first processes another short
 *                                      utterance to its end, so that the execution proper starts with
 *                                      fe_start on a USED object (stale frame buffer, pre-emphasis memory
 *                                      and noise statistics) - every execution is self-contained, which
 *                                      keeps every failure reproducible from its own script
 * trace (argv[1]), one JSON object per line: Header, [Ref], Start, Proc*, Count*, End, Cmp.
 */
#include <soundswallower/fe.h>
#include <soundswallower/configuration.h>
#include <soundswallower/config_defs.h>
#include <soundswallower/err.h>
#include <soundswallower/ckd_alloc.h>
#include <math.h>
#include "vtrace.h"

static const config_param_t fe_args[] = { FE_OPTIONS, { NULL, 0, NULL, NULL } };

#define MAXCFG 64
#define MAXSIG 64
#define UNLIMITED_ROWS_SLACK 2

typedef struct {
    config_t *config;
    int size, shift, dim, swap;
} cfg_t;

typedef struct {
    int kind; /* 0 speech, 1 noise, 2 ramp */
    int len, seed;
    int16 *pcm;
    float32 *flt;
} sig_t;

typedef struct ref_s {
    int cid, sid, n, nfr, count_only;
    size_t left;
    mfcc_t *cep; /* nfr * dim */
    struct ref_s *next;
} ref_t;

static cfg_t cfgs[MAXCFG];
static sig_t sigs[MAXSIG];
static ref_t *refs;
static int execno;

static void
die(const char *msg)
{
    fprintf(stderr, "fe_drv: %s\n", msg);
    exit(4);
}

static fe_t *
make_fe(cfg_t *c)
{
    fe_t *fe = fe_init(c->config);
    if (fe == NULL)
        die("fe_init failed");
    return fe;
}

static void
swap_bytes(void *p, size_t n, size_t width)
{
    unsigned char *b = (unsigned char *)p;
    size_t i, j;
    for (i = 0; i < n; ++i, b += width)
        for (j = 0; j < width / 2; ++j) {
            unsigned char t = b[j];
            b[j] = b[width - 1 - j];
            b[width - 1 - j] = t;
        }
}

/* One fe_process_* call on exactly n samples starting at signal offset `off'; returns frames written,
 * appends them to *acc; *left gets the samples handed back; *adv the pointer advance. */
static int
call_process(fe_t *fe, cfg_t *c, sig_t *s, int enc, int off, int n, int max_out, int rows,
             mfcc_t **acc, int *nacc, int *cap, size_t *left, long *adv)
{
    mfcc_t **buf;
    size_t ns = (size_t)n;
    int i, ret;
    void *chunk;

    /* exactly `rows' rows, each its own allocation */
    buf = (mfcc_t **)malloc(rows > 0 ? rows * sizeof(*buf) : 1);
    for (i = 0; i < rows; ++i)
        buf[i] = (mfcc_t *)malloc(c->dim * sizeof(mfcc_t));
    if (enc == 'f') {
        float32 *p, *q;
        chunk = malloc(n > 0 ? n * sizeof(float32) : 1);
        memcpy(chunk, s->flt + off, n * sizeof(float32));
        if (fe->swap)
            swap_bytes(chunk, n, sizeof(float32));
        p = q = (float32 *)chunk;
        ret = fe_process_float32(fe, &p, &ns, buf, max_out);
        *adv = (long)(p - q);
    } else {
        int16 *p, *q;
        chunk = malloc(n > 0 ? n * sizeof(int16) : 1);
        memcpy(chunk, s->pcm + off, n * sizeof(int16));
        if (fe->swap)
            swap_bytes(chunk, n, sizeof(int16));
        p = q = (int16 *)chunk;
        ret = fe_process_int16(fe, &p, &ns, buf, max_out);
        *adv = (long)(p - q);
    }
    free(chunk);
    *left = ns;
    for (i = 0; i < ret && i < rows; ++i) {
        if (*nacc >= *cap) {
            *cap = *cap * 2 + 64;
            *acc = (mfcc_t *)realloc(*acc, (size_t)*cap * c->dim * sizeof(mfcc_t));
        }
        memcpy(*acc + (size_t)*nacc * c->dim, buf[i], c->dim * sizeof(mfcc_t));
        ++*nacc;
    }
    for (i = 0; i < rows; ++i)
        free(buf[i]);
    free(buf);
    return ret;
}

static int
call_count(fe_t *fe, int enc, int n, size_t *left)
{
    size_t ns = (size_t)n;
    int ret;
    if (enc == 'f')
        ret = fe_process_float32(fe, NULL, &ns, NULL, 0);
    else
        ret = fe_process_int16(fe, NULL, &ns, NULL, 0);
    *left = ns;
    return ret;
}

/* rows a call may legitimately fill: it has seen `seen' samples of the stream and wrote `nout' frames */
static int
rows_for(cfg_t *c, int max_out, long seen, int nout)
{
    long can = seen / c->shift + 1 - nout + UNLIMITED_ROWS_SLACK;
    if (max_out <= 0)
        return 0;
    return (int)(max_out < can ? max_out : can);
}

static ref_t *
reference(int cid, int sid, int n)
{
    cfg_t *c = &cfgs[cid];
    sig_t *s = &sigs[sid];
    ref_t *r;
    fe_t *fe;
    int cap = 0, nacc = 0, ret, rows;
    long adv;
    mfcc_t *acc = NULL;
    mfcc_t **one;

    for (r = refs; r; r = r->next)
        if (r->cid == cid && r->sid == sid && r->n == n)
            return r;
    r = (ref_t *)calloc(1, sizeof(*r));
    r->cid = cid;
    r->sid = sid;
    r->n = n;
    fe = make_fe(c); /* always a fresh object: the reference does not depend on fe_start either */
    fe_start(fe);
    r->count_only = call_count(fe, 'i', n, &r->left);
    rows = n / c->shift + 3;
    ret = call_process(fe, c, s, 'i', 0, n, rows, rows, &acc, &nacc, &cap, &r->left, &adv);
    one = (mfcc_t **)ckd_calloc_2d(1, c->dim, sizeof(mfcc_t));
    if (fe_end(fe, one, 1) == 1) {
        if (nacc >= cap) {
            cap = cap + 1;
            acc = (mfcc_t *)realloc(acc, (size_t)cap * c->dim * sizeof(mfcc_t));
        }
        memcpy(acc + (size_t)nacc * c->dim, one[0], c->dim * sizeof(mfcc_t));
        ++nacc;
    }
    ckd_free_2d(one);
    (void)ret;
    fe_free(fe);
    r->nfr = nacc;
    r->cep = acc;
    r->next = refs;
    refs = r;
    fprintf(vt_out, "{\"e\":\"Ref\",\"cfg\":%d,\"sig\":%d,\"n\":%d,\"frames\":%d,\"count_only\":%d,\"left\":%d}\n",
            cid, sid, n, r->nfr, r->count_only, (int)r->left);
    return r;
}

/* For the index-coded ramp: which stream position (mod 65536) does overflow_samps[0] hold, and are
 * the live entries consecutive?  (-1 / 1 for other signals, byte-swapped input or an empty buffer.) */
static void
decode_overflow(fe_t *fe, sig_t *s, int *first, int *contig)
{
    int i, n = fe->num_overflow_samps;
    *first = -1;
    *contig = 1;
    if (s->kind != 2 || fe->swap || n <= 0 || n > fe->frame_size)
        return;
    for (i = 0; i < n; ++i) {
        long v = lrintf(fe->overflow_samps[i] * 32768.0f);
        int idx = (int)(((v + 32768 - s->seed) % 65536 + 65536) % 65536);
        if (i == 0)
            *first = idx;
        else if (idx != (*first + i) % 65536)
            *contig = 0;
    }
}

static void
log_proc(fe_t *fe, sig_t *s, int n, int max_out, int ret, size_t left, long adv, const char *by)
{
    int first, contig;
    decode_overflow(fe, s, &first, &contig);
    fprintf(vt_out, "{\"e\":\"Proc\",\"n\":%d,\"max_out\":%d,\"ret\":%d,\"left\":%d,\"adv\":%ld,\"novf\":%d,"
                    "\"ovf0\":%d,\"ovf_contig\":%s,\"by\":\"%s\"}\n",
            n, max_out, ret, (int)left, adv, fe->num_overflow_samps, first, contig ? "true" : "false", by);
}

static void
do_run(char *line)
{
    char eid[128], encs[8], proto[16];
    int cid, sid, N, endmax, warm, k, i, off = 0, enc, pos = 0, nacc = 0, cap = 0, filled = 0, guard, ret;
    mfcc_t *acc = NULL;
    mfcc_t **one;
    cfg_t *c;
    sig_t *s;
    fe_t *fe;
    ref_t *r;
    size_t left;
    long adv;
    int novf_before, equal, first_diff = -1, m;

    if (sscanf(line, "run %127s %d %d %7s %15s %d %d %d %d%n", eid, &cid, &sid, encs, proto, &N, &endmax, &warm, &k,
               &off) < 9)
        die("bad run line");
    line += off;
    c = &cfgs[cid];
    s = &sigs[sid];
    enc = encs[0];
    if (c->config == NULL || s->pcm == NULL || N > s->len)
        die("run refers to an undefined configuration / signal or a stream longer than the signal");
    fe = make_fe(c);
    if (warm) {
        /* a previous utterance on the same object: the head of the stream, one call, fe_end */
        int wn = N < 3 * c->size + 11 ? N : 3 * c->size + 11, wacc = 0, wcap = 0;
        mfcc_t *w = NULL;
        mfcc_t **wone = (mfcc_t **)ckd_calloc_2d(1, c->dim, sizeof(mfcc_t));
        fe_start(fe);
        call_process(fe, c, s, enc, 0, wn, wn / c->shift + 3, wn / c->shift + 3, &w, &wacc, &wcap, &left, &adv);
        if (warm != 2) /* 2: the utterance is abandoned with its last samples still buffered */
            fe_end(fe, wone, 1);
        ckd_free_2d(wone);
        free(w);
    }
    fprintf(vt_out, "{\"e\":\"Header\",\"id\":%d,\"eid\":", ++execno);
    vt_str(vt_out, eid);
    fprintf(vt_out, ",\"size\":%d,\"shift\":%d,\"dim\":%d,\"enc\":\"%s\",\"proto\":\"%s\",\"cfg\":%d,\"sig\":%d,\"nsig\":%d,\"swap\":%d,\"warm\":%d}\n",
            c->size, c->shift, c->dim, enc == 'f' ? "float32" : "int16", proto, cid, sid, N, c->swap, warm);
    r = reference(cid, sid, N);
    ret = fe_start(fe);
    fprintf(vt_out, "{\"e\":\"Start\",\"ret\":%d,\"novf\":%d}\n", ret, fe->num_overflow_samps);

    for (i = 0; i < k; ++i) {
        int n;
        if (sscanf(line, " %d %d%n", &n, &m, &off) < 2)
            die("bad call list");
        line += off;
        if (n > N - pos)
            n = N - pos; /* the stream has N samples: never show more */
        if (n < 0)
            n = 0;
        if (m < 0) {
            ret = call_count(fe, enc, n, &left);
            fprintf(vt_out, "{\"e\":\"Count\",\"n\":%d,\"ret\":%d,\"left\":%d,\"novf\":%d}\n", n, ret, (int)left,
                    fe->num_overflow_samps);
            continue;
        }
        ret = call_process(fe, c, s, enc, pos, n, m, rows_for(c, m, (long)pos + n, nacc), &acc, &nacc, &cap, &left,
                           &adv);
        log_proc(fe, s, n, m, ret, left, adv, "script");
        if (left <= (size_t)n)
            pos += n - (int)left;
        filled = ret >= m;
    }
    /* the caller's loop: go on until every sample of the stream has been consumed ... */
    m = N / c->shift + 3;
    for (guard = 0; pos < N && guard < 64; ++guard) {
        int n = N - pos;
        ret = call_process(fe, c, s, enc, pos, n, m, rows_for(c, m, (long)N, nacc), &acc, &nacc, &cap, &left, &adv);
        log_proc(fe, s, n, m, ret, left, adv, "epilogue");
        if (left <= (size_t)n)
            pos += n - (int)left;
        filled = ret >= m;
    }
    /* ... and, with the drain protocol, while the last call filled its output buffer */
    if (strcmp(proto, "drain") == 0) {
        for (guard = 0; filled && guard < 64; ++guard) {
            ret = call_process(fe, c, s, enc, pos, 0, m, rows_for(c, m, (long)N, nacc), &acc, &nacc, &cap, &left,
                               &adv);
            log_proc(fe, s, 0, m, ret, left, adv, "drain");
            filled = ret >= m;
        }
    }
    novf_before = fe->num_overflow_samps;
    one = (mfcc_t **)malloc(endmax > 0 ? endmax * sizeof(*one) : 1);
    for (i = 0; i < endmax; ++i)
        one[i] = (mfcc_t *)malloc(c->dim * sizeof(mfcc_t));
    ret = fe_end(fe, one, endmax);
    for (i = 0; i < ret && i < endmax; ++i) {
        if (nacc >= cap) {
            cap = cap * 2 + 64;
            acc = (mfcc_t *)realloc(acc, (size_t)cap * c->dim * sizeof(mfcc_t));
        }
        memcpy(acc + (size_t)nacc * c->dim, one[i], c->dim * sizeof(mfcc_t));
        ++nacc;
    }
    for (i = 0; i < endmax; ++i)
        free(one[i]);
    free(one);
    fprintf(vt_out, "{\"e\":\"End\",\"max_out\":%d,\"ret\":%d,\"novf_before\":%d,\"novf\":%d}\n", endmax, ret, novf_before,
            fe->num_overflow_samps);

    /* bit-for-bit comparison with the one-call reference */
    {
        int common = nacc < r->nfr ? nacc : r->nfr, f;
        equal = nacc == r->nfr;
        for (f = 0; f < common; ++f)
            if (memcmp(acc + (size_t)f * c->dim, r->cep + (size_t)f * c->dim, c->dim * sizeof(mfcc_t)) != 0) {
                equal = 0;
                first_diff = f;
                break;
            }
        if (first_diff < 0 && nacc != r->nfr)
            first_diff = common;
    }
    fprintf(vt_out, "{\"e\":\"Cmp\",\"frames\":%d,\"nref\":%d,\"equal_to_ref\":%s,\"first_diff\":%d,\"consumed\":%d,"
                    "\"nsig\":%d}\n",
            nacc, r->nfr, equal ? "true" : "false", first_diff, pos, N);
    free(acc);
    fe_free(fe);
}

static void
do_cfg(char *line)
{
    int cid, off = 0;
    char *tok;
    cfg_t *c;
    if (sscanf(line, "cfg %d%n", &cid, &off) < 1 || cid < 0 || cid >= MAXCFG)
        die("bad cfg line");
    c = &cfgs[cid];
    if (c->config)
        die("configuration defined twice");
    c->config = config_init(fe_args);
    config_set_str(c->config, "input_endian", "little");
    for (tok = strtok(line + off, " \t\r\n"); tok; tok = strtok(NULL, " \t\r\n")) {
        char *eq = strchr(tok, '=');
        if (!eq)
            die("cfg: expected key=value");
        *eq = 0;
        if (config_set_str(c->config, tok, eq + 1) == NULL)
            die("cfg: parameter refused");
    }
    {
        fe_t *fe = make_fe(c);
        fe_get_input_size(fe, &c->shift, &c->size);
        c->dim = fe_get_output_size(fe);
        c->swap = fe->swap ? 1 : 0;
        fe_free(fe);
    }
}

static void
do_sig(char *line)
{
    int sid, len, seed, off = 0, i;
    char kind[16], path[1024];
    sig_t *s;
    if (sscanf(line, "sig %d %15s %d %d%n", &sid, kind, &len, &seed, &off) < 4 || sid < 0 || sid >= MAXSIG || len < 0)
        die("bad sig line");
    s = &sigs[sid];
    if (s->pcm)
        die("signal defined twice");
    s->len = len;
    s->seed = seed;
    s->pcm = (int16 *)calloc(len + 1, sizeof(int16));
    s->flt = (float32 *)calloc(len + 1, sizeof(float32));
    if (strcmp(kind, "speech") == 0) {
        FILE *fh;
        long flen;
        int16 *raw;
        s->kind = 0;
        if (sscanf(line + off, " %1023s", path) < 1 || (fh = fopen(path, "rb")) == NULL)
            die("cannot open speech file");
        fseek(fh, 0, SEEK_END);
        flen = ftell(fh) / 2;
        fseek(fh, 0, SEEK_SET);
        raw = (int16 *)malloc(flen * 2);
        if (flen < 1 || fread(raw, 2, flen, fh) != (size_t)flen)
            die("cannot read speech file");
        fclose(fh);
        for (i = 0; i < len; ++i)
            s->pcm[i] = raw[(i + (long)seed) % flen];
        free(raw);
    } else if (strcmp(kind, "noise") == 0) {
        uint32 x = 2463534242u ^ (uint32)seed * 2654435761u;
        s->kind = 1;
        if (x == 0)
            x = 1;
        for (i = 0; i < len; ++i) {
            x ^= x << 13;
            x ^= x >> 17;
            x ^= x << 5;
            s->pcm[i] = (int16)(x >> 11);
        }
    } else if (strcmp(kind, "clipped") == 0) {
        /* overdriven and hard-clipped: long runs at BOTH rails, including the int16 minimum -32768
         * (float -1.0), which a symmetric clamp or an off-by-one scale treats differently */
        uint32 x = 88172645u ^ (uint32)seed * 2246822519u;
        s->kind = 1;
        if (x == 0)
            x = 1;
        for (i = 0; i < len; ++i) {
            long v;
            x ^= x << 13;
            x ^= x >> 17;
            x ^= x << 5;
            v = (long)((int16)(x >> 11)) * 3 + (long)(20000.0 * sin((i + seed) * 0.01));
            s->pcm[i] = (int16)(v > 32767 ? 32767 : v < -32768 ? -32768 : v);
        }
    } else if (strcmp(kind, "ramp") == 0) {
        s->kind = 2;
        for (i = 0; i < len; ++i)
            s->pcm[i] = (int16)((((long)i + seed) % 65536) - 32768);
    } else
        die("unknown signal kind");
    /* the equivalent floating-point input (fe.h: range [-1.0, 1.0], FLOAT32_SCALE = 32768) */
    for (i = 0; i < len; ++i)
        s->flt[i] = (float32)s->pcm[i] / 32768.0f;
}

int
main(int argc, char *argv[])
{
    static char line[1 << 20];
    err_set_loglevel(ERR_FATAL);
    vt_open(argc > 1 ? argv[1] : NULL);
    while (fgets(line, sizeof(line), stdin)) {
        if (strncmp(line, "cfg ", 4) == 0)
            do_cfg(line);
        else if (strncmp(line, "info ", 5) == 0) {
            int cid = atoi(line + 5);
            if (cid < 0 || cid >= MAXCFG || cfgs[cid].config == NULL)
                die("info: unknown configuration");
            printf("info %d %d %d %d %d\n", cid, cfgs[cid].size, cfgs[cid].shift, cfgs[cid].dim, cfgs[cid].swap);
            fflush(stdout);
        } else if (strncmp(line, "sig ", 4) == 0)
            do_sig(line);
        else if (strncmp(line, "run ", 4) == 0)
            do_run(line);
        else if (line[0] != '\n' && line[0] != '#')
            die("unknown command");
    }
    vt_close();
    return 0;
}
