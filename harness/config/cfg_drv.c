/* Driver for the configuration object (config.c): executes a script of public config_* calls and records,
 * after every call, the answer and the complete observable store (type, value and the four typed getters of
 * every parameter of interest) as one JSON line.  Floating values are recorded in EIGHTHS with an exactness
 * flag (the specification's float universe is k/8).  Usage: cfg_drv <trace.ndjson> < script */
#include <math.h>
#include <soundswallower/configuration.h>
#include <soundswallower/err.h>
#include "../common/vtrace.h"

static const config_param_t custom_defn[] = {
    { "i", ARG_INTEGER, "3", "an integer" },
    { "f", ARG_FLOATING, "1.5", "a float" },
    { "b", ARG_BOOLEAN, "no", "a boolean" },
    { "s", ARG_STRING, NULL, "a string without default" },
    { "t", ARG_STRING, "live", "a string with default" },
    { "jsgf", ARG_STRING, NULL, "grammar" },
    { "fsg", ARG_STRING, NULL, "grammar" },
    { "z", ARG_INTEGER, "", "a parameter whose default cannot be read" },
    { NULL, 0, NULL, NULL }
};
static const char *custom_names[] = { "i", "f", "b", "s", "t", "jsgf", "fsg", "z", "xx", NULL };
static const char *std_names[] = { "samprate", "frate", "hmm", "jsgf", "fsg", "loglevel", "cmn", "compallsen",
                                   "bestpath", "lw", "ascale", "pip", "xx", NULL };
static config_t *cfg;
static int refs;
static const char **names;

static void
codes(const char *s)
{
    /* {"z":true,"s":[]} for NULL */
    if (s == NULL) {
        fprintf(vt_out, "{\"z\":true,\"s\":[]}");
        return;
    }
    fprintf(vt_out, "{\"z\":false,\"s\":[");
    for (; *s; ++s)
        fprintf(vt_out, "%d%s", (unsigned char)*s, s[1] ? "," : "");
    fprintf(vt_out, "]}");
}

static void
eighths(double v)
{
    double k = v * 8.0;
    long l = (fabs(k) < 1e9) ? (long)k : 0;
    fprintf(vt_out, "{\"k\":%ld,\"exact\":%s}", l, (fabs(k) < 1e9 && (double)l == k) ? "true" : "false");
}

static const char *
tname(int t)
{
    if (t & ARG_INTEGER) return "int";
    if (t & ARG_FLOATING) return "flt";
    if (t & ARG_BOOLEAN) return "bool";
    if (t & ARG_STRING) return "str";
    return "none";
}

static void
dump_defn(const config_param_t *defn)
{
    const config_param_t *p;
    int i, first = 1;
    fprintf(vt_out, "\"defn\":[");
    for (p = defn; p->name; ++p) {
        for (i = 0; names[i]; ++i)
            if (!strcmp(names[i], p->name))
                break;
        if (!names[i])
            continue;
        fprintf(vt_out, "%s{\"name\":", first ? "" : ",");
        first = 0;
        codes(p->name);
        fprintf(vt_out, ",\"type\":\"%s\",\"deflt\":", tname(p->type));
        codes(p->deflt);
        fprintf(vt_out, "}");
    }
    fprintf(vt_out, "]");
}

static void
dump_store(config_t *c)
{
    int i;
    fprintf(vt_out, "\"store\":[");
    for (i = 0; c && names[i]; ++i) {
        int t = config_typeof(c, names[i]);
        const anytype_t *v = config_get(c, names[i]);
        fprintf(vt_out, "%s{\"name\":", i ? "," : "");
        codes(names[i]);
        fprintf(vt_out, ",\"type\":\"%s\",\"has\":%s", tname(t), v ? "true" : "false");
        fprintf(vt_out, ",\"i\":%ld", (v && (t & (ARG_INTEGER | ARG_BOOLEAN))) ? v->i : 0L);
        fprintf(vt_out, ",\"f\":");
        eighths((v && (t & ARG_FLOATING)) ? v->fl : 0.0);
        fprintf(vt_out, ",\"s\":");
        codes((v && (t & ARG_STRING)) ? (const char *)v->ptr : NULL);
        fprintf(vt_out, ",\"gi\":%ld,\"gb\":%d,\"gf\":", config_int(c, names[i]), config_bool(c, names[i]));
        eighths(config_float(c, names[i]));
        fprintf(vt_out, ",\"gs\":");
        codes(config_str(c, names[i]));
        fprintf(vt_out, "}");
    }
    fprintf(vt_out, "]");
}

static void
finish(config_t *c)
{
    fprintf(vt_out, ",\"alive\":%s,\"rc\":%d,", c ? "true" : "false", c ? refs : 0);
    dump_store(c);
    fprintf(vt_out, "}\n");
}

int
main(int argc, char *argv[])
{
    static char line[1 << 16], cmd[32], a1[1 << 15], a2[1 << 15], a3[1 << 15];

    err_set_loglevel(ERR_FATAL);
    vt_open(argc > 1 ? argv[1] : NULL);
    names = custom_names;
    while (fgets(line, sizeof(line), stdin)) {
        int n = sscanf(line, "%31s %32767s %32767s %32767s", cmd, a1, a2, a3);
        if (n < 1 || cmd[0] == '#')
            continue;
        if (!strcmp(cmd, "init")) {
            int std = n > 1 && !strcmp(a1, "std");
            if (cfg)
                return 3;
            names = std ? std_names : custom_names;
            cfg = config_init(std ? NULL : custom_defn);
            refs = 1;
            fprintf(vt_out, "{\"e\":\"Init\",\"std\":%s,", std ? "true" : "false");
            dump_defn(cfg->defn);
            finish(cfg);
        } else if (!strcmp(cmd, "retain")) {
            config_t *r = config_retain(cfg);
            ++refs;
            fprintf(vt_out, "{\"e\":\"Retain\",\"same\":%s", r == cfg ? "true" : "false");
            finish(cfg);
        } else if (!strcmp(cmd, "free")) {
            int r = config_free(cfg);
            if (--refs == 0)
                cfg = NULL;
            fprintf(vt_out, "{\"e\":\"Free\",\"ret\":%d", r);
            finish(cfg);
        } else if (!strcmp(cmd, "freenull")) {
            fprintf(vt_out, "{\"e\":\"FreeNull\",\"ret\":%d,\"retain\":%s", config_free(NULL), config_retain(NULL) ? "true" : "false");
            finish(cfg);
        } else if (!strcmp(cmd, "setstr") && n == 3) {
            char *nm = vt_unhex(a1, NULL), *v = strcmp(a2, "NULL") ? vt_unhex(a2, NULL) : NULL;
            const anytype_t *r = config_set_str(cfg, nm, v);
            fprintf(vt_out, "{\"e\":\"SetStr\",\"n\":");
            codes(nm);
            fprintf(vt_out, ",\"v\":");
            codes(v);
            fprintf(vt_out, ",\"ok\":%s", r ? "true" : "false");
            finish(cfg);
            free(nm);
            free(v);
        } else if ((!strcmp(cmd, "setint") || !strcmp(cmd, "setbool") || !strcmp(cmd, "setfloat")) && n == 3) {
            char *nm = vt_unhex(a1, NULL);
            long v = atol(a2);
            const anytype_t *r = cmd[3] == 'i' ? config_set_int(cfg, nm, v)
                : cmd[3] == 'b'                ? config_set_bool(cfg, nm, (int)v)
                                               : config_set_float(cfg, nm, (double)v / 8.0);
            fprintf(vt_out, "{\"e\":\"%s\",\"n\":", cmd[3] == 'i' ? "SetInt" : cmd[3] == 'b' ? "SetBool" : "SetFloat");
            codes(nm);
            fprintf(vt_out, ",\"v\":%ld,\"ok\":%s", v, r ? "true" : "false");
            finish(cfg);
            free(nm);
        } else if (!strcmp(cmd, "unset") && n == 2) {
            char *nm = vt_unhex(a1, NULL);
            const anytype_t *r = config_unset(cfg, nm);
            fprintf(vt_out, "{\"e\":\"Unset\",\"n\":");
            codes(nm);
            fprintf(vt_out, ",\"ok\":%s", r ? "true" : "false");
            finish(cfg);
            free(nm);
        } else if (!strcmp(cmd, "setgen") && n == 4) {
            /* config_set(config, name, &val, type); kind null passes val = NULL */
            char *nm = vt_unhex(a1, NULL), *sv = NULL;
            anytype_t av;
            const anytype_t *r;
            memset(&av, 0, sizeof(av));
            fprintf(vt_out, "{\"e\":\"SetGen\",\"n\":");
            codes(nm);
            fprintf(vt_out, ",\"kind\":\"%s\"", a2);
            if (!strcmp(a2, "null")) {
                r = config_set(cfg, nm, NULL, ARG_STRING);
                fprintf(vt_out, ",\"v\":0,\"sv\":");
                codes(NULL);
            } else if (!strcmp(a2, "str")) {
                sv = vt_unhex(a3, NULL);
                av.ptr = sv;
                r = config_set(cfg, nm, &av, ARG_STRING);
                fprintf(vt_out, ",\"v\":0,\"sv\":");
                codes(sv);
            } else {
                long v = atol(a3);
                if (!strcmp(a2, "flt")) {
                    av.fl = (double)v / 8.0;
                    r = config_set(cfg, nm, &av, ARG_FLOATING);
                } else {
                    av.i = v;
                    r = config_set(cfg, nm, &av, !strcmp(a2, "int") ? ARG_INTEGER : ARG_BOOLEAN);
                }
                fprintf(vt_out, ",\"v\":%ld,\"sv\":", v);
                codes(NULL);
            }
            fprintf(vt_out, ",\"ok\":%s", r ? "true" : "false");
            finish(cfg);
            free(nm);
            free(sv);
        } else if ((!strcmp(cmd, "parse") || !strcmp(cmd, "parsenew")) && n == 3) {
            /* a1 = the text, a2 = the key/value pairs the text was spelled from, as JSON (echoed, not interpreted) */
            char *text = vt_unhex(a1, NULL), *pairs = vt_unhex(a2, NULL);
            if (cmd[5] == 'n') {
                config_t *c = config_parse_json(NULL, text);
                const char **keep = names;
                int krefs = refs;
                names = std_names;
                refs = 1;
                fprintf(vt_out, "{\"e\":\"ParseNew\",\"pairs\":%s,\"ok\":%s,", pairs, c ? "true" : "false");
                if (c)
                    dump_defn(c->defn);
                else
                    fprintf(vt_out, "\"defn\":[]");
                fprintf(vt_out, ",\"freed\":%d", c ? 0 : -1);
                finish(c);
                if (c)
                    config_free(c);
                names = keep;
                refs = krefs;
            } else {
                config_t *c = config_parse_json(cfg, text);
                fprintf(vt_out, "{\"e\":\"Parse\",\"pairs\":%s,\"ok\":%s,\"same\":%s", pairs, c ? "true" : "false",
                        (c == NULL || c == cfg) ? "true" : "false");
                finish(cfg);
            }
            free(text);
            free(pairs);
        } else if (!strcmp(cmd, "serialize")) {
            /* the returned text is only valid until the next call: copy it before asking again */
            const char *js = config_serialize_json(cfg), *js2;
            char *copy = js ? strdup(js) : NULL;
            fprintf(vt_out, "{\"e\":\"Serialize\",\"text\":");
            codes(copy);
            js2 = config_serialize_json(cfg);
            fprintf(vt_out, ",\"again\":%s", (copy && js2 && !strcmp(copy, js2)) ? "true" : "false");
            finish(cfg);
            free(copy);
        } else if (!strcmp(cmd, "validate")) {
            fprintf(vt_out, "{\"e\":\"Validate\",\"ret\":%d", config_validate(cfg));
            finish(cfg);
        } else {
            fprintf(stderr, "cfg_drv: bad command: %s", line);
            return 3;
        }
    }
    while (cfg && refs-- > 0)
        config_free(cfg);
    vt_close();
    return 0;
}
