/* Driver for the dictionary-addition path (property C16): decoder_add_word / decoder_lookup_word on a
 * REAL decoder (acoustic model + dictionary loaded from the tree under test), with the new words then
 * used in a JSGF grammar, an alignment text and a decode of tests/data/goforward.raw.
 *
 * usage: dict_drv <trace.ndjson> <repo-root>        script on stdin, one execution per "init"
 *
 *   sp <sid> <hex|->                  define pool spelling <sid> (ids 1..n in order; "-" = empty string)
 *   nosp                              forget the pool
 *   init <turtle|model> <0|1|->       fresh decoder (dict = tests/data/turtle.dic or the model's dict.txt;
 *                                     dictcase = no/yes/unset) + Header event
 *   watch <sid> ...                   spellings observed after every following event (default: all)
 *   add <sid> <update> <hex|->        decoder_add_word(d, sp[sid], <phones string>, update) + Add event
 *   check                             Check event (observation only)
 *   scan                              Scan event: whole-dictionary digest
 *   jsgf  <decode> <expect> <sid> ... decoder_set_jsgf_string("public <s> = w1 w2 ...;") [+ decode]   -> Use event
 *   align <decode> <expect> <sid> ... decoder_set_align_text("w1 w2 ...") [+ decode]                  -> Use event
 *                                     decode = 2: decode, and do the same on a TWIN decoder whose dictionary FILE
 *                                     holds the loaded dictionary plus every word added so far (see do_twin)
 *   end                               free the decoder
 *
 * Add events also carry
 *   raw   the bytes of the phone string as handed to decoder_add_word (the specification splits it itself)
 *   d2p   [nb, ne, ns, b, l, r]: the word-boundary context tables the search will read for the word just
 *         added (decoder_t.d2p: ldiph_lc[first][second][*], rssid[last][second-last] through cimap/ssid,
 *         lrdiph_rc[only][*][*]) compared, context phone by context phone, with what the model definition
 *         itself gives for the pronunciation - bin_mdef_pid2ssid(bin_mdef_phone_id_nearest(base, left, right,
 *         WORD_POSN_BEGIN / END / SINGLE)), the formula dict2pid_build() uses for the words of the file:
 *         nb / ne / ns = number of contexts that DISAGREE for the first phone / last phone / only phone
 *         (-1 = table not needed for a word of this length), (b, l, r) the first disagreeing triphone.
 * Scan events carry d2pbad = number of words of the whole dictionary with at least one such disagreement.
 * Use events carry twin = [] (no twin asked for), [0] (not run) or [1, n_file, same, <live>, <file>] (see do_twin).
 *
 * Everything logged comes from public calls / public struct fields (decoder_s and dict_s are defined in
 * installed headers).  An observation of spelling s is the tuple
 *   [sid, wid, lf, [look], [pron], [spb], base, [chain]]
 *     wid   dict_wordid(d->dict, s)                      (-1 = absent)
 *     lf    1 iff decoder_lookup_word(d, s) != NULL;  look = that string split at every single ' '
 *     pron  dict_pron(wid, i) through bin_mdef_ciphone_str, i < dict_pronlen
 *     spb   bytes of dict_wordstr(wid)   base = dict_basewid(wid)
 *     chain word ids reached from the base through dict_nextalt until BAD_S3WID (stops after the first id
 *           that is not a valid word id, so a dangling link is logged, never followed)
 * The trace file is line buffered: when the library crashes, the events of all completed calls are on disk
 * and the first command without an event is the culprit.
 */
#include <soundswallower/bin_mdef.h>
#include <soundswallower/ckd_alloc.h>
#include <soundswallower/decoder.h>
#include <soundswallower/dict.h>
#include <soundswallower/dict2pid.h>
#include <soundswallower/err.h>
#include <soundswallower/search_module.h>
#include "vtrace.h"
#include <unistd.h>

#define MAXSP 40000
#define MAXLINE (1 << 16)
static char *sp[MAXSP];
static int nsp;
static int *watch, nwatch;
static decoder_t *d;
static const char *repo;
static int execno, n0;
static int16 *audio;
static size_t naudio;
static const char *tracepath;
static char cur_dname[32], cur_dcase[8];

static void
put_bytes(const char *s)
{
    int first = 1;
    fputc('[', vt_out);
    for (; s && *s; ++s) {
        fprintf(vt_out, "%s%d", first ? "" : ",", (unsigned char)*s);
        first = 0;
    }
    fputc(']', vt_out);
}

/* JSON array of the pieces of s cut at every single occurrence of sep (so "A  B" has an empty piece) */
static void
put_split(const char *s, char sep)
{
    const char *p = s, *q;
    int first = 1;
    fputc('[', vt_out);
    if (s && *s) {
        for (;;) {
            q = strchr(p, sep);
            if (!first)
                fputc(',', vt_out);
            first = 0;
            if (q) {
                char *tmp = (char *)malloc((size_t)(q - p) + 1);
                memcpy(tmp, p, (size_t)(q - p));
                tmp[q - p] = 0;
                vt_str(vt_out, tmp);
                free(tmp);
                p = q + 1;
            } else {
                vt_str(vt_out, p);
                break;
            }
        }
    }
    fputc(']', vt_out);
}

/* the same, but each piece as a byte array (for words, which may hold any byte) */
static void
put_split_bytes(const char *s, char sep)
{
    const char *p = s, *q;
    int first = 1, j;
    fputc('[', vt_out);
    if (s && *s) {
        for (;;) {
            q = strchr(p, sep);
            if (!first)
                fputc(',', vt_out);
            first = 0;
            fputc('[', vt_out);
            for (j = 0; (q ? p + j < q : p[j] != 0); ++j)
                fprintf(vt_out, "%s%d", j ? "," : "", (unsigned char)p[j]);
            fputc(']', vt_out);
            if (!q)
                break;
            p = q + 1;
        }
    }
    fputc(']', vt_out);
}

static int
valid_wid(int w)
{
    return w >= 0 && w < dict_size(d->dict);
}

static void
put_pron(int wid)
{
    int i;
    dict_t *dict = d->dict;
    fputc('[', vt_out);
    if (valid_wid(wid) && dict_pronlen(dict, wid) > 0 && dict->word[wid].ciphone != NULL)
        for (i = 0; i < dict_pronlen(dict, wid) && i < 4096; ++i) {
            int ci = dict_pron(dict, wid, i);
            if (i)
                fputc(',', vt_out);
            if (ci >= 0 && ci < bin_mdef_n_ciphone(d->acmod->mdef))
                vt_str(vt_out, bin_mdef_ciphone_str(d->acmod->mdef, ci));
            else
                fprintf(vt_out, "\"?%d\"", ci);
        }
    fputc(']', vt_out);
}

static void
put_obs_one(int sid)
{
    dict_t *dict = d->dict;
    int wid = dict_wordid(dict, sp[sid]);
    char *look = decoder_lookup_word(d, sp[sid]);
    int base = -1, w, cnt = 0;

    fprintf(vt_out, "[%d,%d,%d,", sid, wid, look != NULL);
    put_split(look, ' ');
    ckd_free(look);
    fputc(',', vt_out);
    put_pron(wid);
    fputc(',', vt_out);
    put_bytes(valid_wid(wid) ? dict_wordstr(dict, wid) : NULL);
    if (valid_wid(wid))
        base = dict_basewid(dict, wid);
    fprintf(vt_out, ",%d,[", base);
    if (valid_wid(base)) {
        for (w = dict_nextalt(dict, base); w != BAD_S3WID && cnt < dict_size(dict) + 2; ++cnt) {
            fprintf(vt_out, "%s%d", cnt ? "," : "", w);
            if (!valid_wid(w))
                break;
            w = dict_nextalt(dict, w);
        }
    }
    fprintf(vt_out, "]]");
}

static void
put_obs(void)
{
    int i;
    fprintf(vt_out, "\"n\":%d,\"obs\":[", dict_size(d->dict));
    if (watch == NULL) {
        for (i = 1; i <= nsp; ++i) {
            if (i > 1)
                fputc(',', vt_out);
            put_obs_one(i);
        }
    } else {
        for (i = 0; i < nwatch; ++i) {
            if (i)
                fputc(',', vt_out);
            put_obs_one(watch[i]);
        }
    }
    fputc(']', vt_out);
}

/* order-independent-free digest (31 bit) of the entries that existed at start: spelling, pronunciation, base */
static int
presum(void)
{
    dict_t *dict = d->dict;
    uint32 h = 2166136261u;
    int w, i;
    for (w = 0; w < n0 && w < dict_size(dict); ++w) {
        const char *s = dict_wordstr(dict, w);
        for (; s && *s; ++s)
            h = (h ^ (unsigned char)*s) * 16777619u;
        h = (h ^ 0xff) * 16777619u;
        for (i = 0; i < dict_pronlen(dict, w); ++i)
            h = (h ^ (uint32)(dict_pron(dict, w, i) & 0xffff)) * 16777619u;
        h = (h ^ (uint32)dict_basewid(dict, w)) * 16777619u;
    }
    return (int)(h & 0x7fffffff);
}

static int
selfmap(void)
{
    dict_t *dict = d->dict;
    int w, c = 0;
    for (w = 0; w < dict_size(dict); ++w)
        if (dict_wordstr(dict, w) != NULL && dict_wordid(dict, dict_wordstr(dict, w)) == w)
            ++c;
    return c;
}


/* ------------------------------------------------------------------------------------------------------
 * context tables against the model definition */
static int
mdef_ssid(int b, int l, int r, int pos)
{
    bin_mdef_t *mdef = d->acmod->mdef;
    int p = bin_mdef_phone_id_nearest(mdef, b, l, r, pos);
    return p < 0 ? -1 : (int)bin_mdef_pid2ssid(mdef, p);
}

/* number of left contexts l with ldiph_lc[b][r][l] != model definition; *fl = first such l */
static int
bad_begin(int b, int r, int *fl)
{
    int n_ci = bin_mdef_n_ciphone(d->acmod->mdef), l, bad = 0;
    for (l = 0; l < n_ci; ++l)
        if ((int)d->d2p->ldiph_lc[b][r][l] != mdef_ssid(b, l, r, WORD_POSN_BEGIN)) {
            if (!bad++)
                *fl = l;
        }
    return bad;
}

/* number of right contexts r for which rssid[b][l] does not give the model definition's sequence */
static int
bad_end(int b, int l, int *fr)
{
    int n_ci = bin_mdef_n_ciphone(d->acmod->mdef), r, bad = 0;
    xwdssid_t *x = &d->d2p->rssid[b][l];
    for (r = 0; r < n_ci; ++r) {
        int got = -2;
        if (x->n_ssid > 0 && x->ssid && x->cimap && x->cimap[r] >= 0 && x->cimap[r] < x->n_ssid)
            got = (int)x->ssid[x->cimap[r]];
        if (got != mdef_ssid(b, l, r, WORD_POSN_END)) {
            if (!bad++)
                *fr = r;
        }
    }
    return bad;
}

static int
bad_single(int b, int *fl, int *fr)
{
    int n_ci = bin_mdef_n_ciphone(d->acmod->mdef), l, r, bad = 0;
    for (l = 0; l < n_ci; ++l)
        for (r = 0; r < n_ci; ++r)
            if ((int)d->d2p->lrdiph_rc[b][l][r] != mdef_ssid(b, l, r, WORD_POSN_SINGLE)) {
                if (!bad++) {
                    *fl = l;
                    *fr = r;
                }
            }
    return bad;
}

static void
put_d2p(int wid)
{
    dict_t *dict = d->dict;
    int nb = -1, ne = -1, ns = -1, tb = -1, tl = -1, tr = -1, x = -1, y = -1;
    if (valid_wid(wid) && dict->word[wid].ciphone != NULL) {
        int len = dict_pronlen(dict, wid);
        if (len >= 2) {
            nb = bad_begin(dict_first_phone(dict, wid), dict_second_phone(dict, wid), &x);
            if (nb > 0) {
                tb = dict_first_phone(dict, wid);
                tl = x;
                tr = dict_second_phone(dict, wid);
            }
            ne = bad_end(dict_last_phone(dict, wid), dict_second_last_phone(dict, wid), &x);
            if (ne > 0 && tb < 0) {
                tb = dict_last_phone(dict, wid);
                tl = dict_second_last_phone(dict, wid);
                tr = x;
            }
        } else if (len == 1) {
            ns = bad_single(dict_first_phone(dict, wid), &x, &y);
            if (ns > 0) {
                tb = dict_first_phone(dict, wid);
                tl = x;
                tr = y;
            }
        }
    }
    fprintf(vt_out, "\"d2p\":[%d,%d,%d,%d,%d,%d],", nb, ne, ns, tb, tl, tr);
}

/* words of the whole dictionary whose tables disagree with the model definition (one verdict per phone pair) */
static int
d2p_bad_words(void)
{
    dict_t *dict = d->dict;
    int n_ci = bin_mdef_n_ciphone(d->acmod->mdef), w, bad = 0, x, y;
    char *mb = (char *)calloc((size_t)n_ci * n_ci, 1), *me = (char *)calloc((size_t)n_ci * n_ci, 1),
         *ms = (char *)calloc((size_t)n_ci, 1); /* 0 = not looked at, 1 = agrees, 2 = disagrees */
    for (w = 0; w < dict_size(dict); ++w) {
        int len = dict_pronlen(dict, w), wbad = 0;
        if (dict->word[w].ciphone == NULL || len < 1) {
            ++bad;
            continue;
        }
        if (len >= 2) {
            int b = dict_first_phone(dict, w), r = dict_second_phone(dict, w);
            int e = dict_last_phone(dict, w), l = dict_second_last_phone(dict, w);
            if (!mb[b * n_ci + r])
                mb[b * n_ci + r] = bad_begin(b, r, &x) ? 2 : 1;
            if (!me[e * n_ci + l])
                me[e * n_ci + l] = bad_end(e, l, &x) ? 2 : 1;
            wbad = mb[b * n_ci + r] == 2 || me[e * n_ci + l] == 2;
        } else {
            int b = dict_first_phone(dict, w);
            if (!ms[b])
                ms[b] = bad_single(b, &x, &y) ? 2 : 1;
            wbad = ms[b] == 2;
        }
        bad += wbad;
    }
    free(mb);
    free(me);
    free(ms);
    return bad;
}

/* ------------------------------------------------------------------------------------------------------ */
static decoder_t *
make_decoder(const char *dname, const char *dcase, const char *dictfile)
{
    char path[4096];
    config_t *c = config_init(NULL);
    decoder_t *dec;
    snprintf(path, sizeof(path), "%s/model/en-us", repo);
    config_set_str(c, "hmm", path);
    if (dictfile)
        config_set_str(c, "dict", dictfile);
    else if (!strcmp(dname, "turtle")) {
        snprintf(path, sizeof(path), "%s/tests/data/turtle.dic", repo);
        config_set_str(c, "dict", path);
    }
    config_set_str(c, "loglevel", "FATAL");
    config_set_str(c, "samprate", "16000");
    config_set_str(c, "input_endian", "little");
    config_set_str(c, "bestpath", "no");
    if (dcase[0] != '-')
        config_set_str(c, "dictcase", dcase[0] == '1' ? "yes" : "no");
    config_expand(c);
    dec = decoder_init(c);
    err_set_loglevel(ERR_FATAL);
    return dec;
}

static void
emit_header(const char *dname, int dictcase)
{
    dict_t *dict = d->dict;
    bin_mdef_t *mdef = d->acmod->mdef;
    int i, w, first = 1;
    char *rel; /* rel[w] = 1: entry w is relevant for the pool */

    n0 = dict_size(dict);
    fprintf(vt_out, "{\"e\":\"Header\",\"id\":%d,\"dict\":\"%s\",\"dictcase\":%d,\"nocase\":%d,\"n0\":%d,\"max0\":%d,"
                    "\"fstart\":%d,\"fend\":%d,\"presum\":%d,\"phones\":[",
            ++execno, dname, dictcase, dict->nocase ? 1 : 0, n0, dict->max_words, dict_filler_start(dict),
            dict_filler_end(dict), presum());
    for (i = 0; i < bin_mdef_n_ciphone(mdef); ++i) {
        if (i)
            fputc(',', vt_out);
        vt_str(vt_out, bin_mdef_ciphone_str(mdef, i));
    }
    fprintf(vt_out, "],\"phb\":[");
    for (i = 0; i < bin_mdef_n_ciphone(mdef); ++i) {
        if (i)
            fputc(',', vt_out);
        put_bytes(bin_mdef_ciphone_str(mdef, i));
    }
    fprintf(vt_out, "],\"sp\":[");
    for (i = 1; i <= nsp; ++i) {
        if (i > 1)
            fputc(',', vt_out);
        put_bytes(sp[i]);
    }
    /* the part of the initial dictionary the pool can see: every pool spelling that is present, its base
     * word, and (full scan, independent of the alternate links) every entry with one of those bases */
    rel = (char *)calloc((size_t)n0 + 1, 1);
    for (i = 1; i <= nsp; ++i) {
        w = dict_wordid(dict, sp[i]);
        if (valid_wid(w)) {
            rel[w] = 1;
            if (valid_wid(dict_basewid(dict, w)))
                rel[dict_basewid(dict, w)] = 2;
        }
    }
    for (w = 0; w < n0; ++w)
        if (!rel[w] && valid_wid(dict_basewid(dict, w)) && rel[dict_basewid(dict, w)] == 2)
            rel[w] = 1;
    fprintf(vt_out, "],\"init\":[");
    for (w = 0; w < n0; ++w) {
        if (!rel[w])
            continue;
        fprintf(vt_out, "%s[%d,", first ? "" : ",", w);
        first = 0;
        put_bytes(dict_wordstr(dict, w));
        fputc(',', vt_out);
        put_pron(w);
        fprintf(vt_out, ",%d]", dict_basewid(dict, w));
    }
    free(rel);
    fprintf(vt_out, "]}\n");
}

static void
load_audio(void)
{
    char path[4096];
    FILE *fh;
    long sz;
    if (audio)
        return;
    snprintf(path, sizeof(path), "%s/tests/data/goforward.raw", repo);
    if ((fh = fopen(path, "rb")) == NULL) {
        perror(path);
        exit(3);
    }
    fseek(fh, 0, SEEK_END);
    sz = ftell(fh);
    fseek(fh, 0, SEEK_SET);
    audio = (int16 *)malloc((size_t)sz);
    naudio = fread(audio, 2, (size_t)sz / 2, fh);
    fclose(fh);
}

/* parse "<a> <b> <sid>..." after the command word */
static int
parse_ints(char *p, int *out, int max)
{
    int n = 0;
    char *tok;
    for (tok = strtok(p, " \t\r\n"); tok && n < max; tok = strtok(NULL, " \t\r\n"))
        out[n++] = atoi(tok);
    return n;
}

/* one utterance of the test audio on decoder dec, everything the public result API says:
 *   [hf, score, [hypothesis words as byte arrays], [[word bytes, sf, ef, ascr, lscr], ...]]   (all segments) */
static void
decode_full(decoder_t *dec, int run, FILE *out)
{
    FILE *save = vt_out;
    const char *hyp;
    int32 score = 0;
    seg_iter_t *seg;
    int first = 1;

    if (run) {
        load_audio();
        decoder_start_utt(dec);
        decoder_process_int16(dec, audio, naudio, FALSE, TRUE);
        decoder_end_utt(dec);
    }
    hyp = decoder_hyp(dec, &score);
    vt_out = out;
    fprintf(out, "[%d,%d,", hyp != NULL, hyp ? (int)score : 0);
    put_split_bytes(hyp, ' ');
    fprintf(out, ",[");
    for (seg = decoder_seg_iter(dec); seg; seg = seg_iter_next(seg)) {
        int sf, ef;
        int32 ascr, lscr;
        seg_iter_frames(seg, &sf, &ef);
        seg_iter_prob(seg, &ascr, &lscr);
        fprintf(out, "%s[", first ? "" : ",");
        first = 0;
        put_bytes(seg_iter_word(seg));
        fprintf(out, ",%d,%d,%d,%d]", sf, ef, (int)ascr, (int)lscr);
    }
    fprintf(out, "]]");
    vt_out = save;
}

static int
file_safe(const char *w)
{
    const char *c;
    if (!w || !*w || !strncmp(w, "##", 2) || !strncmp(w, ";;", 2))
        return 0;
    for (c = w; *c; ++c)
        if (strchr(" \t\r\n\v\f", *c))
            return 0;
    return 1;
}

/* The TWIN: a second decoder, same acoustic model and options, whose dictionary FILE is the file the live
 * decoder was started with plus one line per word added since (in the order of their ids).  It is given the
 * same grammar / alignment text and the same audio.  Logged:
 *   [1, n_file, same, <live result>, <file result>]       result = [ret of the set call, decode_full...]
 *     n_file  size of the twin's dictionary
 *     same    number of entries of the LIVE dictionary that the twin has with the same spelling,
 *             pronunciation and base spelling
 *   [0]  not run (a word of the sentence is absent / the sentence did not load / a spelling that cannot be
 *        written on a dictionary line)                                                                     */
static void
do_twin(int isjsgf, const char *text, int live_ret)
{
    dict_t *dict = d->dict, *fd;
    bin_mdef_t *mdef = d->acmod->mdef;
    decoder_t *t;
    char path[4096], src[4096], buf[65536];
    FILE *in, *out;
    size_t n;
    int w, i, same = 0, rv, last = '\n';

    for (w = n0; w < dict_size(dict); ++w)
        if (!file_safe(dict_wordstr(dict, w)) || dict->word[w].ciphone == NULL) {
            fprintf(vt_out, "\"twin\":[0],");
            return;
        }
    if (strcmp(cur_dname, "turtle"))
        exit(3);
    snprintf(src, sizeof(src), "%s/tests/data/turtle.dic", repo);
    snprintf(path, sizeof(path), "%s.twin.dic", tracepath);
    if ((in = fopen(src, "rb")) == NULL || (out = fopen(path, "wb")) == NULL) {
        perror("twin dictionary");
        exit(3);
    }
    while ((n = fread(buf, 1, sizeof(buf), in)) > 0) {
        fwrite(buf, 1, n, out);
        last = buf[n - 1];
    }
    fclose(in);
    if (last != '\n')
        fputc('\n', out);
    for (w = n0; w < dict_size(dict); ++w) {
        fputs(dict_wordstr(dict, w), out);
        for (i = 0; i < dict_pronlen(dict, w); ++i)
            fprintf(out, " %s", bin_mdef_ciphone_str(mdef, dict_pron(dict, w, i)));
        fputc('\n', out);
    }
    fclose(out);
    t = make_decoder(cur_dname, cur_dcase, path);
    unlink(path);
    if (t == NULL) {
        fprintf(stderr, "decoder_init failed for the twin\n");
        exit(4);
    }
    fd = t->dict;
    for (w = 0; w < dict_size(dict); ++w) {
        const char *ws = dict_wordstr(dict, w);
        int v = ws ? dict_wordid(fd, ws) : BAD_S3WID, ok;
        if (v == BAD_S3WID || v < 0 || v >= dict_size(fd))
            continue;
        ok = !strcmp(ws, dict_wordstr(fd, v)) && dict_pronlen(dict, w) == dict_pronlen(fd, v)
            && valid_wid(dict_basewid(dict, w)) && dict_basewid(fd, v) >= 0 && dict_basewid(fd, v) < dict_size(fd)
            && !strcmp(dict_wordstr(dict, dict_basewid(dict, w)), dict_wordstr(fd, dict_basewid(fd, v)));
        for (i = 0; ok && i < dict_pronlen(dict, w); ++i)
            ok = dict_pron(dict, w, i) == dict_pron(fd, v, i);
        same += ok;
    }
    fprintf(vt_out, "\"twin\":[1,%d,%d,[%d,", dict_size(fd), same, live_ret);
    decode_full(d, 0, vt_out); /* (the live decoder has just decoded) */
    rv = isjsgf ? decoder_set_jsgf_string(t, text) : decoder_set_align_text(t, text);
    fprintf(vt_out, "],[%d,", rv);
    if (rv == 0)
        decode_full(t, 1, vt_out);
    else
        fprintf(vt_out, "[0,0,[],[]]");
    fprintf(vt_out, "]],");
    decoder_free(t);
}

static void
do_use(const char *kind, int *a, int na)
{
    dict_t *dict = d->dict;
    int decode = a[0], expect = a[1], i, nabs = 0, called = 0, rv = -2, hf = 0, first;
    size_t len = 64;
    char *text;
    const char *hyp = NULL;
    int isjsgf = !strcmp(kind, "jsgf");

    for (i = 2; i < na; ++i)
        len += strlen(sp[a[i]]) + 1;
    text = (char *)calloc(len + 64, 1);
    fprintf(vt_out, "{\"e\":\"Use\",\"kind\":\"%s\",\"dec\":%d,\"expect\":%d,\"words\":[", kind, decode, expect);
    for (i = 2; i < na; ++i)
        fprintf(vt_out, "%s%d", i > 2 ? "," : "", a[i]);
    fprintf(vt_out, "],\"absent\":[");
    for (i = 2; i < na; ++i)
        if (dict_wordid(dict, sp[a[i]]) == BAD_S3WID)
            fprintf(vt_out, "%s%d", nabs++ ? "," : "", a[i]);
    fprintf(vt_out, "],");
    if (isjsgf)
        strcat(text, "#JSGF V1.0;\ngrammar g;\npublic <s> =");
    for (i = 2; i < na; ++i) {
        if (i > 2 || isjsgf)
            strcat(text, " ");
        strcat(text, sp[a[i]]);
    }
    if (isjsgf)
        strcat(text, ";\n");
    /* A grammar naming a word that is not in the dictionary is never loaded through the JSGF call (its
     * failure path is the business of C09, not of this property); the alignment call checks the words
     * itself before it builds anything, so it is always made. */
    if (!isjsgf || nabs == 0) {
        called = 1;
        rv = isjsgf ? decoder_set_jsgf_string(d, text) : decoder_set_align_text(d, text);
    }
    fprintf(vt_out, "\"called\":%d,\"ret\":%d,", called, rv);
    first = 1;
    if (called && rv == 0 && decode) {
        seg_iter_t *seg;
        int32 score;
        load_audio();
        decoder_start_utt(d);
        decoder_process_int16(d, audio, naudio, FALSE, TRUE);
        decoder_end_utt(d);
        hyp = decoder_hyp(d, &score);
        hf = hyp != NULL;
        fprintf(vt_out, "\"hf\":%d,\"hyp\":", hf);
        put_split_bytes(hyp, ' ');
        fprintf(vt_out, ",\"seg\":[");
        for (seg = decoder_seg_iter(d); seg; seg = seg_iter_next(seg)) {
            const char *w = seg_iter_word(seg);
            int wid = w ? dict_wordid(dict, w) : BAD_S3WID;
            if (wid == BAD_S3WID || !dict_real_word(dict, wid))
                continue;
            if (!first)
                fputc(',', vt_out);
            first = 0;
            put_bytes(w);
        }
        fprintf(vt_out, "],");
        if (decode == 2)
            do_twin(isjsgf, text, rv);
        else
            fprintf(vt_out, "\"twin\":[],");
    } else
        fprintf(vt_out, "\"hf\":0,\"hyp\":[],\"seg\":[],\"twin\":[%s],", decode == 2 ? "0" : "");
    free(text);
    put_obs();
    fprintf(vt_out, "}\n");
}

int
main(int argc, char *argv[])
{
    char *line = (char *)malloc(MAXLINE), cmd[32];
    static int ints[MAXSP];

    if (argc < 3) {
        fprintf(stderr, "usage: dict_drv <trace> <repo>\n");
        return 3;
    }
    repo = argv[2];
    tracepath = argv[1];
    err_set_loglevel(ERR_FATAL);
    vt_open(argv[1]);
    while (fgets(line, MAXLINE, stdin)) {
        if (sscanf(line, "%31s", cmd) != 1 || cmd[0] == '#')
            continue;
        if (!strcmp(cmd, "sp")) {
            int a;
            char *arg = (char *)malloc(MAXLINE);
            if (sscanf(line, "%*s %d %65000s", &a, arg) != 2 || a != nsp + 1 || a >= MAXSP)
                return 3;
            sp[a] = vt_unhex(arg, NULL);
            free(arg);
            nsp = a;
        } else if (!strcmp(cmd, "nosp")) {
            while (nsp > 0)
                free(sp[nsp--]);
        } else if (!strcmp(cmd, "init")) {
            char dname[32], dcase[8];
            if (sscanf(line, "%*s %31s %7s", dname, dcase) != 2)
                return 3;
            if (strcmp(dname, "turtle") && strcmp(dname, "model"))
                return 3;
            if (d)
                decoder_free(d);
            strcpy(cur_dname, dname);
            strcpy(cur_dcase, dcase);
            if ((d = make_decoder(dname, dcase, NULL)) == NULL) {
                fprintf(stderr, "decoder_init failed\n");
                return 4;
            }
            free(watch);
            watch = NULL;
            nwatch = 0;
            emit_header(dname, dcase[0] == '-' ? -1 : dcase[0] - '0');
        } else if (!strcmp(cmd, "watch")) {
            int n = parse_ints(line + 5, ints, MAXSP), i;
            free(watch);
            watch = (int *)malloc(sizeof(int) * (size_t)(n + 1));
            for (i = 0; i < n; ++i) {
                if (ints[i] < 1 || ints[i] > nsp)
                    return 3;
                watch[i] = ints[i];
            }
            nwatch = n;
        } else if (!strcmp(cmd, "add")) {
            int sid, u, rv;
            char *arg = (char *)malloc(MAXLINE), *phones, *copy, *tok;
            int first = 1;
            if (sscanf(line, "%*s %d %d %65000s", &sid, &u, arg) != 3 || sid < 1 || sid > nsp || !d)
                return 3;
            phones = vt_unhex(arg, NULL);
            free(arg);
            rv = decoder_add_word(d, sp[sid], phones, u);
            fprintf(vt_out, "{\"e\":\"Add\",\"s\":%d,\"u\":%d,\"slen\":%d,\"raw\":", sid, u, (int)strlen(phones));
            put_bytes(phones);
            fprintf(vt_out, ",\"toks\":[");
            copy = strdup(phones);
            for (tok = strtok(copy, " \t\r\n"); tok; tok = strtok(NULL, " \t\r\n")) {
                if (!first)
                    fputc(',', vt_out);
                first = 0;
                vt_str(vt_out, tok);
            }
            free(copy);
            free(phones);
            fprintf(vt_out, "],\"ret\":%d,\"srch\":%d,", rv, d->search != NULL);
            put_d2p(rv);
            put_obs();
            fprintf(vt_out, "}\n");
        } else if (!strcmp(cmd, "check")) {
            if (!d)
                return 3;
            fprintf(vt_out, "{\"e\":\"Check\",");
            put_obs();
            fprintf(vt_out, "}\n");
        } else if (!strcmp(cmd, "scan")) {
            if (!d)
                return 3;
            fprintf(vt_out, "{\"e\":\"Scan\",\"n\":%d,\"selfmap\":%d,\"presum\":%d,\"d2pbad\":%d}\n", dict_size(d->dict),
                    selfmap(), presum(), d2p_bad_words());
        } else if (!strcmp(cmd, "jsgf") || !strcmp(cmd, "align")) {
            int n = parse_ints(line + strlen(cmd) + 1, ints, MAXSP), i;
            if (n < 3 || !d)
                return 3;
            for (i = 2; i < n; ++i)
                if (ints[i] < 1 || ints[i] > nsp)
                    return 3;
            do_use(cmd, ints, n);
        } else if (!strcmp(cmd, "end")) {
            if (d)
                decoder_free(d);
            d = NULL;
        } else
            return 3;
    }
    if (d)
        decoder_free(d);
    while (nsp > 0)
        free(sp[nsp--]);
    free(watch);
    free(audio);
    free(line);
    vt_close();
    return 0;
}
