/* Driver for the dictionary-addition path (property C16): decoder_add_word / decoder_lookup_word on a
 * REAL decoder (acoustic model + dictionary loaded from the tree under test), with the new words then
 * used in a JSGF grammar, an alignment text and a decode of tests/data/goforward.raw.
 *
 * usage: dict_drv <trace.ndjson> <repo-root>        script on stdin, one execution per "init"
 *
 *   sp <sid> <hex|->                  define pool spelling <sid> (ids 1..n in order; "-" = empty string)
 *   nosp                              forget the pool
 *   init <turtle|model> <0|1|->       fresh decoder (dict = tests/data/turtle.dic or the model's dict.txt;
 *                                     dictcase = no/yes/unset) + Header event
 *   watch <sid> ...                   spellings observed after every following event (default: all)
 *   add <sid> <update> <hex|->        decoder_add_word(d, sp[sid], <phones string>, update) + Add event
 *   check                             Check event (observation only)
 *   scan                              Scan event: whole-dictionary digest
 *   jsgf  <decode> <expect> <sid> ... decoder_set_jsgf_string("public <s> = w1 w2 ...;") [+ decode]   -> Use event
 *   align <decode> <expect> <sid> ... decoder_set_align_text("w1 w2 ...") [+ decode]                  -> Use event
 *   end                               free the decoder
 *
 * Everything logged comes from public calls / public struct fields (decoder_s and dict_s are defined in
 * installed headers).  An observation of spelling s is the tuple
 *   [sid, wid, lf, [look], [pron], [spb], base, [chain]]
 *     wid   dict_wordid(d->dict, s)                      (-1 = absent)
 *     lf    1 iff decoder_lookup_word(d, s) != NULL;  look = that string split at every single ' '
 *     pron  dict_pron(wid, i) through bin_mdef_ciphone_str, i < dict_pronlen
 *     spb   bytes of dict_wordstr(wid)   base = dict_basewid(wid)
 *     chain word ids reached from the base through dict_nextalt until BAD_S3WID (stops after the first id
 *           that is not a valid word id, so a dangling link is logged, never followed)
 * The trace file is line buffered: when the library crashes, the events of all completed calls are on disk
 * and the first command without an event is the culprit.
 */
#include <soundswallower/bin_mdef.h>
#include <soundswallower/ckd_alloc.h>
#include <soundswallower/decoder.h>
#include <soundswallower/dict.h>
#include <soundswallower/dict2pid.h>
#include <soundswallower/err.h>
#include <soundswallower/search_module.h>
#include "vtrace.h"

#define MAXSP 40000
#define MAXLINE (1 << 16)
static char *sp[MAXSP];
static int nsp;
static int *watch, nwatch;
static decoder_t *d;
static const char *repo;
static int execno, n0;
static int16 *audio;
static size_t naudio;

static void
put_bytes(const char *s)
{
    int first = 1;
    fputc('[', vt_out);
    for (; s && *s; ++s) {
        fprintf(vt_out, "%s%d", first ? "" : ",", (unsigned char)*s);
        first = 0;
    }
    fputc(']', vt_out);
}

/* JSON array of the pieces of s cut at every single occurrence of sep (so "A  B" has an empty piece) */
static void
put_split(const char *s, char sep)
{
    const char *p = s, *q;
    int first = 1;
    fputc('[', vt_out);
    if (s && *s) {
        for (;;) {
            q = strchr(p, sep);
            if (!first)
                fputc(',', vt_out);
            first = 0;
            if (q) {
                char *tmp = (char *)malloc((size_t)(q - p) + 1);
                memcpy(tmp, p, (size_t)(q - p));
                tmp[q - p] = 0;
                vt_str(vt_out, tmp);
                free(tmp);
                p = q + 1;
            } else {
                vt_str(vt_out, p);
                break;
            }
        }
    }
    fputc(']', vt_out);
}

/* the same, but each piece as a byte array (for words, which may hold any byte) */
static void
put_split_bytes(const char *s, char sep)
{
    const char *p = s, *q;
    int first = 1, j;
    fputc('[', vt_out);
    if (s && *s) {
        for (;;) {
            q = strchr(p, sep);
            if (!first)
                fputc(',', vt_out);
            first = 0;
            fputc('[', vt_out);
            for (j = 0; (q ? p + j < q : p[j] != 0); ++j)
                fprintf(vt_out, "%s%d", j ? "," : "", (unsigned char)p[j]);
            fputc(']', vt_out);
            if (!q)
                break;
            p = q + 1;
        }
    }
    fputc(']', vt_out);
}

static int
valid_wid(int w)
{
    return w >= 0 && w < dict_size(d->dict);
}

static void
put_pron(int wid)
{
    int i;
    dict_t *dict = d->dict;
    fputc('[', vt_out);
    if (valid_wid(wid) && dict_pronlen(dict, wid) > 0 && dict->word[wid].ciphone != NULL)
        for (i = 0; i < dict_pronlen(dict, wid) && i < 4096; ++i) {
            int ci = dict_pron(dict, wid, i);
            if (i)
                fputc(',', vt_out);
            if (ci >= 0 && ci < bin_mdef_n_ciphone(d->acmod->mdef))
                vt_str(vt_out, bin_mdef_ciphone_str(d->acmod->mdef, ci));
            else
                fprintf(vt_out, "\"?%d\"", ci);
        }
    fputc(']', vt_out);
}

static void
put_obs_one(int sid)
{
    dict_t *dict = d->dict;
    int wid = dict_wordid(dict, sp[sid]);
    char *look = decoder_lookup_word(d, sp[sid]);
    int base = -1, w, cnt = 0;

    fprintf(vt_out, "[%d,%d,%d,", sid, wid, look != NULL);
    put_split(look, ' ');
    ckd_free(look);
    fputc(',', vt_out);
    put_pron(wid);
    fputc(',', vt_out);
    put_bytes(valid_wid(wid) ? dict_wordstr(dict, wid) : NULL);
    if (valid_wid(wid))
        base = dict_basewid(dict, wid);
    fprintf(vt_out, ",%d,[", base);
    if (valid_wid(base)) {
        for (w = dict_nextalt(dict, base); w != BAD_S3WID && cnt < dict_size(dict) + 2; ++cnt) {
            fprintf(vt_out, "%s%d", cnt ? "," : "", w);
            if (!valid_wid(w))
                break;
            w = dict_nextalt(dict, w);
        }
    }
    fprintf(vt_out, "]]");
}

static void
put_obs(void)
{
    int i;
    fprintf(vt_out, "\"n\":%d,\"obs\":[", dict_size(d->dict));
    if (watch == NULL) {
        for (i = 1; i <= nsp; ++i) {
            if (i > 1)
                fputc(',', vt_out);
            put_obs_one(i);
        }
    } else {
        for (i = 0; i < nwatch; ++i) {
            if (i)
                fputc(',', vt_out);
            put_obs_one(watch[i]);
        }
    }
    fputc(']', vt_out);
}

/* order-independent-free digest (31 bit) of the entries that existed at start: spelling, pronunciation, base */
static int
presum(void)
{
    dict_t *dict = d->dict;
    uint32 h = 2166136261u;
    int w, i;
    for (w = 0; w < n0 && w < dict_size(dict); ++w) {
        const char *s = dict_wordstr(dict, w);
        for (; s && *s; ++s)
            h = (h ^ (unsigned char)*s) * 16777619u;
        h = (h ^ 0xff) * 16777619u;
        for (i = 0; i < dict_pronlen(dict, w); ++i)
            h = (h ^ (uint32)(dict_pron(dict, w, i) & 0xffff)) * 16777619u;
        h = (h ^ (uint32)dict_basewid(dict, w)) * 16777619u;
    }
    return (int)(h & 0x7fffffff);
}

static int
selfmap(void)
{
    dict_t *dict = d->dict;
    int w, c = 0;
    for (w = 0; w < dict_size(dict); ++w)
        if (dict_wordstr(dict, w) != NULL && dict_wordid(dict, dict_wordstr(dict, w)) == w)
            ++c;
    return c;
}

static void
emit_header(const char *dname, int dictcase)
{
    dict_t *dict = d->dict;
    bin_mdef_t *mdef = d->acmod->mdef;
    int i, w, first = 1;
    char *rel; /* rel[w] = 1: entry w is relevant for the pool */

    n0 = dict_size(dict);
    fprintf(vt_out, "{\"e\":\"Header\",\"id\":%d,\"dict\":\"%s\",\"dictcase\":%d,\"nocase\":%d,\"n0\":%d,\"max0\":%d,"
                    "\"fstart\":%d,\"fend\":%d,\"presum\":%d,\"phones\":[",
            ++execno, dname, dictcase, dict->nocase ? 1 : 0, n0, dict->max_words, dict_filler_start(dict),
            dict_filler_end(dict), presum());
    for (i = 0; i < bin_mdef_n_ciphone(mdef); ++i) {
        if (i)
            fputc(',', vt_out);
        vt_str(vt_out, bin_mdef_ciphone_str(mdef, i));
    }
    fprintf(vt_out, "],\"sp\":[");
    for (i = 1; i <= nsp; ++i) {
        if (i > 1)
            fputc(',', vt_out);
        put_bytes(sp[i]);
    }
    /* the part of the initial dictionary the pool can see: every pool spelling that is present, its base
     * word, and (full scan, independent of the alternate links) every entry with one of those bases */
    rel = (char *)calloc((size_t)n0 + 1, 1);
    for (i = 1; i <= nsp; ++i) {
        w = dict_wordid(dict, sp[i]);
        if (valid_wid(w)) {
            rel[w] = 1;
            if (valid_wid(dict_basewid(dict, w)))
                rel[dict_basewid(dict, w)] = 2;
        }
    }
    for (w = 0; w < n0; ++w)
        if (!rel[w] && valid_wid(dict_basewid(dict, w)) && rel[dict_basewid(dict, w)] == 2)
            rel[w] = 1;
    fprintf(vt_out, "],\"init\":[");
    for (w = 0; w < n0; ++w) {
        if (!rel[w])
            continue;
        fprintf(vt_out, "%s[%d,", first ? "" : ",", w);
        first = 0;
        put_bytes(dict_wordstr(dict, w));
        fputc(',', vt_out);
        put_pron(w);
        fprintf(vt_out, ",%d]", dict_basewid(dict, w));
    }
    free(rel);
    fprintf(vt_out, "]}\n");
}

static void
load_audio(void)
{
    char path[4096];
    FILE *fh;
    long sz;
    if (audio)
        return;
    snprintf(path, sizeof(path), "%s/tests/data/goforward.raw", repo);
    if ((fh = fopen(path, "rb")) == NULL) {
        perror(path);
        exit(3);
    }
    fseek(fh, 0, SEEK_END);
    sz = ftell(fh);
    fseek(fh, 0, SEEK_SET);
    audio = (int16 *)malloc((size_t)sz);
    naudio = fread(audio, 2, (size_t)sz / 2, fh);
    fclose(fh);
}

/* parse "<a> <b> <sid>..." after the command word */
static int
parse_ints(char *p, int *out, int max)
{
    int n = 0;
    char *tok;
    for (tok = strtok(p, " \t\r\n"); tok && n < max; tok = strtok(NULL, " \t\r\n"))
        out[n++] = atoi(tok);
    return n;
}

static void
do_use(const char *kind, int *a, int na)
{
    dict_t *dict = d->dict;
    int decode = a[0], expect = a[1], i, nabs = 0, called = 0, rv = -2, hf = 0, first;
    size_t len = 64;
    char *text;
    const char *hyp = NULL;
    int isjsgf = !strcmp(kind, "jsgf");

    for (i = 2; i < na; ++i)
        len += strlen(sp[a[i]]) + 1;
    text = (char *)calloc(len + 64, 1);
    fprintf(vt_out, "{\"e\":\"Use\",\"kind\":\"%s\",\"dec\":%d,\"expect\":%d,\"words\":[", kind, decode, expect);
    for (i = 2; i < na; ++i)
        fprintf(vt_out, "%s%d", i > 2 ? "," : "", a[i]);
    fprintf(vt_out, "],\"absent\":[");
    for (i = 2; i < na; ++i)
        if (dict_wordid(dict, sp[a[i]]) == BAD_S3WID)
            fprintf(vt_out, "%s%d", nabs++ ? "," : "", a[i]);
    fprintf(vt_out, "],");
    if (isjsgf)
        strcat(text, "#JSGF V1.0;\ngrammar g;\npublic <s> =");
    for (i = 2; i < na; ++i) {
        if (i > 2 || isjsgf)
            strcat(text, " ");
        strcat(text, sp[a[i]]);
    }
    if (isjsgf)
        strcat(text, ";\n");
    /* A grammar naming a word that is not in the dictionary is never loaded through the JSGF call (its
     * failure path is the business of C09, not of this property); the alignment call checks the words
     * itself before it builds anything, so it is always made. */
    if (!isjsgf || nabs == 0) {
        called = 1;
        rv = isjsgf ? decoder_set_jsgf_string(d, text) : decoder_set_align_text(d, text);
    }
    fprintf(vt_out, "\"called\":%d,\"ret\":%d,", called, rv);
    first = 1;
    if (called && rv == 0 && decode) {
        seg_iter_t *seg;
        int32 score;
        load_audio();
        decoder_start_utt(d);
        decoder_process_int16(d, audio, naudio, FALSE, TRUE);
        decoder_end_utt(d);
        hyp = decoder_hyp(d, &score);
        hf = hyp != NULL;
        fprintf(vt_out, "\"hf\":%d,\"hyp\":", hf);
        put_split_bytes(hyp, ' ');
        fprintf(vt_out, ",\"seg\":[");
        for (seg = decoder_seg_iter(d); seg; seg = seg_iter_next(seg)) {
            const char *w = seg_iter_word(seg);
            int wid = w ? dict_wordid(dict, w) : BAD_S3WID;
            if (wid == BAD_S3WID || !dict_real_word(dict, wid))
                continue;
            if (!first)
                fputc(',', vt_out);
            first = 0;
            put_bytes(w);
        }
        fprintf(vt_out, "],");
    } else
        fprintf(vt_out, "\"hf\":0,\"hyp\":[],\"seg\":[],");
    free(text);
    put_obs();
    fprintf(vt_out, "}\n");
}

int
main(int argc, char *argv[])
{
    char *line = (char *)malloc(MAXLINE), cmd[32];
    static int ints[MAXSP];

    if (argc < 3) {
        fprintf(stderr, "usage: dict_drv <trace> <repo>\n");
        return 3;
    }
    repo = argv[2];
    err_set_loglevel(ERR_FATAL);
    vt_open(argv[1]);
    while (fgets(line, MAXLINE, stdin)) {
        if (sscanf(line, "%31s", cmd) != 1 || cmd[0] == '#')
            continue;
        if (!strcmp(cmd, "sp")) {
            int a;
            char *arg = (char *)malloc(MAXLINE);
            if (sscanf(line, "%*s %d %65000s", &a, arg) != 2 || a != nsp + 1 || a >= MAXSP)
                return 3;
            sp[a] = vt_unhex(arg, NULL);
            free(arg);
            nsp = a;
        } else if (!strcmp(cmd, "nosp")) {
            while (nsp > 0)
                free(sp[nsp--]);
        } else if (!strcmp(cmd, "init")) {
            char dname[32], dcase[8], path[4096];
            config_t *c;
            if (sscanf(line, "%*s %31s %7s", dname, dcase) != 2)
                return 3;
            if (d)
                decoder_free(d);
            c = config_init(NULL);
            snprintf(path, sizeof(path), "%s/model/en-us", repo);
            config_set_str(c, "hmm", path);
            if (!strcmp(dname, "turtle")) {
                snprintf(path, sizeof(path), "%s/tests/data/turtle.dic", repo);
                config_set_str(c, "dict", path);
            } else if (strcmp(dname, "model"))
                return 3;
            config_set_str(c, "loglevel", "FATAL");
            config_set_str(c, "samprate", "16000");
            config_set_str(c, "input_endian", "little");
            config_set_str(c, "bestpath", "no");
            if (dcase[0] != '-')
                config_set_str(c, "dictcase", dcase[0] == '1' ? "yes" : "no");
            config_expand(c);
            if ((d = decoder_init(c)) == NULL) {
                fprintf(stderr, "decoder_init failed\n");
                return 4;
            }
            err_set_loglevel(ERR_FATAL);
            free(watch);
            watch = NULL;
            nwatch = 0;
            emit_header(dname, dcase[0] == '-' ? -1 : dcase[0] - '0');
        } else if (!strcmp(cmd, "watch")) {
            int n = parse_ints(line + 5, ints, MAXSP), i;
            free(watch);
            watch = (int *)malloc(sizeof(int) * (size_t)(n + 1));
            for (i = 0; i < n; ++i) {
                if (ints[i] < 1 || ints[i] > nsp)
                    return 3;
                watch[i] = ints[i];
            }
            nwatch = n;
        } else if (!strcmp(cmd, "add")) {
            int sid, u, rv;
            char *arg = (char *)malloc(MAXLINE), *phones, *copy, *tok;
            int first = 1;
            if (sscanf(line, "%*s %d %d %65000s", &sid, &u, arg) != 3 || sid < 1 || sid > nsp || !d)
                return 3;
            phones = vt_unhex(arg, NULL);
            free(arg);
            rv = decoder_add_word(d, sp[sid], phones, u);
            fprintf(vt_out, "{\"e\":\"Add\",\"s\":%d,\"u\":%d,\"slen\":%d,\"toks\":[", sid, u, (int)strlen(phones));
            copy = strdup(phones);
            for (tok = strtok(copy, " \t\r\n"); tok; tok = strtok(NULL, " \t\r\n")) {
                if (!first)
                    fputc(',', vt_out);
                first = 0;
                vt_str(vt_out, tok);
            }
            free(copy);
            free(phones);
            fprintf(vt_out, "],\"ret\":%d,\"srch\":%d,", rv, d->search != NULL);
            put_obs();
            fprintf(vt_out, "}\n");
        } else if (!strcmp(cmd, "check")) {
            if (!d)
                return 3;
            fprintf(vt_out, "{\"e\":\"Check\",");
            put_obs();
            fprintf(vt_out, "}\n");
        } else if (!strcmp(cmd, "scan")) {
            if (!d)
                return 3;
            fprintf(vt_out, "{\"e\":\"Scan\",\"n\":%d,\"selfmap\":%d,\"presum\":%d}\n", dict_size(d->dict), selfmap(),
                    presum());
        } else if (!strcmp(cmd, "jsgf") || !strcmp(cmd, "align")) {
            int n = parse_ints(line + strlen(cmd) + 1, ints, MAXSP), i;
            if (n < 3 || !d)
                return 3;
            for (i = 2; i < n; ++i)
                if (ints[i] < 1 || ints[i] > nsp)
                    return 3;
            do_use(cmd, ints, n);
        } else if (!strcmp(cmd, "end")) {
            if (d)
                decoder_free(d);
            d = NULL;
        } else
            return 3;
    }
    if (d)
        decoder_free(d);
    while (nsp > 0)
        free(sp[nsp--]);
    free(watch);
    free(audio);
    free(line);
    vt_close();
    return 0;
}
