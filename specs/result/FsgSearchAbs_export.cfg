SPECIFICATION Spec
CONSTANTS
  Family <- FamilyAll
  NFrames = 2
  Deltas <- DeltasMC
  MaxHist = 5
  MaxLive = 2
INVARIANTS DumpHist DumpGrammars
CHECK_DEADLOCK FALSE
