----------------------------- MODULE ResultTrace -----------------------------
(***************************************************************************)
(* Layer C for C01 and C03: validates executions of the real decoder       *)
(* recorded by harness/decoder/dec_drv.c.  WHICH selects the clauses:      *)
(* "C01" sentence/path-prefix clauses, "C03" tiling/score/frame clauses.   *)
(***************************************************************************)
EXTENDS ResultPred, TLC, Json, IOUtils

JTrace == ndJsonDeserialize(IOEnv.TRACE)
WHICH == IOEnv.WHICH

VARIABLES l,        \* next line
          g,        \* user's grammar: [ok, G, A]
          utt       \* frame accounting of the current utterance

Ev == JTrace[l]
NoGrammar == [ok |-> FALSE, G |-> [n |-> 1, start |-> 0, final |-> 0], A |-> {}]
NoUtt == [fed |-> 0, retsum |-> 0, searched |-> 0, started |-> FALSE, ended |-> FALSE, size |-> 1, shift |-> 1]

TInit == l = 1 /\ g = NoGrammar /\ utt = NoUtt /\ TLCSet(1, 0)

THeader == /\ Ev.e = "Header"
           /\ g' = NoGrammar
           /\ utt' = [NoUtt EXCEPT !.size = IF Ev.ok THEN Ev.size ELSE 1, !.shift = IF Ev.ok THEN Ev.shift ELSE 1]

\* a grammar that was accepted (ret = 0) becomes the active one; a refused one leaves the old one
TGrammar == /\ Ev.e = "Grammar"
            /\ g' = IF Ev.ret = 0 /\ "arcs" \in DOMAIN Ev
                    THEN [ok |-> TRUE, G |-> [n |-> Ev.n, start |-> Ev.start, final |-> Ev.final],
                          A |-> ToSet(Ev.arcs)]
                    ELSE g
            /\ UNCHANGED utt

TStart == /\ Ev.e = "Start"
          /\ utt' = IF Ev.ret = 0 THEN [utt EXCEPT !.fed = 0, !.retsum = 0, !.searched = 0, !.started = TRUE, !.ended = FALSE]
                    ELSE utt
          /\ UNCHANGED g

\* C03: a processing call returns the number of frames it searched
TFeed == /\ Ev.e = "Feed"
         /\ (WHICH = "C03" /\ utt.started /\ ~utt.ended) => (Ev.ret >= 0 /\ Ev.ret = Ev.searched)
         /\ utt' = IF utt.started /\ ~utt.ended /\ Ev.ret >= 0
                   THEN [utt EXCEPT !.fed = @ + Ev.n, !.retsum = @ + Ev.ret, !.searched = @ + Ev.searched]
                   ELSE utt
         /\ UNCHANGED g

\* C03: returned counts + frames searched while ending = frames the front end makes of the samples fed
TEnd == /\ Ev.e = "End"
        /\ (WHICH = "C03" /\ utt.started /\ ~utt.ended /\ Ev.ret >= 0) =>
               utt.retsum + Ev.searched = NF(utt.fed, utt.size, utt.shift)
        /\ utt' = IF utt.started /\ ~utt.ended
                  THEN [utt EXCEPT !.searched = @ + Ev.searched, !.ended = TRUE]
                  ELSE utt
        /\ UNCHANGED g

Segs == Ev.segs
Hyp  == Ev.hyp

C01OK == IF Ev.final
         THEN FinalSentenceOK(g.G, g.A, Hyp, Ev.hypnull, Segs, Ev.segsnull)
         ELSE PartialPathOK(g.G, g.A, Hyp, Ev.hypnull, Segs, Ev.segsnull)

C03OK == /\ Ev.scored = utt.searched                       \* the harness' own count agrees with the trace
         /\ Ev.in_order
         /\ Tiles(Segs, utt.searched)
         /\ NullsMoveNoTime(Segs)
         /\ (~Ev.hypnull /\ ~Ev.segsnull) => (HypIsSegWords(Hyp, Segs) /\ ScoreAdditive(Segs, Ev.score))
         /\ Ev.hypnull = Ev.segsnull \/ (Ev.hypnull /\ SegWords(Segs) = <<>>)   \* only fillers: no string, but segments
         /\ \A i \in DOMAIN Segs : Ev.nfr >= Segs[i].ef + 1

TResult == /\ Ev.e = "Result"
           \* without an active grammar there is nothing to report
           /\ ~g.ok => (Ev.hypnull /\ Ev.segsnull)
           /\ (g.ok /\ WHICH = "C01") => C01OK
           /\ (g.ok /\ WHICH = "C03") => C03OK
           /\ UNCHANGED <<g, utt>>

TNext == /\ l <= Len(JTrace)
         /\ (THeader \/ TGrammar \/ TStart \/ TFeed \/ TEnd \/ TResult)
         /\ l' = l + 1
         /\ TLCSet(1, l)

TSpec == TInit /\ [][TNext]_<<l, g, utt>>

Accepted == IF TLCGet(1) = Len(JTrace) THEN TRUE
            ELSE PrintT(<<"REJECTED-AT", TLCGet(1) + 1>>) /\ FALSE
=============================================================================
