----------------------------- MODULE ResultPred -----------------------------
(***************************************************************************)
(* Layer A for C01 (results are sentences of the active grammar) and C03   *)
(* (the segmentation tiles the utterance and agrees with hypothesis and    *)
(* score).  Pure predicates over what the public API reports:              *)
(*                                                                         *)
(*   hyp   sequence of words (the hypothesis string split at blanks)       *)
(*   segs  sequence of records [b, k, sf, ef, ascr, lscr] where            *)
(*         b = word with the "(n)" alternate marker removed,               *)
(*         k = 0 real word, 1 filler, 2 grammar null transition,           *)
(*             3 word unknown to the dictionary                            *)
(*   G, A  the grammar the user loaded (record) and its arc set (Regular)  *)
(***************************************************************************)
EXTENDS Regular

IsNull(s)   == s.k = 2
IsFiller(s) == s.k = 1

\* words of a segmentation with fillers and nulls removed (alternate markers already removed in b)
SegWords(segs) == LET ws == SelectSeq(segs, LAMBDA s : ~IsNull(s) /\ ~IsFiller(s))
                  IN [i \in DOMAIN ws |-> ws[i].b]

\* the time-bearing segments (real words and fillers)
Timed(segs) == SelectSeq(segs, LAMBDA s : ~IsNull(s))

-----------------------------------------------------------------------------
(* C01 *)
FinalSentenceOK(G, A, hyp, hypnull, segs, segsnull) ==
    /\ hypnull \/ Accepts(G, A, hyp)
    /\ segsnull \/ Accepts(G, A, SegWords(segs))
    \* "if no such path survives, no hypothesis is returned": a result either is a sentence or is absent;
    \* hypothesis string and segmentation tell the same story
    /\ (~hypnull /\ ~segsnull) => hyp = SegWords(segs)

PartialPathOK(G, A, hyp, hypnull, segs, segsnull) ==
    /\ hypnull \/ IsPathPrefix(G, A, hyp)
    /\ segsnull \/ IsPathPrefix(G, A, SegWords(segs))
    /\ (~hypnull /\ ~segsnull) => hyp = SegWords(segs)

-----------------------------------------------------------------------------
(* C03 *)
\* real and filler segments tile [0, last ef] without gap or overlap, each at least one frame,
\* none past the F frames searched
Tiles(segs, F) ==
    LET t == Timed(segs)
    IN /\ t # <<>> => t[1].sf = 0
       /\ \A i \in DOMAIN t : t[i].ef >= t[i].sf /\ t[i].sf >= 0 /\ t[i].ef <= F - 1
       /\ \A i \in DOMAIN t : i > 1 => t[i].sf = t[i-1].ef + 1

\* the last time-bearing segment before position i, or 0 if none
RECURSIVE PrevTimed(_, _)
PrevTimed(segs, i) == IF i <= 1 THEN 0
                      ELSE IF ~IsNull(segs[i-1]) THEN i - 1 ELSE PrevTimed(segs, i - 1)

\* grammar null transitions are zero-length markers that move no time
NullsMoveNoTime(segs) ==
    \A i \in DOMAIN segs : IsNull(segs[i]) =>
        /\ segs[i].sf = segs[i].ef
        /\ LET p == PrevTimed(segs, i) IN IF p = 0 THEN segs[i].ef <= 0 ELSE segs[i].ef = segs[p].ef

RECURSIVE SumScores(_)
SumScores(segs) == IF segs = <<>> THEN 0 ELSE Head(segs).ascr + Head(segs).lscr + SumScores(Tail(segs))

ScoreAdditive(segs, score) == SumScores(segs) = score

HypIsSegWords(hyp, segs) == hyp = SegWords(segs)

\* number of frames the front end makes of n samples (window Size, shift Shift); FrameStream (C06)
NF(n, Size, Shift) == IF n = 0 THEN 0
                      ELSE IF n < Size THEN 1
                      ELSE 1 + ((n - Size) \div Shift) + 1
=============================================================================
