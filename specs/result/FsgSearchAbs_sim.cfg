SPECIFICATION Spec
CONSTANTS
  Family <- FamilyAll
  NFrames = 6
  Deltas <- DeltasMC
  MaxHist = 12
  MaxLive = 3
INVARIANTS TypeOK FrameOrdered Connected PartialInv FinalInv
CHECK_DEADLOCK FALSE
