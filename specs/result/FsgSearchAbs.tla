---------------------------- MODULE FsgSearchAbs ----------------------------
(***************************************************************************)
(* Layer B for C01 / C03: the token-passing FSG search of fsg_search.c and *)
(* fsg_history.c, abstracted from acoustics.                               *)
(*                                                                         *)
(* What is kept (one action per step of fsg_search_step / _start):         *)
(*   - the history table as an append-only sequence of                     *)
(*       [arc, fr, sc, pred]   (entry 1 = the dummy entry, frame -1)       *)
(*   - word exits in a frame (fsg_search_pnode_exit), with ARBITRARY       *)
(*     acoustic increments and ARBITRARY pruning: any live word may exit,  *)
(*     stay or be dropped                                                  *)
(*   - one-step propagation through null arcs of the null-closed FSG       *)
(*     (fsg_search_null_prop), any subset surviving the beam               *)
(*   - word transitions only into arcs leaving the entry's destination     *)
(*     state (fsg_search_word_trans)                                       *)
(*   - result extraction transcribed: fsg_search_find_exit (latest frame   *)
(*     that has an entry, best score, final-state constraint and tie rule) *)
(*     backtrace to the hypothesis, fsg_seg_bp2itor for segments           *)
(* What is abstracted: HMMs, lextree, contexts, scores (free choice from   *)
(* Deltas), beams (free choice).  So the invariants hold for every         *)
(* acoustic input and every beam setting at the bounds checked.            *)
(*                                                                         *)
(* Invariants = the Layer-A predicates of ResultPred evaluated on what     *)
(* the transcribed extraction would report after every frame (partial)     *)
(* and after Finish (final).                                               *)
(***************************************************************************)
EXTENDS ResultPred, TLC, SequencesExt

CONSTANTS Family,     \* set of user grammars [n, start, final, arcs]
          NFrames,    \* frames of audio
          Deltas,     \* possible acoustic increments of a word (<= 0)
          MaxHist,    \* bound on the history table length
          MaxLive     \* bound on simultaneously live words

VARIABLES ug,      \* the user's grammar (fixed at Init)
          t,       \* fsgs->frame: next frame to search (frames searched so far)
          hist,    \* history table
          live,    \* words in progress: set of [arc, pred]
          phase,   \* "exit" | "null" | "trans" | "idle" | "done"
          mark,    \* bpidx_start: first entry of the current frame
          cur,     \* scan position of null propagation
          nend,    \* number of entries when null propagation started
          exited   \* live words that already produced an exit in this frame

vars == <<ug, t, hist, live, phase, mark, cur, nend, exited>>

SIL == "<sil>"
UA == ug.arcs
N == States(ug)

\* The search's own FSG: word arcs, nulls closed transitively, a silence self-loop at every state
WordArcs == {a \in UA : a[3] # EPS}
ClosedNulls == {<<p[1], p[2], EPS, 0>> : p \in {q \in N \X N : q[1] # q[2] /\ q[2] \in EpsClose(UA, {q[1]})}}
SilArcs == {<<s, s, SIL, -3>> : s \in N}
SA == WordArcs \cup ClosedNulls \cup SilArcs

Dummy == <<-1, ug.start, EPS, 0>>
Dest(e) == e.arc[2]
Kind(a) == IF a[3] = EPS THEN 2 ELSE IF a[3] = SIL THEN 1 ELSE 0

-----------------------------------------------------------------------------
Init == /\ ug \in Family
        /\ t = -1
        /\ hist = <<[arc |-> Dummy, fr |-> -1, sc |-> 0, pred |-> 0]>>
        /\ live = {}
        /\ phase = "null"          \* fsg_search_start: null_prop, word_trans at frame -1
        /\ mark = 1 /\ cur = 1 /\ nend = 1
        /\ exited = {}

\* fsg_search_pnode_exit: a live word leaves through its arc in frame t.  The active list is walked
\* once per frame, so a word exits at most once per frame; the walk order is immaterial to the
\* properties, so exits are taken in one canonical order (that of SetToSeq) to avoid exploring
\* permutations of the same set of exits.
LiveSeq == SetToSeq(live)
Idx(w) == CHOOSE i \in DOMAIN LiveSeq : LiveSeq[i] = w
WordExit(w, d) ==
    /\ phase = "exit" /\ w \in live /\ w \notin exited /\ Len(hist) < MaxHist
    /\ \A x \in exited : Idx(x) < Idx(w)
    /\ hist' = Append(hist, [arc |-> w.arc, fr |-> t, sc |-> hist[w.pred].sc + w.arc[4] + d, pred |-> w.pred])
    /\ exited' = exited \cup {w}
    /\ UNCHANGED <<ug, t, live, phase, mark, cur, nend>>

EndExits == /\ phase = "exit"
            /\ phase' = "null" /\ cur' = mark /\ nend' = Len(hist) /\ exited' = {}
            /\ UNCHANGED <<ug, t, hist, live, mark>>

\* fsg_search_null_prop: entry `cur' is propagated ONE step over any subset of the null arcs leaving
\* its destination state (those within the beam); entries created here are not scanned again
NullStep(S) ==
    /\ phase = "null" /\ cur <= nend
    /\ S \subseteq {a \in SA : a[3] = EPS /\ a[1] = Dest(hist[cur])}
    /\ Len(hist) + Cardinality(S) <= MaxHist
    /\ LET new == SetToSeq(S)
       IN hist' = hist \o [i \in DOMAIN new |->
                              [arc |-> new[i], fr |-> hist[cur].fr, sc |-> hist[cur].sc + new[i][4], pred |-> cur]]
    /\ cur' = cur + 1
    /\ UNCHANGED <<ug, t, live, phase, mark, nend, exited>>

EndNulls == /\ phase = "null" /\ cur > nend
            /\ phase' = "trans"
            /\ UNCHANGED <<ug, t, hist, live, mark, cur, nend, exited>>

\* fsg_search_word_trans: an entry of this frame enters a word (or filler) arc that leaves its
\* destination state
Enter(i, a) ==
    /\ phase = "trans" /\ i \in mark..Len(hist)
    /\ a \in SA /\ a[3] # EPS /\ a[1] = Dest(hist[i])
    /\ Cardinality(live) < MaxLive
    /\ live' = live \cup {[arc |-> a, pred |-> i]}
    /\ UNCHANGED <<ug, t, hist, phase, mark, cur, nend, exited>>

\* beam pruning: any live word may die at the end of a frame
Prune(w) == /\ phase = "trans" /\ w \in live
            /\ live' = live \ {w}
            /\ UNCHANGED <<ug, t, hist, phase, mark, cur, nend, exited>>

\* end of fsg_search_step / fsg_search_start: ++frame.  The API may be called now (phase idle).
EndFrame == /\ phase = "trans"
            /\ t' = t + 1 /\ phase' = "idle" /\ cur' = 0 /\ nend' = 0
            /\ UNCHANGED <<ug, hist, live, mark, exited>>

\* next decoder_process call searches one more frame
NextFrame == /\ phase = "idle" /\ t < NFrames
             /\ phase' = "exit" /\ mark' = Len(hist) + 1
             /\ UNCHANGED <<ug, t, hist, live, cur, nend, exited>>

\* decoder_end_utt -> fsg_search_finish
Finish == /\ phase = "idle"
          /\ phase' = "done" /\ live' = {}
          /\ UNCHANGED <<ug, t, hist, mark, cur, nend, exited>>

\* named so that TLC's coverage report shows them
DoWordExit == \E w \in live, d \in Deltas : WordExit(w, d)
DoNullStep == \E S \in SUBSET {a \in SA : a[3] = EPS} : NullStep(S)
DoEnter == \E i \in DOMAIN hist, a \in SA : Enter(i, a)
DoPrune == \E w \in live : Prune(w)

Next == DoWordExit \/ EndExits \/ DoNullStep \/ EndNulls \/ DoEnter \/ DoPrune \/ EndFrame \/ NextFrame \/ Finish

Spec == Init /\ [][Next]_vars

-----------------------------------------------------------------------------
(* Result extraction, transcribed. *)

\* fsg_search_find_exit(fsgs, fsgs->frame, final): 0 = no hypothesis
RECURSIVE Scan(_, _, _, _, _)
Scan(i, lastfr, final, bestsc, besti) ==
    IF i <= 1 \/ hist[i].fr # lastfr THEN besti
    ELSE LET e == hist[i]
             isfinal == Dest(e) = ug.final
         IN IF besti # 0 /\ e.sc = bestsc /\ isfinal THEN Scan(i - 1, lastfr, final, bestsc, i)
            ELSE IF (besti = 0 \/ e.sc > bestsc) /\ (~final \/ isfinal) THEN Scan(i - 1, lastfr, final, e.sc, i)
            ELSE Scan(i - 1, lastfr, final, bestsc, besti)

FindExit(final) == IF Len(hist) <= 1 THEN 0 ELSE Scan(Len(hist), hist[Len(hist)].fr, final, 0, 0)

RECURSIVE Chain(_)
Chain(i) == IF i <= 1 THEN <<>> ELSE Append(Chain(hist[i].pred), i)

\* fsg_seg_bp2itor
SegOf(i) == LET e == hist[i]
                ph == hist[e.pred]
            IN [w |-> IF e.arc[3] = EPS THEN "(NULL)" ELSE e.arc[3],
                b |-> IF e.arc[3] = EPS THEN "(NULL)" ELSE e.arc[3], k |-> Kind(e.arc),
                ef |-> e.fr, sf |-> IF ph.fr + 1 > e.fr THEN e.fr ELSE ph.fr + 1,
                lscr |-> e.arc[4], ascr |-> e.sc - ph.sc - e.arc[4]]
SegsOf(i) == LET c == Chain(i) IN [j \in DOMAIN c |-> SegOf(c[j])]
\* fsg_search_hyp: words of the chain that are neither null nor filler
HypOf(i) == SegWords(SegsOf(i))

ResultOK(final) ==
    LET i == FindExit(final)
    IN i # 0 =>
         LET segs == SegsOf(i)
             hyp == HypOf(i)
         IN /\ IF final THEN FinalSentenceOK(ug, UA, hyp, hyp = <<>>, segs, FALSE)
                        ELSE PartialPathOK(ug, UA, hyp, hyp = <<>>, segs, FALSE)
            /\ Tiles(segs, t)
            /\ NullsMoveNoTime(segs)
            /\ ScoreAdditive(segs, hist[i].sc)

PartialInv == phase = "idle" => ResultOK(FALSE)
FinalInv == phase = "done" => ResultOK(TRUE)

TypeOK == /\ t \in -1..NFrames
          /\ \A i \in DOMAIN hist : hist[i].pred < i /\ hist[i].fr <= t
          /\ \A w \in live : w.pred \in DOMAIN hist

\* history entries are in frame order (what find_exit relies on)
FrameOrdered == \A i, j \in DOMAIN hist : i < j => hist[i].fr <= hist[j].fr
\* every entry continues its predecessor: the arc leaves the predecessor's destination state
Connected == \A i \in DOMAIN hist : i > 1 => hist[i].arc[1] = Dest(hist[hist[i].pred])
=============================================================================
