-------------------------- MODULE MC_FsgSearchAbs --------------------------
EXTENDS FsgSearchAbs, Json
G(n, s, f, arcs) == [n |-> n, start |-> s, final |-> f, arcs |-> arcs]
\* linear, optional word, loop, null chain into the final state, unreachable final, alternatives
\* sharing a word, start = final
GLinear   == G(3, 0, 2, {<<0,1,"a",0>>, <<1,2,"b",0>>})
GOptional == G(3, 0, 2, {<<0,1,"a",0>>, <<1,2,"b",-1>>, <<1,2,"",-2>>})
GLoop     == G(2, 0, 1, {<<0,0,"a",-1>>, <<0,1,"b",0>>})
GNullEnd  == G(4, 0, 3, {<<0,1,"a",0>>, <<1,2,"",0>>, <<2,3,"",-1>>})
GNoFinal  == G(3, 0, 2, {<<0,1,"a",0>>, <<1,1,"b",0>>})
GShared   == G(4, 0, 3, {<<0,1,"a",-1>>, <<0,2,"a",-1>>, <<1,3,"b",0>>, <<2,3,"c",0>>})
GEmptyOK  == G(2, 0, 0, {<<0,1,"a",0>>, <<1,0,"b",0>>})
GNullStart == G(3, 0, 2, {<<0,1,"",0>>, <<1,2,"a",0>>, <<0,2,"b",-1>>})
DeltasMC == {0, -1}
FamilySmall == {GLinear, GOptional, GLoop, GNullEnd}
FamilyAll == {GLinear, GOptional, GLoop, GNullEnd, GNoFinal, GShared, GEmptyOK, GNullStart}
(* export of every history the model reaches at a point where the API may be called (after a frame, after the  *)
(* end of the utterance), for execution on the real result-extraction code                                     *)
FamilySeq == <<GLinear, GOptional, GLoop, GNullEnd, GNoFinal, GShared, GEmptyOK, GNullStart>>
GIndex == CHOOSE i \in DOMAIN FamilySeq : FamilySeq[i] = ug
DumpHist == (phase \in {"idle", "done"} /\ Len(hist) > 1) =>
               PrintT(<<"HIST", ToJson([g |-> GIndex, t |-> t, final |-> phase = "done",
                                        hist |-> [i \in 2..Len(hist) |-> <<hist[i].arc[1], hist[i].arc[2], hist[i].arc[3],
                                                                            hist[i].fr, hist[i].sc, hist[i].pred>>]])>>)
GrammarsJson == ToJson([i \in DOMAIN FamilySeq |-> [n |-> FamilySeq[i].n, start |-> FamilySeq[i].start, final |-> FamilySeq[i].final,
                                                    arcs |-> SetToSeq(FamilySeq[i].arcs)]])
DumpGrammars == TLCGet("level") > 1 \/ PrintT(<<"GRAMMARS", GrammarsJson>>)
=============================================================================
