SPECIFICATION Spec
CONSTANTS
  Family <- FamilyAll
  NFrames = 3
  Deltas <- DeltasMC
  MaxHist = 6
  MaxLive = 2
INVARIANTS TypeOK FrameOrdered Connected PartialInv FinalInv
CHECK_DEADLOCK FALSE
