----------------------------- MODULE MFFormats -----------------------------
(* The file formats of a SoundSwallower acoustic-model directory, as the documentation and the loaders define
   them, written as readers over MFBytes files.  Every reader answers

       [st |-> "ok",  d |-> <what the file announces>, end |-> <first byte it does not need>, flds |-> <...>]
       [st |-> "bad", why |-> <the rule of the format that the bytes break>]
       [st |-> "unk", why |-> <a byte that was needed but not supplied>]

   "bad" is claimed only for rules that the format's documentation states and the unchanged loaders enforce
   (s3file.h's description of the container, the format descriptions embedded in mdef and sendump, the E_ERROR /
   E_FATAL checks of each loader): a length-limited read that cannot be satisfied, an announced element count
   that differs from the product of the announced dimensions, a wrong byte-order word, a missing "endhdr", a
   checksum that does not match, a negative length or count.  Rules the format implies but no loader checks
   (senone ids below n_sen, #rows of a senone dump equal to the number of densities, ...) are NOT claimed.

   flds lists every count, dimension, length and marker the reader consumed, with its offset: the damage
   enumeration (MFDamage) is derived from it, so which fields exist is decided by the format, not by the driver. *)
EXTENDS MFBytes

Bad(why) == [st |-> "bad", why |-> why]
Unk(why) == [st |-> "unk", why |-> why]
St(s, why) == [st |-> s, why |-> why]
Fld(nm, off, ty, val) == [nm |-> nm, off |-> off, ty |-> ty, val |-> val]

(* ------------------------------------------------------------------------------------------------------------
   The s3 container (s3file.h):   "s3\n"  { <name> <value>\n | #comment\n }  "endhdr\n"  <byte-order word>
   then binary words.  Checksumming is on when a header named chksum0 is present (whatever its value); then the
   last word read is followed by the checksum of everything read after the byte-order word.  A file that does
   not start with "s3\n" is in the old format: a version line, comment lines, "*end_comment*\n".
   s3file_parse_header compares words with strncmp(word, "endhdr", length of word): every prefix of "endhdr"
   ends the header; likewise every prefix of "*end_comment*\n". *)
ENDHDR == <<101, 110, 100, 104, 100, 114>>
CHKSUM0 == <<99, 104, 107, 115, 117, 109, 48>>
ENDCOMMENT == <<42, 101, 110, 100, 95, 99, 111, 109, 109, 101, 110, 116, 42, 10>>
MAGIC == 287454020              \* 0x11223344
MAGIC_SWAPPED == 1144201745     \* 0x44332211

RECURSIVE HdrLines(_, _, _, _)
HdrLines(f, o, chk, flds) ==
    IF o >= f.len THEN Bad("s3:header-not-ended")
    ELSE LET e == Eol(f, o) IN
         IF e < 0 THEN Unk("s3:header-bytes")
         ELSE LET ws == SkipSp(f, o, e) IN
              IF ws = e THEN Bad("s3:blank-header-line")
              ELSE LET we == SkipWd(f, ws, e)
                       w == Slice(f, ws, we)
                   IN  IF w[1] = 35 THEN HdrLines(f, e, chk, flds)
                       ELSE IF IsPrefixOf(w, ENDHDR)
                            THEN [st |-> "ok", pos |-> e, chk |-> chk, flds |-> Append(flds, Fld("endhdr", ws, "txt", we - ws))]
                       ELSE LET vs == SkipSp(f, we, e) IN
                            IF vs = e THEN Bad("s3:header-without-value")
                            ELSE HdrLines(f, e, chk \/ w = CHKSUM0,
                                          Append(Append(flds, Fld("hdr-name", ws, "txt", we - ws)),
                                                 Fld("hdr-value", vs, "txt", SkipWd(f, vs, e) - vs)))

RECURSIVE OldHdr(_, _)
OldHdr(f, o) ==
    IF o >= f.len THEN Bad("s3:old-header-not-ended")
    ELSE LET e == Eol(f, o) IN
         IF e < 0 THEN Unk("s3:header-bytes")
         ELSE IF IsPrefixOf(Slice(f, o, e), ENDCOMMENT) THEN [st |-> "ok", pos |-> e, chk |-> FALSE, flds |-> <<>>]
         ELSE OldHdr(f, e)

S3Header(f) ==
    IF ~Present(f) THEN Bad("missing")
    ELSE IF f.len = 0 THEN Bad("s3:empty")
    ELSE LET e1 == Eol(f, 0) IN
         IF e1 < 0 THEN Unk("s3:header-bytes")
         ELSE LET new == f.len >= 3 /\ At(f, 0) = 115 /\ At(f, 1) = 51 /\ At(f, 2) = 10
                  H == IF new THEN HdrLines(f, 3, FALSE, <<Fld("s3", 0, "txt", 2)>>) ELSE OldHdr(f, e1)
              IN  IF H.st # "ok" THEN H
                  ELSE IF ~Inside(f, H.pos, 4) THEN Bad("s3:byte-order-word-missing")
                  ELSE IF ~Known(f, H.pos, 4) THEN Unk("s3:byte-order-word")
                  ELSE LET m == Rd32(f, H.pos, FALSE) IN
                       IF m # MAGIC /\ m # MAGIC_SWAPPED THEN Bad("s3:bad-byte-order-word")
                       ELSE [st |-> "ok", pos |-> H.pos + 4, sw |-> (m = MAGIC_SWAPPED), chk |-> H.chk,
                             flds |-> Append(H.flds, Fld("byte-order", H.pos, "magic", m))]

(* after the last data word: the checksum, when announced.  "T" good or not announced, "F", "U" *)
ChkState(f, H, dend) ==
    IF ~H.chk THEN "T"
    ELSE IF ~Inside(f, dend, 4) THEN "F"
    ELSE IF ~Known(f, dend, 4) THEN "U"
    ELSE LET c == Chk(f, H.pos, dend, H.sw) IN
         IF c[1] < 0 THEN "U" ELSE IF c = Halves(f, dend, H.sw) THEN "T" ELSE "F"
EndOf(H, dend) == IF H.chk THEN dend + 4 ELSE dend
ChkFlds(H, dend) == IF H.chk THEN <<Fld("checksum", dend, "sum", 0)>> ELSE <<>>

WordsAt(f, o, n, sw) == [i \in 1 .. n |-> Rd32(f, o + 4 * (i - 1), sw)]

(* ------------------------------------------------------------------------------------------------------------
   means / variances (ms_gauden.c gauden_param_read):
   n_mgau n_feat n_density veclen[n_feat] n  float[n]     with n = n_mgau * n_density * sum(veclen) *)
Gauden(f) ==
    LET H == S3Header(f) IN
    IF H.st # "ok" THEN H
    ELSE LET p == H.pos
             s3 == NeedW(f, p, 3)
         IN  IF s3 # "ok" THEN St(s3, "gau:dimensions-cut")
             ELSE LET nm == Rd32(f, p, H.sw)
                      nf == Rd32(f, p + 4, H.sw)
                      nd == Rd32(f, p + 8, H.sw)
                  IN  IF nf < 0 THEN Bad("gau:negative")
                      ELSE LET sv == NeedW(f, p + 12, nf) IN
                           IF sv # "ok" THEN St(sv, "gau:veclen-cut")
                           ELSE LET vl == WordsAt(f, p + 12, nf, H.sw)
                                    q == p + 12 + 4 * nf
                                    sn == NeedW(f, q, 1)
                                IN  IF sn # "ok" THEN St(sn, "gau:count-cut")
                                    ELSE LET n == Rd32(f, q, H.sw)
                                             dend == q + 4 + 4 * n
                                         IN  IF nm < 0 \/ nd < 0 \/ n < 0 \/ (\E i \in 1 .. nf : vl[i] < 0) THEN Bad("gau:negative")
                                             ELSE IF ~ProdIs(n, <<nm, nd, AddAll(vl, 1)>>) THEN Bad("gau:count-is-not-product")
                                             ELSE IF n > (f.len - (q + 4)) \div 4 THEN Bad("gau:data-cut")
                                             ELSE LET c == ChkState(f, H, dend) IN
                                                  IF c = "F" THEN Bad("gau:checksum")
                                                  ELSE IF c = "U" THEN [st |-> "unk", why |-> "gau:checksum", pos |-> H.pos, dend |-> dend, sw |-> H.sw]
                                                  ELSE [st |-> "ok", pos |-> H.pos, dend |-> dend, end |-> EndOf(H, dend), sw |-> H.sw, chk |-> H.chk,
                                                        d |-> [n_mgau |-> nm, n_feat |-> nf, n_density |-> nd, veclen |-> vl],
                                                        flds |-> H.flds \o <<Fld("n_mgau", p, "i32", nm), Fld("n_feat", p + 4, "i32", nf),
                                                                             Fld("n_density", p + 8, "i32", nd)>>
                                                                 \o [i \in 1 .. nf |-> Fld("veclen", p + 12 + 4 * (i - 1), "i32", vl[i])]
                                                                 \o <<Fld("n", q, "i32", n), Fld("data", q + 4, "data", 4 * n)>>
                                                                 \o ChkFlds(H, dend)]

(* ------------------------------------------------------------------------------------------------------------
   transition matrices (tmat.c):  n_tmat n_src n_dst n float[n],  n_dst = n_src + 1, n = n_tmat*n_src*n_dst,
   n_tmat < 32767 *)
Tmat(f) ==
    LET H == S3Header(f) IN
    IF H.st # "ok" THEN H
    ELSE LET p == H.pos
             s4 == NeedW(f, p, 4)
         IN  IF s4 # "ok" THEN St(s4, "tmat:dimensions-cut")
             ELSE LET w == WordsAt(f, p, 4, H.sw)
                      dend == p + 16 + 4 * w[4]
                  IN  IF w[1] >= 32767 THEN Bad("tmat:too-many")
                      ELSE IF ~(w[2] < 2147483647 /\ w[3] = w[2] + 1) THEN Bad("tmat:n_dst-is-not-n_src+1")
                      ELSE IF ~ProdIs(w[4], <<w[1], w[2], w[3]>>) THEN Bad("tmat:count-is-not-product")
                      ELSE IF w[4] > (f.len - (p + 16)) \div 4 THEN Bad("tmat:data-cut")
                      ELSE LET c == ChkState(f, H, dend) IN
                           IF c = "F" THEN Bad("tmat:checksum")
                           ELSE IF c = "U" THEN [st |-> "unk", why |-> "tmat:checksum", pos |-> H.pos, dend |-> dend, sw |-> H.sw]
                           ELSE [st |-> "ok", pos |-> H.pos, dend |-> dend, end |-> EndOf(H, dend), sw |-> H.sw, chk |-> H.chk,
                                 d |-> [n_tmat |-> w[1], n_state |-> w[2]],
                                 flds |-> H.flds \o <<Fld("n_tmat", p, "i32", w[1]), Fld("n_src", p + 4, "i32", w[2]),
                                                      Fld("n_dst", p + 8, "i32", w[3]), Fld("n", p + 12, "i32", w[4]),
                                                      Fld("data", p + 16, "data", 4 * w[4])>> \o ChkFlds(H, dend)]

(* ------------------------------------------------------------------------------------------------------------
   mixture weights (ptm_mgau.c read_mixw, ms_senone.c senone_mixw_read):  n_sen n_feat n_comp n float[n].
   read_mixw does not look at the checksum, senone_mixw_read does: the reader reports it separately (csum). *)
Mixw(f) ==
    LET H == S3Header(f) IN
    IF H.st # "ok" THEN H
    ELSE LET p == H.pos
             s4 == NeedW(f, p, 4)
         IN  IF s4 # "ok" THEN St(s4, "mixw:dimensions-cut")
             ELSE LET w == WordsAt(f, p, 4, H.sw)
                      dend == p + 16 + 4 * w[4]
                  IN  IF ~ProdIs(w[4], <<w[1], w[2], w[3]>>) THEN Bad("mixw:count-is-not-product")
                      ELSE IF w[4] > (f.len - (p + 16)) \div 4 THEN Bad("mixw:data-cut")
                      ELSE [st |-> "ok", pos |-> H.pos, dend |-> dend, end |-> EndOf(H, dend), sw |-> H.sw, chk |-> H.chk, csum |-> ChkState(f, H, dend),
                            d |-> [n_sen |-> w[1], n_feat |-> w[2], n_comp |-> w[3]],
                            flds |-> H.flds \o <<Fld("n_sen", p, "i32", w[1]), Fld("n_feat", p + 4, "i32", w[2]),
                                                 Fld("n_comp", p + 8, "i32", w[3]), Fld("n", p + 12, "i32", w[4]),
                                                 Fld("data", p + 16, "data", 4 * w[4])>> \o ChkFlds(H, dend)]

(* ------------------------------------------------------------------------------------------------------------
   feature transform (lda.c, s3file_get_3d):  d1 d2 d3 n float[n],  n = d1*d2*d3, n # 0 *)
Lda(f) ==
    LET H == S3Header(f) IN
    IF H.st # "ok" THEN H
    ELSE LET p == H.pos
             s3 == NeedW(f, p, 3)
         IN  IF s3 # "ok" THEN St(s3, "lda:dimensions-cut")
             ELSE LET sn == NeedW(f, p + 12, 1) IN
                  IF sn # "ok" THEN St(sn, "lda:count-cut")
                  ELSE LET w == WordsAt(f, p, 4, H.sw)
                           dend == p + 16 + 4 * w[4]
                       IN  IF w[4] = 0 THEN Bad("lda:empty-array")
                           ELSE IF w[4] < 0 \/ w[4] > (f.len - (p + 16)) \div 4 THEN Bad("lda:data-cut")
                           ELSE IF ~ProdIs(w[4], <<w[1], w[2], w[3]>>) THEN Bad("lda:count-is-not-product")
                           ELSE LET c == ChkState(f, H, dend) IN
                                IF c = "F" THEN Bad("lda:checksum")
                                ELSE IF c = "U" THEN [st |-> "unk", why |-> "lda:checksum", pos |-> H.pos, dend |-> dend, sw |-> H.sw]
                                ELSE [st |-> "ok", pos |-> H.pos, dend |-> dend, end |-> EndOf(H, dend), sw |-> H.sw, chk |-> H.chk,
                                      d |-> [n_lda |-> w[1], rows |-> w[2], cols |-> w[3]],
                                      flds |-> H.flds \o <<Fld("n_lda", p, "i32", w[1]), Fld("rows", p + 4, "i32", w[2]),
                                                           Fld("cols", p + 8, "i32", w[3]), Fld("n", p + 12, "i32", w[4]),
                                                           Fld("data", p + 16, "data", 4 * w[4])>> \o ChkFlds(H, dend)]

(* ------------------------------------------------------------------------------------------------------------
   senone dump (ptm_mgau.c read_sendump; the file describes itself in its own header strings):
     <int32 length><string including trailing 0>      title   (length 1..999 in one of the two byte orders)
     <int32 length><string including trailing 0>      header
     { <int32 length><string> }  <int32 0>            "feature_count N", "mixture_count N", "model_count N",
                                                      "cluster_count N", "cluster_bits N"; others ignored
     [ <int32 #codewords> <int32 #pdfs> ]             when cluster_count is 0 / absent
     [ cluster codebook, 16 bytes ]                   when cluster_count is 15 or 16
     n_feat * #codewords rows of #pdfs bytes (or (#pdfs+1)/2 bytes when cluster_bits is 4)
   The counts default to, and must agree with, the codebooks' n_feat and n_density and the model definition's
   n_sen; these come from the sibling files, so the reader takes them as ctx = [n_feat, n_density, n_sen]. *)
KEY_FEAT == <<102, 101, 97, 116, 117, 114, 101, 95, 99, 111, 117, 110, 116, 32>>
KEY_MIX == <<109, 105, 120, 116, 117, 114, 101, 95, 99, 111, 117, 110, 116, 32>>
KEY_MODEL == <<109, 111, 100, 101, 108, 95, 99, 111, 117, 110, 116, 32>>
KEY_CLUST == <<99, 108, 117, 115, 116, 101, 114, 95, 99, 111, 117, 110, 116, 32>>
KEY_BITS == <<99, 108, 117, 115, 116, 101, 114, 95, 98, 105, 116, 115, 32>>
HasKey(f, o, k) == Inside(f, o, Len(k)) /\ \A i \in 1 .. Len(k) : At(f, o + i - 1) = k[i]

(* one "<key> N" string at o: the record a with the value it sets overwritten *)
SdKey(f, o, a) ==
    LET a1 == IF HasKey(f, o, KEY_FEAT) THEN [a EXCEPT !.n_feat = Atoi(f, o + 14), !.flds = Append(@, Fld("feature_count", o + 14, "num", 0))] ELSE a
        a2 == IF HasKey(f, o, KEY_MIX) THEN [a1 EXCEPT !.n_density = Atoi(f, o + 14), !.flds = Append(@, Fld("mixture_count", o + 14, "num", 0))] ELSE a1
        a3 == IF HasKey(f, o, KEY_MODEL) THEN [a2 EXCEPT !.n_sen = Atoi(f, o + 12), !.flds = Append(@, Fld("model_count", o + 12, "num", 0))] ELSE a2
        a4 == IF HasKey(f, o, KEY_CLUST) THEN [a3 EXCEPT !.n_clust = Atoi(f, o + 14), !.flds = Append(@, Fld("cluster_count", o + 14, "num", 0))] ELSE a3
    IN  IF HasKey(f, o, KEY_BITS) THEN [a4 EXCEPT !.n_bits = Atoi(f, o + 13), !.flds = Append(@, Fld("cluster_bits", o + 13, "num", 0))] ELSE a4

RECURSIVE SdStrings(_, _, _, _)
SdStrings(f, o, sw, a) ==
    LET s1 == NeedW(f, o, 1) IN
    IF s1 # "ok" THEN St(s1, "sendump:string-length-cut")
    ELSE LET n == Rd32(f, o, sw) IN
         IF n = 0 THEN [st |-> "ok", pos |-> o + 4, a |-> [a EXCEPT !.flds = Append(@, Fld("end-of-strings", o, "len", 0))]]
         ELSE IF n < 0 THEN Bad("sendump:negative-length")
         ELSE IF ~Inside(f, o + 4, n) THEN Bad("sendump:string-cut")
         ELSE IF ~Known(f, o + 4, n) THEN Unk("sendump:string-bytes")
         ELSE SdStrings(f, o + 4 + n, sw, SdKey(f, o + 4, [a EXCEPT !.flds = Append(@, Fld("string-length", o, "len", n))]))

Sendump(f, ctx) ==
    IF ~Present(f) THEN Bad("missing")
    ELSE LET s0 == NeedW(f, 0, 1) IN
    IF s0 # "ok" THEN St(s0, "sendump:title-length-cut")
    ELSE LET t0 == Rd32(f, 0, FALSE)
             t1 == Rd32(f, 0, TRUE)
             sw == ~(t0 >= 1 /\ t0 <= 999)
             t == IF sw THEN t1 ELSE t0
         IN  IF t < 1 \/ t > 999 THEN Bad("sendump:title-length-out-of-range")
             ELSE IF ~Inside(f, 4, t) THEN Bad("sendump:title-cut")
             ELSE IF At(f, 4 + t - 1) < 0 THEN Unk("sendump:title-bytes")
             ELSE IF At(f, 4 + t - 1) # 0 THEN Bad("sendump:title-not-terminated")
             ELSE LET p == 4 + t
                      s1 == NeedW(f, p, 1)
                  IN  IF s1 # "ok" THEN St(s1, "sendump:header-length-cut")
                      ELSE LET h == Rd32(f, p, sw) IN
                           IF h < 0 THEN Bad("sendump:negative-length")
                           ELSE IF ~Inside(f, p + 4, h) THEN Bad("sendump:header-cut")
                           ELSE IF h > 0 /\ At(f, p + 4 + h - 1) < 0 THEN Unk("sendump:header-bytes")
                           ELSE IF h > 0 /\ At(f, p + 4 + h - 1) # 0 THEN Bad("sendump:header-not-terminated")
                           ELSE LET S == SdStrings(f, p + 4 + h, sw,
                                                   [n_feat |-> ctx.n_feat, n_density |-> ctx.n_density, n_sen |-> ctx.n_sen,
                                                    n_clust |-> 0, n_bits |-> 8,
                                                    flds |-> <<Fld("title-length", 0, "len", t), Fld("header-length", p, "len", h)>>])
                                IN  IF S.st # "ok" THEN S
                                    ELSE LET a == S.a
                                             rc == IF a.n_clust = 0 THEN NeedW(f, S.pos, 2) ELSE "ok"
                                         IN  IF rc # "ok" THEN St(rc, "sendump:rows-columns-cut")
                                             ELSE LET r == IF a.n_clust = 0 THEN Rd32(f, S.pos, sw) ELSE a.n_density
                                                      c == IF a.n_clust = 0 THEN Rd32(f, S.pos + 4, sw) ELSE a.n_sen
                                                      q == IF a.n_clust = 0 THEN S.pos + 8 ELSE S.pos
                                                      ncb == IF a.n_clust = 0 THEN 0 ELSE 16
                                                      step == IF a.n_bits = 4 THEN (c \div 2) + (c % 2) ELSE c
                                                      need == Mul(Mul(a.n_feat, r), step)
                                                  IN  IF a.n_feat # ctx.n_feat THEN Bad("sendump:n_feat-differs-from-codebooks")
                                                      ELSE IF a.n_density # ctx.n_density THEN Bad("sendump:n_density-differs-from-codebooks")
                                                      ELSE IF a.n_sen # ctx.n_sen THEN Bad("sendump:n_sen-differs-from-mdef")
                                                      ELSE IF a.n_clust \notin {0, 15, 16} THEN Bad("sendump:cluster-count")
                                                      ELSE IF a.n_bits \notin {4, 8} THEN Bad("sendump:cluster-bits")
                                                      ELSE IF ~Inside(f, q, ncb) THEN Bad("sendump:codebook-cut")
                                                      ELSE IF r < 0 \/ c < 0 THEN Bad("sendump:negative-count")
                                                      ELSE IF need < 0 \/ ~Inside(f, q + ncb, need) THEN Bad("sendump:data-cut")
                                                      ELSE [st |-> "ok", end |-> q + ncb + need, sw |-> sw,
                                                            d |-> [n_feat |-> a.n_feat, n_density |-> a.n_density, n_sen |-> a.n_sen,
                                                                   n_clust |-> a.n_clust, n_bits |-> a.n_bits, rows |-> r, cols |-> c],
                                                            flds |-> a.flds \o (IF a.n_clust = 0
                                                                               THEN <<Fld("rows", S.pos, "i32", r), Fld("columns", S.pos + 4, "i32", c)>>
                                                                               ELSE <<Fld("codebook", q, "region", ncb)>>)
                                                                    \o <<Fld("data", q + ncb, "region", need)>>]

(* ------------------------------------------------------------------------------------------------------------
   binary model definition (bin_mdef.c; the layout is printed in the file's own format description):
     "BMDF" (either byte order), version <= 1, <int32 length> format description
     n_ciphone n_phone n_emit_state n_ci_sen n_sen n_tmat n_sseq n_ctx n_cd_tree sil
     n_ciphone 0-terminated names, padding to 4 bytes (counted from the first name)
     cd_tree[n_cd_tree] of 8 bytes, phones[n_phone] of 12 bytes, <int32 sseq_size>, sseq[sseq_size] of 2 bytes,
     sseq_len[n_sseq] of 1 byte when n_emit_state = 0
   every part has to lie inside the file ("... truncated!"). *)
BMDF == 1178881346            \* 0x46444d42
BMDF_SWAPPED == 1112360006    \* 0x424d4446

(* offset after the i-th of n 0-terminated names starting at o; -1: a name is not terminated inside the file;
   -2: an unknown byte *)
RECURSIVE NameEnd(_, _)
NameEnd(f, o) == IF o >= f.len THEN -1 ELSE LET c == At(f, o) IN IF c < 0 THEN -2 ELSE IF c = 0 THEN o + 1 ELSE NameEnd(f, o + 1)
RECURSIVE Names(_, _, _)
Names(f, o, n) == IF n = 0 THEN o ELSE LET e == NameEnd(f, o) IN IF e < 0 THEN e ELSE Names(f, e, n - 1)

Mdef(f) ==
    IF ~Present(f) THEN Bad("missing")
    ELSE LET s3 == NeedW(f, 0, 3) IN
    IF s3 = "bad" THEN Bad("mdef:start-cut")
    ELSE IF s3 = "unk" THEN Unk("mdef:start")
    ELSE LET m == Rd32(f, 0, FALSE) IN
         IF m # BMDF /\ m # BMDF_SWAPPED THEN Bad("mdef:not-BMDF")
         ELSE LET sw == (m = BMDF_SWAPPED)
                  ver == Rd32(f, 4, sw)
                  h == Rd32(f, 8, sw)
              IN  IF ver > 1 THEN Bad("mdef:version-newer")
                  ELSE IF h < 0 THEN Bad("mdef:negative-length")
                  ELSE IF ~Inside(f, 12, h) THEN Bad("mdef:description-cut")
                  ELSE LET p == 12 + h
                           sc == NeedW(f, p, 10)
                       IN  IF sc # "ok" THEN St(sc, "mdef:counts-cut")
                           ELSE LET c == WordsAt(f, p, 10, sw)
                                    q == p + 40
                                IN  IF \E i \in {1, 2, 3, 5, 7, 9} : c[i] < 0 THEN Bad("mdef:negative-count")   \* the counts that size a part of the file or of the tables built from it
                                    ELSE IF c[1] = 0 THEN Bad("mdef:no-phones")
                                    ELSE LET ne == Names(f, q, c[1]) IN
                                         IF ne = -2 THEN Unk("mdef:names")
                                         ELSE IF ne < 0 THEN Bad("mdef:names-cut")
                                         ELSE LET t == q + (((ne - q) + 3) \div 4) * 4 IN
                                              IF t > f.len \/ c[9] > (f.len - t) \div 8 THEN Bad("mdef:cd_tree-cut")
                                              ELSE LET ph == t + 8 * c[9] IN
                                                   IF c[2] > (f.len - ph) \div 12 THEN Bad("mdef:phones-cut")
                                                   ELSE LET ss == ph + 12 * c[2]
                                                            s1 == NeedW(f, ss, 1)
                                                        IN  IF s1 = "unk" THEN [st |-> "unk", why |-> "mdef:sseq_size", at |-> ss]
                                                            ELSE IF s1 # "ok" THEN St(s1, "mdef:sseq_size-cut")
                                                            ELSE LET z == Rd32(f, ss, sw) IN
                                                                 \* (no loader relates sseq_size to n_sseq * n_emit_state: only "the area it announces fits" is claimed)
                                                                 IF z > (f.len - (ss + 4)) \div 2 THEN Bad("mdef:sseq-cut")
                                                                 ELSE LET sl == ss + 4 + 2 * (IF z < 0 THEN 0 ELSE z)
                                                                          e == IF c[3] = 0 THEN sl + c[7] ELSE sl
                                                                      IN  IF c[3] = 0 /\ ~Inside(f, sl, c[7]) THEN Bad("mdef:sseq_len-cut")
                                                                          ELSE [st |-> "ok", end |-> e, sw |-> sw,
                                                                                d |-> [n_ciphone |-> c[1], n_phone |-> c[2], n_emit_state |-> c[3],
                                                                                       n_ci_sen |-> c[4], n_sen |-> c[5], n_tmat |-> c[6], n_sseq |-> c[7],
                                                                                       n_ctx |-> c[8], n_cd_tree |-> c[9], sil |-> c[10], sseq_size |-> z],
                                                                                lay |-> [names |-> q, tree |-> t, phones |-> ph, sseq_size |-> ss, sseq |-> ss + 4],
                                                                                flds |-> <<Fld("BMDF", 0, "magic", m), Fld("version", 4, "ver", ver),
                                                                                           Fld("description-length", 8, "len", h)>>
                                                                                         \o [i \in 1 .. 10 |-> Fld(<<"n_ciphone", "n_phone", "n_emit_state", "n_ci_sen", "n_sen",
                                                                                                                    "n_tmat", "n_sseq", "n_ctx", "n_cd_tree", "sil">>[i],
                                                                                                                  p + 4 * (i - 1), "i32", c[i])]
                                                                                         \o <<Fld("names", q, "region", ne - q), Fld("cd_tree", t, "region", 8 * c[9]),
                                                                                              Fld("phones", ph, "region", 12 * c[2]), Fld("sseq_size", ss, "i32", z),
                                                                                              Fld("sseq", ss + 4, "region", 2 * z)>>]

(* ------------------------------------------------------------------------------------------------------------
   The directory.  D == [mdef, means, variances, tmat, sendump, mixw, lda, featparams |-> file], fp == what the
   feature parameters make of the front end: [st |-> "ok", n_stream, veclen] or [st |-> "unk"] (the JSON file is
   optional and read leniently - a damaged one is never a reason to demand a refusal).

   Loadable3: "T" the directory is a model, "F" it is not (initialisation must report failure), "U" cannot tell
   from the bytes supplied.  The order and the alternatives are those of acmod_load_am(): feature transform,
   model definition, transition matrices, then the first of the three Gaussian-mixture modules that accepts
   (ptm: one codebook per CI phone, at most 256; s2_semi: exactly one codebook; ms: anything, but mixture
   weights come from the mixture_weights file only and its checksum is verified). *)
T3(r) == IF r.st = "ok" THEN "T" ELSE IF r.st = "bad" THEN "F" ELSE "U"
Cond3(r, P(_)) == IF r.st = "ok" THEN B3(P(r)) ELSE T3(r)      \* a condition on what an "ok" reader found

ParseDir(D, fp) ==
    LET mdef == Mdef(D.mdef)
        means == Gauden(D.means)
        vars == Gauden(D.variances)
        tmat == Tmat(D.tmat)
        lda == IF Present(D.lda) THEN Lda(D.lda) ELSE [st |-> "absent"]
        mixw == IF Present(D.mixw) THEN Mixw(D.mixw) ELSE [st |-> "absent"]
        ctx == IF means.st = "ok" /\ mdef.st = "ok"
               THEN [n_feat |-> means.d.n_feat, n_density |-> means.d.n_density, n_sen |-> mdef.d.n_sen]
               ELSE [n_feat |-> 0, n_density |-> 0, n_sen |-> 0]
        sd == IF Present(D.sendump) THEN Sendump(D.sendump, ctx) ELSE [st |-> "absent"]
    IN  [mdef |-> mdef, means |-> means, variances |-> vars, tmat |-> tmat, lda |-> lda, mixw |-> mixw, sendump |-> sd, fp |-> fp]

(* the dimension of stream i the front end delivers (feat_dimension2) *)
FeatLen(P) == IF P.lda.st = "ok" THEN P.lda.d.rows ELSE P.fp.veclen

FeatStage3(P) ==
    IF P.lda.st = "absent" THEN "T"
    ELSE IF P.fp.st # "ok" THEN (IF P.lda.st = "bad" THEN "F" ELSE "U")
    ELSE And3(B3(P.fp.n_stream = 1), Cond3(P.lda, LAMBDA r : r.d.cols = P.fp.veclen))

Gauden3(P) ==
    LET pair == And3(T3(P.means), T3(P.variances)) IN
    IF pair # "T" THEN pair
    ELSE IF P.means.d # P.variances.d THEN "F"
    ELSE IF P.fp.st # "ok" \/ P.lda.st \notin {"ok", "absent"} THEN "U"
    ELSE B3(P.means.d.n_feat = P.fp.n_stream /\ \A i \in 1 .. P.means.d.n_feat : P.means.d.veclen[i] = FeatLen(P))

(* mixture weights as ptm and s2_semi read them: the senone dump when there is one, else mixture_weights without
   looking at its checksum *)
MixFast3(P) ==
    IF P.sendump.st # "absent" THEN T3(P.sendump)
    ELSE IF P.mixw.st = "absent" THEN "F"
    ELSE Cond3(P.mixw, LAMBDA r : r.d.n_feat = P.means.d.n_feat)

Ptm3(P) == And3(And3(Gauden3(P), T3(P.mdef)),
                IF P.means.st = "ok" /\ P.mdef.st = "ok"
                THEN And3(B3(P.means.d.n_mgau <= 256 /\ P.means.d.n_mgau = P.mdef.d.n_ciphone), MixFast3(P)) ELSE "U")
Semi3(P) == And3(Gauden3(P), IF P.means.st = "ok" THEN And3(B3(P.means.d.n_mgau = 1), MixFast3(P)) ELSE "U")
Ms3(P) ==
    And3(And3(Gauden3(P), T3(P.mdef)),
         IF P.mixw.st = "absent" THEN "F"
         ELSE IF P.mixw.st # "ok" THEN T3(P.mixw)
         ELSE IF P.means.st # "ok" \/ P.mdef.st # "ok" THEN "U"
         ELSE LET g == P.means.d
                  w == P.mixw.d
                  n_gauden == IF g.n_mgau = 1 \/ g.n_mgau = P.mdef.d.n_ciphone THEN g.n_mgau ELSE w.n_sen
              IN  And3(P.mixw.csum,
                       B3(w.n_feat = g.n_feat /\ w.n_comp = g.n_density /\ n_gauden <= g.n_mgau
                          /\ (g.n_mgau = 1 \/ g.n_mgau = P.mdef.d.n_ciphone \/ w.n_sen > 1))))

WhichGmm(P) == IF Ptm3(P) = "T" THEN "ptm" ELSE IF Ptm3(P) = "F" /\ Semi3(P) = "T" THEN "s2_semi"
               ELSE IF Ptm3(P) = "F" /\ Semi3(P) = "F" /\ Ms3(P) = "T" THEN "ms" ELSE "?"

Loadable3(P) == And3(And3(FeatStage3(P), T3(P.mdef)), And3(T3(P.tmat), Or3(Ptm3(P), Or3(Semi3(P), Ms3(P)))))

(* the first rule that makes the directory unloadable, for reports and coverage counts *)
Why(P) ==
    IF FeatStage3(P) = "F" THEN (IF P.lda.st = "bad" THEN P.lda.why ELSE "lda:columns-differ-from-feature-stream")
    ELSE IF P.mdef.st = "bad" THEN P.mdef.why
    ELSE IF P.tmat.st = "bad" THEN P.tmat.why
    ELSE IF P.means.st = "bad" THEN "means/" \o P.means.why
    ELSE IF P.variances.st = "bad" THEN "variances/" \o P.variances.why
    ELSE IF P.means.st = "ok" /\ P.variances.st = "ok" /\ P.means.d # P.variances.d THEN "gau:means-and-variances-differ"
    ELSE IF Gauden3(P) = "F" THEN "gau:dimensions-differ-from-feature-stream"
    ELSE IF P.sendump.st = "bad" THEN P.sendump.why
    ELSE IF P.mixw.st = "bad" THEN P.mixw.why
    ELSE IF P.sendump.st = "absent" /\ P.mixw.st = "absent" THEN "no-mixture-weights"
    ELSE IF Loadable3(P) = "F" THEN "no-gmm-module-accepts"
    ELSE IF Loadable3(P) = "U" THEN "unknown"
    ELSE "-"
=============================================================================
