------------------------------ MODULE MC_mini ------------------------------
(* Exhaustive run over every damage of every file of the four miniature models. *)
EXTENDS ModelInit
AllIntact == <<IntactOf(1), IntactOf(2), IntactOf(3), IntactOf(4)>>
=============================================================================
