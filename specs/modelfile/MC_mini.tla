------------------------------ MODULE MC_mini ------------------------------
(* Exhaustive run over every damage of every file of the four miniature models. *)
EXTENDS ModelInit
=============================================================================
