CONSTANT Intact <- AllIntact
SPECIFICATION Spec
INVARIANTS TypeOK
ACTION_CONSTRAINT Export
CHECK_DEADLOCK FALSE
