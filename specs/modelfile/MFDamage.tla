------------------------------ MODULE MFDamage ------------------------------
(* The damage the property quantifies over, derived from the format: every truncation length, the file missing,
   and for every field the reader of the intact file reports (MFFormats' flds: counts, dimensions, lengths, markers,
   header words, checksum, data areas) every corruption class that applies to that type of field.

   A damage is [c |-> class, a |-> Int, b |-> Int]:
     "trunc"   a = the new length (0 .. len-1)
     "missing" the file is removed
     "extend"  a bytes of garbage appended
     "set"     field number a of the reader's list, corruption class b of that field's type (ClassNames)
     "variant" the a-th well-formed but different file of the same kind (dimensions changed together with the
               element count and the data: damage that only a cross-check between files can notice) *)
EXTENDS MFWrite, TLC

Dmg(c, a, b) == [c |-> c, a |-> a, b |-> b]

(* number of corruption classes per type of field *)
NClasses(ty) == CASE ty = "i32" -> 7 [] ty = "len" -> 7 [] ty = "ver" -> 7 [] ty = "magic" -> 2 [] ty = "txt" -> 4
                  [] ty = "num" -> 3 [] ty = "sum" -> 1 [] ty = "data" -> 2 [] OTHER -> 0
ClassName(ty, b) ==
    IF ty \in {"i32", "len", "ver"} THEN <<"zero", "one-less", "one-more", "huge", "minus-one", "plus-65536", "other-byte-order">>[b]
    ELSE IF ty = "magic" THEN <<"other-byte-order", "garbage">>[b]
    ELSE IF ty = "txt" THEN <<"last-letter-changed", "made-a-comment", "chksum0-line-inserted", "chksum0-line-inserted-and-zero-sum-appended">>[b]
    ELSE IF ty = "num" THEN <<"digit-less", "digit-more", "digit-zero">>[b]
    ELSE IF ty = "sum" THEN "bit-flipped"
    ELSE <<"first-byte-bit-flipped", "last-byte-bit-flipped">>[b]

Put(bs, o, new) == [i \in 1 .. Len(bs) |-> IF i > o /\ i <= o + Len(new) THEN new[i - o] ELSE bs[i]]
Flip(x) == IF x % 2 = 0 THEN x + 1 ELSE x - 1
CHKLINE_ == <<99, 104, 107, 115, 117, 109, 48, 32, 121, 101, 115, 10>>

(* the bytes after corruption class b of field fl; the bytes unchanged when the class does not apply *)
SetField(bs, fl, b, sw) ==
    LET o == fl.off IN
    IF fl.ty \in {"i32", "len", "ver"} THEN
        LET v == fl.val
            nv == CASE b = 1 -> 0 [] b = 2 -> (IF v > -2147483647 THEN v - 1 ELSE v) [] b = 3 -> (IF v < 2147483647 THEN v + 1 ELSE v)
                    [] b = 4 -> 2147483647 [] b = 5 -> -1 [] b = 6 -> (IF v < 2147418112 THEN v + 65536 ELSE v) [] OTHER -> v
        IN  IF b = 7 THEN Put(bs, o, Rev4(SubSeq(bs, o + 1, o + 4))) ELSE Put(bs, o, Wr32(nv, sw))
    ELSE IF fl.ty = "magic" THEN
        (IF b = 1 THEN Put(bs, o, Rev4(SubSeq(bs, o + 1, o + 4))) ELSE Put(bs, o, <<239, 190, 173, 222>>))
    ELSE IF fl.ty = "txt" THEN
        (CASE b = 1 -> Put(bs, o + fl.val - 1, <<bs[o + fl.val] + 1>>)
           [] b = 2 -> Put(bs, o, <<35>>)
           [] b = 3 -> IF fl.nm = "endhdr" THEN SubSeq(bs, 1, o) \o CHKLINE_ \o SubSeq(bs, o + 1, Len(bs)) ELSE bs
           [] OTHER -> IF fl.nm = "endhdr" THEN SubSeq(bs, 1, o) \o CHKLINE_ \o SubSeq(bs, o + 1, Len(bs)) \o <<0, 0, 0, 0>> ELSE bs)
    ELSE IF fl.ty = "num" THEN
        LET c == bs[o + 1] IN
        (CASE b = 1 -> IF c > 48 THEN Put(bs, o, <<c - 1>>) ELSE bs
           [] b = 2 -> IF c < 57 THEN Put(bs, o, <<c + 1>>) ELSE bs
           [] OTHER -> Put(bs, o, <<48>>))
    ELSE IF fl.ty = "sum" THEN Put(bs, o, <<Flip(bs[o + 1])>>)
    ELSE IF fl.ty = "data" /\ fl.val > 0 THEN
        (IF b = 1 THEN Put(bs, o, <<Flip(bs[o + 1])>>) ELSE Put(bs, o + fl.val - 1, <<Flip(bs[o + fl.val])>>))
    ELSE bs

(* well-formed files of the same kind that differ from the model's: <<name, bytes>> *)
Variants(M, kind) ==
    IF kind \in {"means", "variances"} THEN
        LET vals == IF kind = "means" THEN MEANS ELSE VARS IN
        <<<<"n_density-1", WGauden([M.gau EXCEPT !.n_density = @ - 1], vals, M.be)>>,
          <<"n_mgau+1", WGauden([M.gau EXCEPT !.n_mgau = @ + 1], vals, M.be)>>,
          <<"veclen+1", WGauden([M.gau EXCEPT !.veclen = <<@[1] + 1>>], vals, M.be)>>>>
    ELSE IF kind = "featparams" THEN <<<<"three-cepstra", FP_1S_C_3>>>>
    ELSE IF kind = "mixw" THEN
        <<<<"n_sen-1", WMixw([M.mixw EXCEPT !.n_sen = @ - 1], M.be)>>, <<"n_comp-1", WMixw([M.mixw EXCEPT !.n_comp = @ - 1], M.be)>>,
          <<"n_feat+1", WMixw([M.mixw EXCEPT !.n_feat = @ + 1], M.be)>>>>
    ELSE IF kind = "sendump" THEN
        <<<<"columns+1", WSendump([M.sendump EXCEPT !.cols = @ + 1], M.be)>>, <<"model_count-1", WSendump([M.sendump EXCEPT !.n_sen = @ - 1, !.cols = @ - 1], M.be)>>,
          <<"mixture_count-1", WSendump([M.sendump EXCEPT !.n_density = @ - 1, !.rows = @ - 1], M.be)>>>>
    ELSE IF kind = "tmat" THEN
        <<<<"n_tmat+1", WTmat([M.tmat EXCEPT !.n_tmat = @ + 1], M.be)>>>>
    ELSE IF kind = "lda" THEN
        <<<<"rows-1", WLda([M.lda EXCEPT !.rows = @ - 1], M.be)>>, <<"columns+1", WLda([M.lda EXCEPT !.cols = @ + 1], M.be)>>>>
    ELSE <<>>

(* all damages of a completely known file f whose intact reading gave the fields flds *)
Damages(f, flds, nvariants) ==
    {Dmg("trunc", l, 0) : l \in 0 .. f.len - 1} \cup {Dmg("missing", 0, 0), Dmg("extend", 1, 0), Dmg("extend", 4, 0)}
    \cup {Dmg("set", i, b) : i \in 1 .. Len(flds), b \in 1 .. 7} \cup {Dmg("variant", v, 0) : v \in 1 .. nvariants}

Applicable(f, flds, d, sw) ==
    IF d.c # "set" THEN TRUE
    ELSE IF d.b > NClasses(flds[d.a].ty) THEN FALSE
    ELSE SetField(BytesOf(f), flds[d.a], d.b, sw) # BytesOf(f)

Apply(M, kind, f, flds, d, sw) ==
    CASE d.c = "trunc" -> Whole(SubSeq(BytesOf(f), 1, d.a))
      [] d.c = "missing" -> Missing
      [] d.c = "extend" -> Whole(BytesOf(f) \o [i \in 1 .. d.a |-> 165])
      [] d.c = "set" -> Whole(SetField(BytesOf(f), flds[d.a], d.b, sw))
      [] OTHER -> Whole(Variants(M, kind)[d.a][2])

DmgName(M, kind, flds, d) ==
    CASE d.c = "trunc" -> "trunc@" \o ToString(d.a)
      [] d.c = "missing" -> "missing"
      [] d.c = "extend" -> "extend+" \o ToString(d.a)
      [] d.c = "set" -> flds[d.a].nm \o "@" \o ToString(flds[d.a].off) \o ":" \o ClassName(flds[d.a].ty, d.b)
      [] OTHER -> "variant:" \o Variants(M, kind)[d.a][1]
(* the class of a damage: what a violation key names (no offsets) *)
DmgClass(M, kind, flds, d) ==
    CASE d.c = "set" -> flds[d.a].nm \o ":" \o ClassName(flds[d.a].ty, d.b)
      [] d.c = "variant" -> "variant:" \o Variants(M, kind)[d.a][1]
      [] OTHER -> d.c

(* ---- the same damages on a file known only in part (the bundled models) ----
   a corruption is a patch <<offset, bytes>> laid over the file; <<>> when the class does not apply (the two classes
   that insert a header line move every later byte and are exercised on the miniature models only) *)
BytesAt(f, o, n) == [i \in 1 .. n |-> At(f, o + i - 1)]
PatchOf(f, fl, b, sw) ==
    LET o == fl.off IN
    IF fl.ty \in {"i32", "len", "ver"} THEN
        LET v == fl.val
            nv == CASE b = 1 -> 0 [] b = 2 -> (IF v > -2147483647 THEN v - 1 ELSE v) [] b = 3 -> (IF v < 2147483647 THEN v + 1 ELSE v)
                    [] b = 4 -> 2147483647 [] b = 5 -> -1 [] b = 6 -> (IF v < 2147418112 THEN v + 65536 ELSE v) [] OTHER -> v
        IN  IF b = 7 THEN <<o, Rev4(BytesAt(f, o, 4))>> ELSE <<o, Wr32(nv, sw)>>
    ELSE IF fl.ty = "magic" THEN (IF b = 1 THEN <<o, Rev4(BytesAt(f, o, 4))>> ELSE <<o, <<239, 190, 173, 222>>>>)
    ELSE IF fl.ty = "txt" THEN
        (CASE b = 1 -> <<o + fl.val - 1, <<At(f, o + fl.val - 1) + 1>>>> [] b = 2 -> <<o, <<35>>>> [] OTHER -> <<>>)
    ELSE IF fl.ty = "num" THEN
        LET c == At(f, o) IN
        (CASE b = 1 -> IF c > 48 THEN <<o, <<c - 1>>>> ELSE <<>> [] b = 2 -> IF c < 57 THEN <<o, <<c + 1>>>> ELSE <<>> [] OTHER -> <<o, <<48>>>>)
    ELSE IF fl.ty = "sum" THEN <<o, <<Flip(At(f, o))>>>>
    ELSE IF fl.ty = "data" /\ fl.val > 0 THEN
        (IF b = 1 THEN <<o, <<Flip(At(f, o))>>>> ELSE <<o + fl.val - 1, <<Flip(At(f, o + fl.val - 1))>>>>)
    ELSE <<>>
PatchApplies(f, fl, b, sw) ==
    IF b > NClasses(fl.ty) THEN FALSE
    ELSE LET p == PatchOf(f, fl, b, sw) IN
         IF p = <<>> THEN FALSE
         ELSE /\ Known(f, p[1], Len(p[2])) /\ (\A i \in 1 .. Len(p[2]) : p[2][i] \in 0 .. 255) /\ p[2] # BytesAt(f, p[1], Len(p[2]))
Patched(f, p) == [f EXCEPT !.chunks = <<[off |-> p[1], b |-> p[2]]>> \o @, !.sum = <<>>]

FldSize(fl) == IF fl.ty \in {"i32", "len", "ver", "magic", "sum"} THEN 4 ELSE IF fl.ty = "num" THEN 1 ELSE fl.val
(* truncation lengths worth trying on a large file: around every field and area the reader found, the first bytes,
   every byte of a short header, the last bytes, and the lengths the driver drew at random *)
TruncPoints(f, flds, hdrend, extra) ==
    LET around == UNION {{flds[i].off - 1, flds[i].off, flds[i].off + 1, flds[i].off + 2, flds[i].off + 3,
                          flds[i].off + FldSize(flds[i]) - 1, flds[i].off + FldSize(flds[i]), flds[i].off + FldSize(flds[i]) + 1} : i \in 1 .. Len(flds)}
        ends == {f.len - 1, f.len - 2, f.len - 3, f.len - 4, f.len - 5, f.len - 8}
        head == IF hdrend <= 256 THEN 0 .. hdrend + 4 ELSE {0, 1, 2, 3, 4, 7, 8, 11, 12}
    IN  (around \cup ends \cup head \cup {extra[i] : i \in 1 .. Len(extra)}) \cap (0 .. f.len - 1)

DirFromViews(views) ==
    [k \in {Kinds[i] : i \in 1 .. Len(Kinds)} |->
        IF \E j \in 1 .. Len(views) : views[j].kind = k
        THEN LET v == views[CHOOSE j \in 1 .. Len(views) : views[j].kind = k]
             IN  IF ~v.present THEN Missing ELSE [len |-> v.len, chunks |-> v.chunks, sum |-> IF v.sum = <<>> THEN <<>> ELSE v.sum]
        ELSE Missing]

(* ---- an intact instance and one damaged file in it ----
   I == IntactOf(i): the model's directory and what the readers make of it.  Root modules keep the tuple of all
   IntactOf(i) in a zero-arity definition of their own: TLC evaluates such a definition once only when it is in
   the root module, and evaluating it costs as much as a few hundred transitions. *)
IntactOf(i) == LET D == DirOf(Models[i]) IN [dir |-> D, P |-> ParseDir(D, FeatCfg(D.featparams))]
PresentKinds(D) == {Kinds[i] : i \in {j \in 1 .. Len(Kinds) : Present(D[Kinds[j]])}}
FldsOf(I, k) == IF k = "featparams" THEN <<Fld("text", 0, "data", I.dir.featparams.len)>> ELSE I.P[k].flds
DamagedFile(M, I, k, d) == Apply(M, k, I.dir[k], FldsOf(I, k), d, M.be)
(* the directory with file k replaced by f: only what depends on f is read again (a senone dump is read against
   the codebooks and the model definition) *)
ParseWith(I, k, f) ==
    LET D == [I.dir EXCEPT ![k] = f]
        P0 == I.P
    IN  IF k \in {"mdef", "means"} THEN ParseDir(D, P0.fp)
        ELSE IF k = "featparams" THEN [P0 EXCEPT !.fp = FeatCfg(f)]
        ELSE IF k = "variances" THEN [P0 EXCEPT !.variances = Gauden(f)]
        ELSE IF k = "tmat" THEN [P0 EXCEPT !.tmat = Tmat(f)]
        ELSE IF k = "lda" THEN [P0 EXCEPT !.lda = IF Present(f) THEN Lda(f) ELSE [st |-> "absent"]]
        ELSE IF k = "sendump" THEN [P0 EXCEPT !.sendump = IF Present(f) THEN Sendump(f, [n_feat |-> P0.means.d.n_feat, n_density |-> P0.means.d.n_density,
                                                                                             n_sen |-> P0.mdef.d.n_sen]) ELSE [st |-> "absent"]]
        ELSE [P0 EXCEPT !.mixw = IF Present(f) THEN Mixw(f) ELSE [st |-> "absent"]]
=============================================================================
