SPECIFICATION Spec
INVARIANTS TypeOK ReadToEnd TruncationRefused MissingRefused
ACTION_CONSTRAINT Export
CHECK_DEADLOCK FALSE
VIEW View
