------------------------------ MODULE MFBytes ------------------------------
(* Files as the acoustic-model loaders see them: a length and bytes.  A file may be known only in part
   (the bundled models are megabytes): chunks give the bytes that are known, everything else inside the
   length is "unknown" and every operator below says so instead of guessing.

   file == [len |-> Int, chunks |-> Seq([off |-> Nat, b |-> Seq(0..255)]), sum |-> <<>> or <<a, b, hi, lo>>]
   len = -1: the file does not exist.  sum: the s3 checksum of the 32-bit words of the byte range a..b-1, as two
   16-bit halves, supplied by whoever looked at the whole file (used only where the chunks do not cover the range). *)
EXTENDS Integers, Sequences

Missing == [len |-> -1, chunks |-> <<>>, sum |-> <<>>]
Present(f) == f.len >= 0
Whole(bs) == [len |-> Len(bs), chunks |-> <<[off |-> 0, b |-> bs]>>, sum |-> <<>>]

RECURSIVE ChunkAt(_, _, _)
ChunkAt(cs, i, o) ==
    IF i > Len(cs) THEN -1
    ELSE IF cs[i].off <= o /\ o - cs[i].off < Len(cs[i].b) THEN cs[i].b[o - cs[i].off + 1]
    ELSE ChunkAt(cs, i + 1, o)

(* the byte at offset o (0-based); -1 when o is outside the file or the byte is not known *)
At(f, o) == IF o < 0 \/ o >= f.len THEN -1 ELSE ChunkAt(f.chunks, 1, o)

(* n bytes from offset o lie inside the file (written so that nothing overflows 32-bit arithmetic) *)
Inside(f, o, n) == o >= 0 /\ n >= 0 /\ o <= f.len /\ n <= f.len - o
Known(f, o, n) == \A i \in 0 .. n - 1 : At(f, o + i) >= 0
Slice(f, a, b) == [i \in 1 .. b - a |-> At(f, a + i - 1)]

Min(a, b) == IF a < b THEN a ELSE b
Max(a, b) == IF a > b THEN a ELSE b

(* ---- 32-bit words ---- *)
S32(b0, b1, b2, b3) == b0 + 256 * b1 + 65536 * b2 + 16777216 * (IF b3 >= 128 THEN b3 - 256 ELSE b3)
Rd32(f, o, sw) == IF sw THEN S32(At(f, o + 3), At(f, o + 2), At(f, o + 1), At(f, o))
                  ELSE S32(At(f, o), At(f, o + 1), At(f, o + 2), At(f, o + 3))
Rd16(f, o, sw) == IF sw THEN At(f, o) * 256 + At(f, o + 1) ELSE At(f, o) + 256 * At(f, o + 1)

(* little-endian bytes of a signed 32-bit value; Wr32 writes in the file's byte order *)
Le32(v) == LET u == IF v >= 0 THEN v ELSE (v + 2147483647) + 1
               b3 == (u \div 16777216) + (IF v < 0 THEN 128 ELSE 0)
           IN  <<u % 256, (u \div 256) % 256, (u \div 65536) % 256, b3>>
Rev4(w) == <<w[4], w[3], w[2], w[1]>>
Wr32(v, be) == IF be THEN Rev4(Le32(v)) ELSE Le32(v)
Wr16(v, be) == LET u == IF v >= 0 THEN v ELSE v + 65536 IN IF be THEN <<u \div 256, u % 256>> ELSE <<u % 256, u \div 256>>

(* can n words of 4 bytes be read at o?  "ok" / "bad" (not inside the file) / "unk" (inside, bytes not known) *)
NeedW(f, o, n) == IF n < 0 \/ o < 0 \/ o > f.len \/ n > (f.len - o) \div 4 THEN "bad"
                  ELSE IF Known(f, o, 4 * n) THEN "ok" ELSE "unk"

(* ---- arithmetic that cannot overflow TLC's 32-bit integers: -1 means "2^30 or more" ---- *)
Cap == 1073741823
Mul(a, b) == IF a < 0 \/ b < 0 THEN -1 ELSE IF a = 0 \/ b = 0 THEN 0 ELSE IF a > Cap \div b THEN -1 ELSE a * b
Add(a, b) == IF a < 0 \/ b < 0 THEN -1 ELSE IF a > Cap - b THEN -1 ELSE a + b
RECURSIVE MulAll(_, _)
MulAll(s, i) == IF i > Len(s) THEN 1 ELSE Mul(s[i], MulAll(s, i + 1))
RECURSIVE AddAll(_, _)
AddAll(s, i) == IF i > Len(s) THEN 0 ELSE Add(s[i], AddAll(s, i + 1))
(* n is exactly the product of the non-negative numbers dims *)
ProdIs(n, dims) == n >= 0 /\ (\A i \in 1 .. Len(dims) : dims[i] >= 0) /\ MulAll(dims, 1) = n

(* ---- the checksum of s3file.c: sum = rotl(sum, 20) + word, modulo 2^32, over every word read after the header.
   A 32-bit unsigned value is a pair <<hi, lo>> of 16-bit halves. ---- *)
Rot20(s) == LET h == s[2]   \* rotl 16 swaps the halves ...
                l == s[1]
            IN  <<((h * 16) % 65536) + (l \div 4096), ((l * 16) % 65536) + (h \div 4096)>>   \* ... then rotl 4
Add32(s, w) == LET lo == s[2] + w[2] IN <<(s[1] + w[1] + (lo \div 65536)) % 65536, lo % 65536>>
Halves(f, o, sw) == IF sw THEN <<At(f, o) * 256 + At(f, o + 1), At(f, o + 2) * 256 + At(f, o + 3)>>
                    ELSE <<At(f, o + 3) * 256 + At(f, o + 2), At(f, o + 1) * 256 + At(f, o)>>
RECURSIVE SumWords(_, _, _, _, _)
SumWords(f, o, e, sw, acc) == IF o >= e THEN acc ELSE SumWords(f, o + 4, e, sw, Add32(Rot20(acc), Halves(f, o, sw)))

(* checksum of the words in a..b-1: the supplied one when it is for exactly this range (the driver's routine is checked
   against SumWords on files shown in full, ModelTrace!TViewIntact), else from the bytes when they are all known, else
   <<-1,-1>> *)
Chk(f, a, b, sw) == IF f.sum # <<>> /\ f.sum[1] = a /\ f.sum[2] = b THEN <<f.sum[3], f.sum[4]>>
                    ELSE IF Known(f, a, b - a) THEN SumWords(f, a, b, sw, <<0, 0>>)
                    ELSE <<-1, -1>>

(* ---- text ---- *)
IsSp(c) == c \in {0, 9, 10, 11, 12, 13, 32}      \* isspace_c(): strchr(" \t\n\r\v\f", ch) also finds the terminator
IsPrefixOf(w, s) == Len(w) <= Len(s) /\ \A i \in 1 .. Len(w) : w[i] = s[i]

(* position after the line that starts at o; -2 when a byte of the line is unknown *)
RECURSIVE Eol(_, _)
Eol(f, o) == IF o >= f.len THEN f.len
             ELSE LET c == At(f, o) IN IF c < 0 THEN -2 ELSE IF c = 10 THEN o + 1 ELSE Eol(f, o + 1)
RECURSIVE SkipSp(_, _, _)
SkipSp(f, o, e) == IF o < e /\ IsSp(At(f, o)) THEN SkipSp(f, o + 1, e) ELSE o
RECURSIVE SkipWd(_, _, _)
SkipWd(f, o, e) == IF o < e /\ ~IsSp(At(f, o)) THEN SkipWd(f, o + 1, e) ELSE o

(* atoi() at offset o: white space, sign, digits; stops at the first other byte or at the end of the file *)
RECURSIVE Digits(_, _, _)
Digits(f, o, acc) == LET c == At(f, o) IN IF c >= 48 /\ c <= 57 /\ acc <= 99999999 THEN Digits(f, o + 1, acc * 10 + (c - 48)) ELSE acc
RECURSIVE SkipCSp(_, _)
SkipCSp(f, o) == IF At(f, o) \in {9, 10, 11, 12, 13, 32} THEN SkipCSp(f, o + 1) ELSE o
Atoi(f, o) == LET p == SkipCSp(f, o)
                  c == At(f, p)
              IN  IF c = 45 THEN 0 - Digits(f, p + 1, 0) ELSE IF c = 43 THEN Digits(f, p + 1, 0) ELSE Digits(f, p, 0)

(* three-valued logic for "cannot tell from the bytes supplied" *)
And3(a, b) == IF a = "F" \/ b = "F" THEN "F" ELSE IF a = "U" \/ b = "U" THEN "U" ELSE "T"
Or3(a, b) == IF a = "T" \/ b = "T" THEN "T" ELSE IF a = "U" \/ b = "U" THEN "U" ELSE "F"
B3(b) == IF b THEN "T" ELSE "F"
=============================================================================
