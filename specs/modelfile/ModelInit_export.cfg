SPECIFICATION Spec
INVARIANTS TypeOK IntactOK TruncationRefused MandatoryMissingRefused ExtensionAllowed Decided ReloadLoads
ACTION_CONSTRAINT Export
CHECK_DEADLOCK FALSE
VIEW View
