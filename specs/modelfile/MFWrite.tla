------------------------------ MODULE MFWrite ------------------------------
(* Writers for the formats of MFFormats, and the miniature acoustic models used as instances.  A model is a
   record of what the files announce and carry; Files(M) are the bytes of its directory.  The driver writes
   exactly these bytes to disk, the real decoder_init() has to load them (that an instance is a model is a
   theorem checked by TLC - ModelInit!IntactOK - and an observation made on the real code in every execution). *)
EXTENDS MFFormats

RECURSIVE Cat(_, _)
Cat(ss, i) == IF i > Len(ss) THEN <<>> ELSE ss[i] \o Cat(ss, i + 1)
Flat(ss) == Cat(ss, 1)
Ints(vs, be) == Flat([i \in 1 .. Len(vs) |-> Wr32(vs[i], be)])
(* floats are given as their little-endian bytes *)
Floats(ws, be) == Flat([i \in 1 .. Len(ws) |-> IF be THEN Rev4(ws[i]) ELSE ws[i]])
Rep(pat, n) == [i \in 1 .. n |-> pat[((i - 1) % Len(pat)) + 1]]

F0 == <<0, 0, 0, 0>>          \* 0.0
F1 == <<0, 0, 128, 63>>       \* 1.0
FM1 == <<0, 0, 128, 191>>     \* -1.0
FH == <<0, 0, 0, 63>>         \* 0.5
FQ == <<0, 0, 128, 62>>       \* 0.25
F2 == <<0, 0, 0, 64>>         \* 2.0
FM2 == <<0, 0, 0, 192>>       \* -2.0
FE == <<0, 0, 0, 62>>         \* 0.125
F38 == <<0, 0, 192, 62>>      \* 0.375

S3LINE == <<115, 51, 10>>
VER10 == <<118, 101, 114, 115, 105, 111, 110, 32, 49, 46, 48, 10>>
VER01 == <<118, 101, 114, 115, 105, 111, 110, 32, 48, 46, 49, 10>>
CHKLINE == <<99, 104, 107, 115, 117, 109, 48, 32, 121, 101, 115, 10>>
ENDLINE == <<101, 110, 100, 104, 100, 114, 10>>

SumBytes(s, be) == LET le == <<s[2] % 256, s[2] \div 256, s[1] % 256, s[1] \div 256>> IN IF be THEN Rev4(le) ELSE le

(* an s3 container: header, byte-order word, body, checksum over the body when announced *)
S3File(verline, chk, be, body) ==
    LET head == S3LINE \o verline \o (IF chk THEN CHKLINE ELSE <<>>) \o ENDLINE \o Wr32(MAGIC, be)
        all == head \o body
    IN  IF chk THEN all \o SumBytes(SumWords(Whole(all), Len(head), Len(all), be, <<0, 0>>), be) ELSE all

WGauden(g, vals, be) ==
    LET n == g.n_mgau * g.n_density * AddAll(g.veclen, 1) IN
    S3File(VER10, g.chk, be, Ints(<<g.n_mgau, Len(g.veclen), g.n_density>> \o g.veclen \o <<n>>, be) \o Floats(Rep(vals, n), be))

WTmat(t, be) ==
    LET n == t.n_tmat * t.n_src * (t.n_src + 1) IN
    S3File(VER10, t.chk, be, Ints(<<t.n_tmat, t.n_src, t.n_src + 1, n>>, be) \o Floats(Rep(t.rows, n), be))

WMixw(m, be) ==
    LET n == m.n_sen * m.n_feat * m.n_comp IN
    S3File(VER10, m.chk, be, Ints(<<m.n_sen, m.n_feat, m.n_comp, n>>, be) \o Floats(Rep(m.vals, n), be))

WLda(l, be) ==
    LET n == l.rows * l.cols IN
    S3File(VER01, l.chk, be, Ints(<<1, l.rows, l.cols, n>>, be) \o Floats(Rep(l.vals, n), be))

Dec(n) == IF n < 10 THEN <<48 + n>> ELSE <<48 + (n \div 10), 48 + (n % 10)>>
SdStr(bs, be) == Wr32(Len(bs) + 1, be) \o bs \o <<0>>
WSendump(s, be) ==
    LET step == IF s.bits = 4 THEN (s.cols + 1) \div 2 ELSE s.cols IN
    SdStr(<<116>>, be) \o SdStr(<<104>>, be) \o SdStr(<<110, 111, 116, 101>>, be)
    \o SdStr(KEY_FEAT \o Dec(s.n_feat), be) \o SdStr(KEY_MIX \o Dec(s.n_density), be) \o SdStr(KEY_MODEL \o Dec(s.n_sen), be)
    \o (IF s.clust # 0 THEN SdStr(KEY_CLUST \o Dec(s.clust), be) \o SdStr(KEY_BITS \o Dec(s.bits), be) ELSE <<>>)
    \o Wr32(0, be)
    \o (IF s.clust = 0 THEN Wr32(s.rows, be) \o Wr32(s.cols, be) ELSE [i \in 1 .. 16 |-> (i - 1) * 8])
    \o [i \in 1 .. s.n_feat * s.rows * step |-> (17 * i) % 97]     \* quantised weights stay below MAX_NEG_MIXW

WMdef(m, be) ==
    LET names == Flat([i \in 1 .. Len(m.cin) |-> m.cin[i] \o <<0>>])
        pad == [i \in 1 .. (4 - (Len(names) % 4)) % 4 |-> 0]
    IN  Wr32(BMDF, be) \o Wr32(1, be) \o Wr32(Len(m.descr), be) \o m.descr
        \o Ints(<<Len(m.cin), Len(m.phones), m.n_emit, m.n_ci_sen, m.n_sen, m.n_tmat, Len(m.sseq), 3, Len(m.tree), m.sil>>, be)
        \o names \o pad
        \o Flat([i \in 1 .. Len(m.tree) |-> Wr16(m.tree[i][1], be) \o Wr16(m.tree[i][2], be) \o Wr32(m.tree[i][3], be)])
        \o Flat([i \in 1 .. Len(m.phones) |-> Wr32(m.phones[i][1], be) \o Wr32(m.phones[i][2], be)
                                              \o <<m.phones[i][3], m.phones[i][4], m.phones[i][5], m.phones[i][6]>>])
        \o Wr32(Len(m.sseq) * m.n_emit, be)
        \o Flat([i \in 1 .. Len(m.sseq) |-> Flat([j \in 1 .. m.n_emit |-> Wr16(m.sseq[i][j], be)])])

(* ------------------------------------------------------------------------------------------------------------
   The miniature models: two CI phones "A" and "SIL", one triphone A(SIL,SIL) in single-word position, three
   emitting states, nine senones, two transition matrices, one feature stream of two cepstra. *)
FP_1S_C_2 == <<123, 34, 102, 101, 97, 116, 34, 58, 34, 49, 115, 95, 99, 34, 44, 34, 99, 101, 112, 108, 101, 110, 34, 58, 50, 44, 34, 110, 99, 101, 112, 34, 58, 50, 44, 34, 110, 102, 105, 108, 116, 34, 58, 52, 44, 34, 99, 109, 110, 34, 58, 34, 110, 111, 110, 101, 34, 44, 34, 114, 101, 109, 111, 118, 101, 95, 110, 111, 105, 115, 101, 34, 58, 102, 97, 108, 115, 101, 125, 10>>
FP_1S_C_3 == <<123, 34, 102, 101, 97, 116, 34, 58, 34, 49, 115, 95, 99, 34, 44, 34, 99, 101, 112, 108, 101, 110, 34, 58, 51, 44, 34, 110, 99, 101, 112, 34, 58, 51, 44, 34, 110, 102, 105, 108, 116, 34, 58, 52, 44, 34, 99, 109, 110, 34, 58, 34, 110, 111, 110, 101, 34, 44, 34, 114, 101, 109, 111, 118, 101, 95, 110, 111, 105, 115, 101, 34, 58, 102, 97, 108, 115, 101, 125, 10>>

(* the feature parameters of both bundled models: 13 cepstra, 1s_c_d_dd cut into the subvectors 0-12/13-25/26-38 *)
FP_BUNDLED == <<123, 10, 34, 108, 111, 119, 101, 114, 102, 34, 58, 32, 49, 51, 48, 44, 10, 34, 117, 112, 112, 101, 114, 102, 34, 58, 32, 51, 55, 48, 48, 44, 10, 34, 110, 102, 105, 108, 116, 34, 58, 32, 50, 48, 44, 10, 34, 116, 114, 97, 110, 115, 102, 111, 114, 109, 34, 58, 32, 34, 100, 99, 116, 34, 44, 10, 34, 108, 105, 102, 116, 101, 114, 34, 58, 32, 50, 50, 44, 10, 34, 102, 101, 97, 116, 34, 58, 32, 34, 49, 115, 95, 99, 95, 100, 95, 100, 100, 34, 44, 10, 34, 115, 118, 115, 112, 101, 99, 34, 58, 32, 34, 48, 45, 49, 50, 47, 49, 51, 45, 50, 53, 47, 50, 54, 45, 51, 56, 34, 44, 10, 34, 99, 109, 110, 34, 58, 32, 34, 99, 117, 114, 114, 101, 110, 116, 34, 44, 10, 34, 118, 97, 114, 110, 111, 114, 109, 34, 58, 32, 102, 97, 108, 115, 101, 44, 10, 34, 114, 101, 109, 111, 118, 101, 95, 110, 111, 105, 115, 101, 34, 58, 32, 116, 114, 117, 101, 10, 125, 10>>

(* what decoder_init makes of a feature-parameter file: only texts written here are interpreted; no file means
   the defaults (feat 1s_c_d_dd, 13 cepstra: one stream of 39) *)
FeatCfg(f) ==
    IF ~Present(f) THEN [st |-> "ok", n_stream |-> 1, veclen |-> 39]
    ELSE IF f.len = Len(FP_1S_C_2) /\ Known(f, 0, f.len) /\ Slice(f, 0, f.len) = FP_1S_C_2 THEN [st |-> "ok", n_stream |-> 1, veclen |-> 2]
    ELSE IF f.len = Len(FP_1S_C_3) /\ Known(f, 0, f.len) /\ Slice(f, 0, f.len) = FP_1S_C_3 THEN [st |-> "ok", n_stream |-> 1, veclen |-> 3]
    ELSE IF f.len = Len(FP_BUNDLED) /\ Known(f, 0, f.len) /\ Slice(f, 0, f.len) = FP_BUNDLED THEN [st |-> "ok", n_stream |-> 3, veclen |-> 13]
    ELSE [st |-> "unk"]

MiniMdef ==
    [descr |-> <<102, 109, 116, 0>>, cin |-> <<<<65>>, <<83, 73, 76>>>>, n_emit |-> 3, n_ci_sen |-> 6, n_sen |-> 9, n_tmat |-> 2, sil |-> 1,
     \* 4 word-position nodes, 4 x 2 CI nodes, one left-context node, one right-context leaf (phone 2)
     tree |-> <<<<0, 2, 4>>, <<1, 2, 6>>, <<2, 2, 8>>, <<3, 2, 10>>,
                <<0, 0, -1>>, <<1, 0, -1>>, <<0, 0, -1>>, <<1, 0, -1>>, <<0, 1, 12>>, <<1, 0, -1>>, <<0, 0, -1>>, <<1, 0, -1>>,
                <<1, 1, 13>>, <<1, 0, 2>>>>,
     phones |-> <<<<0, 0, 0, 0, 0, 0>>, <<1, 1, 1, 0, 0, 0>>, <<2, 0, 2, 0, 1, 1>>>>,
     sseq |-> <<<<0, 1, 2>>, <<3, 4, 5>>, <<6, 7, 8>>>>]
MiniTmat(chk) == [chk |-> chk, n_tmat |-> 2, n_src |-> 3, rows |-> <<FH, FQ, FQ, F0, F0, FH, FQ, FQ, F0, F0, FH, FH>>]
MEANS == <<F0, F0, F1, F1, FM1, FH, F2, FM2>>
VARS == <<F1, FH>>

NoFile == [present |-> FALSE]
Models == <<
    \* 1: phonetically tied mixtures (one codebook per CI phone), 8-bit senone dump, checksums
    [name |-> "ptm", be |-> FALSE, mdef |-> MiniMdef, tmat |-> MiniTmat(TRUE),
     gau |-> [chk |-> TRUE, n_mgau |-> 2, n_density |-> 4, veclen |-> <<2>>],
     sendump |-> [present |-> TRUE, n_feat |-> 1, n_density |-> 4, n_sen |-> 9, clust |-> 0, bits |-> 8, rows |-> 4, cols |-> 9],
     mixw |-> NoFile, lda |-> NoFile, fp |-> FP_1S_C_2],
    \* 2: semi-continuous (one codebook), 4-bit clustered senone dump, no checksums on the codebooks, feature transform
    [name |-> "semi", be |-> FALSE, mdef |-> MiniMdef, tmat |-> MiniTmat(FALSE),
     gau |-> [chk |-> FALSE, n_mgau |-> 1, n_density |-> 4, veclen |-> <<2>>],
     sendump |-> [present |-> TRUE, n_feat |-> 1, n_density |-> 4, n_sen |-> 9, clust |-> 16, bits |-> 4, rows |-> 4, cols |-> 9],
     mixw |-> NoFile, lda |-> [present |-> TRUE, chk |-> TRUE, rows |-> 2, cols |-> 2, vals |-> <<F1, F0, F0, F1>>], fp |-> FP_1S_C_2],
    \* 3: continuous (one codebook per senone): the general multi-stream module, mixture_weights file
    [name |-> "cont", be |-> FALSE, mdef |-> MiniMdef, tmat |-> MiniTmat(TRUE),
     gau |-> [chk |-> TRUE, n_mgau |-> 9, n_density |-> 2, veclen |-> <<2>>],
     sendump |-> NoFile, mixw |-> [present |-> TRUE, chk |-> TRUE, n_sen |-> 9, n_feat |-> 1, n_comp |-> 2, vals |-> <<FH, FH>>],
     lda |-> NoFile, fp |-> FP_1S_C_2],
    \* 4: written on a machine of the other byte order; tied mixtures with a mixture_weights file
    [name |-> "swapped", be |-> TRUE, mdef |-> MiniMdef, tmat |-> MiniTmat(TRUE),
     gau |-> [chk |-> TRUE, n_mgau |-> 2, n_density |-> 4, veclen |-> <<2>>],
     sendump |-> NoFile, mixw |-> [present |-> TRUE, chk |-> TRUE, n_sen |-> 9, n_feat |-> 1, n_comp |-> 4, vals |-> <<FQ, FQ, FE, F38>>],
     lda |-> NoFile, fp |-> FP_1S_C_2]
>>

Kinds == <<"mdef", "means", "variances", "tmat", "sendump", "mixw", "lda", "featparams">>
FileNames == [mdef |-> "mdef", means |-> "means", variances |-> "variances", tmat |-> "transition_matrices", sendump |-> "sendump",
              mixw |-> "mixture_weights", lda |-> "feature_transform", featparams |-> "feat_params.json"]

(* every file of the model's directory *)
DirOf(M) ==
    [mdef |-> Whole(WMdef(M.mdef, M.be)), means |-> Whole(WGauden(M.gau, MEANS, M.be)), variances |-> Whole(WGauden(M.gau, VARS, M.be)),
     tmat |-> Whole(WTmat(M.tmat, M.be)),
     sendump |-> IF ~M.sendump.present THEN Missing ELSE Whole(WSendump(M.sendump, M.be)),
     mixw |-> IF ~M.mixw.present THEN Missing ELSE Whole(WMixw(M.mixw, M.be)),
     lda |-> IF ~M.lda.present THEN Missing ELSE Whole(WLda(M.lda, M.be)),
     featparams |-> Whole(M.fp)]
(* the bytes of a completely known file *)
BytesOf(f) == IF f.chunks = <<>> THEN <<>> ELSE f.chunks[1].b
=============================================================================
