SPECIFICATION Spec
INVARIANTS TypeOK IntactOK TruncationRefused MandatoryMissingRefused ExtensionAllowed Decided ReloadLoads
CHECK_DEADLOCK FALSE
VIEW View
