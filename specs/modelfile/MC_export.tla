----------------------------- MODULE MC_export -----------------------------
(* Same state space; every Attempt transition and the intact directories are printed as JSON for the driver. *)
EXTENDS ModelInit
AllIntact == <<IntactOf(1), IntactOf(2), IntactOf(3), IntactOf(4)>>
ASSUME ExportModels
=============================================================================
