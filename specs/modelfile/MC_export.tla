----------------------------- MODULE MC_export -----------------------------
(* Same state space; every Attempt transition and the intact directories are printed as JSON for the driver. *)
EXTENDS ModelInit
ASSUME ExportModels
=============================================================================
