------------------------------ MODULE ModelInit ------------------------------
(* Property C17 as a small state machine over the miniature models:

     fresh --Attempt(kind, damage)--> attempted --Reload--> reloaded

   Attempt damages one file of the model's directory and asks the format specification (MFFormats!Loadable3)
   whether the directory still is a model: "F" - initialisation has to report failure; "T"/"U" - it may load.
   Reload is initialisation from the intact directory, which has to succeed and build what the files announce.

   What TLC establishes here (invariants) are theorems about the format specification that make the oracle
   worth having: every instance is a model (IntactOK), no proper prefix of a model file is that file again
   (TruncationRefused: every truncation must be refused - a consequence of the formats, not an assumption), a
   missing mandatory file is refused, nothing is left undecided on completely known files (Decided), and the
   readers consume the files exactly to their ends (no slack for a truncation to hide in).
   The transitions are printed (Export) and become the executions of the real decoder_init(). *)
EXTENDS MFDamage, Json

VARIABLES phase, m, kind, dmg, verdict
vars == <<phase, m, kind, dmg, verdict>>

PresentKinds(D) == {Kinds[i] : i \in {j \in 1 .. Len(Kinds) : Present(D[Kinds[j]])}}

(* everything about the intact instances.  Intact is a constant bound in the configuration to the operator
   AllIntact of the root module (TLC evaluates zero-arity constant definitions once only when they are in the root
   module; evaluating this one takes as long as a few hundred transitions) *)
IntactOf(i) == LET D == DirOf(Models[i]) IN [dir |-> D, P |-> ParseDir(D, FeatCfg(D.featparams))]
CONSTANT Intact
FldsOf(i, k) == IF k = "featparams" THEN <<Fld("text", 0, "data", Intact[i].dir.featparams.len)>> ELSE Intact[i].P[k].flds
NVariants(i, k) == Len(Variants(Models[i], k))

Damaged(i, k, d) == Apply(Models[i], k, Intact[i].dir[k], FldsOf(i, k), d, Models[i].be)
ParseWith(i, k, f) ==
    LET D == [Intact[i].dir EXCEPT ![k] = f]
        fp == FeatCfg(D.featparams)
        P0 == Intact[i].P
    IN  \* only the damaged file is read again; a senone dump is read against its siblings, so it follows mdef and means
        IF k \in {"mdef", "means", "sendump", "featparams", "lda"} THEN ParseDir(D, fp)
        ELSE IF k = "variances" THEN [P0 EXCEPT !.variances = Gauden(f)]
        ELSE IF k = "tmat" THEN [P0 EXCEPT !.tmat = Tmat(f)]
        ELSE [P0 EXCEPT !.mixw = IF Present(f) THEN Mixw(f) ELSE [st |-> "absent"]]

Init == phase = "fresh" /\ m \in 1 .. Len(Models) /\ kind = "-" /\ dmg = Dmg("-", 0, 0) /\ verdict = "-"

Attempt(k, d) ==
    /\ phase = "fresh"
    /\ Applicable(Intact[m].dir[k], FldsOf(m, k), d, Models[m].be)
    /\ phase' = "attempted" /\ kind' = k /\ dmg' = d /\ m' = m
    /\ verdict' = Loadable3(ParseWith(m, k, Damaged(m, k, d)))

Reload == phase = "attempted" /\ phase' = "reloaded" /\ verdict' = Loadable3(Intact[m].P) /\ UNCHANGED <<m, kind, dmg>>

Next == (\E k \in PresentKinds(Intact[m].dir) : \E d \in Damages(Intact[m].dir[k], FldsOf(m, k), NVariants(m, k)) : Attempt(k, d)) \/ Reload
Spec == Init /\ [][Next]_vars

(* ---- theorems about the formats ---- *)
ExpectedGmm == <<"ptm", "s2_semi", "ms", "ptm">>
ReadToEnd(i) == \A k \in PresentKinds(Intact[i].dir) \ {"featparams"} : Intact[i].P[k].st = "ok" /\ Intact[i].P[k].end = Intact[i].dir[k].len
Announces(i) ==
    LET M == Models[i]
        P == Intact[i].P
    IN  /\ P.mdef.d.n_ciphone = Len(M.mdef.cin) /\ P.mdef.d.n_phone = Len(M.mdef.phones) /\ P.mdef.d.n_sen = M.mdef.n_sen
        /\ P.mdef.d.n_sseq = Len(M.mdef.sseq) /\ P.mdef.d.n_cd_tree = Len(M.mdef.tree) /\ P.mdef.d.sseq_size = Len(M.mdef.sseq) * M.mdef.n_emit
        /\ P.means.d = [n_mgau |-> M.gau.n_mgau, n_feat |-> 1, n_density |-> M.gau.n_density, veclen |-> M.gau.veclen]
        /\ P.tmat.d = [n_tmat |-> M.tmat.n_tmat, n_state |-> M.tmat.n_src]
        /\ P.means.sw = M.be /\ P.mdef.sw = M.be /\ P.tmat.sw = M.be
IntactOK == \A i \in 1 .. Len(Models) : Loadable3(Intact[i].P) = "T" /\ WhichGmm(Intact[i].P) = ExpectedGmm[i] /\ ReadToEnd(i) /\ Announces(i)

TruncationRefused == phase = "attempted" /\ dmg.c = "trunc" /\ kind # "featparams" => verdict = "F"
MandatoryMissingRefused == phase = "attempted" /\ dmg.c = "missing" /\ kind \in {"mdef", "means", "variances", "tmat", "sendump", "mixw"} => verdict = "F"
ExtensionAllowed == phase = "attempted" /\ dmg.c = "extend" /\ kind # "featparams" => verdict = "T"
Decided == phase = "attempted" /\ kind # "featparams" => verdict \in {"T", "F"}
ReloadLoads == phase = "reloaded" => verdict = "T"
TypeOK == phase \in {"fresh", "attempted", "reloaded"} /\ verdict \in {"-", "T", "F", "U"}

(* ---- export: one line per Attempt transition ---- *)
Export ==
    IF phase = "fresh" /\ phase' = "attempted"
    THEN LET f == Damaged(m, kind', dmg')
             P == ParseWith(m, kind', f)
         IN  PrintT(<<"CASE", ToJson([model |-> m, name |-> Models[m].name, kind |-> kind', file |-> FileNames[kind'],
                                      dmg |-> DmgName(Models[m], kind', FldsOf(m, kind'), dmg'),
                                      cls |-> DmgClass(Models[m], kind', FldsOf(m, kind'), dmg'),
                                      present |-> Present(f), bytes |-> BytesOf(f),
                                      verdict |-> verdict', why |-> Why(P), gmm |-> WhichGmm(P)])>>)
    ELSE TRUE
(* the intact directories: printed once per model from the initial states *)
ExportModels ==
    \A i \in 1 .. Len(Models) :
        PrintT(<<"MODEL", ToJson([model |-> i, name |-> Models[i].name,
                                  files |-> [j \in 1 .. Len(Kinds) |->
                                                [kind |-> Kinds[j], file |-> FileNames[Kinds[j]], present |-> Present(Intact[i].dir[Kinds[j]]),
                                                 bytes |-> BytesOf(Intact[i].dir[Kinds[j]])]],
                                  gmm |-> WhichGmm(Intact[i].P),
                                  mdef |-> Intact[i].P.mdef.d, means |-> Intact[i].P.means.d, tmat |-> Intact[i].P.tmat.d])>>)
=============================================================================
