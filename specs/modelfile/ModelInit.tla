------------------------------ MODULE ModelInit ------------------------------
(* Property C17 as a small state machine over the miniature models:

     fresh --Attempt(kind, damage)--> attempted --Reload--> reloaded

   Attempt damages one file of the model's directory and asks the format specification (MFFormats!Loadable3)
   whether the directory still is a model: "F" - initialisation has to report failure; "T"/"U" - it may load.
   Reload is initialisation from the intact directory, which has to succeed and build what the files announce.

   What TLC establishes here (invariants) are theorems about the format specification that make the oracle
   worth having: every instance is a model (IntactOK), no proper prefix of a model file is that file again
   (TruncationRefused: every truncation must be refused - a consequence of the formats, not an assumption), a
   missing mandatory file is refused, nothing is left undecided on completely known files (Decided), and the
   readers consume the files exactly to their ends (no slack for a truncation to hide in).
   The transitions are printed (Export) and become the executions of the real decoder_init(). *)
EXTENDS MFDamage, Json

VARIABLES phase, m, kind, dmg, verdict, cache
vars == <<phase, m, kind, dmg, verdict, cache>>
View == <<phase, m, kind, dmg, verdict>>

(* everything about the intact instances is computed once, in Init, and carried in the variable cache (whether TLC
   keeps the value of a constant definition depends on where it is defined and in what order definitions are
   processed; a definition evaluated on every use makes a transition cost as much as reading 28 files) *)
Flds(i, k) == FldsOf(cache[i], k)
NVariants(i, k) == Len(Variants(Models[i], k))
Damaged(i, k, d) == DamagedFile(Models[i], cache[i], k, d)

Init == phase = "fresh" /\ m \in 1 .. Len(Models) /\ kind = "-" /\ dmg = Dmg("-", 0, 0) /\ verdict = "-"
        /\ cache = <<IntactOf(1), IntactOf(2), IntactOf(3), IntactOf(4)>>

Attempt(k, d) ==
    /\ phase = "fresh"
    /\ Applicable(cache[m].dir[k], Flds(m, k), d, Models[m].be)
    /\ phase' = "attempted" /\ kind' = k /\ dmg' = d /\ m' = m /\ cache' = cache
    /\ verdict' = Loadable3(ParseWith(cache[m], k, Damaged(m, k, d)))

Reload == phase = "attempted" /\ phase' = "reloaded" /\ verdict' = Loadable3(cache[m].P) /\ UNCHANGED <<m, kind, dmg, cache>>

Next == (\E k \in PresentKinds(cache[m].dir) : \E d \in Damages(cache[m].dir[k], Flds(m, k), NVariants(m, k)) : Attempt(k, d)) \/ Reload
Spec == Init /\ [][Next]_vars

(* ---- theorems about the formats ---- *)
ExpectedGmm == <<"ptm", "s2_semi", "ms", "ptm">>
ReadToEnd(i) == \A k \in PresentKinds(cache[i].dir) \ {"featparams"} : cache[i].P[k].st = "ok" /\ cache[i].P[k].end = cache[i].dir[k].len
Announces(i) ==
    LET M == Models[i]
        P == cache[i].P
    IN  /\ P.mdef.d.n_ciphone = Len(M.mdef.cin) /\ P.mdef.d.n_phone = Len(M.mdef.phones) /\ P.mdef.d.n_sen = M.mdef.n_sen
        /\ P.mdef.d.n_sseq = Len(M.mdef.sseq) /\ P.mdef.d.n_cd_tree = Len(M.mdef.tree) /\ P.mdef.d.sseq_size = Len(M.mdef.sseq) * M.mdef.n_emit
        /\ P.means.d = [n_mgau |-> M.gau.n_mgau, n_feat |-> 1, n_density |-> M.gau.n_density, veclen |-> M.gau.veclen]
        /\ P.tmat.d = [n_tmat |-> M.tmat.n_tmat, n_state |-> M.tmat.n_src]
        /\ P.means.sw = M.be /\ P.mdef.sw = M.be /\ P.tmat.sw = M.be
IntactOK == \A i \in 1 .. Len(Models) : Loadable3(cache[i].P) = "T" /\ WhichGmm(cache[i].P) = ExpectedGmm[i] /\ ReadToEnd(i) /\ Announces(i)

(* the one exception: ptm and s2_semi read mixture_weights without looking at its checksum (read_mixw), so cutting
   into the checksum only goes unnoticed in models that these modules load *)
UnverifiedTail == kind = "mixw" /\ WhichGmm(cache[m].P) # "ms" /\ cache[m].P.mixw.chk /\ dmg.a >= cache[m].P.mixw.end - 4
TruncationRefused == phase = "attempted" /\ dmg.c = "trunc" /\ kind # "featparams" /\ ~UnverifiedTail => verdict = "F"
MandatoryMissingRefused == phase = "attempted" /\ dmg.c = "missing" /\ kind \in {"mdef", "means", "variances", "tmat", "sendump", "mixw"} => verdict = "F"
ExtensionAllowed == phase = "attempted" /\ dmg.c = "extend" /\ kind # "featparams" => verdict = "T"
Decided == phase = "attempted" /\ kind # "featparams" => verdict \in {"T", "F"}
ReloadLoads == phase = "reloaded" => verdict = "T"
TypeOK == phase \in {"fresh", "attempted", "reloaded"} /\ verdict \in {"-", "T", "F", "U"}

(* ---- export: one line per Attempt transition; the intact directory of a model is printed with the one transition
   "model definition missing" ---- *)
SumKinds(i) == {k \in {"means", "variances", "tmat", "mixw", "lda"} : cache[i].P[k].st = "ok" /\ cache[i].P[k].chk}
ModelJson(i) ==
    ToJson([model |-> i, name |-> Models[i].name,
            files |-> [j \in 1 .. Len(Kinds) |-> [kind |-> Kinds[j], file |-> FileNames[Kinds[j]], present |-> Present(cache[i].dir[Kinds[j]]),
                                                  bytes |-> BytesOf(cache[i].dir[Kinds[j]])]],
            sums |-> [k \in SumKinds(i) |-> <<cache[i].P[k].pos, cache[i].P[k].dend, cache[i].P[k].sw>>],
            gmm |-> WhichGmm(cache[i].P), mdef |-> cache[i].P.mdef.d, means |-> cache[i].P.means.d, tmat |-> cache[i].P.tmat.d])
Export ==
    IF phase = "fresh" /\ phase' = "attempted"
    THEN LET f == Damaged(m, kind', dmg')
             P == ParseWith(cache[m], kind', f)
         IN  /\ (kind' = "mdef" /\ dmg'.c = "missing") => PrintT(<<"MODEL", ModelJson(m)>>)
             /\ PrintT(<<"CASE", ToJson([model |-> m, name |-> Models[m].name, kind |-> kind', file |-> FileNames[kind'],
                                         dmg |-> DmgName(Models[m], kind', Flds(m, kind'), dmg'),
                                         cls |-> DmgClass(Models[m], kind', Flds(m, kind'), dmg'),
                                         present |-> Present(f), bytes |-> BytesOf(f),
                                         verdict |-> verdict', why |-> Why(P), gmm |-> WhichGmm(P)])>>)
    ELSE TRUE
=============================================================================
