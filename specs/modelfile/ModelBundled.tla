---------------------------- MODULE ModelBundled ----------------------------
(* The damage enumeration of ModelInit for models that are too big to be written down: the bundled en-us and fr-fr.
   The driver shows (IOEnv.VIEWS, one "Model" event per model) the bytes at the start and at the end of every file and
   whatever the readers ask for; the readers of MFFormats run on these partial files.  While a reader misses a byte
   (the model definition's sseq_size word lies megabytes into the file) or the checksum of a word range, that is
   printed as NEED and nothing else happens; the driver adds it and asks again.  Once every file of every model is
   read ("T"), the Attempt transitions are the damages: truncation at every length around every field and area the
   readers found, at the first and last bytes, at every byte of the text headers and at the lengths the driver drew at
   random (randlens), the file missing or extended, and every corruption class of every field.  Each is printed with
   the verdict as far as the shown bytes decide it; the verdict that counts is recomputed by ModelTrace from the bytes
   the library was really given. *)
EXTENDS MFDamage, Json, IOUtils

JViews == ndJsonDeserialize(IOEnv.VIEWS)

VARIABLES phase, m, kind, dmg, verdict, cache
vars == <<phase, m, kind, dmg, verdict, cache>>
View == <<phase, m, kind, dmg, verdict>>

BundledOf(i) == LET D == DirFromViews(JViews[i].views) IN [dir |-> D, P |-> ParseDir(D, FeatCfg(D.featparams)), name |-> JViews[i].name, id |-> JViews[i].id]
RandLens(i, k) == LET vs == JViews[i].views IN IF \E j \in 1 .. Len(vs) : vs[j].kind = k THEN vs[CHOOSE j \in 1 .. Len(vs) : vs[j].kind = k].randlens ELSE <<>>

Needs(I) == {k \in PresentKinds(I.dir) \ {"featparams"} : I.P[k].st # "ok"}
Complete == \A i \in 1 .. Len(cache) : Needs(cache[i]) = {} /\ cache[i].P.fp.st = "ok" /\ Loadable3(cache[i].P) = "T"

Sw(I, k) == IF k = "featparams" THEN FALSE ELSE I.P[k].sw
HdrEnd(I, k) == IF k \in {"means", "variances", "tmat", "mixw", "lda"} THEN I.P[k].pos ELSE IF k = "featparams" THEN I.dir[k].len ELSE 100000
Damages2(i, k) ==
    LET I == cache[i]
        f == I.dir[k]
        flds == FldsOf(I, k)
    IN  {Dmg("trunc", l, 0) : l \in TruncPoints(f, flds, HdrEnd(I, k), RandLens(i, k))}
        \cup {Dmg("missing", 0, 0), Dmg("extend", 1, 0), Dmg("extend", 4, 0)}
        \cup {d \in {Dmg("set", j, b) : j \in 1 .. Len(flds), b \in 1 .. 7} : PatchApplies(f, flds[d.a], d.b, Sw(I, k))}
Apply2(i, k, d) ==
    LET I == cache[i]
        f == I.dir[k]
    IN  CASE d.c = "trunc" -> [f EXCEPT !.len = d.a, !.sum = <<>>]
          [] d.c = "missing" -> Missing
          [] d.c = "extend" -> [f EXCEPT !.len = @ + d.a, !.chunks = @ \o <<[off |-> f.len, b |-> [j \in 1 .. d.a |-> 165]]>>]
          [] OTHER -> Patched(f, PatchOf(f, FldsOf(I, k)[d.a], d.b, Sw(I, k)))
Op(i, k, d) ==
    CASE d.c = "trunc" -> [t |-> "trunc", at |-> d.a, bytes |-> <<>>]
      [] d.c = "missing" -> [t |-> "missing", at |-> 0, bytes |-> <<>>]
      [] d.c = "extend" -> [t |-> "extend", at |-> 0, bytes |-> [j \in 1 .. d.a |-> 165]]
      [] OTHER -> LET p == PatchOf(cache[i].dir[k], FldsOf(cache[i], k)[d.a], d.b, Sw(cache[i], k)) IN [t |-> "put", at |-> p[1], bytes |-> p[2]]
Name2(i, k, d) == IF d.c = "variant" THEN "-" ELSE DmgName(<<>>, k, FldsOf(cache[i], k), d)
Class2(i, k, d) == IF d.c = "variant" THEN "-" ELSE DmgClass(<<>>, k, FldsOf(cache[i], k), d)

Init == phase = "fresh" /\ kind = "-" /\ dmg = Dmg("-", 0, 0) /\ verdict = "-"
        /\ cache = [i \in 1 .. Len(JViews) |-> BundledOf(i)] /\ m \in 1 .. Len(JViews)

Attempt(k, d) ==
    /\ phase = "fresh" /\ Complete
    /\ phase' = "attempted" /\ kind' = k /\ dmg' = d /\ m' = m /\ cache' = cache
    /\ verdict' = Loadable3(ParseWith(cache[m], k, Apply2(m, k, d)))
Next == \E k \in PresentKinds(cache[m].dir) : \E d \in Damages2(m, k) : Attempt(k, d)
Spec == Init /\ [][Next]_vars

(* what the damaged file's own reader wants to have summed (a checksummed file whose structure is still good) *)
SumRange(P, k) == IF k \in {"means", "variances", "tmat"} /\ P[k].st = "unk" /\ "pos" \in DOMAIN P[k] THEN <<P[k].pos, P[k].dend, P[k].sw>> ELSE <<>>

Export ==
    IF phase = "fresh" /\ phase' = "attempted"
    THEN LET P == ParseWith(cache[m], kind', Apply2(m, kind', dmg'))
         IN  PrintT(<<"CASE", ToJson([model |-> cache[m].id, name |-> cache[m].name, kind |-> kind', file |-> FileNames[kind'],
                                     dmg |-> Name2(m, kind', dmg'), cls |-> Class2(m, kind', dmg'), op |-> Op(m, kind', dmg'),
                                     verdict |-> verdict', why |-> Why(P), sumrange |-> SumRange(P, kind')])>>)
    ELSE TRUE

(* printed from the initial states: what is still missing, or the layout the readers found *)
NeedOf(I, k) == IF "at" \in DOMAIN I.P[k] THEN [kind |-> k, at |-> I.P[k].at, sum |-> <<>>]
                ELSE IF "pos" \in DOMAIN I.P[k] THEN [kind |-> k, at |-> -1, sum |-> <<I.P[k].pos, I.P[k].dend, I.P[k].sw>>]
                ELSE [kind |-> k, at |-> -1, sum |-> <<>>]
Report ==
    \A i \in 1 .. Len(JViews) :
        LET I == BundledOf(i) IN
        IF Needs(I) # {}
        THEN \A k \in Needs(I) : PrintT(<<"NEED", ToJson([model |-> I.id, name |-> I.name, need |-> NeedOf(I, k), why |-> I.P[k].why])>>)
        ELSE PrintT(<<"LAYOUT", ToJson([model |-> I.id, name |-> I.name, loadable |-> Loadable3(I.P), gmm |-> WhichGmm(I.P), fp |-> I.P.fp.st,
                                        mdef |-> I.P.mdef.d, means |-> I.P.means.d, tmat |-> I.P.tmat.d, sendump |-> I.P.sendump.d,
                                        ends |-> [k \in PresentKinds(I.dir) \ {"featparams"} |-> <<I.P[k].end, I.dir[k].len>>]])>>)
ASSUME Report

TypeOK == phase \in {"fresh", "attempted"} /\ verdict \in {"-", "T", "F", "U"}
(* the readers consume the bundled files to their last byte, too *)
ReadToEnd == \A i \in 1 .. Len(cache) : Complete => \A k \in PresentKinds(cache[i].dir) \ {"featparams"} : cache[i].P[k].end = cache[i].dir[k].len
TruncationRefused == phase = "attempted" /\ dmg.c = "trunc" /\ kind # "featparams" => verdict = "F"
MissingRefused == phase = "attempted" /\ dmg.c = "missing" => verdict = "F"
=============================================================================
