------------------------------ MODULE ModelTrace ------------------------------
(* Trace validation for C17.  One execution of the real library is

     Header  view*  begin(load)  load  freed  [view*]  begin(reload)  reload  [decode]  freed  exit

   Header names the model and which file of it was damaged; the view events are what the driver read back from the
   directory it is about to hand to decoder_init(): the file's length and bytes (all of them for the miniature
   models, the neighbourhood of the header, of every field and of the end for the bundled ones) and, for a
   checksummed file too big to show, the s3 checksum of the announced word range.  From these bytes alone the format
   specification decides whether the directory still is a model (Loadable3).  Clauses:

     must-refuse        Loadable3 = "F"  =>  decoder_init() returned NULL (or the process reported a fatal error)
     intact-loads       initialisation from the intact directory afterwards succeeds
     intact-announces   ... and built the model-definition, transition-matrix and codebook dimensions the files announce,
                        in the Gaussian-mixture module the format selects
     intact-decodes     ... and decodes the test utterance (to the expected words where the driver knows them)
     loaded-announces   (diagnostic) a damaged but still well-formed directory that was loaded shows the dimensions the
                        specification read from it
     harness-checksum   (machinery) the driver's checksum routine agrees with the specification's on files shown in full

   Executions that crashed are not in the trace: the driver reports them itself, keyed by where they crashed.
   A "Model" event (before the first execution) adds a bundled model: the views of its intact files. *)
EXTENDS MFDamage, Json, IOUtils

JTrace == ndJsonDeserialize(IOEnv.TRACE)

VARIABLES l, cache, ex
vars == <<l, cache, ex>>
Ev == JTrace[l]
(* a clause that fails is printed with the line of the event and the trace goes on: one run judges every execution;
   only an event that no action explains stops it *)
Clause(name, cond) == IF cond THEN TRUE ELSE PrintT(<<"CLAUSE-FAILED", name, l>>)
Note(name, cond) == IF cond THEN TRUE ELSE PrintT(<<"NOTE", name, l>>)

ViewFile(v) == IF ~v.present THEN Missing ELSE [len |-> v.len, chunks |-> v.chunks, sum |-> v.sum]
NoEx == [stage |-> "none", model |-> 0, kind |-> "-", file |-> Missing, seen |-> FALSE, verdict |-> "-", P |-> <<>>]

TInit == l = 1 /\ ex = NoEx /\ cache = <<IntactOf(1), IntactOf(2), IntactOf(3), IntactOf(4)>> /\ TLCSet(1, 0)

(* a bundled model: files not shown do not exist *)
TModel ==
    /\ Ev.e = "Model" /\ ex.stage = "none" /\ Ev.id = Len(cache) + 1
    /\ LET D == DirFromViews(Ev.views)
       IN  cache' = Append(cache, [dir |-> D, P |-> ParseDir(D, FeatCfg(D.featparams))])
    /\ ex' = ex

THeader ==
    /\ Ev.e = "Header" /\ ex.stage \in {"none", "done"}
    /\ Ev.model \in 1 .. Len(cache)
    /\ ex' = [NoEx EXCEPT !.stage = "views", !.model = Ev.model, !.kind = Ev.kind]
    /\ cache' = cache

(* the damaged file as the library is about to see it *)
TViewDamaged ==
    /\ Ev.e = "view" /\ ex.stage = "views" /\ Ev.kind = ex.kind /\ ~ex.seen
    /\ ex' = [ex EXCEPT !.file = ViewFile(Ev), !.seen = TRUE]
    /\ cache' = cache

Mdef10(d) == <<d.n_ciphone, d.n_phone, d.n_emit_state, d.n_ci_sen, d.n_sen, d.n_tmat, d.n_sseq, d.n_ctx, d.n_cd_tree>>
(* what a loaded model shows (public structure fields) against what the readers found in the files *)
Announced(P, ev) ==
    /\ P.mdef.st = "ok" /\ P.tmat.st = "ok" /\ P.means.st = "ok"
    /\ SubSeq(ev.mdef, 1, 9) = Mdef10(P.mdef.d)
    /\ ev.tmat = <<P.tmat.d.n_tmat, P.tmat.d.n_state>>
    /\ ev.mgau = WhichGmm(P)
    /\ SubSeq(ev.g, 1, 4) = <<P.means.d.n_mgau, P.means.d.n_feat, P.means.d.n_density, P.means.d.veclen[1]>>
    /\ ev.g[5] = (IF P.sendump.st = "ok" /\ ev.mgau # "ms" THEN P.mdef.d.n_sen ELSE P.mixw.d.n_sen)

TBegin ==
    /\ Ev.e = "begin"
    /\ \/ Ev.what = "load" /\ ex.stage = "views" /\ ex.seen
          /\ LET P == ParseWith(cache[ex.model], ex.kind, ex.file)
             IN  ex' = [ex EXCEPT !.stage = "loading", !.P = P, !.verdict = Loadable3(P)]
       \/ Ev.what = "reload" /\ ex.stage \in {"loaded", "views2"} /\ ex' = [ex EXCEPT !.stage = "reloading"]
       \/ Ev.what = "decode" /\ ex.stage = "reloaded-wait" /\ ex' = ex
    /\ cache' = cache

TLoad ==
    /\ Ev.e = "load" /\ ex.stage = "loading"
    /\ Clause("must-refuse", ex.verdict = "F" => Ev.ret = 0)
    /\ Note("loaded-announces", Ev.ret = 1 /\ ex.verdict = "T" => Announced(ex.P, Ev))
    /\ ex' = [ex EXCEPT !.stage = "loaded-wait"] /\ cache' = cache

TFreed ==
    /\ Ev.e = "freed" /\ ex.stage \in {"loaded-wait", "reloaded-wait"}
    /\ ex' = [ex EXCEPT !.stage = IF ex.stage = "loaded-wait" THEN "loaded" ELSE "reloaded"] /\ cache' = cache

(* views of intact files between the two initialisations: only there to bind the driver's checksum routine *)
TViewIntact ==
    /\ Ev.e = "view" /\ ex.stage \in {"loaded", "views2"}
    /\ LET f == ViewFile(Ev) IN
       Clause("harness-checksum", Ev.sum # <<>> /\ Known(f, 0, f.len) =>
                                  SumWords(f, Ev.sum[1], Ev.sum[2], Ev.swap, <<0, 0>>) = <<Ev.sum[3], Ev.sum[4]>>)
    /\ ex' = [ex EXCEPT !.stage = "views2"] /\ cache' = cache

TReload ==
    /\ Ev.e = "reload" /\ ex.stage = "reloading"
    /\ Clause("intact-loads", Ev.ret = 1)
    /\ Clause("intact-announces", Announced(cache[ex.model].P, Ev))
    /\ ex' = [ex EXCEPT !.stage = "reloaded-wait"] /\ cache' = cache

TDecode ==
    /\ Ev.e = "decode" /\ ex.stage = "reloaded-wait"
    /\ Clause("intact-decodes", Ev.jsgf = 0 /\ Ev.utt = 0 /\ (Ev.expect # "" => Ev.hyp = Ev.expect))
    /\ UNCHANGED <<ex, cache>>

(* how the process ended: "ok", or "fatal" (it printed a fatal error and exited) - which is a way of reporting
   failure only while the damaged directory is being initialised *)
TExit ==
    /\ Ev.e = "exit"
    /\ \/ Ev.class = "ok" /\ ex.stage = "reloaded"
       \/ Ev.class = "fatal" /\ ex.stage = "loading"
    /\ ex' = [NoEx EXCEPT !.stage = "done"] /\ cache' = cache

TNext == /\ l <= Len(JTrace)
         /\ (TModel \/ THeader \/ TViewDamaged \/ TBegin \/ TLoad \/ TFreed \/ TViewIntact \/ TReload \/ TDecode \/ TExit)
         /\ l' = l + 1
         /\ TLCSet(1, l)
TSpec == TInit /\ [][TNext]_vars

Accepted == IF TLCGet(1) = Len(JTrace) THEN TRUE
            ELSE PrintT(<<"REJECTED-AT", TLCGet(1) + 1>>) /\ FALSE
=============================================================================
