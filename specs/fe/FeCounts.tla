------------------------------ MODULE FeCounts ------------------------------
(***************************************************************************)
(* The part of FeChunkImpl a caller can count: how many frames a call      *)
(* writes, how many samples it hands back, and num_overflow_samps          *)
(* afterwards, as a function of num_overflow_samps before, the chunk       *)
(* length and the output limit - in closed form (the frame loop of         *)
(* fe_process summed up).  FeChunkImpl.CountsAgree (checked by TLC on      *)
(* every transition of the exhaustive models and of the real-constant      *)
(* walks) says that this closed form and the step-by-step transcription    *)
(* ProcessR agree; FeTrace uses it to compare recorded calls of the real   *)
(* code with the mechanism (diagnostics) without carrying 410-sample       *)
(* buffers through every event.                                            *)
(***************************************************************************)
EXTENDS Integers

CONSTANTS Size, Shift,
          HandBack     \* FALSE: fe_interface.c as it is; TRUE: with the proposed parked-frame repair

Min2(a, b) == IF a < b THEN a ELSE b
Max2(a, b) == IF a > b THEN a ELSE b

\* fe_process, non-NULL output buffer
CallCounts(nv, n, m) ==
    IF n + nv < Size THEN [ret |-> 0, left |-> 0, novf |-> nv + n]
    ELSE IF m < 1 THEN [ret |-> 0, left |-> n, novf |-> nv]
    ELSE LET fc == Min2(m, 1 + (n + nv - Size) \div Shift)
             p == (IF nv # 0 THEN Size - nv ELSE Size) + (fc - 1) * Shift
             \* num_overflow_samps goes down by Shift per frame while it is positive
             nvL == nv - Shift * Min2(fc, (nv + Shift - 1) \div Shift)
             fin == IF nvL <= 0
                    THEN LET k == Min2(Shift, n - p)
                         IN [novf |-> Size - Shift + k, p |-> IF Size - Shift + k > 0 THEN p + k ELSE p]
                    ELSE LET k == Min2(n, Size - nvL)
                         IN [novf |-> nvL + k, p |-> Max2(p, k)]
             back == IF HandBack /\ fin.novf >= Size /\ n - fin.p = 0 /\ fin.p > 0 THEN 1 ELSE 0
         IN [ret |-> fc, left |-> n - (fin.p - back), novf |-> fin.novf - back]

\* fe_process, NULL output buffer (output_frame_count)
CountOnlyRet(nv, n) ==
    LET full == IF n + nv < Size THEN 0 ELSE 1 + (n + nv - Size) \div Shift
    IN IF full * Shift + Size > n THEN full + 1 ELSE full

\* fe_end
EndRet(nv, m) == IF m > 0 /\ nv > 0 THEN 1 ELSE 0
=============================================================================
