\* tlc -simulate: random walks with the real constants of one front-end configuration
SPECIFICATION SimSpec
CONSTANTS
  Size <- EnvSize
  Shift <- EnvShift
  AssertLimit = 32767
  MaxN <- EnvMaxN
  Chunks = {}
  MaxOuts = {}
  EndOuts = {1, 2, 5}
  Drain <- EnvDrain
  HandBack <- EnvHandBack
  MaxUtt = 1
INVARIANTS TypeOK NewFramesOK OvfExact PriorOK NoFlaggedRead NoAbort SimFinalCount
PROPERTY CountsAgree
CHECK_DEADLOCK FALSE
