---------------------------- MODULE FeChunkImpl ----------------------------
(***************************************************************************)
(* Layer B for property C06: the chunking mechanism of src/fe_interface.c  *)
(* (fe_process and its helpers overflow_append, read_overflow_frame,       *)
(* create_overflow_frame, append_overflow_frame, output_frame_count,       *)
(* fe_end, fe_start) and of the frame buffer in src/fe_sigproc.c           *)
(* (fe_read_frame_*, fe_shift_frame_*, fe_spch_to_frame), transcribed with *)
(* the offsets the C code uses.                                            *)
(*                                                                         *)
(* Samples are their stream indices (FrameStream): a call that is handed n *)
(* samples after `base' samples were consumed sees the chunk               *)
(* c[0..n) = base+1 .. base+n.  Buffers are arrays of indices; 0 is the    *)
(* value 0.0 (calloc / memset), -1 is poison (stale or out-of-range data). *)
(* Both encodings run the same index arithmetic (the C code has one branch *)
(* per encoding in every helper, with identical offsets), so the encoding  *)
(* is not a parameter here; the harness runs every schedule in both.       *)
(*                                                                         *)
(* The internal assertions are modelled: `assert(nsamps <= MAX_INT16)' in  *)
(* overflow_append (AssertLimit) and `assert(nsamps >= frame_shift)' in    *)
(* the frame loop; a call that trips one ends in phase "aborted".         *)
(* (The same MAX_INT16 assertion used to sit in                            *)
(* create_overflow_frame and append_overflow_frame, where it aborted long  *)
(* output-limited calls; /repo commit c48a241 removed those two.)          *)
(*                                                                         *)
(* HandBack = FALSE is the code as it stands.  HandBack = TRUE adds the    *)
(* proposed repair of the parked-frame defect (see                         *)
(* FinalCanonOrParkedFrame): when a call would return with a complete      *)
(* frame in the overflow buffer and no input left, it hands the last       *)
(* sample back so that the documented caller loop calls again.             *)
(***************************************************************************)
EXTENDS Integers, Sequences, SequencesExt, TLC, FeCounts

CONSTANTS AssertLimit,  \* MAX_INT16 (32767) in the real code
          MaxN,         \* the caller never shows more than MaxN samples
          Chunks,       \* chunk lengths the caller may pass
          MaxOuts,      \* output limits the caller may pass to fe_process
          EndOuts,      \* output limits the caller may pass to fe_end (>= 1: room for the trailing frame)
          Drain,        \* TRUE: the caller ends the stream only after a call that did NOT fill its output
                        \* FALSE: the loop documented in fe.h - stop as soon as no samples are left
          MaxUtt        \* utterances per front-end object (fe_start after fe_end)
\* Size, Shift and HandBack are declared in FeCounts

VARIABLES ovf,      \* fe->overflow_samps[0..Size)  (physical contents, stale entries included)
          novf,     \* fe->num_overflow_samps
          spch,     \* fe->spch[0..Size), the shifting analysis buffer
          prior,    \* index whose value is fe->pre_emphasis_prior
          out,      \* frames written to the caller so far
          pos,      \* samples consumed so far = the caller's pointer
          hw,       \* highest sample the caller has shown to the front end
          phase,    \* "run" | "done" | "aborted"
          filled,   \* the last fe_process call wrote as many frames as it had room for
          bad,      \* a read outside the current chunk / outside a buffer has happened
          utt,      \* utterance number
          last      \* outcome of the most recent call (what a caller can observe + num_overflow_samps)

vars == <<ovf, novf, spch, prior, out, pos, hw, phase, filled, bad, utt, last>>

INSTANCE FrameStream WITH fpos <- pos, fout <- out, fstate <- (IF phase = "done" THEN "done" ELSE "run")

\* c[a .. a+len) of the chunk that starts after `base' consumed samples
Rd(base, a, len) == [i \in 1..len |-> base + a + i]
InChunk(n, a, len) == len <= 0 \/ (a >= 0 /\ a + len <= n)
\* dst[off .. off+Len(vals)) := vals    (off is 0-based as in C)
Put(dst, off, vals) == [i \in 1..Len(dst) |-> IF i > off /\ i <= off + Len(vals) THEN vals[i - off] ELSE dst[i]]
InBuf(off, len) == len <= 0 \/ (off >= 0 /\ off + len <= Size)
At(arr, i) == IF i \in 1..Len(arr) THEN arr[i] ELSE -1

\* fe_spch_to_frame: what the frame is computed from, and the new pre-emphasis memory
FrameOf(sp, len, pr) == [s |-> SubSeq(sp, 1, len), pr |-> pr]
NewPrior(sp, len) == IF len >= Shift THEN sp[Shift] ELSE sp[len]

Fe == [ovf |-> ovf, novf |-> novf, spch |-> spch, prior |-> prior]
Res(fe, frames, p, b, ab) == [fe |-> fe, frames |-> frames, p |-> p, bad |-> b, abort |-> ab]

(***************************************************************************)
(* fe_process with a non-NULL output buffer  (fe_interface.c:577-669)      *)
(***************************************************************************)
ProcessR(fe, base, n, m) ==
    IF n + fe.novf < Size
    THEN \* overflow_append: not enough for one frame, keep everything  (tested before nframes)
         IF n = 0 THEN Res(fe, <<>>, 0, FALSE, "")
         ELSE Res([fe EXCEPT !.ovf = Put(fe.ovf, fe.novf, Rd(base, 0, n)), !.novf = fe.novf + n],
                  <<>>, n, ~InBuf(fe.novf, n), IF n > AssertLimit THEN "overflow_append" ELSE "")
    ELSE IF m < 1 THEN Res(fe, <<>>, 0, FALSE, "")
    ELSE
    LET orig == fe.novf
        fc == Min2(m, 1 + (n + orig - Size) \div Shift)
        off == Size - orig
        \* first frame: completed overflow frame (read_overflow_frame) or straight from the chunk
        f1 == IF orig # 0
              THEN LET o1 == Put(fe.ovf, orig, Rd(base, 0, off))
                   IN [ovf |-> o1, spch |-> o1, p |-> off, novf |-> orig - Shift,
                       bad |-> ~InChunk(n, 0, off) \/ ~InBuf(orig, off)]
              ELSE [ovf |-> fe.ovf, spch |-> Rd(base, 0, Size), p |-> Size, novf |-> 0,
                    bad |-> ~InChunk(n, 0, Size)]
        st1 == [spch |-> f1.spch, prior |-> NewPrior(f1.spch, Size), p |-> f1.p, novf |-> f1.novf,
                frames |-> <<FrameOf(f1.spch, Size, fe.prior)>>, bad |-> f1.bad, abort |-> ""]
        \* one pass of  for (i = 1; i < frame_count; ++i)  : fe_shift_frame + fe_write_frame
        Step(st, j) ==
            LET sp == [i \in 1..Size |-> IF i <= Size - Shift THEN st.spch[i + Shift]
                                         ELSE base + st.p + (i - (Size - Shift))]
            IN [spch |-> sp, prior |-> NewPrior(sp, Size), p |-> st.p + Shift,
                novf |-> IF st.novf > 0 THEN st.novf - Shift ELSE st.novf,
                frames |-> Append(st.frames, FrameOf(sp, Size, st.prior)),
                bad |-> st.bad \/ ~InChunk(n, st.p, Shift),
                abort |-> IF st.abort = "" /\ n - st.p < Shift THEN "loop" ELSE st.abort]
        stL == FoldLeft(Step, st1, [j \in 1..(fc - 1) |-> j])
        rem == n - stL.p
        fin == IF stL.novf <= 0
               THEN \* create_overflow_frame: the next frame's samples, copied from BEHIND the pointer
                    LET k == Min2(Shift, rem)
                        nv == Size - Shift + k
                        a == stL.p - (Size - Shift)
                    IN IF nv > 0
                       THEN [ovf |-> Put(f1.ovf, 0, Rd(base, a, nv)), novf |-> nv, p |-> stL.p + k,
                             bad |-> ~InChunk(n, a, nv) \/ ~InBuf(0, nv) \/ rem < 0, which |-> "create"]
                       ELSE [ovf |-> f1.ovf, novf |-> nv, p |-> stL.p, bad |-> rem < 0, which |-> "create"]
               ELSE \* append_overflow_frame: old overflow data is still needed
                    LET nv0 == stL.novf
                        src == orig - nv0
                        moved == Put(f1.ovf, 0, [i \in 1..nv0 |-> At(f1.ovf, src + i)])
                        k == Min2(stL.p + rem, Size - nv0)      \* copied from the START of the chunk (orig_spch)
                    IN [ovf |-> Put(moved, nv0, Rd(base, 0, k)), novf |-> nv0 + k,
                        p |-> IF k > stL.p THEN k ELSE stL.p,
                        bad |-> ~InBuf(src, nv0) \/ ~InChunk(n, 0, k) \/ ~InBuf(nv0, k) \/ rem < 0,
                        which |-> "append"]
        \* proposed repair: never return with a complete frame parked and nothing left to hand back
        back == IF HandBack /\ fin.novf >= Size /\ n - fin.p = 0 /\ fin.p > 0 THEN 1 ELSE 0
    IN Res([ovf |-> fin.ovf, novf |-> fin.novf - back, spch |-> stL.spch, prior |-> stL.prior],
           stL.frames, fin.p - back, stL.bad \/ fin.bad, stL.abort)

\* which overflow helper the call ends in (for coverage of the mechanism's branches)
BranchOf(fe, n, m) ==
    IF n + fe.novf < Size THEN "keep"
    ELSE IF m < 1 THEN "noroom"
    ELSE LET fc == Min2(m, 1 + (n + fe.novf - Size) \div Shift)
         IN (IF fe.novf # 0 THEN "ovf-" ELSE "raw-") \o
            (IF fe.novf - fc * Shift <= 0 \/ fe.novf = 0 THEN "create" ELSE "append") \o
            (IF fc < 1 + (n + fe.novf - Size) \div Shift THEN "-limited" ELSE "-all")

(***************************************************************************)
(* fe_process with a NULL output buffer: output_frame_count                *)
(***************************************************************************)
CountR(fe, n) == CountOnlyRet(fe.novf, n)

(***************************************************************************)
(* fe_end                                                                  *)
(***************************************************************************)
EndR(fe, m) ==
    IF m > 0 /\ fe.novf > 0
    THEN LET len == Min2(fe.novf, Size)
             sp == Put(fe.spch, 0, SubSeq(fe.ovf, 1, len))
         IN Res([fe EXCEPT !.spch = sp, !.prior = NewPrior(sp, len), !.novf = 0],
                <<FrameOf(sp, len, fe.prior)>>, 0, FALSE, "")
    ELSE Res([fe EXCEPT !.novf = 0], <<>>, 0, FALSE, "")

(***************************************************************************)
(* The machine: one action per public call                                 *)
(***************************************************************************)
Zeros == [i \in 1..Size |-> 0]
Poison == [i \in 1..Size |-> -1]
NoCall == [op |-> "init", n |-> 0, m |-> 0, ret |-> 0, left |-> 0, novf |-> 0, br |-> ""]

Init == /\ ovf = Zeros /\ novf = 0 /\ spch = Zeros /\ prior = 0
        /\ out = <<>> /\ pos = 0 /\ hw = 0 /\ phase = "run" /\ filled = FALSE /\ bad = FALSE
        /\ utt = 1 /\ last = NoCall

Process(n, m) ==
    /\ phase = "run"
    /\ pos + n <= MaxN
    /\ LET r == ProcessR(Fe, pos, n, m)
           br == BranchOf(Fe, n, m)
       IN IF r.abort # ""
          THEN /\ phase' = "aborted"
               /\ last' = [op |-> "abort", n |-> n, m |-> m, ret |-> 0, left |-> 0, novf |-> 0, br |-> r.abort]
               /\ UNCHANGED <<ovf, novf, spch, prior, out, pos, hw, filled, bad, utt>>
          ELSE /\ ovf' = r.fe.ovf /\ novf' = r.fe.novf /\ spch' = r.fe.spch /\ prior' = r.fe.prior
               /\ out' = out \o r.frames
               /\ pos' = pos + r.p
               /\ hw' = Max2(hw, pos + n)
               /\ filled' = (Len(r.frames) >= m)
               /\ bad' = (bad \/ r.bad)
               /\ last' = [op |-> "proc", n |-> n, m |-> m, ret |-> Len(r.frames), left |-> n - r.p,
                           novf |-> r.fe.novf, br |-> br]
               /\ UNCHANGED <<phase, utt>>

CountOnly(n) ==
    /\ phase = "run"
    /\ pos + n <= MaxN
    /\ last' = [op |-> "count", n |-> n, m |-> 0, ret |-> CountR(Fe, n), left |-> n, novf |-> novf, br |-> ""]
    /\ UNCHANGED <<ovf, novf, spch, prior, out, pos, hw, phase, filled, bad, utt>>

\* the caller's side of the contract: every sample it has shown was consumed, and (Drain) the last call had room to spare
MayEnd == hw = pos /\ (Drain => ~filled)

End(m) ==
    /\ phase = "run"
    /\ MayEnd
    /\ LET r == EndR(Fe, m)
       IN /\ ovf' = r.fe.ovf /\ novf' = r.fe.novf /\ spch' = r.fe.spch /\ prior' = r.fe.prior
          /\ out' = out \o r.frames
          /\ last' = [op |-> "end", n |-> 0, m |-> m, ret |-> Len(r.frames), left |-> 0, novf |-> novf, br |-> ""]
    /\ phase' = "done"
    /\ UNCHANGED <<pos, hw, filled, bad, utt>>

\* fe_start on a used object: overflow cleared, pre-emphasis memory cleared, spch left as it was (stale)
Start ==
    /\ phase = "done"
    /\ utt < MaxUtt
    /\ ovf' = Zeros /\ novf' = 0 /\ spch' = Poison /\ prior' = 0
    /\ out' = <<>> /\ pos' = 0 /\ hw' = 0 /\ phase' = "run" /\ filled' = FALSE
    /\ utt' = utt + 1
    /\ last' = [NoCall EXCEPT !.op = "start"]
    /\ UNCHANGED bad

Next == \/ \E n \in Chunks, m \in MaxOuts : Process(n, m)
        \/ \E n \in Chunks : CountOnly(n)
        \/ \E m \in EndOuts : End(m)
        \/ Start

Spec == Init /\ [][Next]_vars

(***************************************************************************)
(* Invariants                                                              *)
(***************************************************************************)
TypeOK == /\ Len(ovf) = Size /\ Len(spch) = Size
          /\ novf \in 0..Size
          /\ pos \in 0..MaxN /\ hw \in pos..MaxN

\* what was written so far is a prefix of the canonical frames, and no frame before its samples
OutPrefix == phase = "run" => out = FullPrefix(Len(out)) /\ Len(out) <= Full(pos)

\* the overflow buffer holds exactly the consumed samples that are not behind the next frame's start
OvfExact == phase = "run" => /\ novf = pos - Len(out) * Shift
                             /\ \A i \in 1..novf : ovf[i] = Len(out) * Shift + i

\* the pre-emphasis memory is the sample before the next frame's start
PriorOK == phase = "run" => prior = Len(out) * Shift

NoFlaggedRead == ~bad
NoAbort == phase # "aborted"

\* after fe_end everything that is owed was written (this, with OutPrefix, is the refinement of FrameStream)
FinalCanon == phase = "done" => out = Canon(pos)

\* What the documented loop (Drain = FALSE) really guarantees: the ONLY way to lose anything is to call fe_end
\* while a complete frame is parked in the overflow buffer (an output-limited call ended with exactly one more
\* frame available and consumed it); fe_end then writes that frame and the trailing partial frame is lost.
FinalCanonOrParkedFrame ==
    phase = "done" =>
        IF last.novf = Size /\ Size > Shift
        THEN out = FullPrefix(Full(pos)) /\ NF(pos) = Full(pos) + 1 /\ filled
        ELSE out = Canon(pos)

Refines == FSpec

\* the closed form of FeCounts and the step-by-step transcription above agree on every call
CountsAgree == [][/\ last'.op = "proc" =>
                       CallCounts(novf, last'.n, last'.m) = [ret |-> last'.ret, left |-> last'.left, novf |-> last'.novf]
                  /\ last'.op = "end" => EndRet(novf, last'.m) = last'.ret]_vars
=============================================================================
