\* The loop documented in fe.h (stop when no samples are left, then fe_end), code as it is: everything holds
\* except FinalCanon, and the only way to lose a frame is the parked complete frame (FinalCanonOrParkedFrame).
SPECIFICATION MCSpec
CONSTANTS
  Size <- EnvSize
  Shift <- EnvShift
  AssertLimit = 32767
  MaxN <- MCMaxN
  Chunks <- MCChunks
  MaxOuts <- MCMaxOuts
  EndOuts <- MCEndOuts
  Drain = FALSE
  HandBack = FALSE
  MaxUtt = 1
INVARIANTS TypeOK OutPrefix OvfExact PriorOK NoFlaggedRead NoAbort FinalCanonOrParkedFrame
PROPERTY CountsAgree
ACTION_CONSTRAINT CovSeen
VIEW MCView
CHECK_DEADLOCK FALSE
