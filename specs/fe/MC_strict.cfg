\* B refines A: every reachable state satisfies the FrameStream obligations.
\* Holds for the drain protocol (FE_DRAIN=1) with the code as it is, and for both protocols with the
\* proposed repair (FE_HANDBACK=1).
SPECIFICATION MCSpec
CONSTANTS
  Size <- EnvSize
  Shift <- EnvShift
  AssertLimit = 32767
  MaxN <- MCMaxN
  Chunks <- MCChunks
  MaxOuts <- MCMaxOuts
  EndOuts <- MCEndOuts
  Drain <- EnvDrain
  HandBack <- EnvHandBack
  MaxUtt = 1
INVARIANTS TypeOK OutPrefix OvfExact PriorOK NoFlaggedRead NoAbort FinalCanon
PROPERTIES Refines CountsAgree
ACTION_CONSTRAINT CovSeen
VIEW MCView
CHECK_DEADLOCK FALSE
