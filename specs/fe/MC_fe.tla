------------------------------- MODULE MC_fe -------------------------------
(* Bounded instances of FeChunkImpl.  Size, Shift, the caller protocol and the code variant come from the   *)
(* environment (FE_SIZE, FE_SHIFT, FE_DRAIN, FE_HANDBACK) so that one configuration file serves every pair.  *)
(* Bounds (DESIGN.md section 4, C06): chunk lengths 0..2*Size+Shift+1, output limits 0..3, streams of up to  *)
(* 4*Size samples.                                                                                           *)
EXTENDS FeChunkImpl, IOUtils
EnvSize == atoi(IOEnv.FE_SIZE)
EnvShift == atoi(IOEnv.FE_SHIFT)
EnvDrain == IOEnv.FE_DRAIN = "1"
EnvHandBack == IOEnv.FE_HANDBACK = "1"
MCChunks == 0..(2 * Size + Shift + 1)
MCMaxN == 4 * Size
MCMaxOuts == 0..3
MCEndOuts == {1, 2}
\* which calls / which branches of the mechanism were reached (TLC's own -coverage is unusable here: it switches
\* off the caching of LET values and the nested LETs of ProcessR then take minutes per thousand states)
MCInit == Init /\ TLCSet(7, {})
MCSpec == MCInit /\ [][Next]_vars
CovSeen == LET k == <<last'.op, last'.br>>
           IN IF k \in TLCGet(7) THEN TRUE
              ELSE PrintT(<<"COV", last'.op, last'.br>>) /\ TLCSet(7, TLCGet(7) \cup {k})
\* `last' only reports; two states that differ in nothing else are the same state (the one field an invariant
\* reads, num_overflow_samps on entry to fe_end, is kept).  CovSeen is an ACTION_CONSTRAINT so that it still sees
\* every generated transition.
MCView == <<ovf, novf, spch, prior, out, pos, hw, phase, filled, bad, utt,
            IF last.op = "end" THEN last.novf ELSE 0>>
\* second utterance on the same object: shorter streams
MCMaxN2 == 2 * Size + Shift
MCChunks2 == 0..(Size + Shift + 1)
=============================================================================
