------------------------------ MODULE FeTrace ------------------------------
(***************************************************************************)
(* Layer C, code -> spec, for C06: validates executions of the real front  *)
(* end recorded by harness/fe/fe_drv.c.                                    *)
(*                                                                         *)
(* What decides acceptance are the FrameStream (Layer A) predicates only:  *)
(*   Proc  consumed + handed back = supplied, the pointer moved by what    *)
(*         was consumed, no more frames than there was room for, no frame  *)
(*         before its samples were consumed                (FeedOK)        *)
(*   End   no more frames than there was room for                          *)
(*   Ref   the one-call reference has NF(n) frames and consumed everything *)
(*   Cmp   every sample of the stream was consumed, the number of frames   *)
(*         is NF(N), and the cepstra are bit-identical to the reference    *)
(* An event that does not satisfy them is explained by no action, so TLC   *)
(* stops there and the POSTCONDITION reports the line.                     *)
(*                                                                         *)
(* Alongside, every call is compared with the transcribed mechanism        *)
(* (FeCounts = FeChunkImpl in closed form: frames returned, samples handed *)
(* back, num_overflow_samps afterwards, and the OvfExact invariant on the  *)
(* public fields: num_overflow_samps = consumed - frames*Shift, and - for  *)
(* the index-coded ramp signal - overflow_samps holds the consecutive      *)
(* stream positions from frames*Shift on).  Disagreements are DIAGNOSTICS:  *)
(* counted in register 2 and printed, never a reason to reject.            *)
(*                                                                         *)
(* All executions in one file share Size and Shift (FE_SIZE, FE_SHIFT in   *)
(* the environment; the Header must agree).                                *)
(***************************************************************************)
EXTENDS Integers, Sequences, TLC, Json, IOUtils

JTrace == ndJsonDeserialize(IOEnv.TRACE)
TSize == atoi(IOEnv.FE_SIZE)
TShift == atoi(IOEnv.FE_SHIFT)
THandBack == IOEnv.FE_HANDBACK = "1"

INSTANCE FrameStream WITH Size <- TSize, Shift <- TShift, fpos <- 0, fout <- <<>>, fstate <- "run"
INSTANCE FeCounts WITH Size <- TSize, Shift <- TShift, HandBack <- THandBack

VARIABLES l,        \* next line
          pos,      \* samples consumed so far in this execution
          nout,     \* frames written so far in this execution
          bnovf,    \* num_overflow_samps as last reported (start point of the next one-step comparison)
          skipping  \* (FE_CONTINUE=1 only) the current execution was rejected; skip to the next Header

\* FE_CONTINUE=1: a rejected event is printed as <<"REJECT", line>> and validation carries on with the next
\* execution, so that one TLC run judges every execution of a file on its own.  Otherwise (the convention of
\* every trace specification in this tree) TLC stops at the first event no action explains.
Continue == "FE_CONTINUE" \in DOMAIN IOEnv /\ IOEnv.FE_CONTINUE = "1"

Ev == JTrace[l]

Diag(ok, what) == IF ok THEN TRUE
                  ELSE /\ TLCSet(2, TLCGet(2) + 1)
                       /\ (TLCGet(2) <= 12 => PrintT(<<"B-DIAG", l, what>>))

TInit == l = 1 /\ pos = 0 /\ nout = 0 /\ bnovf = 0 /\ skipping = FALSE /\ TLCSet(1, 0) /\ TLCSet(2, 0)

(***************************************************************************)
(* The Layer-A predicate of each event (what decides acceptance)           *)
(***************************************************************************)
OkHeader == Ev.size = TSize /\ Ev.shift = TShift
OkRef == Ev.frames = NF(Ev.n) /\ Ev.left = 0
OkStart == Ev.ret = 0
OkProc == FeedOK(pos, nout, Ev.n, Ev.max_out, Ev.ret, Ev.left) /\ Ev.adv = Ev.n - Ev.left
OkCount == Ev.ret >= 0
OkEnd == Ev.ret >= 0 /\ Ev.ret <= Ev.max_out
OkCmp == /\ Ev.consumed = pos /\ Ev.consumed = Ev.nsig       \* every sample consumed, once
         /\ Ev.frames = nout
         /\ EndOK(pos, Ev.frames)                           \* the number of frames depends on N only
         /\ Ev.nref = NF(pos)
         /\ Ev.equal_to_ref                                 \* bit-identical to the one-call reference

EvOK == CASE Ev.e = "Header" -> OkHeader
          [] Ev.e = "Ref" -> OkRef
          [] Ev.e = "Start" -> OkStart
          [] Ev.e = "Proc" -> OkProc
          [] Ev.e = "Count" -> OkCount
          [] Ev.e = "End" -> OkEnd
          [] Ev.e = "Cmp" -> OkCmp
          [] OTHER -> FALSE

(***************************************************************************)
(* State update and the diagnostics against the mechanism                  *)
(***************************************************************************)
THeader == pos' = 0 /\ nout' = 0 /\ bnovf' = 0

TRef == /\ Diag(Ev.count_only >= Ev.frames, "count-only is not an upper bound")
        /\ UNCHANGED <<pos, nout, bnovf>>

TStart == /\ Diag(Ev.novf = 0, "fe_start leaves samples in the overflow buffer")
          /\ UNCHANGED <<pos, nout, bnovf>>

TProc == /\ pos' = pos + Ev.n - Ev.left
         /\ nout' = nout + Ev.ret
         /\ bnovf' = Ev.novf
         /\ Diag(CallCounts(bnovf, Ev.n, Ev.max_out) = [ret |-> Ev.ret, left |-> Ev.left, novf |-> Ev.novf],
                 "call differs from FeChunkImpl")
         /\ Diag(Ev.novf = pos' - nout' * TShift, "num_overflow_samps is not consumed - frames*Shift")
         /\ Diag(Ev.ovf_contig /\ (Ev.ovf0 >= 0 => Ev.ovf0 = (nout' * TShift) % 65536),
                 "overflow_samps is not the not-yet-framed suffix")

TCount == /\ Diag(Ev.ret = CountOnlyRet(bnovf, Ev.n) /\ Ev.left = Ev.n /\ Ev.novf = bnovf,
                  "count-only call differs from FeChunkImpl")
          /\ UNCHANGED <<pos, nout, bnovf>>

TEnd == /\ nout' = nout + Ev.ret
        /\ bnovf' = Ev.novf
        /\ Diag(Ev.ret = EndRet(bnovf, Ev.max_out) /\ Ev.novf_before = bnovf /\ Ev.novf = 0, "fe_end differs from FeChunkImpl")
        /\ UNCHANGED pos

TCmp == UNCHANGED <<pos, nout, bnovf>>

Step == CASE Ev.e = "Header" -> THeader
          [] Ev.e = "Ref" -> TRef
          [] Ev.e = "Start" -> TStart
          [] Ev.e = "Proc" -> TProc
          [] Ev.e = "Count" -> TCount
          [] Ev.e = "End" -> TEnd
          [] Ev.e = "Cmp" -> TCmp

TNext == /\ l <= Len(JTrace)
         /\ IF skipping /\ Ev.e # "Header" THEN UNCHANGED <<pos, nout, bnovf, skipping>>
            ELSE IF EvOK THEN Step /\ skipping' = FALSE
            ELSE /\ Continue
                 /\ PrintT(<<"REJECT", l>>)
                 /\ skipping' = TRUE /\ UNCHANGED <<pos, nout, bnovf>>
         /\ l' = l + 1
         /\ TLCSet(1, l)

TSpec == TInit /\ [][TNext]_<<l, pos, nout, bnovf, skipping>>

\* accepted iff every line was consumed; otherwise say where it stopped
Accepted == /\ PrintT(<<"B-DIAG-COUNT", TLCGet(2)>>)
            /\ IF TLCGet(1) = Len(JTrace) THEN TRUE
               ELSE PrintT(<<"REJECTED-AT", TLCGet(1) + 1>>) /\ FALSE
=============================================================================
