------------------------------- MODULE FeSim -------------------------------
(***************************************************************************)
(* Layer C, spec -> code: random walks (tlc -simulate) through FeChunkImpl *)
(* with the REAL constants of a front-end configuration (FE_SIZE,          *)
(* FE_SHIFT from the environment, e.g. 410/160), chunk lengths drawn from  *)
(* a boundary set that is partly relative to the current state of the      *)
(* overflow buffer, and output limits around the number of frames the      *)
(* chunk can make.  Every finished walk is printed as one JSON line        *)
(*   <<"SCHED", {calls: [{op,n,m,ret,left,novf,br}...], total, frames,     *)
(*               canon}>>                                                   *)
(* i.e. the caller's schedule together with what the model predicts each   *)
(* call returns; checks/c06.py turns it into a script for the harness.     *)
(* The invariants of FeChunkImpl are checked along the walks, on the       *)
(* frames each call adds (checking the whole of `out' in every state would *)
(* be quadratic in the stream length).                                      *)
(***************************************************************************)
EXTENDS FeChunkImpl, IOUtils, Json

VARIABLES hist,     \* the calls so far, each with the predicted outcome
          steps

EnvSize == atoi(IOEnv.FE_SIZE)
EnvShift == atoi(IOEnv.FE_SHIFT)
EnvDrain == IOEnv.FE_DRAIN = "1"
EnvHandBack == IOEnv.FE_HANDBACK = "1"
EnvMaxN == atoi(IOEnv.FE_MAXN)
EnvSteps == atoi(IOEnv.FE_STEPS)
EnvBig == IOEnv.FE_BIG = "1"          \* include the chunks that are far longer than any internal buffer

Avail(n) == IF n + novf < Size THEN 0 ELSE 1 + (n + novf - Size) \div Shift

BaseLens == {0, 1, 2, Shift - 1, Shift, Shift + 1, Size - Shift - 1, Size - Shift, Size - Shift + 1,
             Size - 1, Size, Size + 1, Size + Shift - 1, Size + Shift, Size + Shift + 1, 2 * Size,
             2 * Size + Shift + 1, 3 * Shift + 7, 5 * Shift + Size - 3, 12 * Shift + 1}
\* exactly j+1 frames available (with the samples already in the overflow buffer), one sample less, one more
RelLens == {Size - novf + j * Shift + d : j \in 0..4, d \in {-1, 0, 1}}
\* what the previous call handed back, exactly / one less / with a little more behind it
BackLens == {hw - pos, hw - pos - 1, hw - pos + 1, hw - pos + Shift}
\* 32767/32768 samples in the call, and 32767/32768 samples LEFT after a first frame (the quantity the removed
\* MAX_INT16 assertions looked at)
BigLens == IF EnvBig THEN {32767, 32768, 32767 + Size, 32768 + Size, 33000 + Size, 40000, 70000} ELSE {}
Fits(S) == {n \in S : n >= 0 /\ pos + n <= MaxN}

PickLen == LET k == RandomElement(1..20)
               S == IF k <= 7 THEN Fits(RelLens)
                    ELSE IF k <= 13 THEN Fits(BaseLens)
                    ELSE IF k <= 17 THEN Fits(BackLens)
                    ELSE Fits(BigLens \cup {Size + 2 * Shift})
           IN IF S = {} THEN 0 ELSE RandomElement(S)
PickOut(n) == LET a == Avail(n)
              IN RandomElement({0, 1, 2, 3, 5, a - 2, a - 1, a, a + 1, 1000} \cap Nat)

SimInit == Init /\ hist = <<>> /\ steps = 0

Record(closing) == hist' = Append(hist, last') /\ steps' = (IF closing THEN EnvSteps ELSE steps + 1)

Report == PrintT(<<"SCHED", ToJson([calls |-> hist', total |-> pos', frames |-> Len(out'),
                                     canon |-> (Len(out') = NF(pos')), nf |-> NF(pos')])>>)

\* Every random draw is bound by a quantifier over a singleton set, so that it is made exactly once per step.
SimNext ==
    /\ phase = "run"
    /\ \E k \in {RandomElement(1..20)} :
         LET finishing == steps >= EnvSteps \/ MaxN - pos < Size
         IN IF EnvBig /\ steps = 0
            THEN \* long walks open with a call far longer than the internal buffers and room for 1..3 frames ...
                 (\E n \in {RandomElement(Fits(BigLens))} : \E m \in {RandomElement(1..3)} : Process(n, m)) /\ Record(FALSE)
            ELSE IF EnvBig /\ steps = 1 /\ hw > pos
            THEN \* ... and hand everything that came back in again, still with little room (append branch, long)
                 (\E m \in {RandomElement(1..2)} : Process(hw - pos, m)) /\ Record(FALSE)
            ELSE IF finishing \/ (k <= 3 /\ MayEnd /\ steps >= 2)
            THEN /\ IF hw > pos
                    THEN \E m \in {RandomElement({1, 2, 3, 1000})} : Process(hw - pos, m)   \* the caller's loop goes on
                    ELSE IF ~MayEnd
                    THEN \E m \in {RandomElement({1, 2, 1000})} : Process(0, m)             \* drain protocol
                    ELSE \E m \in {RandomElement(EndOuts)} : End(m)
                 /\ Record(FALSE)
            ELSE IF k = 4 THEN (\E n \in {PickLen} : CountOnly(n)) /\ Record(FALSE)
            ELSE IF k = 5 /\ pos + Size + 3 * Shift <= MaxN
            THEN \* the last samples of the stream make exactly one frame more than there is room for
                 /\ \E j \in {RandomElement(1..3)} : Process(Size - novf + j * Shift, j)
                 /\ Record(hw' = pos')
            ELSE (\E n \in {PickLen} : \E m \in {PickOut(n)} : Process(n, m)) /\ Record(FALSE)
    /\ (phase' = "done" => Report)

SimSpec == SimInit /\ [][SimNext]_<<vars, hist, steps>>

\* the frames the last call added are the canonical ones
NewFramesOK ==
    /\ phase = "run" /\ last.op = "proc" => \A k \in (Len(out) - last.ret + 1)..Len(out) : out[k] = FrameAt(k - 1)
    /\ phase = "run" => Len(out) <= Full(pos)
    /\ phase = "done" /\ Len(out) = NF(pos) /\ HasTail(pos) => out[Len(out)] = TailFrame(pos)
    /\ phase = "done" /\ last.ret = 1 /\ Len(out) = Full(pos) => out[Len(out)] = FrameAt(Len(out) - 1)
\* with the drain protocol (or the repaired code) nothing is ever lost
SimFinalCount == phase = "done" /\ (Drain \/ HandBack) => Len(out) = NF(pos)
=============================================================================
