---------------------------- MODULE FrameStream ----------------------------
(***************************************************************************)
(* Layer A for property C06: what the front end owes its caller, with      *)
(* nothing about overflow buffers or pointer arithmetic in it.             *)
(*                                                                         *)
(* A sample is identified with its position in the stream: the stream is   *)
(* 1, 2, 3, ...; the index 0 stands for the value 0.0 (the pre-emphasis    *)
(* memory before the first sample).  A frame is the pair                   *)
(*     s  : the sequence of stream indices it was computed from            *)
(*          (Size of them, or fewer for the zero-padded trailing frame),   *)
(*     pr : the index whose value was the pre-emphasis memory.             *)
(* The cepstrum of a frame is a function of those sample values (and, with *)
(* noise removal, of the frames before it), so "same frames in the same    *)
(* order" is "same cepstra".                                               *)
(*                                                                         *)
(* The canonical output for N samples is taken from what one call with     *)
(* room for every frame does (fe_process followed by fe_end):              *)
(*   - Full(N) full frames, frame k (k = 0, 1, ...) covering the indices   *)
(*     k*Shift+1 .. k*Shift+Size, where                                    *)
(*         Full(N) = 0                        if N < Size                  *)
(*                 = 1 + (N - Size) div Shift otherwise;                   *)
(*   - then, written by fe_end, ONE trailing frame made of the samples     *)
(*     Full(N)*Shift+1 .. N, zero-padded, iff there is such a sample, i.e. *)
(*     iff N > Full(N)*Shift.  (For Shift < Size that is every N > 0; for  *)
(*     Shift = Size it is every N that is not a multiple of Size.)         *)
(* So NF(N) depends on N only.                                             *)
(***************************************************************************)
EXTENDS Integers, Sequences

CONSTANTS Size,     \* samples per analysis window (fe->frame_size)
          Shift     \* samples between frame starts   (fe->frame_shift)

ASSUME SizeShiftOK == Shift \in Nat /\ Size \in Nat /\ Shift >= 1 /\ Size >= Shift

Full(N) == IF N < Size THEN 0 ELSE 1 + (N - Size) \div Shift
HasTail(N) == N > Full(N) * Shift
NF(N) == Full(N) + (IF HasTail(N) THEN 1 ELSE 0)

FrameAt(k) == [s |-> [i \in 1..Size |-> k * Shift + i], pr |-> k * Shift]
TailFrame(N) == [s |-> [i \in 1..(N - Full(N) * Shift) |-> Full(N) * Shift + i], pr |-> Full(N) * Shift]

\* the first r full frames
FullPrefix(r) == [k \in 1..r |-> FrameAt(k - 1)]
\* everything that is owed for a stream of N samples
Canon(N) == [k \in 1..NF(N) |-> IF k <= Full(N) THEN FrameAt(k - 1) ELSE TailFrame(N)]

(***************************************************************************)
(* Predicates on what one call reports (used on recorded traces).          *)
(* `pos' = samples consumed before the call, `nout' = frames written       *)
(* before the call.                                                        *)
(***************************************************************************)
\* a processing call given n samples and room for maxOut frames returned ret frames and left `left' samples
FeedOK(pos, nout, n, maxOut, ret, left) ==
    /\ left >= 0 /\ left <= n                       \* consumed + returned-unconsumed = supplied
    /\ ret >= 0 /\ ret <= (IF maxOut > 0 THEN maxOut ELSE 0)   \* never more than there is room for
    /\ nout + ret <= Full(pos + n - left)           \* a frame is only written once its samples were consumed
\* the stream has ended after N consumed samples and `total' frames were written altogether
EndOK(N, total) == total = NF(N)

(***************************************************************************)
(* The same as a state machine (refinement target of FeChunkImpl).         *)
(***************************************************************************)
VARIABLES fpos,     \* samples consumed so far (every index 1..fpos exactly once, in order)
          fout,     \* frames written so far
          fstate    \* "run" | "done"

FInit == fpos = 0 /\ fout = <<>> /\ fstate = "run"

\* any call that consumes some more samples and writes some more of the full frames those allow
FFeed == /\ fstate = "run" /\ fstate' = "run"
         /\ fpos' >= fpos
         /\ Len(fout') >= Len(fout) /\ Len(fout') <= Full(fpos')
         /\ fout' = FullPrefix(Len(fout'))
\* the end of the stream: everything that is owed has been written
FEnd == /\ fstate = "run" /\ fstate' = "done"
        /\ fpos' = fpos
        /\ fout' = Canon(fpos)
FRestart == fstate = "done" /\ fpos' = 0 /\ fout' = <<>> /\ fstate' = "run"

FNext == FFeed \/ FEnd \/ FRestart
FSpec == FInit /\ [][FNext]_<<fpos, fout, fstate>>
=============================================================================
