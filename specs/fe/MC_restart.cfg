\* two utterances on one object (fe_start after fe_end): the second starts from stale spch contents
SPECIFICATION MCSpec
CONSTANTS
  Size <- EnvSize
  Shift <- EnvShift
  AssertLimit = 32767
  MaxN <- MCMaxN2
  Chunks <- MCChunks2
  MaxOuts <- MCMaxOuts
  EndOuts <- MCEndOuts
  Drain <- EnvDrain
  HandBack <- EnvHandBack
  MaxUtt = 2
INVARIANTS TypeOK OutPrefix OvfExact PriorOK NoFlaggedRead NoAbort FinalCanon
PROPERTIES Refines CountsAgree
ACTION_CONSTRAINT CovSeen
VIEW MCView
CHECK_DEADLOCK FALSE
