SPECIFICATION Spec
CONSTANTS
  MKeys <- KeysNC3
  BucketOf <- Buckets
  NB = 2
  NoCase = TRUE
  MVals = {1, 2}
INVARIANTS TypeOK InRightBucket NoDuplicateKey InUseExact IterExact LastAgrees
PROPERTY Refines
CHECK_DEADLOCK FALSE
