------------------------------ MODULE MC_tour ------------------------------
(* Small instances of HashTableImpl whose complete labelled state graph is exported (one JSON line *)
(* per generated transition) so that tools/vlib/tours.py can cover every (state, operation) edge  *)
(* with op sequences that are then executed on the real table.                                    *)
EXTENDS HashTableImpl, Json
K(i, c) == [id |-> i, c |-> c]
\* case-sensitive: 3 or 4 distinct keys in bucket 0, one in bucket 1
Keys3 == {K(1, 1), K(2, 2), K(3, 3), K(5, 5)}
Keys4 == {K(1, 1), K(2, 2), K(3, 3), K(4, 4), K(5, 5)}
\* case-insensitive: 1/2 and 3/4 are spellings of the same key
KeysNC3 == {K(1, 1), K(2, 1), K(3, 3), K(5, 5)}
KeysNC4 == {K(1, 1), K(2, 1), K(3, 3), K(4, 3), K(5, 5)}
Buckets == (1 :> 0) @@ (2 :> 0) @@ (3 :> 0) @@ (4 :> 0) @@ (5 :> 1)
TourView == <<tab, inuse>>
DumpEdge == PrintT(<<"EDGE", ToJson([f |-> ToString(tab), a |-> last', t |-> ToString(tab')])>>)
=============================================================================
