SPECIFICATION Spec
CONSTANTS
  MKeys <- Keys3
  BucketOf <- Buckets
  NB = 2
  NoCase = FALSE
  MVals = {1, 2}
INVARIANTS InRightBucket NoDuplicateKey InUseExact IterExact
ACTION_CONSTRAINT DumpEdge
VIEW TourView
CHECK_DEADLOCK FALSE
