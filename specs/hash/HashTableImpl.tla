--------------------------- MODULE HashTableImpl ---------------------------
(***************************************************************************)
(* Layer B for C20: hash_table.c transcribed.                              *)
(*                                                                         *)
(*   tab[b]  the bucket b as a sequence of entries: element 1 is the       *)
(*           in-table head slot (h->table[b]), the rest is the overflow    *)
(*           chain in link order.  <<>> is an empty slot (key == NULL).    *)
(*   inuse   h->inuse                                                      *)
(*                                                                         *)
(* Model keys are records [id, c] where c is the canonical (case-folded)   *)
(* key: two model keys with the same c but different id are spellings that *)
(* differ only in case.  Bucket(k) is the bucket the real hash function    *)
(* puts k in: it is a constant of the model, chosen so that chains form.   *)
(* In case-insensitive mode hashing happens after upper-casing, so two     *)
(* spellings always share a bucket (assumption NoCaseBuckets).             *)
(*                                                                         *)
(* Checked: this machine refines HashMap (PROPERTY Refines), every entry   *)
(* sits in its key's bucket, no chain holds two equal keys, inuse equals   *)
(* the number of entries, the iterator walk and the list export visit      *)
(* every entry once.                                                       *)
(***************************************************************************)
EXTENDS Naturals, Sequences, FiniteSets, TLC

CONSTANTS MKeys,     \* set of model keys: records [id |-> ..., c |-> ...]
          NB,        \* number of buckets
          BucketOf,  \* [key id -> 0..NB-1]
          NoCase,    \* BOOLEAN
          MVals

VARIABLES tab, inuse, last

vars == <<tab, inuse, last>>
NULL == 0

Bucket(k) == BucketOf[k.id]
\* key equality as lookup() decides it: same length and keycmp == 0.  In case-sensitive mode two
\* spellings are different keys.
KeyEq(k1, k2) == IF NoCase THEN k1.c = k2.c ELSE k1.id = k2.id
CanonM(k) == IF NoCase THEN k.c ELSE k.id

ASSUME NoCaseBuckets == NoCase => \A k1, k2 \in MKeys : k1.c = k2.c => Bucket(k1) = Bucket(k2)

Entry(k, v) == [key |-> k, val |-> v]

\* position of the entry equal to k in bucket sequence s, or 0
Find(s, k) == IF \E i \in DOMAIN s : KeyEq(s[i].key, k)
              THEN CHOOSE i \in DOMAIN s : KeyEq(s[i].key, k) /\ \A j \in 1..(i-1) : ~KeyEq(s[j].key, k)
              ELSE 0

RemoveAt(s, i) == SubSeq(s, 1, i-1) \o SubSeq(s, i+1, Len(s))

Init == /\ tab = [b \in 0..NB-1 |-> <<>>]
        /\ inuse = 0
        /\ last = [op |-> "new", kid |-> 0, c |-> NULL, v |-> NULL, ret |-> NULL, inuse |-> 0]

\* enter(h, hash, key, len, val, replace)
Enter(k, v, replace) ==
    LET b == Bucket(k)
        s == tab[b]
        i == Find(s, k)
    IN IF i # 0
       THEN \* key exists: old value is returned; replace overwrites key pointer and value
            /\ tab' = IF replace THEN [tab EXCEPT ![b][i] = Entry(k, v)] ELSE tab
            /\ inuse' = inuse
            /\ last' = [op |-> IF replace THEN "replace" ELSE "enter", kid |-> k.id, c |-> CanonM(k), v |-> v,
                        ret |-> s[i].val, inuse |-> inuse]
       ELSE \* empty slot: fill it; otherwise link the new entry right behind the head
            /\ tab' = [tab EXCEPT ![b] = IF s = <<>> THEN <<Entry(k, v)>>
                                         ELSE <<s[1], Entry(k, v)>> \o Tail(s)]
            /\ inuse' = inuse + 1
            /\ last' = [op |-> IF replace THEN "replace" ELSE "enter", kid |-> k.id, c |-> CanonM(k), v |-> v,
                        ret |-> v, inuse |-> inuse + 1]

\* delete(h, hash, key, len): head deletion copies the next chain entry into the slot and frees it,
\* which in sequence terms is the same as removing element 1; middle/tail are unlinked.
Delete(k) ==
    LET b == Bucket(k)
        s == tab[b]
        i == Find(s, k)
    IN IF i = 0
       THEN /\ UNCHANGED <<tab, inuse>>
            /\ last' = [op |-> "delete", kid |-> k.id, c |-> CanonM(k), v |-> NULL, ret |-> NULL, inuse |-> inuse]
       ELSE /\ tab' = [tab EXCEPT ![b] = RemoveAt(s, i)]
            /\ inuse' = inuse - 1
            /\ last' = [op |-> "delete", kid |-> k.id, c |-> CanonM(k), v |-> NULL, ret |-> s[i].val, inuse |-> inuse - 1]

Lookup(k) ==
    LET s == tab[Bucket(k)]
        i == Find(s, k)
    IN /\ UNCHANGED <<tab, inuse>>
       /\ last' = [op |-> "lookup", kid |-> k.id, c |-> CanonM(k), v |-> NULL,
                   ret |-> IF i = 0 THEN NULL ELSE s[i].val, inuse |-> inuse]

Empty == /\ tab' = [b \in 0..NB-1 |-> <<>>]
         /\ inuse' = 0
         /\ last' = [op |-> "empty", kid |-> 0, c |-> NULL, v |-> NULL, ret |-> NULL, inuse |-> 0]

Next == \/ \E k \in MKeys, v \in MVals : Enter(k, v, FALSE) \/ Enter(k, v, TRUE)
        \/ \E k \in MKeys : Delete(k) \/ Lookup(k)
        \/ Empty

Spec == Init /\ [][Next]_vars

-----------------------------------------------------------------------------
(* Projection to Layer A and the refinement. *)
Entries == UNION {{tab[b][i] : i \in DOMAIN tab[b]} : b \in 0..NB-1}
Proj == [c \in {CanonM(e.key) : e \in Entries} |->
            (CHOOSE e \in Entries : CanonM(e.key) = c).val]

\* hash_table_iter / hash_table_tolist: slot, then chain, bucket by bucket
RECURSIVE Walk(_)
Walk(b) == IF b = NB THEN <<>>
           ELSE [i \in DOMAIN tab[b] |-> <<CanonM(tab[b][i].key), tab[b][i].val>>] \o Walk(b + 1)

A == INSTANCE HashMap WITH CKeys <- {CanonM(k) : k \in MKeys}, Vals <- MVals, map <- Proj,
         last <- [op |-> last.op, c |-> last.c, v |-> last.v, ret |-> last.ret, inuse |-> last.inuse]
Refines == A!ASpec

TypeOK == /\ inuse \in Nat
          /\ \A b \in 0..NB-1 : \A i \in DOMAIN tab[b] : tab[b][i].key \in MKeys /\ tab[b][i].val \in MVals

InRightBucket == \A b \in 0..NB-1 : \A i \in DOMAIN tab[b] : Bucket(tab[b][i].key) = b
NoDuplicateKey == \A b \in 0..NB-1 : \A i, j \in DOMAIN tab[b] : i # j => ~KeyEq(tab[b][i].key, tab[b][j].key)
InUseExact == inuse = A!InUse(Proj) /\ inuse = Cardinality(Entries)
IterExact == A!VisitsExactlyOnce(Proj, Walk(0))
LastAgrees == last.inuse = inuse
=============================================================================
