SPECIFICATION Spec
CONSTANTS
  MKeys <- KeysNC3
  BucketOf <- Buckets
  NB = 2
  NoCase = TRUE
  MVals = {1, 2}
INVARIANTS InRightBucket NoDuplicateKey InUseExact IterExact
ACTION_CONSTRAINT DumpEdge
VIEW TourView
CHECK_DEADLOCK FALSE
