------------------------------ MODULE MC_small ------------------------------
EXTENDS HashTableImpl
\* five keys: a / A differ only in case; a, A, b, c collide in bucket 0 (case-sensitive mode too),
\* d lives alone in bucket 1.
K(i, c) == [id |-> i, c |-> c]
MCKeys == {K(1, 1), K(2, 1), K(3, 3), K(4, 4), K(5, 5)}
MCBucket == (1 :> 0) @@ (2 :> 0) @@ (3 :> 0) @@ (4 :> 0) @@ (5 :> 1)
=============================================================================
