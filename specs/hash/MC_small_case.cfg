SPECIFICATION Spec
CONSTANTS
  MKeys <- MCKeys
  BucketOf <- MCBucket
  NB = 2
  NoCase = FALSE
  MVals = {1, 2}
INVARIANTS TypeOK InRightBucket NoDuplicateKey InUseExact IterExact LastAgrees
PROPERTY Refines
CHECK_DEADLOCK FALSE
