------------------------------ MODULE HashMap ------------------------------
(***************************************************************************)
(* Layer A for property C20: the hash table *is* a finite map from         *)
(* canonical keys to values.  Nothing here knows about buckets or chains.  *)
(*                                                                         *)
(* Keys are byte sequences (string keys are the bytes before the           *)
(* terminating zero, binary keys may contain zeros).  In case-insensitive  *)
(* mode two keys are equal iff they are equal after folding 7-bit ASCII    *)
(* letters (hash_table.h: "applies to 7-bit ASCII characters only").       *)
(* Values are non-zero integers; 0 stands for the NULL a failed            *)
(* delete/lookup reports.                                                  *)
(***************************************************************************)
EXTENDS Naturals, Sequences, FiniteSets

NULL == 0

Fold(b) == IF b >= 97 /\ b <= 122 THEN b - 32 ELSE b
FoldKey(k) == [i \in DOMAIN k |-> Fold(k[i])]
Canon(nocase, k) == IF nocase THEN FoldKey(k) ELSE k

Restrict(m, S) == [x \in S |-> m[x]]

(* Each operation: the new map and what the call reports. *)
MapEnter(m, c, v) ==
    IF c \in DOMAIN m THEN [map |-> m, ret |-> m[c]]
    ELSE [map |-> [x \in DOMAIN m \cup {c} |-> IF x = c THEN v ELSE m[x]], ret |-> v]

MapReplace(m, c, v) ==
    [map |-> [x \in DOMAIN m \cup {c} |-> IF x = c THEN v ELSE m[x]],
     ret |-> IF c \in DOMAIN m THEN m[c] ELSE v]

MapDelete(m, c) ==
    IF c \in DOMAIN m THEN [map |-> Restrict(m, DOMAIN m \ {c}), ret |-> m[c]]
    ELSE [map |-> m, ret |-> NULL]

MapLookup(m, c) ==
    IF c \in DOMAIN m THEN [found |-> TRUE, val |-> m[c]] ELSE [found |-> FALSE, val |-> NULL]

MapEmpty == [x \in {} |-> NULL]

InUse(m) == Cardinality(DOMAIN m)

(* An iteration / list export, given as a sequence of <<canonical key, value>>, visits every live *)
(* entry exactly once: same length as the map and every pair is in the map with no repeats.        *)
VisitsExactlyOnce(m, visit) ==
    /\ Len(visit) = Cardinality(DOMAIN m)
    /\ \A i \in DOMAIN visit : visit[i][1] \in DOMAIN m /\ m[visit[i][1]] = visit[i][2]
    /\ \A i, j \in DOMAIN visit : i # j => visit[i][1] # visit[j][1]

(***************************************************************************)
(* The same thing as a state machine (used as the refinement target of     *)
(* HashTableImpl): `map' is the abstract state, `last' the observable      *)
(* outcome of the most recent call.                                        *)
(***************************************************************************)
CONSTANTS CKeys,    \* canonical keys of the model
          Vals      \* non-NULL values
VARIABLES map, last

AInit == map = MapEmpty /\ last = [op |-> "new", c |-> NULL, v |-> NULL, ret |-> NULL, inuse |-> 0]

AOp(op, c, v) ==
    LET r == CASE op = "enter"   -> MapEnter(map, c, v)
               [] op = "replace" -> MapReplace(map, c, v)
               [] op = "delete"  -> MapDelete(map, c)
               [] op = "lookup"  -> [map |-> map, ret |-> MapLookup(map, c).val]
               [] op = "empty"   -> [map |-> MapEmpty, ret |-> NULL]
    IN /\ map' = r.map
       /\ last' = [op |-> op, c |-> c, v |-> v, ret |-> r.ret, inuse |-> InUse(r.map)]

ANext == \/ \E c \in CKeys, v \in Vals : AOp("enter", c, v) \/ AOp("replace", c, v)
         \/ \E c \in CKeys : AOp("delete", c, NULL) \/ AOp("lookup", c, NULL)
         \/ AOp("empty", NULL, NULL)

ASpec == AInit /\ [][ANext]_<<map, last>>

ATypeOK == /\ DOMAIN map \subseteq CKeys
           /\ \A c \in DOMAIN map : map[c] \in Vals
=============================================================================
