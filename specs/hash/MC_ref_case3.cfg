SPECIFICATION Spec
CONSTANTS
  MKeys <- Keys3
  BucketOf <- Buckets
  NB = 2
  NoCase = FALSE
  MVals = {1, 2}
INVARIANTS TypeOK InRightBucket NoDuplicateKey InUseExact IterExact LastAgrees
PROPERTY Refines
CHECK_DEADLOCK FALSE
