----------------------------- MODULE HashTrace -----------------------------
(***************************************************************************)
(* Layer C (code -> spec) for C20: validates executions of the real        *)
(* hash_table.c, recorded by harness/hash/hash_drv.c, against HashMap.     *)
(* Every event carries the call, its result, the entry count, a lookup of  *)
(* every pool key and the visit order of both export interfaces; the trace *)
(* is accepted iff each of those is what the map semantics say.            *)
(* Executions are concatenated; a Header event starts a fresh table.       *)
(***************************************************************************)
EXTENDS Naturals, Sequences, FiniteSets, TLC, Json, IOUtils

JTrace == ndJsonDeserialize(IOEnv.TRACE)

VARIABLES l, map, hdr
CKeys == {}    \* unused constants of the state-machine half of HashMap
Vals == {}
last == 0
INSTANCE HashMap

Ev == JTrace[l]
C(kid) == Canon(hdr.nocase, hdr.keys[kid])

\* the key an exported entry denotes: the first `len' bytes of the stored key pointer
VisitKey(item) == Canon(hdr.nocase, SubSeq(hdr.keys[item[1]], 1, item[3]))
VisitOK(m, items) ==
    /\ \A i \in DOMAIN items : items[i][1] \in DOMAIN hdr.keys /\ items[i][3] <= Len(hdr.keys[items[i][1]])
    /\ VisitsExactlyOnce(m, [i \in DOMAIN items |-> <<VisitKey(items[i]), items[i][2]>>])

TInit == l = 1 /\ map = MapEmpty /\ hdr = [nocase |-> FALSE, keys |-> <<>>] /\ TLCSet(1, 0)

THeader == /\ Ev.e = "Header"
           /\ hdr' = [nocase |-> Ev.nocase, keys |-> Ev.keys]
           /\ map' = MapEmpty

TOp == /\ Ev.e = "Op"
       /\ LET r == CASE Ev.op = "enter"   -> MapEnter(map, C(Ev.k), Ev.v)
                     [] Ev.op = "replace" -> MapReplace(map, C(Ev.k), Ev.v)
                     [] Ev.op = "delete"  -> MapDelete(map, C(Ev.k))
                     [] Ev.op = "lookup"  -> [map |-> map, ret |-> MapLookup(map, C(Ev.k)).val]
                     [] Ev.op = "empty"   -> [map |-> MapEmpty, ret |-> NULL]
          IN /\ Ev.ret = r.ret
             /\ Ev.inuse = InUse(r.map)
             /\ Ev.count = InUse(r.map)
             /\ Len(Ev.look) = Len(hdr.keys)
             /\ \A i \in DOMAIN Ev.look :
                   LET lk == MapLookup(r.map, C(i))
                   IN /\ Ev.look[i][1] = (IF lk.found THEN 3 ELSE 0)   \* pointer and int32 interface agree
                      /\ Ev.look[i][2] = lk.val /\ Ev.look[i][3] = lk.val
             /\ VisitOK(r.map, Ev.iter)
             /\ VisitOK(r.map, Ev.list)
             /\ map' = r.map
       /\ UNCHANGED hdr

TNext == /\ l <= Len(JTrace)
         /\ (THeader \/ TOp)
         /\ l' = l + 1
         /\ TLCSet(1, l)

TSpec == TInit /\ [][TNext]_<<l, map, hdr>>

\* accepted iff every line was consumed; otherwise say where it stopped
Accepted == IF TLCGet(1) = Len(JTrace) THEN TRUE
            ELSE PrintT(<<"REJECTED-AT", TLCGet(1) + 1>>) /\ FALSE
=============================================================================
