SPECIFICATION ISpec
CONSTANTS
  W = 6
  R = 4
  Widths = {1, 2, 4}
  Shifts = {0, 1, 2}
  MaxVal = 4
  MaxLen = 5
  ImplTables <- MCImplTables
INVARIANTS ITypeOK DenotesTable Refines NoOverflow SizeFits ImplProperty
CHECK_DEADLOCK FALSE
