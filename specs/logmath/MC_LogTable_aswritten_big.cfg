\* the code as written.  Expected: TableIsRounded is violated (first entry at a width switch).
SPECIFICATION BSpec
CONSTANTS
  R = 4
  MinSize = 2
  TShifts = {0, 1, 2}
  NMax = 66
  MaxLen = 3
  Inputs <- MCInputs
  Deviations = {"WidthFromUnshiftedLog2"}
INVARIANTS TableIsRounded
CHECK_DEADLOCK FALSE
