\* negative control: without the at-most-one-per-step axiom monotonicity must fail
SPECIFICATION Spec
CONSTANTS
  MaxVal = 2
  MaxLen = 3
  ArgHi = 1
  ZeroMag = 5
  Zero <- MCZero
  Tables <- MCSteepTables
  Args <- MCArgs
INVARIANTS InvMonotone
CHECK_DEADLOCK FALSE
