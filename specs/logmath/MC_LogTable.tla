----------------------------- MODULE MC_LogTable -----------------------------
(* Bounded instances of LogTableImpl: every non-increasing sequence of half-integers 0..NMax/2 of    *)
(* length 1..MaxLen (zeros follow), every shift.                                                      *)
EXTENDS LogTableImpl
CONSTANTS NMax, MaxLen

SeqsUpTo(S, k) == UNION {[1..m -> S] : m \in 1..k}
MCInputs == {q \in SeqsUpTo(0..NMax, MaxLen) : \A a \in 1..(Len(q) - 1) : q[a] >= q[a + 1]}
=============================================================================
