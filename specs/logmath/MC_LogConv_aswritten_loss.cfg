\* the code as written still loses at most one unit
SPECIFICATION CSpec
CONSTANTS
  Q = 4
  NMax = 80
  CShifts = {0, 1, 2}
  Deviations = {"LogTruncates"}
INVARIANTS ConvLosesAtMostOne
CHECK_DEADLOCK FALSE
