----------------------------- MODULE LogAddImpl -----------------------------
(***************************************************************************)
(* Layer B for C19: logmath_add (src/logmath.c) transcribed step by step.  *)
(*                                                                         *)
(*   if (logb_x <= lmath->zero) return logb_y;            Ret/PassZeroX    *)
(*   if (logb_y <= lmath->zero) return logb_x;            Ret/PassZeroY    *)
(*   if (logb_x > logb_y) { d = x - y; r = x; }           DiffXY           *)
(*   else                 { d = y - x; r = y; }           DiffYX           *)
(*   if (d < 0) return r;                                 Ret/PassOverflow *)
(*   if ((size_t)d >= t->table_size) return r;            RetBeyond/PassSize *)
(*   switch (t->width) { case 1: return r + table_as_uint8[d]; 2: ..16 4: ..32 *)
(*                                                        Read1/Read2/Read4 *)
(*                                                                         *)
(* Machine integers are two's complement of W bits (the C code has W = 32; *)
(* TLC checks W = 5, 6), so the subtraction in Diff can wrap and the       *)
(* `d < 0' branch is reachable.  The table is memory: a sequence of        *)
(* `bytes' of radix R (C: 256), an entry being `width' bytes, little       *)
(* endian, as logmath_init stored it.  zero = MIN_INT >> (shift + 2).      *)
(*                                                                         *)
(* Refinement: whenever a call completes, the value returned is            *)
(* LogAdd!Add of the table the memory denotes.  Checked for every table    *)
(* of MC_LogAddImpl, every width that can hold it, every shift, every pair *)
(* of machine integers whose sum with the largest entry does not overflow. *)
(***************************************************************************)
EXTENDS Integers, Sequences, TLC

CONSTANTS W,        \* bits of a machine int
          R,        \* radix of one table byte
          Widths,   \* entry widths the initialiser can choose
          Shifts,   \* shifts the initialiser accepts
          ImplTables \* abstract tables the initialiser may have produced

\* unused state-machine half of LogAdd
Tables == {}
Zero == 0
Args == {}
tab == <<>>
ax == 0
ay == 0
ar == 0
INSTANCE LogAdd

VARIABLES mem, width, size, zero, x, y, d, r, ret, pc, branch

ivars == <<mem, width, size, zero, x, y, d, r, ret, pc, branch>>

IntMin == -(2 ^ (W - 1))
IntMax == 2 ^ (W - 1) - 1
MInt == IntMin..IntMax
Wrap(v) == ((v - IntMin) % (2 ^ W)) + IntMin          \* what a W-bit register keeps of v
Asr(v, s) == v \div (2 ^ s)                           \* arithmetic shift right (floor)

\* memory image of table T with entries of w bytes, and the entry the C code reads back
Encode(T, w) == [i \in 1..(Len(T) * w) |-> (T[((i - 1) \div w) + 1] \div (R ^ ((i - 1) % w))) % R]
RECURSIVE Assemble(_, _, _)
Assemble(m, base, w) == IF w = 0 THEN 0 ELSE m[base + 1] + R * Assemble(m, base + 1, w - 1)
ReadEntry(m, w, i) == Assemble(m, i * w, w)
Denoted == [i \in 1..size |-> ReadEntry(mem, width, i - 1)]   \* the abstract table

IInit == /\ \E T \in ImplTables, w \in Widths, s \in Shifts :
              /\ T[1] < R ^ w                        \* the initialiser picked a sufficient width
              /\ mem = Encode(T, w) /\ width = w /\ size = Len(T)
              /\ zero = Asr(IntMin, s + 2)
         /\ x = 0 /\ y = 0 /\ d = 0 /\ r = 0 /\ ret = 0 /\ pc = "idle" /\ branch = "none"

Enter == /\ pc = "idle"
         /\ \E a, b \in MInt :
               /\ a + Denoted[1] <= IntMax /\ b + Denoted[1] <= IntMax   \* r + entry cannot overflow
               /\ x' = a /\ y' = b
         /\ pc' = "zx" /\ branch' = "none"
         /\ UNCHANGED <<mem, width, size, zero, d, r, ret>>

Return(v, why) == ret' = v /\ pc' = "done" /\ branch' = why
Pass(to) == pc' = to /\ UNCHANGED <<ret, branch>>
Keep == UNCHANGED <<mem, width, size, zero, x, y, d, r>>

\* every branch of the C function is an action of its own, so that TLC's coverage shows each one taken
RetZeroX  == pc = "zx" /\ x <= zero /\ Return(y, "zero-x") /\ Keep
PassZeroX == pc = "zx" /\ ~(x <= zero) /\ Pass("zy") /\ Keep
RetZeroY  == pc = "zy" /\ y <= zero /\ Return(x, "zero-y") /\ Keep
PassZeroY == pc = "zy" /\ ~(y <= zero) /\ Pass("diff") /\ Keep

DiffXY == /\ pc = "diff" /\ x > y
          /\ d' = Wrap(x - y) /\ r' = x
          /\ pc' = "ovf" /\ UNCHANGED <<mem, width, size, zero, x, y, ret, branch>>
DiffYX == /\ pc = "diff" /\ ~(x > y)
          /\ d' = Wrap(y - x) /\ r' = y
          /\ pc' = "ovf" /\ UNCHANGED <<mem, width, size, zero, x, y, ret, branch>>

RetOverflow  == pc = "ovf" /\ d < 0 /\ Return(r, "overflow") /\ Keep
PassOverflow == pc = "ovf" /\ ~(d < 0) /\ Pass("size") /\ Keep
RetBeyond    == pc = "size" /\ d >= size /\ Return(r, "beyond") /\ Keep
PassSize     == pc = "size" /\ ~(d >= size) /\ Pass("read") /\ Keep

Read1 == pc = "read" /\ width = 1 /\ Return(r + ReadEntry(mem, 1, d), "table") /\ Keep
Read2 == pc = "read" /\ width = 2 /\ Return(r + ReadEntry(mem, 2, d), "table") /\ Keep
Read4 == pc = "read" /\ width = 4 /\ Return(r + ReadEntry(mem, 4, d), "table") /\ Keep

\* (locals die with the call: resetting them keeps one idle state per table)
Leave == /\ pc = "done" /\ pc' = "idle"
         /\ x' = 0 /\ y' = 0 /\ d' = 0 /\ r' = 0 /\ ret' = 0 /\ branch' = "none"
         /\ UNCHANGED <<mem, width, size, zero>>

INext == \/ Enter \/ RetZeroX \/ PassZeroX \/ RetZeroY \/ PassZeroY \/ DiffXY \/ DiffYX
         \/ RetOverflow \/ PassOverflow \/ RetBeyond \/ PassSize \/ Read1 \/ Read2 \/ Read4 \/ Leave

ISpec == IInit /\ [][INext]_ivars

---------------------------------------------------------------------------
ITypeOK == /\ (pc = "idle") => /\ width \in Widths /\ size >= 1 /\ Len(mem) = size * width
                               /\ \A i \in DOMAIN mem : mem[i] \in 0..(R - 1)
           /\ x \in MInt /\ y \in MInt /\ d \in MInt /\ r \in MInt /\ ret \in Int
           /\ pc \in {"idle", "zx", "zy", "diff", "ovf", "size", "read", "done"}

\* the memory denotes a table satisfying the axioms (the initialiser's obligation)
DenotesTable == (pc = "idle") => (IsTable(Denoted) /\ Denoted \in ImplTables)

\* REFINEMENT: a completed call returned what LogAdd says
Refines == (pc = "done") => (ret = Add(Denoted, zero, x, y))

\* the result is a machine integer (no overflow happened in r + entry)
NoOverflow == (pc = "done") => (ret \in MInt)

\* the wrap-around branch is only sound because a table is never longer than half the int range
SizeFits == size <= 2 ^ (W - 1)

\* and, through the refinement, the property clauses on the returned value
ImplProperty == (pc = "done" /\ InDomain(zero, x, y)) =>
                   /\ Bounded(Denoted, x, y, ret)
                   /\ (x = zero => ret = y) /\ (y = zero => ret = x)
=============================================================================
