\* the intended design: floor
SPECIFICATION CSpec
CONSTANTS
  Q = 4
  NMax = 80
  CShifts = {0, 1, 2}
  Deviations = {}
INVARIANTS ConvNeverIncreases ConvLosesAtMostOne
CHECK_DEADLOCK FALSE
