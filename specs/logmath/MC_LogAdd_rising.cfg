\* negative control: without the non-increasing axiom monotonicity must fail
SPECIFICATION Spec
CONSTANTS
  MaxVal = 2
  MaxLen = 3
  ArgHi = 1
  ZeroMag = 5
  Zero <- MCZero
  Tables <- MCRisingTables
  Args <- MCArgs
INVARIANTS InvMonotone
CHECK_DEADLOCK FALSE
