---------------------------- MODULE LogAddProofs ----------------------------
(* TLAPS proofs, for ARBITRARY tables and arguments, of the consequences of the table axioms that   *)
(* TLC checks exhaustively over small tables in MC_LogAdd.  The definitions are copied verbatim     *)
(* from LogAdd.tla (that module also declares the constants/variables of its state machine, which   *)
(* the proofs do not need).                                                                         *)
EXTENDS Integers, Sequences, NaturalsInduction, TLAPS

Max(a, b) == IF a >= b THEN a ELSE b
Abs(a) == IF a >= 0 THEN a ELSE -a
Tab(T, d) == IF d < Len(T) THEN T[d + 1] ELSE 0
Add(T, Z, x, y) ==
    IF x <= Z THEN y
    ELSE IF y <= Z THEN x
    ELSE Max(x, y) + Tab(T, Abs(x - y))

NonIncreasing(T) == \A i \in 1..(Len(T) - 1) : T[i] >= T[i + 1]
Gentle(T) == \A i \in 1..Len(T) : T[i] - Tab(T, i) <= 1
IsTable(T) == /\ Len(T) >= 1
              /\ \A i \in DOMAIN T : T[i] \in Nat
              /\ NonIncreasing(T)
              /\ Gentle(T)

THEOREM Symmetric ==
    ASSUME NEW T \in Seq(Nat), NEW Z \in Int, NEW x \in Int, NEW y \in Int, x >= Z, y >= Z
    PROVE  Add(T, Z, x, y) = Add(T, Z, y, x)
BY DEF Add, Max, Abs, Tab

THEOREM Identity ==
    ASSUME NEW T \in Seq(Nat), NEW Z \in Int, NEW x \in Int, x >= Z
    PROVE  Add(T, Z, Z, x) = x /\ Add(T, Z, x, Z) = x
BY DEF Add

LEMMA TabNat ==
    ASSUME NEW T \in Seq(Nat), NEW d \in Nat
    PROVE  Tab(T, d) \in Nat
BY DEF Tab

LEMMA TabBound ==
    ASSUME NEW T \in Seq(Nat), IsTable(T), NEW d \in Nat
    PROVE  Tab(T, d) <= T[1]
<1> DEFINE P(k) == k < Len(T) => T[k + 1] <= T[1]
<1>1. P(0)
  OBVIOUS
<1>2. ASSUME NEW k \in Nat, P(k) PROVE P(k + 1)
  <2>1. CASE k + 1 < Len(T)
    <3>1. k + 1 \in 1..(Len(T) - 1)
      BY <2>1
    <3>2. T[k + 1] >= T[k + 2]
      BY <3>1 DEF IsTable, NonIncreasing
    <3>3. T[k + 1] \in Nat /\ T[k + 2] \in Nat /\ T[1] \in Nat
      BY <2>1
    <3> QED BY <2>1, <3>2, <3>3, <1>2
  <2>2. CASE ~(k + 1 < Len(T))
    BY <2>2
  <2> QED BY <2>1, <2>2
<1>3. \A k \in Nat : P(k)
  BY <1>1, <1>2, NatInduction, Isa
<1>4. T[1] \in Nat
  BY DEF IsTable
<1> QED BY <1>3, <1>4 DEF Tab

THEOREM Bounded ==
    ASSUME NEW T \in Seq(Nat), IsTable(T), NEW Z \in Int, NEW x \in Int, NEW y \in Int, x >= Z, y >= Z
    PROVE  Max(x, y) <= Add(T, Z, x, y) /\ Add(T, Z, x, y) <= Max(x, y) + T[1]
<1>1. T[1] \in Nat
  BY DEF IsTable
<1>2. Abs(x - y) \in Nat
  BY DEF Abs
<1>3. Tab(T, Abs(x - y)) \in Nat /\ Tab(T, Abs(x - y)) <= T[1]
  BY <1>2, TabNat, TabBound
<1> QED BY <1>1, <1>3 DEF Add, Max

---------------------------------------------------------------------------
(* Monotonicity.  The extended table (entries, then zeros) never rises and never falls by more than *)
(* one per step; hence it falls by at most k over k steps.                                         *)
LEMMA TabStep ==
    ASSUME NEW T \in Seq(Nat), IsTable(T), NEW a \in Nat
    PROVE  /\ Tab(T, a + 1) <= Tab(T, a)
           /\ Tab(T, a) - Tab(T, a + 1) <= 1
           /\ Tab(T, a) \in Nat /\ Tab(T, a + 1) \in Nat
<1>0. Tab(T, a) \in Nat /\ Tab(T, a + 1) \in Nat
  BY TabNat
<1>1. CASE a + 1 < Len(T)
  <2>1. a + 1 \in 1..(Len(T) - 1) /\ a + 1 \in 1..Len(T)
    BY <1>1
  <2>2. T[a + 1] >= T[a + 2]
    BY <2>1 DEF IsTable, NonIncreasing
  <2>3. T[a + 1] - Tab(T, a + 1) <= 1
    BY <2>1 DEF IsTable, Gentle
  <2>4. Tab(T, a) = T[a + 1] /\ Tab(T, a + 1) = T[a + 2]
    BY <1>1 DEF Tab
  <2> QED BY <1>0, <2>2, <2>3, <2>4
<1>2. CASE a + 1 = Len(T)
  <2>1. a + 1 \in 1..Len(T)
    BY <1>2
  <2>2. T[a + 1] - Tab(T, a + 1) <= 1
    BY <2>1 DEF IsTable, Gentle
  <2>3. Tab(T, a) = T[a + 1] /\ Tab(T, a + 1) = 0
    BY <1>2 DEF Tab
  <2> QED BY <1>0, <2>2, <2>3
<1>3. CASE a + 1 > Len(T)
  <2>1. Tab(T, a) = 0 /\ Tab(T, a + 1) = 0
    BY <1>3 DEF Tab
  <2> QED BY <2>1
<1> QED BY <1>1, <1>2, <1>3

LEMMA TabSpan ==
    ASSUME NEW T \in Seq(Nat), IsTable(T)
    PROVE  \A k \in Nat : \A a \in Nat : Tab(T, a + k) <= Tab(T, a) /\ Tab(T, a) - Tab(T, a + k) <= k
<1> DEFINE P(k) == \A a \in Nat : Tab(T, a + k) <= Tab(T, a) /\ Tab(T, a) - Tab(T, a + k) <= k
<1>1. P(0)
  BY TabNat
<1>2. ASSUME NEW k \in Nat, P(k) PROVE P(k + 1)
  <2> SUFFICES ASSUME NEW a \in Nat
               PROVE  Tab(T, a + (k + 1)) <= Tab(T, a) /\ Tab(T, a) - Tab(T, a + (k + 1)) <= k + 1
    OBVIOUS
  <2>1. Tab(T, a + k) <= Tab(T, a) /\ Tab(T, a) - Tab(T, a + k) <= k
    BY <1>2
  <2>2. a + k \in Nat /\ a + (k + 1) = (a + k) + 1
    OBVIOUS
  <2>3. /\ Tab(T, (a + k) + 1) <= Tab(T, a + k)
        /\ Tab(T, a + k) - Tab(T, (a + k) + 1) <= 1
        /\ Tab(T, a + k) \in Nat /\ Tab(T, (a + k) + 1) \in Nat
    BY <2>2, TabStep
  <2>4. Tab(T, a) \in Nat
    BY TabNat
  <2> QED BY <2>1, <2>2, <2>3, <2>4
<1>3. \A k \in Nat : P(k)
  BY <1>1, <1>2, NatInduction, Isa
<1> QED BY <1>3

LEMMA TabBetween ==
    ASSUME NEW T \in Seq(Nat), IsTable(T), NEW a \in Nat, NEW b \in Nat, a <= b
    PROVE  /\ Tab(T, b) <= Tab(T, a) /\ Tab(T, a) - Tab(T, b) <= b - a
           /\ Tab(T, a) \in Nat /\ Tab(T, b) \in Nat
<1>1. b - a \in Nat /\ b = a + (b - a)
  OBVIOUS
<1>2. Tab(T, a + (b - a)) <= Tab(T, a) /\ Tab(T, a) - Tab(T, a + (b - a)) <= b - a
  BY <1>1, TabSpan
<1> QED BY <1>1, <1>2, TabNat

\* a larger second argument never gives a smaller sum ...
THEOREM MonotoneRight ==
    ASSUME NEW T \in Seq(Nat), IsTable(T), NEW Z \in Int,
           NEW x \in Int, NEW y \in Int, NEW y2 \in Int, x >= Z, y >= Z, y <= y2
    PROVE  Add(T, Z, x, y) <= Add(T, Z, x, y2)
<1>1. CASE x <= Z
  BY <1>1 DEF Add
<1>2. CASE x > Z /\ y <= Z
  <2>1. Add(T, Z, x, y) = x
    BY <1>2 DEF Add
  <2>2. CASE y2 <= Z
    BY <1>2, <2>1, <2>2 DEF Add
  <2>3. CASE y2 > Z
    <3>1. Abs(x - y2) \in Nat
      BY DEF Abs
    <3>2. Tab(T, Abs(x - y2)) \in Nat
      BY <3>1, TabNat
    <3> QED BY <1>2, <2>1, <2>3, <3>2 DEF Add, Max
  <2> QED BY <2>2, <2>3
<1>3. CASE x > Z /\ y > Z
  <2>0. y2 > Z
    BY <1>3
  <2>1. CASE y2 <= x
    <3>1. x - y2 \in Nat /\ x - y \in Nat /\ x - y2 <= x - y
      BY <2>1
    <3>2. Tab(T, x - y) <= Tab(T, x - y2) /\ Tab(T, x - y) \in Nat /\ Tab(T, x - y2) \in Nat
      BY <3>1, TabBetween
    <3>3. Abs(x - y) = x - y /\ Abs(x - y2) = x - y2
      BY <2>1 DEF Abs
    <3> QED BY <1>3, <2>0, <2>1, <3>2, <3>3 DEF Add, Max
  <2>2. CASE y <= x /\ x < y2
    <3>1. x - y \in Nat /\ y2 - x \in Nat /\ 0 \in Nat /\ 0 <= x - y /\ 0 <= y2 - x
      BY <2>2
    <3>2. Tab(T, x - y) <= Tab(T, 0) /\ Tab(T, x - y) \in Nat /\ Tab(T, 0) \in Nat
      BY <3>1, TabBetween
    <3>3. Tab(T, 0) - Tab(T, y2 - x) <= (y2 - x) - 0 /\ Tab(T, y2 - x) \in Nat
      BY <3>1, TabBetween
    <3>4. Abs(x - y) = x - y /\ Abs(x - y2) = y2 - x
      BY <2>2 DEF Abs
    <3> QED BY <1>3, <2>0, <2>2, <3>2, <3>3, <3>4 DEF Add, Max
  <2>3. CASE x < y
    <3>1. y - x \in Nat /\ y2 - x \in Nat /\ y - x <= y2 - x
      BY <2>3
    <3>2. /\ Tab(T, y - x) - Tab(T, y2 - x) <= (y2 - x) - (y - x)
          /\ Tab(T, y - x) \in Nat /\ Tab(T, y2 - x) \in Nat
      BY <3>1, TabBetween
    <3>3. Abs(x - y) = y - x /\ Abs(x - y2) = y2 - x
      BY <2>3 DEF Abs
    <3> QED BY <1>3, <2>0, <2>3, <3>2, <3>3 DEF Add, Max
  <2> QED BY <2>1, <2>2, <2>3
<1> QED BY <1>1, <1>2, <1>3

\* ... and, by symmetry, neither does a larger first argument
THEOREM MonotoneLeft ==
    ASSUME NEW T \in Seq(Nat), IsTable(T), NEW Z \in Int,
           NEW x \in Int, NEW y \in Int, NEW y2 \in Int, x >= Z, y >= Z, y <= y2
    PROVE  Add(T, Z, y, x) <= Add(T, Z, y2, x)
<1>1. y2 >= Z
  OBVIOUS
<1>2. Add(T, Z, y, x) = Add(T, Z, x, y) /\ Add(T, Z, y2, x) = Add(T, Z, x, y2)
  BY <1>1, Symmetric
<1> QED BY <1>2, MonotoneRight
=============================================================================
