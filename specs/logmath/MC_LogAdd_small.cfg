SPECIFICATION Spec
CONSTANTS
  MaxVal = 3
  MaxLen = 5
  ArgHi = 2
  ZeroMag = 8
  Zero <- MCZero
  Tables <- MCTables
  Args <- MCArgs
INVARIANTS TypeOK InvSymmetric InvBounded InvIdentity InvMonotone InvAccurate
CHECK_DEADLOCK FALSE
