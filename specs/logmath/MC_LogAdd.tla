----------------------------- MODULE MC_LogAdd -----------------------------
(* Bounded instances of LogAdd: every table over 0..MaxVal of length 1..MaxLen that satisfies the   *)
(* table axioms (and, as negative controls, those that violate exactly one axiom), every pair of   *)
(* arguments in Zero..ArgHi in both orders.                                                         *)
EXTENDS LogAdd, TLC
CONSTANTS MaxVal, MaxLen, ArgHi, ZeroMag

SeqsUpTo(S, n) == UNION {[1..k -> S] : k \in 1..n}
MCTables == {t \in SeqsUpTo(0..MaxVal, MaxLen) : IsTable(t)}
MCRisingTables == {t \in SeqsUpTo(0..MaxVal, MaxLen) : ~NonIncreasing(t) /\ Gentle(t)}
MCSteepTables == {t \in SeqsUpTo(0..MaxVal, MaxLen) : NonIncreasing(t) /\ ~Gentle(t)}
MCZero == -ZeroMag
MCArgs == MCZero..ArgHi
=============================================================================
