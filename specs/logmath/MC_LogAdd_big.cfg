SPECIFICATION Spec
CONSTANTS
  MaxVal = 4
  MaxLen = 7
  ArgHi = 3
  ZeroMag = 11
  Zero <- MCZero
  Tables <- MCTables
  Args <- MCArgs
INVARIANTS TypeOK InvSymmetric InvBounded InvIdentity InvMonotone InvAccurate
CHECK_DEADLOCK FALSE
