--------------------------- MODULE MC_LogAddImpl ---------------------------
(* Bounded instances of LogAddImpl: every table over 0..MaxVal of length 1..MaxLen that satisfies  *)
(* LogAdd!IsTable, every width in Widths that can hold its first entry, every shift, every pair of  *)
(* W-bit integers.                                                                                  *)
EXTENDS LogAddImpl
CONSTANTS MaxVal, MaxLen

SeqsUpTo(S, n) == UNION {[1..k -> S] : k \in 1..n}
MCImplTables == {t \in SeqsUpTo(0..MaxVal, MaxLen) : IsTable(t)}
=============================================================================
