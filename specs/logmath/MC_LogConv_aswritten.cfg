\* the code as written: cast truncates toward zero.  Expected: ConvNeverIncreases is violated.
SPECIFICATION CSpec
CONSTANTS
  Q = 4
  NMax = 80
  CShifts = {0, 1, 2}
  Deviations = {"LogTruncates"}
INVARIANTS ConvNeverIncreases
CHECK_DEADLOCK FALSE
