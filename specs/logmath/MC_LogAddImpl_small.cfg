SPECIFICATION ISpec
CONSTANTS
  W = 5
  R = 4
  Widths = {1, 2, 4}
  Shifts = {0, 1}
  MaxVal = 5
  MaxLen = 4
  ImplTables <- MCImplTables
INVARIANTS ITypeOK DenotesTable Refines NoOverflow SizeFits ImplProperty
CHECK_DEADLOCK FALSE
