\* the intended design: the width is taken from the first entry
SPECIFICATION BSpec
CONSTANTS
  R = 4
  MinSize = 2
  TShifts = {0, 1, 2}
  NMax = 18
  MaxLen = 4
  Inputs <- MCInputs
  Deviations = {}
INVARIANTS InBounds TableIsRounded TailRoundsToZero NeverSmallerThanMin WidthHoldsEntries
CHECK_DEADLOCK FALSE
