----------------------------- MODULE LogConvImpl -----------------------------
(***************************************************************************)
(* Layer B for the conversion clause of C19: logmath_log (src/logmath.c)   *)
(*                                                                         *)
(*     return (int)(log(p) * lmath->inv_log_of_base) >> lmath->t.shift;    *)
(*                                                                         *)
(* The exact unshifted logarithm U = log_b(p) is a real; the model ranges  *)
(* over the rationals n / Q (n an integer), which is enough to separate    *)
(* the roundings.  The C cast truncates toward zero; the arithmetic shift  *)
(* then floors.  The value returned stands for B^v, B = b^(2^shift), so    *)
(* the exact log in result units is L = n / (Q * 2^shift).                 *)
(*                                                                         *)
(* Deviations = {"LogTruncates"} is the code as written; Deviations = {}   *)
(* is the intended design (floor).  TLC checks both: the former must break *)
(* NeverIncreases (and only that), the latter must satisfy everything.     *)
(***************************************************************************)
EXTENDS Integers, Sequences, TLC

CONSTANTS Q,          \* denominator of the model's reals
          NMax,       \* numerators range over -NMax..NMax
          CShifts,    \* shifts
          Deviations

Tables == {}
Zero == 0
Args == {}
tab == <<>>
ax == 0
ay == 0
ar == 0
INSTANCE LogAdd

VARIABLES n, s, v

cvars == <<n, s, v>>

FloorDiv(a, b) == a \div b                                   \* TLA+ \div floors (b > 0)
CeilDiv(a, b) == -((-a) \div b)
TruncDiv(a, b) == IF a >= 0 THEN a \div b ELSE -((-a) \div b)   \* C's (int) cast of a / b
Asr(a, k) == a \div (2 ^ k)

ToInt(a) == IF "LogTruncates" \in Deviations THEN TruncDiv(a, Q) ELSE FloorDiv(a, Q)
LogOf(a, k) == Asr(ToInt(a), k)

CInit == n = 0 /\ s = 0 /\ v = 0
LogUp   == \E a \in 1..NMax, k \in CShifts : n' = a /\ s' = k /\ v' = LogOf(a, k)       \* p > 1
LogDown == \E a \in (-NMax)..(-1), k \in CShifts : n' = a /\ s' = k /\ v' = LogOf(a, k)  \* p < 1
LogOne  == \E k \in CShifts : n' = 0 /\ s' = k /\ v' = LogOf(0, k)                       \* p = 1
CNext == LogUp \/ LogDown \/ LogOne
CSpec == CInit /\ [][CNext]_cvars

Flo == FloorDiv(n, Q * (2 ^ s))
Cei == CeilDiv(n, Q * (2 ^ s))
ConvNeverIncreases == NeverIncreases(v, Flo)
ConvLosesAtMostOne == LosesAtMostOne(v, Cei)
=============================================================================
