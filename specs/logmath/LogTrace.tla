------------------------------ MODULE LogTrace ------------------------------
(***************************************************************************)
(* Layer C (code -> spec) for C19: validates what the real logmath.c did,  *)
(* as recorded by harness/logmath/logmath_drv.c, against LogAdd.           *)
(*                                                                         *)
(* An execution is  Header (one real logmath_t)  Table? (Row | Ident |     *)
(* Pairs | Conv | Exact)*.  The Table event carries the real add table and *)
(* the integer brackets lo/hi of the exact L(d) for every d over the table *)
(* and 16 entries beyond it; a Row event carries what logmath_add returned *)
(* for EVERY difference d = 0..size+16 (as far as both arguments stay in   *)
(* the domain) in both argument orders.  Every clause of the property is   *)
(* evaluated for every d; a clause that fails somewhere is printed as      *)
(*    <<"FAIL", line, clause, number of failing indices, first of them>>   *)
(* and counted, the trace is accepted iff every line was consumed and no   *)
(* clause failed (POSTCONDITION).  Clauses named diag-... compare with     *)
(* things the property does not promise; the driver reports them as notes. *)
(***************************************************************************)
EXTENDS Integers, Sequences, FiniteSets, TLC, Json, IOUtils

JTrace == ndJsonDeserialize(IOEnv.TRACE)

\* unused state-machine half of LogAdd
Tables == {}
Zero == 0
Args == {}
tab == <<>>
ax == 0
ay == 0
ar == 0
INSTANCE LogAdd

\* The state holds line numbers only (the tables stay in JTrace): states are tiny, and should TLC ever
\* have to print a behaviour it does not print megabytes of table.
VARIABLES l,      \* next line
          hl,     \* line of the Header of the current execution (0: none yet)
          tl,     \* line of its Table event (0: none yet)
          pl      \* line of the previous Row event of this execution (0: none)

tvars == <<l, hl, tl, pl>>

Ev == JTrace[l]
hdr == IF hl = 0 THEN [zero |-> 0] ELSE JTrace[hl]
Z == hdr.zero
T == IF tl = 0 THEN <<>> ELSE JTrace[tl].t        \* the real table
lo == IF tl = 0 THEN <<>> ELSE JTrace[tl].lo      \* brackets of the exact L(d), d = 0..Len(lo)-1
hi == IF tl = 0 THEN <<>> ELSE JTrace[tl].hi

\* record a failed clause (always TRUE, so that the other clauses are still evaluated)
Report(name, bad) ==
    IF bad = {} THEN TRUE
    ELSE /\ PrintT(<<"FAIL", l, name, Cardinality(bad), CHOOSE d \in bad : TRUE>>)
         /\ TLCSet(2, TLCGet(2) + 1)
Flag(name, ok) == Report(name, IF ok THEN {} ELSE {0})

Idx(s) == 0..(Len(s) - 1)      \* differences / positions are counted from 0

---------------------------------------------------------------------------
TInit == /\ l = 1 /\ hl = 0 /\ tl = 0 /\ pl = 0
         /\ TLCSet(1, 0) /\ TLCSet(2, 0)

THeader == /\ Ev.e = "Header"
           /\ hl' = l /\ tl' = 0 /\ pl' = 0
           /\ Ev.refused \/
                /\ Flag("diag-shape", /\ Ev.hastable /\ Ev.width \in {1, 2, 4} /\ Ev.gwidth = Ev.width
                                      /\ Ev.gshift = Ev.shift /\ Ev.gshift2 = Ev.shift
                                      /\ Ev.size >= 1)
                /\ Flag("diag-zero-negative", Ev.zero < 0)

TTable == /\ Ev.e = "Table"
          /\ tl' = l
          /\ UNCHANGED <<hl, pl>>
          /\ Len(Ev.t) = hdr.size                     \* structural: anything else is a harness bug
          /\ Len(Ev.lo) = Len(Ev.hi) /\ Len(Ev.lo) > Len(Ev.t)
          /\ LET t == Ev.t
                 elo == Ev.lo
                 ehi == Ev.hi
             IN
             \* (LogAdd!NonIncreasing and LogAdd!Gentle, as sets of offending differences d)
             /\ Report("table-nonincreasing", {d \in 0..(Len(t) - 2) : t[d + 1] < t[d + 2]})
             /\ Report("table-gentle", {d \in Idx(t) : t[d + 1] - Tab(t, d + 1) > 1})
             /\ ({d \in 0..(Len(t) - 2) : t[d + 1] < t[d + 2]} = {}) = NonIncreasing(t)
             /\ ({d \in Idx(t) : t[d + 1] - Tab(t, d + 1) > 1} = {}) = Gentle(t)
             \* every entry is L(d) to within half a unit plus rounding; includes T[0] = log 2
             /\ Report("table-accurate", {d \in Idx(t) : ~AccurateAt(t, elo, ehi, d)})
             \* and just beyond the table L(d) rounds to zero (so it does for every larger d)
             /\ Report("tail-accurate", {d \in Len(t)..(Len(elo) - 1) : ~AccurateAt(t, elo, ehi, d)})
             /\ Flag("diag-width-holds-entries", \A i \in DOMAIN t : t[i] >= 0 /\ (hdr.width = 4 \/ t[i] < 256 ^ hdr.width))

\* logmath_add(x, x-d) = fwd[d+1], logmath_add(x-d, x) = rev[d+1], d = 0..n-1, both arguments >= zero
TRow == /\ Ev.e = "Row"
        /\ UNCHANGED <<hl, tl>>
        /\ pl' = l
        /\ LET x == Ev.x
               f == Ev.fwd
               g == Ev.rev
               D == Idx(f)
               tt == T
               tlo == lo
               thi == hi
               zz == Z
               full == Len(tt) + 16        \* largest d of a complete row
               px == IF pl = 0 THEN x ELSE JTrace[pl].x         \* the previous row, if any
               pf == IF pl = 0 THEN <<>> ELSE JTrace[pl].fwd
           IN
           /\ Len(f) = Len(g) /\ Len(f) >= 1 /\ x >= zz
           /\ Len(f) = (IF x - zz < full THEN x - zz ELSE full) + 1
           /\ Report("add-value", {d \in D : f[d + 1] # Add(tt, zz, x, x - d) \/ g[d + 1] # Add(tt, zz, x - d, x)})
           /\ Report("symmetric", {d \in D : ~Symmetric(f[d + 1], g[d + 1])})
           /\ Report("bounded", {d \in D : ~(Bounded(tt, x, x - d, f[d + 1]) /\ Bounded(tt, x - d, x, g[d + 1]))})
           /\ Report("accurate", {d \in D : ~(/\ AccurateSum(zz, tlo, thi, x, x - d, f[d + 1])
                                              /\ AccurateSum(zz, tlo, thi, x - d, x, g[d + 1]))})
           /\ Report("identity", {d \in D : \/ (x - d = zz /\ ~(IdentityR(zz, x, f[d + 1]) /\ IdentityL(zz, x, g[d + 1])))
                                            \/ (x = zz /\ ~(IdentityL(zz, x - d, f[d + 1]) /\ IdentityR(zz, x - d, g[d + 1])))})
           \* lowering the smaller argument never raises the sum (both positions of that argument)
           /\ Report("monotone", {d \in D : d + 2 <= Len(f) /\
                                    ~(/\ Monotone(x - d - 1, x - d, f[d + 2], f[d + 1])
                                      /\ Monotone(x - d - 1, x - d, g[d + 2], g[d + 1]))})
           \* raising the larger argument never lowers it: add(x, x-1-d) against add(x-1, x-1-d)
           /\ IF px = x - 1 /\ Len(pf) >= 1
              THEN Report("monotone-larger", {d \in Idx(pf) : d + 2 <= Len(f) /\
                                                ~Monotone(x - 1, x, pf[d + 1], f[d + 2])})
              ELSE TRUE

\* NB: every array of the event is bound by a LET constant before it is indexed: TLC evaluates such a
\* definition once per step, whereas `Ev' inside an operator with parameters is evaluated per call.
TIdent == /\ Ev.e = "Ident"
          /\ UNCHANGED <<hl, tl, pl>>
          /\ LET v == Ev.v
                 a == Ev.l
                 b == Ev.r
                 zz == Z
             IN
             /\ Len(v) = Len(a) /\ Len(v) = Len(b)
             /\ Report("identity", {i \in Idx(v) : v[i + 1] >= zz /\
                                      ~(IdentityL(zz, v[i + 1], a[i + 1]) /\ IdentityR(zz, v[i + 1], b[i + 1]))})

\* arbitrary pairs of the domain: r = add(x, y), q = add(y, x)
TPairs == /\ Ev.e = "Pairs"
          /\ UNCHANGED <<hl, tl, pl>>
          /\ LET xs == Ev.x
                 ys == Ev.y
                 rs == Ev.r
                 qs == Ev.q
                 D == Idx(xs)
                 tt == T
                 tlo == lo
                 thi == hi
                 zz == Z
             IN
             /\ Len(xs) = Len(ys) /\ Len(xs) = Len(rs) /\ Len(xs) = Len(qs)
             \* (written as a set equation: TLC expands a top-level \A of an action into a recursion per element)
             /\ {i \in DOMAIN xs : ~InDomain(zz, xs[i], ys[i])} = {}
             /\ Report("add-value", {i \in D : \/ rs[i + 1] # Add(tt, zz, xs[i + 1], ys[i + 1])
                                               \/ qs[i + 1] # Add(tt, zz, ys[i + 1], xs[i + 1])})
             /\ Report("symmetric", {i \in D : ~Symmetric(rs[i + 1], qs[i + 1])})
             /\ Report("bounded", {i \in D : ~(/\ Bounded(tt, xs[i + 1], ys[i + 1], rs[i + 1])
                                               /\ Bounded(tt, ys[i + 1], xs[i + 1], qs[i + 1]))})
             /\ Report("accurate", {i \in D : ~(/\ AccurateSum(zz, tlo, thi, xs[i + 1], ys[i + 1], rs[i + 1])
                                                /\ AccurateSum(zz, tlo, thi, ys[i + 1], xs[i + 1], qs[i + 1]))})
             /\ Report("identity", {i \in D :
                    \/ (xs[i + 1] = zz /\ ~(IdentityL(zz, ys[i + 1], rs[i + 1]) /\ IdentityR(zz, ys[i + 1], qs[i + 1])))
                    \/ (ys[i + 1] = zz /\ ~(IdentityR(zz, xs[i + 1], rs[i + 1]) /\ IdentityL(zz, xs[i + 1], qs[i + 1])))})

\* v = logmath_log(p); cls = 0 for p < 1, 1 for p >= 1; flo/cei/elo/ehi: see LogAdd
TConv == /\ Ev.e = "Conv"
         /\ UNCHANGED <<hl, tl, pl>>
         /\ LET v == Ev.v
                cls == Ev.cls
                flo == Ev.flo
                cei == Ev.cei
                elo == Ev.elo
                ehi == Ev.ehi
                D == Idx(v)
            IN
            /\ {Len(s) : s \in {cls, flo, cei, elo, ehi}} = {Len(v)}
            \* the amount is part of the clause name so that a known one-unit defect cannot hide a larger one
            /\ Report("roundtrip-increases:p<1:by-one", {i \in D : cls[i + 1] = 0 /\ v[i + 1] = flo[i + 1] + 1})
            /\ Report("roundtrip-increases:p<1:by-more", {i \in D : cls[i + 1] = 0 /\ v[i + 1] > flo[i + 1] + 1})
            /\ Report("roundtrip-increases:p>=1:by-one", {i \in D : cls[i + 1] # 0 /\ v[i + 1] = flo[i + 1] + 1})
            /\ Report("roundtrip-increases:p>=1:by-more", {i \in D : cls[i + 1] # 0 /\ v[i + 1] > flo[i + 1] + 1})
            /\ Report("roundtrip-loses-more-than-one:p<1", {i \in D : cls[i + 1] = 0 /\ ~LosesAtMostOne(v[i + 1], cei[i + 1])})
            /\ Report("roundtrip-loses-more-than-one:p>=1", {i \in D : cls[i + 1] # 0 /\ ~LosesAtMostOne(v[i + 1], cei[i + 1])})
            \* (the four increase clauses together are exactly ~NeverIncreases)
            /\ {i \in D : NeverIncreases(v[i + 1], flo[i + 1]) # (v[i + 1] < flo[i + 1] + 1)} = {}
            /\ Report("exp-inexact", {i \in D : ~ExpExact(v[i + 1], elo[i + 1], ehi[i + 1])})

\* probability 0 -> log-zero -> back: the round trip must not increase it (exp of log-zero is 0)
TZeroConv == /\ Ev.e = "ZeroConv"
             /\ UNCHANGED <<hl, tl, pl>>
             \* (log-zero is finite: with a base very close to 1 its exponential is a tiny positive number, not 0; what
             \* must hold is that 0 does not come back as more than any positive probability does)
             /\ Flag("roundtrip-increases:p=0", Ev.le_all)
             /\ Flag("log-of-zero-is-log-zero", Ev.v = Ev.zero)

\* diagnostic: logmath_add_exact(x, x-d) = ex, logmath_add(x, x-d) = a; slo/shi = floor/ceiling of the exact sum
TExact == /\ Ev.e = "Exact"
          /\ UNCHANGED <<hl, tl, pl>>
          /\ LET ds == Ev.d
                 a == Ev.a
                 ex == Ev.ex
                 slo == Ev.slo
                 shi == Ev.shi
                 D == Idx(ds)
             IN
             /\ {Len(s) : s \in {a, ex, slo, shi}} = {Len(ds)}
             /\ Report("diag-add-exact-off", {i \in D : ~(slo[i + 1] <= ex[i + 1] /\ ex[i + 1] <= shi[i + 1])})
             /\ Report("diag-add-vs-exact", {i \in D : Abs(a[i + 1] - ex[i + 1]) > 1})

TNext == /\ l <= Len(JTrace)
         /\ (THeader \/ TTable \/ TRow \/ TIdent \/ TPairs \/ TConv \/ TZeroConv \/ TExact)
         /\ l' = l + 1
         /\ TLCSet(1, l)

TSpec == TInit /\ [][TNext]_tvars

\* accepted iff every line was consumed and no clause failed
Accepted == /\ IF TLCGet(1) = Len(JTrace) THEN TRUE
               ELSE PrintT(<<"REJECTED-AT", TLCGet(1) + 1>>) /\ FALSE
            /\ IF TLCGet(2) = 0 THEN TRUE
               ELSE PrintT(<<"FAILED-CLAUSES", TLCGet(2)>>) /\ FALSE
=============================================================================
