---------------------------- MODULE LogTableImpl ----------------------------
(***************************************************************************)
(* Layer B for the table of C19: the construction loop of logmath_init     *)
(* (src/logmath.c) transcribed, one action per loop iteration.             *)
(*                                                                         *)
(*   maxyx = (uint32)(log(2.0) / log(base) + 0.5) >> shift;                *)
(*   width = maxyx < 256 ? 1 : maxyx < 65536 ? 2 : 4;          ChooseWidth *)
(*   for (i = 0;; ++i) {  k = (int32)(U(i) + 0.5 * (1 << shift)) >> shift; *)
(*                        if (k <= 0) break; }                 SizeStep    *)
(*   i >>= shift;  if (i < 255) i = 255;  table_size = i + 1;  SizeDone    *)
(*   for (i = 0;; ++i) {  k = ... as above;                                *)
(*        prev = table[i >> shift];                                        *)
(*        if (prev == 0) table[i >> shift] = (uintW)k;         FillStep    *)
(*        if (k <= 0) break; }                                             *)
(*                                                                         *)
(* U(i) = log_b(1 + b^-i) is a real; the model ranges over every           *)
(* non-increasing sequence of half-integers n[i] / 2 that ends in zeros,   *)
(* which is enough to separate the roundings.  An entry holds values below *)
(* R^width (C: R = 256; TLC: R = 4); the smallest table has MinSize        *)
(* entries (C: 256).                                                       *)
(*                                                                         *)
(* What must come out is Layer A's table: entry j is U(j << shift) rounded *)
(* to the shift, for every j < table_size, and the first entry beyond the  *)
(* table rounds to 0.                                                      *)
(*                                                                         *)
(* Deviations = {"WidthFromUnshiftedLog2"} is the code as written: the     *)
(* width is chosen from log 2 rounded BEFORE the shift, the entry from     *)
(* log 2 rounded TO the shift; the two differ by one exactly where the     *)
(* entry needs one more byte, the stored value wraps to 0 and is then      *)
(* overwritten by the next, smaller value of its block.                    *)
(* Deviations = {} takes the width from the first entry itself.            *)
(***************************************************************************)
EXTENDS Integers, Sequences, TLC

CONSTANTS R, MinSize, TShifts, Inputs, Deviations

VARIABLES n,      \* the input: n[i+1] / 2 = U(i); zeros follow
          s,      \* shift
          width, i, size, mem, pc

bvars == <<n, s, width, i, size, mem, pc>>

Asr(a, k) == a \div (2 ^ k)
Half(a) == IF a < Len(n) THEN n[a + 1] ELSE 0                 \* 2 * U(a)
\* (int32)(U + 0.5 * (1 << shift)) >> shift
K(a) == IF s = 0 THEN (Half(a) + 1) \div 2
        ELSE Asr((Half(a) \div 2) + 2 ^ (s - 1), s)
MaxYX == IF "WidthFromUnshiftedLog2" \in Deviations
         THEN Asr((Half(0) + 1) \div 2, s)                      \* (uint32)(U(0) + 0.5) >> shift
         ELSE K(0)
WidthFor(m) == IF m < R THEN 1 ELSE IF m < R * R THEN 2 ELSE 4
Store(k, w) == k % (R ^ w)                                     \* the (uintW) cast

BInit == /\ n \in Inputs /\ s \in TShifts
         /\ width = 0 /\ i = 0 /\ size = 0 /\ mem = <<>> /\ pc = "width"

ChooseWidth == /\ pc = "width"
               /\ width' = WidthFor(MaxYX)
               /\ i' = 0 /\ pc' = "size"
               /\ UNCHANGED <<n, s, size, mem>>

SizeStep == /\ pc = "size" /\ K(i) > 0
            /\ i' = i + 1
            /\ UNCHANGED <<n, s, width, size, mem, pc>>

SizeDone == /\ pc = "size" /\ K(i) <= 0
            /\ LET m == IF Asr(i, s) < MinSize - 1 THEN MinSize - 1 ELSE Asr(i, s)
               IN size' = m + 1 /\ mem' = [j \in 1..(m + 1) |-> 0]
            /\ i' = 0 /\ pc' = "fill"
            /\ UNCHANGED <<n, s, width>>

FillStep == /\ pc = "fill"
            /\ LET slot == Asr(i, s) + 1
                   prev == mem[slot]
               IN mem' = IF prev = 0 THEN [mem EXCEPT ![slot] = Store(K(i), width)] ELSE mem
            /\ IF K(i) <= 0 THEN pc' = "done" /\ i' = i ELSE pc' = pc /\ i' = i + 1
            /\ UNCHANGED <<n, s, width, size>>

BNext == ChooseWidth \/ SizeStep \/ SizeDone \/ FillStep
BSpec == BInit /\ [][BNext]_bvars

---------------------------------------------------------------------------
\* the table Layer A talks about: U(j << shift) rounded to the shift
Ideal(j) == IF K(j * (2 ^ s)) > 0 THEN K(j * (2 ^ s)) ELSE 0

InBounds == pc = "fill" => Asr(i, s) + 1 <= size            \* the fill loop never writes past the table
TableIsRounded == pc = "done" => \A j \in 0..(size - 1) : mem[j + 1] = Ideal(j)
TailRoundsToZero == pc = "done" => Ideal(size) = 0
NeverSmallerThanMin == pc = "done" => size >= MinSize
WidthHoldsEntries == pc = "done" => \A j \in 0..(size - 1) : Ideal(j) < R ^ width
=============================================================================
