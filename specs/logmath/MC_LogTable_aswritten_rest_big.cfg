\* the code as written still satisfies the other invariants
SPECIFICATION BSpec
CONSTANTS
  R = 4
  MinSize = 2
  TShifts = {0, 1, 2}
  NMax = 66
  MaxLen = 3
  Inputs <- MCInputs
  Deviations = {"WidthFromUnshiftedLog2"}
INVARIANTS InBounds TailRoundsToZero NeverSmallerThanMin
CHECK_DEADLOCK FALSE
